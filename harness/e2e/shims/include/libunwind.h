/* stub for the sealed sandbox: llgo's runtime only needs the declarations to compile */
#ifndef VERIF_LIBUNWIND_STUB_H
#define VERIF_LIBUNWIND_STUB_H
#include <stdint.h>
#include <stddef.h>
typedef struct { uint64_t data[128]; } unw_context_t;
typedef struct { uint64_t data[140]; } unw_cursor_t;
typedef uint64_t unw_word_t;
#define UNW_REG_IP (-1)
#define UNW_REG_SP (-2)
static inline int unw_getcontext(unw_context_t *c) { (void)c; return -1; }
static inline int unw_init_local(unw_cursor_t *c, unw_context_t *x) { (void)c; (void)x; return -1; }
static inline int unw_step(unw_cursor_t *c) { (void)c; return 0; }
static inline int unw_get_reg(unw_cursor_t *c, int r, unw_word_t *v) { (void)c; (void)r; *v = 0; return -1; }
static inline int unw_get_proc_name(unw_cursor_t *c, char *b, size_t n, unw_word_t *o) { (void)c; if (n) b[0] = 0; *o = 0; return -1; }
#endif
