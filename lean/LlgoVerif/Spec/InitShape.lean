import LlgoVerif.Model.Init
/-!
# Shape of an emitted package initialiser (tie A of C12)

`checks/c12.py` compiles generated module trees with the llgo built from the working tree
(`-O0 -gen-llfiles`), reads every package's `init` (and `init$hasPatch`) function from the IR and
classifies each instruction *syntactically* into a `Tok`; the table goes to `Gen/C12Facts.lean`.
Everything else is decided here, in Lean:

* `execInit` gives the token list a semantics on the model state (`St`);
* `okShape` is the decidable shape test: guard load, branch, `store true` FIRST, then (for a chained
  patched package) the call of `init$hasPatch`, then the calls of exactly the expected imports'
  initialisers in order, then only body actions up to the terminator;
* `Props/C12.lean: shape_sound` proves that a token list passing `okShape` executes exactly as the
  model's `initStep` / `initHasPatch`.
-/
namespace LlgoVerif.Init

/-- where a conditional branch goes: a block that only returns, or the block holding the body -/
inductive Tgt
  | ret | body
  deriving DecidableEq, Repr

inductive Tok
  /-- `%g = load i1, ptr @"<pkg>.init$guard"` -/
  | loadGuard
  /-- `br i1 %g, label <t>, label <f>` on the loaded guard -/
  | brGuard (t f : Tgt)
  /-- `store i1 true, ptr @"<pkg>.init$guard"` -/
  | storeGuard
  /-- `call void @"<q>.init"()` of another package -/
  | callInit (q : Nat)
  /-- `call void @"<pkg>.init$hasPatch"()` -/
  | callHasPatch
  /-- any other instruction of the body (variable initialisers, calls of `init#k`, …) -/
  | act
  /-- `br label <ret-only block>` or `ret void` ending the body -/
  | brRet
  deriving DecidableEq, Repr

/-- One initialiser function found in the IR. -/
structure InitFact where
  /-- topological number python gave the package -/
  id : Nat
  /-- the function is `<pkg>.init$hasPatch` (original initialiser of a patched package) -/
  hasPatchFn : Bool := false
  /-- the package is a patched one whose replacement does not skip the original `init` (its `init`
      has to chain to `init$hasPatch`); decided by python from `runtime/build.go` + the `llgo:skip`
      directives of the replacement sources -/
  chained : Bool := false
  /-- entry block (allocas dropped) followed by the body block -/
  toks : List Tok
  /-- expected initialiser calls, in order: the imports in go/types order (first occurrence in the
      files sorted by name) that have an initialiser (not `unsafe`) -/
  imports : List Nat
  /-- the same set as reported by `go list -f {{.Imports}}` (sorted by number) -/
  goList : List Nat
  deriving Repr

/-- only body actions up to the terminator -/
def execTail : List Tok → Bool
  | [.brRet] => true
  | .act :: r => execTail r
  | _ => false

/-- the body block: `hp` is what the call of `init$hasPatch` does -/
def execBody (call : Nat → St → St) (hp : St → St) (p : Nat) (o : Bool) : List Tok → St → Option St
  | .storeGuard :: r, s => execBody call hp p o r (s.setGuard p)
  | .callInit q :: r, s => execBody call hp p o r (call q s)
  | .callHasPatch :: r, s => execBody call hp p o r (hp s)
  | r, s => if execTail r then some (s.emit (.body p o)) else none

/-- the whole function; `none`: not of the supported form (initialiser calls or guard stores
    interleaved with body actions, missing terminator, …) -/
def execInit (call : Nat → St → St) (hp : St → St) (p : Nat) (o : Bool) : List Tok → St → Option St
  | .loadGuard :: .brGuard t f :: r, s =>
    match (if p ∈ s.guard then t else f) with
    | .ret => some s
    | .body => execBody call hp p o r s
  | _, _ => none

/-- calls of exactly `imports`, in order, then only actions -/
def okCalls : List Nat → List Tok → Bool
  | [], r => execTail r
  | q :: qs, .callInit q' :: r => q == q' && okCalls qs r
  | _, _ => false

def sameSet (a b : List Nat) : Bool :=
  a.all (b.contains ·) && b.all (a.contains ·) && a.length == b.length

def okShape (f : InitFact) : Bool :=
  sameSet f.imports f.goList &&
  f.imports.all (fun q => decide (q < f.id)) &&
  match f.toks with
  | .loadGuard :: .brGuard t e :: .storeGuard :: r =>
    (if f.hasPatchFn then t == .body && e == .ret else t == .ret && e == .body) &&
    (if f.chained && !f.hasPatchFn then
      match r with
      | .callHasPatch :: r' => okCalls f.imports r'
      | _ => false
    else okCalls f.imports r)
  | _ => false

/-! ### the entry function of the generated main module -/

inductive EntryTok
  | pyInit          -- `call void @Py_Initialize()`
  | rtInit          -- `call void @"github.com/goplus/llgo/runtime/internal/runtime.init"()`
  | abiInit         -- `call void @"init$abitypes"()`
  | runtimeInit     -- `call void @runtime.init()` (weak stub or the patched std runtime)
  | mainInit        -- `call void @"<main>.init"()`
  | mainMain        -- `call void @"<main>.main"()`
  | other           -- any other call
  deriving DecidableEq, Repr

/-- calls of the entry function, in order (stores of argc/argv and the `ret` are dropped) -/
structure EntryFact where
  calls : List EntryTok
  deriving Repr

/-- `[Py_Initialize] [rt.init] [init$abitypes] runtime.init main.init main.main`, nothing else -/
def okEntry (e : EntryFact) : Bool :=
  let c := e.calls
  let c := match c with | .pyInit :: r => r | r => r
  let c := match c with | .rtInit :: r => r | r => r
  let c := match c with | .abiInit :: r => r | r => r
  c == [.runtimeInit, .mainInit, .mainMain]

end LlgoVerif.Init
