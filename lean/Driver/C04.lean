/-! placeholder driver (property C04 not built yet) -/
def main : IO Unit := IO.println "bad-op"
