import LlgoVerif.Model.LLVMFloat
import LlgoVerif.Spec.GoFloat
/-!
Shape lemmas for the float half of C02: each says "THIS straight-line IR shape computes Go's operator for every operand".
The regenerated obligations (`Gen/C02_float.lean`) instantiate them by `exact`, so an obligation checks only while llgo
emits exactly that shape: one IEEE operation in the operand's own format, the Go comparison predicate (ordered, except
`!=` which is unordered), `sitofp`/`uitofp` chosen by the SOURCE type's signedness and targeting the destination format
directly, and float→int through a conversion whose truncated value is defined whenever Go defines it.
-/
namespace LlgoVerif.FloatOps
open LlgoVerif LlgoVerif.LLVM LlgoVerif.SoftFloat

theorem fadd_p (x y : BitVec w) : (do let v := fadd (some x) (some y); ret v) = .ok (GoFloat.add x y) := rfl
theorem fsub_p (x y : BitVec w) : (do let v := fsub (some x) (some y); ret v) = .ok (GoFloat.sub x y) := rfl
theorem fmul_p (x y : BitVec w) : (do let v := fmul (some x) (some y); ret v) = .ok (GoFloat.mul x y) := rfl
theorem fdiv_p (x y : BitVec w) : (do let v := fdiv (some x) (some y); ret v) = .ok (GoFloat.quo x y) := rfl
theorem fneg_p (x : BitVec w) : (do let v := fneg (some x); ret v) = .ok (GoFloat.neg x) := rfl

theorem feq_p (x y : BitVec w) : (do let v := fcmp .oeq (some x) (some y); ret v) = .ok (ofBool (GoFloat.eq x y)) := by
  show Except.ok _ = _
  unfold GoFloat.eq GoFloat.cmp; cases SoftFloat.cmp (fmtOf w) x.toNat y.toNat <;> rfl
theorem fne_p (x y : BitVec w) : (do let v := fcmp .une (some x) (some y); ret v) = .ok (ofBool (GoFloat.ne x y)) := by
  show Except.ok _ = _
  unfold GoFloat.ne GoFloat.eq GoFloat.cmp; cases SoftFloat.cmp (fmtOf w) x.toNat y.toNat <;> rfl
theorem flt_p (x y : BitVec w) : (do let v := fcmp .olt (some x) (some y); ret v) = .ok (ofBool (GoFloat.lt x y)) := by
  show Except.ok _ = _
  unfold GoFloat.lt GoFloat.cmp; cases SoftFloat.cmp (fmtOf w) x.toNat y.toNat <;> rfl
theorem fle_p (x y : BitVec w) : (do let v := fcmp .ole (some x) (some y); ret v) = .ok (ofBool (GoFloat.le x y)) := by
  show Except.ok _ = _
  unfold GoFloat.le GoFloat.cmp; cases SoftFloat.cmp (fmtOf w) x.toNat y.toNat <;> rfl
theorem fgt_p (x y : BitVec w) : (do let v := fcmp .ogt (some x) (some y); ret v) = .ok (ofBool (GoFloat.gt x y)) := by
  show Except.ok _ = _
  unfold GoFloat.gt GoFloat.cmp; cases SoftFloat.cmp (fmtOf w) x.toNat y.toNat <;> rfl
theorem fge_p (x y : BitVec w) : (do let v := fcmp .oge (some x) (some y); ret v) = .ok (ofBool (GoFloat.ge x y)) := by
  show Except.ok _ = _
  unfold GoFloat.ge GoFloat.cmp; cases SoftFloat.cmp (fmtOf w) x.toNat y.toNat <;> rfl

theorem sitofp_p (fw : Nat) (x : BitVec w) : (do let v := sitofp fw (some x); ret v) = .ok (GoFloat.ofInt true fw x) := rfl
theorem uitofp_p (fw : Nat) (x : BitVec w) : (do let v := uitofp fw (some x); ret v) = .ok (GoFloat.ofInt false fw x) := rfl
theorem fpext_p (fw : Nat) (x : BitVec w) : (do let v := fpext fw (some x); ret v) = .ok (GoFloat.conv fw x) := rfl
theorem fptrunc_p (fw : Nat) (x : BitVec w) : (do let v := fptrunc fw (some x); ret v) = .ok (GoFloat.conv fw x) := rfl

/-- float → int by ONE `fptosi` / `fptoui` to the result type: defined whenever Go defines the conversion -/
theorem f2i_direct (s : Bool) (n : Nat) (x : BitVec w) (v : BitVec n) (h : GoFloat.toInt s n x = some v) :
    (do let r := fptoi s n (some x); ret r) = .ok v := by
  show ret (fptoi s n (some x)) = _
  unfold GoFloat.toInt at h
  unfold fptoi
  cases hh : SoftFloat.toInt (fmtOf w) x.toNat with
  | none => simp [GoFloat.fmt, hh] at h
  | some t =>
    simp only [GoFloat.fmt, hh] at h
    by_cases hf : fitsInt s n t = true
    · simp only [hf, if_true, Option.some.injEq] at h
      simp only [hh, hf, if_true, ret, h]; rfl
    · simp [hf] at h

theorem two_pow_le {n m : Nat} (h : n ≤ m) : (2 : Int) ^ n ≤ 2 ^ m := by
  have := Int.ofNat_le.mpr (Nat.pow_le_pow_right (by decide : 2 > 0) h)
  simpa [Int.natCast_pow] using this
theorem two_pow_dvd {n m : Nat} (h : n ≤ m) : ((2 : Int) ^ n) ∣ ((2 : Int) ^ m) := by
  have := Int.natCast_dvd_natCast.mpr (Nat.pow_dvd_pow 2 h)
  simpa [Int.natCast_pow] using this

theorem ofInt_setWidth (n m : Nat) (t : Int) (h : n ≤ m) : (BitVec.ofInt m t).setWidth n = BitVec.ofInt n t := by
  apply BitVec.eq_of_toNat_eq
  simp only [BitVec.toNat_setWidth, BitVec.toNat_ofInt]
  have hd : ((2 : Int) ^ n) ∣ ((2 : Int) ^ m) := two_pow_dvd h
  have h2 : (0 : Int) < 2 ^ n := Int.pow_pos (by decide)
  have h3 : (0 : Int) < 2 ^ m := Int.pow_pos (by decide)
  have e : ((t % 2 ^ m) % 2 ^ n) = t % 2 ^ n := Int.emod_emod_of_dvd t hd
  have nn1 : 0 ≤ t % 2 ^ m := Int.emod_nonneg _ (Int.ne_of_gt h3)
  have nn2 : 0 ≤ t % 2 ^ n := Int.emod_nonneg _ (Int.ne_of_gt h2)
  apply Int.ofNat.inj
  show ((((t % 2 ^ m).toNat % 2 ^ n : Nat)) : Int) = ((t % 2 ^ n).toNat : Int)
  rw [Int.natCast_emod, Int.toNat_of_nonneg nn1, Int.toNat_of_nonneg nn2]
  simpa [Int.natCast_pow] using e

/-- a value that fits the narrow type fits `i64` read the same way -/
theorem fits_widen_signed (n : Nat) (t : Int) (hn : n ≤ 64) (h : fitsInt true n t = true) : fitsInt true 64 t = true := by
  simp only [fitsInt, if_true, Bool.and_eq_true, decide_eq_true_eq] at *
  have hp : (2 : Int) ^ (n - 1) ≤ 2 ^ (64 - 1) := two_pow_le (by omega)
  omega

theorem fits_unsigned_in_signed64 (n : Nat) (t : Int) (hn : n < 64) (h : fitsInt false n t = true) : fitsInt true 64 t = true := by
  simp only [fitsInt, if_true, Bool.and_eq_true, decide_eq_true_eq, Bool.false_eq_true, if_false] at *
  have hp : (2 : Int) ^ n ≤ 2 ^ (64 - 1) := two_pow_le (by omega)
  have h0 : (0 : Int) ≤ 2 ^ (64 - 1) := Int.le_of_lt (Int.pow_pos (by decide))
  omega

theorem fits_unsigned_widen (n : Nat) (t : Int) (hn : n ≤ 64) (h : fitsInt false n t = true) : fitsInt false 64 t = true := by
  simp only [fitsInt, Bool.and_eq_true, decide_eq_true_eq, Bool.false_eq_true, if_false] at *
  have hp : (2 : Int) ^ n ≤ 2 ^ 64 := two_pow_le hn
  omega

/-- float → narrow signed int: `fptosi` to i64, then `trunc` -/
theorem f2i_trunc_s (n : Nat) (hn : n ≤ 64) (x : BitVec w) (v : BitVec n) (h : GoFloat.toInt true n x = some v) :
    (do let r := fptosi 64 (some x); let r2 := trunc n r; ret r2) = .ok v := by
  show ret (trunc n (fptoi true 64 (some x))) = _
  unfold GoFloat.toInt at h
  unfold fptoi
  cases hh : SoftFloat.toInt (fmtOf w) x.toNat with
  | none => simp [GoFloat.fmt, hh] at h
  | some t =>
    simp only [GoFloat.fmt, hh] at h
    by_cases hf : fitsInt true n t = true
    · simp only [hf, if_true, Option.some.injEq] at h
      have h64 := fits_widen_signed n t hn hf
      simp only [hh, h64, if_true, trunc, Option.map, ret]
      rw [ofInt_setWidth n 64 t hn, h]; rfl
    · simp [hf] at h

/-- float → narrow unsigned int: `select (x < 0) (fptosi i64) (fptoui i64)`, then `trunc`: whichever arm is selected,
    it is defined (not poison) and equals the truncated value whenever that value fits the unsigned result type -/
theorem f2i_sel_trunc_u (n : Nat) (hn : n < 64) (x z : BitVec w) (v : BitVec n) (h : GoFloat.toInt false n x = some v) :
    (do let c := fcmp .olt (some x) (some z); let r1 := fptosi 64 (some x); let r2 := fptoui 64 (some x)
        let r := select c r1 r2; let r3 := trunc n r; ret r3) = .ok v := by
  show ret (trunc n (select (fcmp .olt (some x) (some z)) (fptoi true 64 (some x)) (fptoi false 64 (some x)))) = _
  unfold GoFloat.toInt at h
  unfold fptoi
  cases hh : SoftFloat.toInt (fmtOf w) x.toNat with
  | none => simp [GoFloat.fmt, hh] at h
  | some t =>
    simp only [GoFloat.fmt, hh] at h
    by_cases hf : fitsInt false n t = true
    · simp only [hf, if_true, Option.some.injEq] at h
      have hs := fits_unsigned_in_signed64 n t hn hf
      have hu := fits_unsigned_widen n t (Nat.le_of_lt hn) hf
      simp only [hh, hs, hu, if_true, fcmp, select]
      split <;> (simp only [trunc, Option.map, ret]; rw [ofInt_setWidth n 64 t (Nat.le_of_lt hn), h]; rfl)
    · simp [hf] at h

end LlgoVerif.FloatOps
