import LlgoVerif.Lemmas.Shell
/-!
# C17 — command lines, flags and directives are split and re-assembled without loss

Property theorems only.  Models: `LlgoVerif/Model/Shell.lean`; lemmas: `LlgoVerif/Lemmas/Shell.lean`.
-/
namespace LlgoVerif.Shell

/-- **Round trip, double-quote form.** Any list of arguments — whatever characters they contain —
    quoted in the documented way (`"…"` with `\"` and `\\`) and joined by single spaces is parsed
    back into exactly the original list. -/
theorem parse_quote (args : List (List Char)) : parse (join args) = .ok args := by
  cases args with
  | nil => simp [parse, join, run_nil]
  | cons a as =>
    unfold parse
    rw [show ({} : St) = { args := [], cur := [], inQ := false, q := ' ', has := false } from rfl,
        run_join as a []]
    simp
    exact List.dropLast_concat_getLast (by simp)

/-- **Round trip, single-quote form**, for arguments that contain no single quote. -/
theorem parse_squote (args : List (List Char)) (h : ∀ x ∈ args, '\'' ∉ x) :
    parse (sjoin args) = .ok args := by
  cases args with
  | nil => simp [parse, sjoin, run_nil]
  | cons a as =>
    unfold parse
    rw [show ({} : St) = { args := [], cur := [], inQ := false, q := ' ', has := false } from rfl,
        run_sjoin as a [] h]
    simp
    exact List.dropLast_concat_getLast (by simp)

/-- **Round trip, unquoted form**: words that need no quoting — non-empty, free of white space and quote characters,
    whatever else they contain (backslashes, `$`, any non-ASCII text) — joined by single blanks are split back into
    exactly the original list. -/
theorem parse_plain (args : List (List Char)) (h : ∀ x ∈ args, x ≠ [] ∧ ∀ c ∈ x, plainChar c = true) :
    parse (pjoin args) = .ok args := by
  cases args with
  | nil => simp [parse, pjoin, run_nil]
  | cons a as =>
    unfold parse
    rw [show ({} : St) = { args := [], cur := [], inQ := false, q := ' ', has := false } from rfl,
        run_pjoin as a [] h]
    simp
    exact List.dropLast_concat_getLast (by simp)

example : ∀ x ∈ ["echo".toList, "Voilà".toList, "/home/你好/fw.bin".toList, "a\\b$c".toList], x ≠ [] ∧ ∀ c ∈ x, plainChar c = true := by decide

/-- **Malformed input is reported**: a double-quoted argument whose closing quote is missing is an error,
    whatever precedes it. -/
theorem parse_unterminated (a : List Char) : parse ('"' :: esc a) = .error () := by
  unfold parse
  rw [run_cons]
  have := run_inq_open a [] []
  simp [step, this]

example : (∀ x ∈ ["a b".toList, "c\"d\\".toList, []], '\'' ∉ x) := by decide


/-! ## pkg-config style flag strings (`safesplit.SplitPkgConfigFlags`) -/

/-- the round trip stated for EVERY flag list — false on the current code -/
def SplitJoinFull : Prop := ∀ fs : List Flag, splitFlags (joinFlags fs) = fs.map Flag.bytes

/-- a flag whose content ends in a backslash swallows the separator: `-Ia\\ -Ib` comes back as ONE flag `-Ia -Ib` -/
theorem split_backslash_merges :
    splitFlags (joinFlags [Flag.mk 73 [97, 92], Flag.mk 73 [98]]) = [[45, 73, 97, 32, 45, 73, 98]] := by
  simp [splitFlags, joinFlags, Flag.render, escBlank, isBlank, skipSp, flagsLoop_cons2, flagsLoop_nil, readContent_cons, readContent_nil, push]
  decide

theorem split_join_counterexample_backslash : ¬ SplitJoinFull := by
  intro h
  have h1 := h [Flag.mk 73 [97, 92], Flag.mk 73 [98]]
  rw [split_backslash_merges] at h1
  revert h1; decide

/-- an escaped trailing blank is trimmed away: `-Ia\\ ` comes back as `-Ia` -/
theorem split_join_counterexample_trailing_blank :
    splitFlags (joinFlags [Flag.mk 73 [97, 32]]) = [[45, 73, 97]] := by
  simp [splitFlags, joinFlags, Flag.render, escBlank, isBlank, skipSp, flagsLoop_cons2, flagsLoop_nil, readContent_cons, readContent_nil, push]
  decide

/-- content starting with `-` is split off as a flag of its own: `-I-f` comes back as `-I`, `-f` -/
theorem split_join_counterexample_leading_dash :
    splitFlags (joinFlags [Flag.mk 73 [45, 102]]) = [[45, 73], [45, 102]] := by
  simp [splitFlags, joinFlags, Flag.render, escBlank, isBlank, skipSp, flagsLoop_cons2, flagsLoop_nil, readContent_nil, push]
  decide

/-- **Round trip under the explicit decidable predicate `Flag.WF`** (content does not start with `-`, does not end
    in `\`, and the flag does not end in white space): flags with blanks escaped as documented and joined by single
    blanks are split back into exactly the original list — for every flag byte and every content, including
    blanks, tabs, backslashes and non-ASCII bytes inside. -/
theorem split_join_partial (fs : List Flag) (h : ∀ f ∈ fs, f.WF) :
    splitFlags (joinFlags fs) = fs.map Flag.bytes := by
  cases fs with
  | nil => simp [splitFlags, joinFlags, skipSp, flagsLoop_nil, push]
  | cons f fs =>
    have hj : ∃ l, joinFlags (f :: fs) = 45 :: l := by
      cases fs with
      | nil => exact ⟨_, by simp only [joinFlags, Flag.render]; rfl⟩
      | cons g gs => exact ⟨_, by simp only [joinFlags, Flag.render, List.cons_append]; rfl⟩
    obtain ⟨l, hl⟩ := hj
    unfold splitFlags
    rw [hl, skipSp_nonblank 45 l isBlank_45, ← hl, flagsLoop_join fs f [] [] h]
    simp [push]

example : (∀ f ∈ [Flag.mk 73 [47, 97, 32, 98], Flag.mk 76 [], Flag.mk 45 [120]], f.WF) := by decide


/-! ## build tags -/

/-- `parseBuildTags` returns each tag once, and exactly the tags that occur in the `-tags` values -/
theorem parseBuildTags_nodup (flags : List (List Char)) :
    (parseBuildTags flags).Nodup ∧ ∀ t, t ∈ parseBuildTags flags ↔ t ∈ collectTags flags := by
  have := dedup_spec (collectTags flags) []
  exact ⟨this.1, fun t => by rw [parseBuildTags, this.2]; simp⟩


/-! ### build constraints (`CheckTags`) -/

/-- `CheckTags` keeps the requested expressions and their order, never resets an entry, and an entry that was false
    becomes true exactly when its `+build` expression holds under the command-line tags -/
theorem checkTags_spec (flags : List (List Char)) (m : List (List Char × Bool)) :
    (checkTags flags m).map (·.1) = m.map (·.1) ∧
    ∀ e v, (e, v) ∈ m → (e, v || evalPlusBuild (hasTag flags) e) ∈ checkTags flags m := by
  constructor
  · simp [checkTags, List.map_map, Function.comp_def]
  · intro e v h
    simp only [checkTags, List.mem_map]
    exact ⟨(e, v), h, rfl⟩

/-- a single well-formed tag holds iff `has` says so; its negation `!tag` holds iff it does not -/
theorem eval_single_tag (has : List Char → Bool) (t : List Char) (hv : isValidTag t = true) :
    evalPlusBuild has t = has t ∧ evalPlusBuild has ('!' :: t) = !has t := by
  have hne : t ≠ [] := by intro h; subst h; simp [isValidTag] at hv
  have hall : ∀ c ∈ t, isValidTagChar c = true := by
    simp only [isValidTag, Bool.and_eq_true, List.all_eq_true] at hv; exact hv.2
  have hb : ∀ c ∈ t, isBlankChar c = false := fun c hc => (validChar_facts c (hall c hc)).1
  have hcm : ∀ c ∈ t, c ≠ ',' := fun c hc => (validChar_facts c (hall c hc)).2.1
  have hex : ∀ c ∈ t, c ≠ '!' := fun c hc => (validChar_facts c (hall c hc)).2.2
  constructor
  · unfold evalPlusBuild
    rw [blankFields_noblank t [] hb]
    have : (([] : List Char).isEmpty && t.isEmpty) = false := by cases t <;> simp_all
    simp only [this, Bool.false_eq_true, if_false, List.reverse_nil, List.nil_append, List.any_cons, List.any_nil, Bool.or_false]
    unfold evalClause
    rw [splitComma_nocomma t [] hcm]
    simp only [List.reverse_nil, List.nil_append, List.all_cons, List.all_nil, Bool.and_true]
    cases t with
    | nil => exact absurd rfl hne
    | cons c rest =>
      have hc : c ≠ '!' := hex c (List.mem_cons_self ..)
      unfold evalLit
      split <;> simp_all
  · unfold evalPlusBuild
    have hb' : ∀ c ∈ '!' :: t, isBlankChar c = false := by
      intro c hc; rcases List.mem_cons.mp hc with h | h
      · subst h; decide
      · exact hb c h
    rw [blankFields_noblank ('!' :: t) [] hb']
    simp only [List.isEmpty_nil, List.isEmpty_cons, Bool.and_false, Bool.false_eq_true, if_false, List.reverse_nil, List.nil_append, List.any_cons, List.any_nil, Bool.or_false]
    unfold evalClause
    have hcm' : ∀ c ∈ '!' :: t, c ≠ ',' := by
      intro c hc; rcases List.mem_cons.mp hc with h | h
      · subst h; decide
      · exact hcm c h
    rw [splitComma_nocomma ('!' :: t) [] hcm']
    simp only [List.reverse_nil, List.nil_append, List.all_cons, List.all_nil, Bool.and_true]
    cases t with
    | nil => exact absurd rfl hne
    | cons c rest =>
      have hc : c ≠ '!' := hex c (List.mem_cons_self ..)
      unfold evalLit
      split <;> simp_all


/-! ## `$VAR` / `$(command)` expansion in link directives (`xtool/env`) -/

/-- `os.Expand` on a rendered template yields the literal text with every reference replaced by the value of
    exactly the referenced variable — values are inserted verbatim (never re-expanded), whatever they contain -/
theorem osExpand_render (env : List Char → List Char) (ps : List Piece) (h : ∀ p ∈ ps, p.WF) (fuel : Nat)
    (hf : (renderAll ps).length ≤ fuel) :
    osExpand env fuel (renderAll ps) = denoteAll env ps := by
  induction ps generalizing fuel with
  | nil => simp [renderAll, denoteAll, osExpand_nil]
  | cons p ps ih =>
    have hp := h p (List.mem_cons_self ..)
    have hps : ∀ q ∈ ps, q.WF := fun q hq => h q (List.mem_cons_of_mem _ hq)
    rw [renderAll_cons, denoteAll_cons]
    rw [renderAll_cons] at hf
    cases p with
    | lit t =>
      simp only [Piece.render, Piece.denote, List.length_append] at hf ⊢
      have := osExpand_lit (k := 0) env t (renderAll ps) hp fuel (by omega)
      simp only [Nat.add_zero] at this
      rw [this, ih hps _ (by omega)]
    | var n =>
      simp only [Piece.render, Piece.denote, List.length_append, List.length_cons] at hf ⊢
      obtain ⟨f, rfl⟩ : ∃ f, fuel = f + 1 := ⟨fuel - 1, by omega⟩
      have e : ('$' :: '{' :: (n ++ ['}']) ++ renderAll ps) = '$' :: '{' :: (n ++ '}' :: renderAll ps) := by simp
      rw [e, osExpand_var env n (renderAll ps) hp.1 hp.2.1 f, ih hps f (by simp at hf; omega)]

/-- one `$(…)` directive: the text before it is kept, the directive is replaced by exactly the value of ITS command
    line (`subcmdValue`: the trimmed output of `pkg-config`/`llvm-config` run with exactly the words of the directive,
    newlines as blanks; nothing for a foreign or failing command), and the rest is processed the same way -/
theorem replaceSubcmds_cmd (cmdOut) (t inner rest : List Char) (ht : '$' ∉ t) (hne : inner ≠ []) (hi : ')' ∉ inner)
    (fuel : Nat) (hf : t.length < fuel) :
    replaceSubcmds cmdOut fuel (t ++ '$' :: '(' :: (inner ++ ')' :: rest)) =
      match subcmdValue cmdOut inner, replaceSubcmds cmdOut (fuel - t.length - 1) rest with
      | some (v, cfg), some (r, cfg') => some (t ++ v ++ r, cfg || cfg')
      | _, _ => none := by
  induction t generalizing fuel with
  | nil =>
    obtain ⟨f, rfl⟩ : ∃ f, fuel = f + 1 := ⟨fuel - 1, by simp at hf; omega⟩
    have hie : inner.isEmpty = false := by cases inner <;> simp_all
    simp only [List.nil_append, List.length_nil, Nat.sub_zero, Nat.add_sub_cancel]
    conv => lhs; unfold replaceSubcmds
    simp only [if_true, splitParen_close inner rest hi, hie, Bool.false_eq_true, if_false]
    cases subcmdValue cmdOut inner <;> cases replaceSubcmds cmdOut f rest <;> simp
  | cons c cs ih =>
    have hc : c ≠ '$' := by intro e; apply ht; simp [e]
    have hcs : '$' ∉ cs := by intro e; apply ht; simp [e]
    obtain ⟨f, rfl⟩ : ∃ f, fuel = f + 1 := ⟨fuel - 1, by simp at hf; omega⟩
    have := ih hcs f (by simp at hf; omega)
    simp only [List.cons_append, List.length_cons]
    conv => lhs; unfold replaceSubcmds
    simp only [hc, if_false, this]
    have e : f + 1 - (cs.length + 1) - 1 = f - cs.length - 1 := by omega
    rw [e]
    cases subcmdValue cmdOut inner <;> cases replaceSubcmds cmdOut (f - cs.length - 1) rest <;> simp

/-- **`$VAR` expansion in link directives substitutes exactly the referenced values.**  For every template made of
    literal text (without `$`) and `${NAME}` references, `expandEnvWithCmd` returns the literal text with each reference
    replaced by the value of exactly that variable, trimmed; no sub-command runs and the pkg-config flag stays false. -/
theorem expandEnv_render (cmdOut) (env : List Char → List Char) (ps : List Piece) (h : ∀ p ∈ ps, p.WF) :
    expandEnvWithCmd cmdOut env (renderAll ps) = some (trimChars (denoteAll env ps), false) := by
  unfold expandEnvWithCmd
  rw [replaceSubcmds_noSub cmdOut _ (noSub_render ps h)]
  simp only
  rw [osExpand_render env ps h _ (by omega)]

example : ∀ p ∈ [Piece.lit "-L".toList, Piece.var "ROOT".toList, Piece.lit "/lib -l".toList, Piece.var "x y".toList], p.WF := by
  simp [Piece.WF]

end LlgoVerif.Shell
