import LlgoVerif.Lemmas.Slice
/-!
# C05 — slices and strings: append, copy, slicing, iteration and conversion semantics

Property theorems only.  Model: `LlgoVerif/Model/Slice.lean` (+ `Model/Utf8.lean`); specification vocabulary:
`LlgoVerif/Spec/Slice.lean`; lemmas: `LlgoVerif/Lemmas/Slice.lean`.

`Cfg.current` is the unchanged tree, `Cfg.fixed` the tree with `fixes/C05-1.diff`.  On the unchanged tree the full
`append` statement is **false** (two independent counterexamples below, both replayed on the real code by the check);
it is proved in full for the repaired code and under an explicit decidable hypothesis for the unchanged code.
-/
namespace LlgoVerif.Slice
open LlgoVerif.Utf8

/-! ## append -/

/-- **append, repaired code — every element size (incl. 0), every overlap, every growth policy with enough room.** -/
theorem append_spec_fixed : AppendSpecAll Cfg.fixed := by
  intro pol m s data num esz hpol hesz hnum hwf hsrc
  exact append_ok Cfg.fixed pol m s data num esz hpol hesz hnum hwf hsrc (Or.inl rfl) (Or.inl rfl)

/-- **Unchanged tree, defect #4.** `append([]struct{}(nil), struct{}{})`: `SliceAppend` returns `src` when
    `etSize == 0`, the length stays 0. -/
theorem append_spec_zero_size_counterexample : ¬ AppendSpecAll Cfg.current := by
  intro h
  have := h nextslicecap Mem.empty ⟨0, 0, 0⟩ 0 1 0 nextslicecap_ge' (by decide) (by decide)
    ⟨by decide, by decide, by decide, by decide⟩ (by decide)
  obtain ⟨m', s', heq, hlen, _⟩ := this
  simp [SliceAppend, Cfg.current] at heq
  rw [← heq.2] at hlen
  simp at hlen

/-- **Unchanged tree, defect #5.** `append(a[:1], a[2:]...)` on a 4-byte slice (`a` at address 1): `memcpy(2, 3, 2)`
    is called on intersecting ranges — undefined behaviour in C. -/
theorem append_spec_overlap_counterexample : ¬ AppendSpecAll Cfg.current := by
  intro h
  have := h nextslicecap ⟨fun _ => 0, 6⟩ ⟨1, 1, 4⟩ 3 2 1 nextslicecap_ge' (by decide) (by decide)
    ⟨by decide, by decide, by decide, by decide⟩ (by decide)
  obtain ⟨m', s', heq, _⟩ := this
  simp [SliceAppend, GrowSlice, Cfg.current, memcpy, overlaps, advance] at heq

/-- the two things the unchanged `SliceAppend` needs from its input (both decidable): a non-zero element size, and —
    only when the result shares storage — appended values that do not intersect the window they are written to -/
def AppendSafe (s : Slice) (data : Nat) (num esz : Int) : Prop :=
  esz ≠ 0 ∧ (s.len + num ≤ s.cap → ¬ overlaps (s.data + (s.len * esz).toNat) data (num * esz).toNat)

instance (s : Slice) (data : Nat) (num esz : Int) : Decidable (AppendSafe s data num esz) := by
  unfold AppendSafe; infer_instance

/-- **append, unchanged tree**, under `AppendSafe`. -/
theorem append_spec_partial (pol : Int → Int → Int) (m : Mem) (s : Slice) (data : Nat) (num esz : Int)
    (hpol : ∀ a b, a ≤ pol a b) (hesz : 0 ≤ esz) (hnum : 0 ≤ num) (hwf : WF m s esz)
    (hsrc : data + (num * esz).toNat ≤ m.next) (hsafe : AppendSafe s data num esz) :
    AppendSpec Cfg.current pol m s data num esz :=
  append_ok Cfg.current pol m s data num esz hpol hesz hnum hwf hsrc (Or.inr hsafe.1) (Or.inr hsafe.2)

/-- non-vacuity: an 8-byte-element slice of length 2, capacity 4 at address 1, appended values elsewhere (address 40) -/
example : WF ⟨fun _ => 0, 64⟩ ⟨1, 2, 4⟩ 8 ∧ 40 + ((2 : Int) * 8).toNat ≤ 64 ∧ AppendSafe ⟨1, 2, 4⟩ 40 2 8 :=
  ⟨⟨by decide, by decide, by decide, by decide⟩, by decide, by decide⟩

/-- the real growth policy returns enough room: **`newLen ≤ nextslicecap newLen oldCap` for all integers**
    (the loop's termination — at least +192 per iteration — is part of the definition of `capLoop`) -/
theorem nextslicecap_ge (newLen oldCap : Int) : newLen ≤ nextslicecap newLen oldCap :=
  nextslicecap_ge' newLen oldCap

/-- on the model's domain the loop's exit test `uint(newcap) >= uint(newLen)` is the signed comparison the model uses -/
theorem uint_cmp_domain (a b : Int) (ha : 0 ≤ a) (ha' : a < 2 ^ 63) (hb : 0 ≤ b) (hb' : b < 2 ^ 63) :
    (a % 2 ^ 64 ≥ b % 2 ^ 64) ↔ a ≥ b := uint_cmp_domain' a b ha ha' hb hb'

example : (0 : Int) ≤ 448 ∧ (448 : Int) < 2 ^ 63 ∧ (0 : Int) ≤ 300 ∧ (300 : Int) < 2 ^ 63 := by decide

/-- with the code's own policy (`nextslicecap`) — repaired code -/
theorem append_spec_nextslicecap (m : Mem) (s : Slice) (data : Nat) (num esz : Int)
    (hesz : 0 ≤ esz) (hnum : 0 ≤ num) (hwf : WF m s esz) (hsrc : data + (num * esz).toNat ≤ m.next) :
    AppendSpec Cfg.fixed nextslicecap m s data num esz :=
  append_spec_fixed nextslicecap m s data num esz nextslicecap_ge hesz hnum hwf hsrc

example : WF ⟨fun _ => 0, 64⟩ ⟨1, 3, 3⟩ 0 ∧ 1 + ((2 : Int) * 0).toNat ≤ 64 :=
  ⟨⟨by decide, by decide, by decide, by decide⟩, by decide⟩

/-! ## copy -/

/-- **copy**: `min(len(dst), len(src))` elements are moved; the destination then holds the source bytes *as they
    were before the call* (so overlapping ranges are handled); nothing else changes.  Every element size ≥ 0. -/
theorem copy_spec (m : Mem) (dst : Slice) (data : Nat) (num esz : Int) (hesz : 0 ≤ esz) :
    (SliceCopy m dst data num esz).2 = min dst.len num ∧
    (SliceCopy m dst data num esz).1.read dst.data ((min dst.len num) * esz).toNat
      = m.read data ((min dst.len num) * esz).toNat ∧
    (∀ a, ¬ (dst.data ≤ a ∧ a < dst.data + ((min dst.len num) * esz).toNat) →
      (SliceCopy m dst data num esz).1.bytes a = m.bytes a) ∧
    (SliceCopy m dst data num esz).1.next = m.next :=
  copy_spec' m dst data num esz hesz

example : (0 : Int) ≤ 24 := by decide

/-! ## slice expressions -/

/-- **`base[i:j:k]`**: panics iff `¬ (0 ≤ i ≤ j ≤ k ≤ cap)`; otherwise `len = j - i`, `cap = k - i` and the window starts
    `i` elements into the base (for an empty window, `k = i`, the base pointer is kept). -/
theorem slice3_spec (base : Nat) (esz cap i j k : Int) :
    (NewSlice3 base esz cap i j k = .error .panic ↔ ¬ (0 ≤ i ∧ i ≤ j ∧ j ≤ k ∧ k ≤ cap)) ∧
    (0 ≤ i ∧ i ≤ j ∧ j ≤ k ∧ k ≤ cap →
      ∃ s, NewSlice3 base esz cap i j k = .ok s ∧ s.len = j - i ∧ s.cap = k - i ∧
        (s.data = advance base (i * esz) ∨ (s.cap = 0 ∧ s.data = base))) := by
  constructor
  · constructor
    · intro h hc; rw [slice3_ok base esz cap i j k hc] at h; cases h
    · exact slice3_panic base esz cap i j k
  · intro h
    refine ⟨_, slice3_ok base esz cap i j k h, rfl, rfl, ?_⟩
    by_cases hk : k - i > 0
    · left; simp only; rw [if_pos hk]
    · right; simp only; rw [if_neg hk]; exact ⟨by omega, rfl⟩

/-- the elements of `base[i:j:k]` are the elements `i … j-1` of the base's capacity window -/
theorem slice3_window (m : Mem) (base : Nat) (esz cap i j k : Int) (hesz : 0 ≤ esz)
    (h : 0 ≤ i ∧ i ≤ j ∧ j ≤ k ∧ k ≤ cap) (s : Slice) (hs : NewSlice3 base esz cap i j k = .ok s) :
    view m s esz = ((m.read base (cap * esz).toNat).drop (i * esz).toNat).take ((j - i) * esz).toNat :=
  slice3_window' m base esz cap i j k hesz h s hs

example : (0 : Int) ≤ 1 ∧ (1 : Int) ≤ 2 ∧ (2 : Int) ≤ 3 ∧ (3 : Int) ≤ 4 ∧
    NewSlice3 10 8 4 1 2 3 = .ok ⟨18, 1, 2⟩ :=
  ⟨by decide, by decide, by decide, by decide, by simp [NewSlice3, advance]⟩

/-! ## make, clear -/

/-- **make**: a fresh, zeroed, well-formed slice; memory allocated before is untouched; out-of-range lengths panic. -/
theorem makeSlice_spec (m : Mem) (len cap esz : Int) :
    ((len < 0 ∨ len > cap) → MakeSlice m len cap esz = .error .panic) ∧
    (0 ≤ len ∧ len ≤ cap → 0 ≤ esz → cap < 2 ^ 63 ∧ esz < 2 ^ 63 → cap * esz ≤ 2 ^ 48 →
      ∃ m', MakeSlice m len cap esz = .ok (m', ⟨m.next, len, cap⟩) ∧
        (∀ i, i < (cap * esz).toNat → m'.bytes (m.next + i) = 0) ∧
        (∀ a, a < m.next → m'.bytes a = m.bytes a) ∧ WF m' ⟨m.next, len, cap⟩ esz) :=
  ⟨makeSlice_panic m len cap esz, makeSlice_ok m len cap esz⟩

example : (0 : Int) ≤ 3 ∧ (3 : Int) ≤ 5 ∧ (5 : Int) * 24 ≤ 2 ^ 48 := by decide

/-- **clear**: exactly the `len` elements are zeroed -/
theorem clear_spec (m : Mem) (s : Slice) (esz : Nat) (h0 : 0 ≤ s.len) (hb : s.len * esz < 2 ^ 64) :
    (∀ i, i < (s.len * esz).toNat → (SliceClear m s esz).bytes (s.data + i) = 0) ∧
    (∀ a, ¬ (s.data ≤ a ∧ a < s.data + (s.len * esz).toNat) → (SliceClear m s esz).bytes a = m.bytes a) :=
  clear_spec' m s esz h0 hb

example : (0 : Int) ≤ 7 ∧ (7 : Int) * (3 : Nat) < 2 ^ 64 := by decide

/-! ## UTF-8 -/

/-- **decode ∘ encode = id** on every Unicode scalar value, whatever follows it -/
theorem decode_encode (r : Nat) (rest : List Nat) (h : validScalar r) :
    nextRune (encodeRune r ++ rest) = (r, width r) ∧ (encodeRune r).length = width r ∧
    (0x80 ≤ r → decodeRune (encodeRune r ++ rest) = (r, width r)) :=
  ⟨next_encode r rest h, encode_length r h, decode_encode' r rest h⟩

example : validScalar 0x20AC ∧ validScalar 0 ∧ validScalar 0x10FFFF ∧ ¬ validScalar 0xD800 := by decide

/-- **every byte string decodes** to `(U+FFFD, 1)` or to a valid non-ASCII scalar whose canonical encoding is exactly
    the consumed bytes (no overlong forms, no surrogates, nothing above U+10FFFF); the width is never 0 -/
theorem decode_invalid (s : List Nat) : DecodeOk s (decodeRune s) ∧ 1 ≤ (decodeRune s).2 ∧ 1 ≤ (nextRune s).2 :=
  ⟨decode_invalid' s, decode_width_pos s, next_width_pos s⟩

/-- **`[]rune(string(rs)) = rs`** for valid scalars -/
theorem toRunes_fromRunes (rs : List Nat) (h : ∀ r ∈ rs, validScalar r) :
    StringToRunes (StringFromRunes (rs.map Int.ofNat)) = rs := by
  have hm : (rs.map Int.ofNat).map u32 = rs := by
    rw [List.map_map]
    conv => rhs; rw [← List.map_id rs]
    apply List.map_congr_left
    intro r hr
    have := (validScalar_iff r).1 (h r hr)
    simp only [Function.comp, id]
    rw [u32_of_nonneg _ (by simp) (by simp; omega)]
    simp
  unfold StringToRunes StringFromRunes
  rw [hm]
  exact toRunes_fromRunes' rs h

example : ∀ r ∈ [0x41, 0x20AC, 0x1F600, 0], validScalar r := by decide

/-- **range iteration**: `StringIterNext`, called until it reports exhaustion, enumerates exactly the decode sequence of
    the string with the byte offset of every rune; that sequence is unique and its runes are `[]rune(s)` -/
theorem iter_spec (s : List Nat) :
    Enumerates 0 s (iterAll s) ∧ (∀ l, Enumerates 0 s l → l = iterAll s) ∧
    (iterAll s).map (·.2) = StringToRunes s :=
  ⟨iter_spec' s, fun _ hl => Enumerates.unique hl (iter_spec' s), iterAll_runes s⟩

/-! ## string comparison, slicing, conversion from integers -/

/-- **`StringLess` is the lexicographic strict order on bytes**: irreflexive, transitive, total together with equality,
    and equal to Lean's lexicographic `<` on lists -/
theorem stringLess (x y z : List Nat) :
    StringLess x x = false ∧
    (StringLess x y = true → StringLess y z = true → StringLess x z = true) ∧
    (StringLess x y = true ∨ x = y ∨ StringLess y x = true) ∧
    (StringLess x y = true ↔ x < y) :=
  ⟨less_irrefl x, less_trans x y z, less_total x y, less_iff_lt x y⟩

example : StringLess [0x61] [0x61, 0x62] = true ∧ StringLess [0xFF] [0x61, 0x62] = false := by decide

/-- **`StringEqual` is equality of byte sequences** -/
theorem stringEqual (x y : List Nat) : StringEqual x y = true ↔ x = y := equal_iff x y

/-- **`s[i:j]`** on strings: panics iff `¬ (0 ≤ i ≤ j ≤ len)`, else the bytes `i … j-1` -/
theorem stringSlice_spec (base : List Nat) (i j : Int) :
    StringSlice base i j =
      if 0 ≤ i ∧ i ≤ j ∧ j ≤ base.length then .ok ((base.drop i.toNat).take (j - i).toNat) else .error .panic :=
  stringSlice_spec' base i j

/-- **`s + t`** -/
theorem stringCat_spec (a b : List Nat) : StringCat a b = a ++ b ∧ (StringCat a b).length = a.length + b.length :=
  ⟨rfl, by simp [StringCat]⟩

/-- **`string(i)`**: the UTF-8 encoding of `i` when it is a Unicode scalar value, else U+FFFD (`EF BF BD`) — negative
    values, surrogates and values above U+10FFFF included; for signed, unsigned and `rune` operands -/
theorem stringFromInt (r : Int) (u : Nat) :
    StringFromInt64 r = (if 0 ≤ r ∧ validScalar r.toNat then encodeRune r.toNat else [0xEF, 0xBF, 0xBD]) ∧
    StringFromUint64 u = (if validScalar u then encodeRune u else [0xEF, 0xBF, 0xBD]) ∧
    ((-2 ^ 31 ≤ r ∧ r < 2 ^ 31) →
      StringFromRune r = if 0 ≤ r ∧ validScalar r.toNat then encodeRune r.toNat else [0xEF, 0xBF, 0xBD]) ∧
    encodeRune runeError = [0xEF, 0xBF, 0xBD] :=
  ⟨stringFromInt64_spec' r, stringFromUint64_spec' u, stringFromRune_spec' r, encode_runeError⟩

example : (-2 ^ 31 ≤ (-1 : Int) ∧ (-1 : Int) < 2 ^ 31) ∧ StringFromInt64 0xD800 = [0xEF, 0xBF, 0xBD] ∧
    StringFromInt64 (-7) = [0xEF, 0xBF, 0xBD] ∧ StringFromInt64 0x20AC = [0xE2, 0x82, 0xAC] := by decide

end LlgoVerif.Slice
