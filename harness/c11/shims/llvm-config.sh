#!/bin/sh
# llvm-config stand-in for the IR-capturing build of ./check C11: answers --bindir with a directory in which `llc` is
# harness/c11/shims/llc.sh (every other tool is a symlink to the real one); everything else is forwarded.
if [ "$1" = "--bindir" ]; then
  echo "@BINDIR@"
  exit 0
fi
exec "@REAL_LLVM_CONFIG@" "$@"
