// Correspondence harness for C13.
//
//	vp13                 line protocol on stdin (hello | use <opt> | key G P...): runs the REAL fingerprint collection
//	                     (internal/build collectFingerprint, through the overlay accessor VerifCollect) on package
//	                     records whose files are created on disk with the given content and mtime
//	vp13 build [flags] . the same build.Do that `llgo build` calls, plus -X importpath.name=value (the llgo command
//	                     line has no way to set Config.GlobalRewrites)
package main

import (
	"bufio"
	"crypto/sha256"
	"encoding/hex"
	"flag"
	"fmt"
	"go/importer"
	"go/types"
	"os"
	"path/filepath"
	"regexp"
	"runtime"
	"strconv"
	"strings"
	"syscall"
	"time"
	"unsafe"

	"github.com/goplus/llgo/cmd/internal/compilerhash"
	"github.com/goplus/llgo/internal/build"
	"github.com/goplus/llgo/internal/crosscompile"
	"github.com/goplus/llgo/internal/env"
	"github.com/goplus/llgo/internal/optlevel"
	llssa "github.com/goplus/llgo/ssa"
)

func unhex(s string) (string, error) {
	if s == "-" {
		return "", nil
	}
	b, err := hex.DecodeString(s)
	return string(b), err
}

func vhex(s string) string {
	if s == "" {
		return "-"
	}
	return hex.EncodeToString([]byte(s))
}

func unlist(s string) ([]string, error) {
	if s == "." {
		return nil, nil
	}
	var out []string
	for _, h := range strings.Split(s, ",") {
		v, err := unhex(h)
		if err != nil {
			return nil, err
		}
		out = append(out, v)
	}
	return out, nil
}

func unkv(s string) (map[string]string, []string, error) {
	if s == "." {
		return nil, nil, nil
	}
	m := map[string]string{}
	var order []string
	for _, kv := range strings.Split(s, ",") {
		parts := strings.SplitN(kv, "=", 2)
		if len(parts) != 2 {
			return nil, nil, fmt.Errorf("bad kv %q", kv)
		}
		k, err := unhex(parts[0])
		if err != nil {
			return nil, nil, err
		}
		v, err := unhex(parts[1])
		if err != nil {
			return nil, nil, err
		}
		m[k] = v
		order = append(order, k)
	}
	return m, order, nil
}

type vfile struct {
	path, content string
	mtime         int64
	hasOverlay    bool
	overlay       string
	link          bool // optional fifth field "L": `path` is a symbolic link, content and mtime belong to its target
}

func unfiles(s string) ([]vfile, error) {
	if s == "." || s == "!" {
		return nil, nil
	}
	var out []vfile
	for _, f := range strings.Split(s, ",") {
		p := strings.Split(f, ":")
		if len(p) < 4 {
			return nil, fmt.Errorf("bad file %q", f)
		}
		var vf vfile
		var err error
		if vf.path, err = unhex(p[0]); err != nil {
			return nil, err
		}
		if vf.content, err = unhex(p[1]); err != nil {
			return nil, err
		}
		if vf.mtime, err = strconv.ParseInt(p[2], 10, 64); err != nil {
			return nil, err
		}
		if p[3] != "~" {
			vf.hasOverlay = true
			if vf.overlay, err = unhex(p[3]); err != nil {
				return nil, err
			}
		}
		vf.link = len(p) >= 5 && p[4] == "L"
		out = append(out, vf)
	}
	return out, nil
}

// linkMtime is the (fixed) mtime of every symbolic link the harness creates: a link is not touched when its target is edited
const linkMtime = 1_600_000_000

// lutimes sets atime and mtime of the link itself (utimensat with AT_SYMLINK_NOFOLLOW; package os has no such call)
func lutimes(path string, sec int64) error {
	p, err := syscall.BytePtrFromString(path)
	if err != nil {
		return err
	}
	ts := [2]syscall.Timespec{{Sec: sec}, {Sec: sec}}
	const atSymlinkNofollow = 0x100
	fd := -100 // AT_FDCWD
	if _, _, e := syscall.Syscall6(syscall.SYS_UTIMENSAT, uintptr(fd), uintptr(unsafe.Pointer(p)), uintptr(unsafe.Pointer(&ts[0])), atSymlinkNofollow, 0, 0); e != 0 {
		return e
	}
	return nil
}

var levels = []optlevel.Level{optlevel.O0, optlevel.O1, optlevel.O2, optlevel.O3, optlevel.Os, optlevel.Oz}

var managedEnv = []string{"LLGO_DEBUG", "LLGO_DEBUG_SYMBOLS", "LLGO_TRACE", "LLGO_OPTIMIZE", "LLGO_WASM_RUNTIME",
	"LLGO_WASI_THREADS", "LLGO_STDIO_NOBUF", "LLGO_FULL_RPATH", "CCFLAGS", "CFLAGS", "LDFLAGS", "LLGO_BUILD_CACHE", "VERIF_OTHER"}

type req struct {
	g       build.VerifGlobal
	pkgs    []build.VerifPkg
	files   []vfile
	env     map[string]string
	overlay map[string][]byte
}

func parseKey(tokens []string) (*req, error) {
	r := &req{overlay: map[string][]byte{}}
	addFiles := func(fs []vfile) []string {
		var paths []string
		for _, f := range fs {
			r.files = append(r.files, f)
			paths = append(paths, f.path)
			if f.hasOverlay {
				r.overlay[f.path] = []byte(f.overlay)
			}
		}
		return paths
	}
	for _, tok := range tokens {
		switch {
		case strings.HasPrefix(tok, "G="):
			f := strings.Split(tok[2:], ";")
			if len(f) != 19 {
				return nil, fmt.Errorf("G: %d fields", len(f))
			}
			var err error
			s := make([]string, 19)
			for _, i := range []int{0, 1, 2, 3, 4, 7, 8, 9, 10, 11, 12, 16} {
				if s[i], err = unhex(f[i]); err != nil {
					return nil, err
				}
			}
			abi, err := strconv.Atoi(f[5])
			if err != nil {
				return nil, err
			}
			opt, err := strconv.Atoi(f[6])
			if err != nil || opt < 0 || opt >= len(levels) {
				return nil, fmt.Errorf("bad opt")
			}
			ccrest, err := unlist(f[13])
			if err != nil {
				return nil, err
			}
			cflags, err := unlist(f[14])
			if err != nil {
				return nil, err
			}
			ldflags, err := unlist(f[15])
			if err != nil {
				return nil, err
			}
			extra, err := unfiles(f[17])
			if err != nil {
				return nil, err
			}
			envm, _, err := unkv(f[18])
			if err != nil {
				return nil, err
			}
			r.env = envm
			// crosscompile.go puts level.Flag() first (checked separately by the `use` request)
			r.g = build.VerifGlobal{Goos: s[0], Goarch: s[1], Target: s[2], TargetABI: s[3], LLVMTarget: s[4], AbiMode: abi,
				Tags: s[7], CompilerHash: s[8], LLVMVersion: s[9], CC: s[12],
				CCFLAGS: append([]string{levels[opt].Flag()}, ccrest...), CFLAGS: cflags, LDFLAGS: ldflags, Linker: s[16],
				ExtraFiles: addFiles(extra)}
		case strings.HasPrefix(tok, "P="):
			f := strings.Split(tok[2:], ";")
			if len(f) != 13 {
				return nil, fmt.Errorf("P: %d fields", len(f))
			}
			var p build.VerifPkg
			var err error
			if p.ID, err = unhex(f[0]); err != nil {
				return nil, err
			}
			if p.PkgPath, err = unhex(f[1]); err != nil {
				return nil, err
			}
			if p.Name, err = unhex(f[2]); err != nil {
				return nil, err
			}
			p.Kind = f[3]
			f = append(f[:3:3], f[4:]...) // the remaining fields keep their former positions
			p.ModKind = f[3]
			if p.ModVersion, err = unhex(f[4]); err != nil {
				return nil, err
			}
			gof, err := unfiles(f[5])
			if err != nil {
				return nil, err
			}
			p.GoFiles = addFiles(gof)
			p.HasAlt = f[6] != "!"
			alt, err := unfiles(f[6])
			if err != nil {
				return nil, err
			}
			p.AltFiles = addFiles(alt)
			oth, err := unfiles(f[7])
			if err != nil {
				return nil, err
			}
			p.OtherFiles = addFiles(oth)
			// f[8] side files, f[9] embed files: not inputs of collectFingerprint (that is the finding); they are
			// written to disk all the same
			for _, i := range []int{8, 9} {
				x, err := unfiles(f[i])
				if err != nil {
					return nil, err
				}
				addFiles(x)
			}
			if p.Rewrites, _, err = unkv(f[10]); err != nil {
				return nil, err
			}
			if p.Imports, err = unlist(f[11]); err != nil {
				return nil, err
			}
			r.pkgs = append(r.pkgs, p)
		default:
			return nil, fmt.Errorf("bad token")
		}
	}
	r.g.Overlay = r.overlay
	return r, nil
}

func sha(s string) string {
	h := sha256.Sum256([]byte(s))
	return hex.EncodeToString(h[:])
}

func handleKey(root string, n int, tokens []string) string {
	r, err := parseKey(tokens)
	if err != nil {
		return "bad-op " + err.Error()
	}
	dir := filepath.Join(root, strconv.Itoa(n))
	if err := os.MkdirAll(dir, 0o755); err != nil {
		return "err " + err.Error()
	}
	defer os.RemoveAll(dir)
	if err := os.Chdir(dir); err != nil {
		return "err " + err.Error()
	}
	for _, f := range r.files {
		if filepath.IsAbs(f.path) || strings.Contains(f.path, "..") {
			return "bad-op path"
		}
		os.MkdirAll(filepath.Dir(f.path), 0o755)
		if f.link {
			// the content lives in _lnk/<path>; <path> is a relative symbolic link to it (same link text, size and
			// mtime of the link itself in every request: only the target differs between two requests)
			target := filepath.Join("_lnk", f.path)
			os.MkdirAll(filepath.Dir(target), 0o755)
			if err := os.WriteFile(target, []byte(f.content), 0o644); err != nil {
				return "err " + err.Error()
			}
			rel, err := filepath.Rel(filepath.Dir(f.path), target)
			if err != nil {
				return "err " + err.Error()
			}
			os.Remove(f.path)
			if err := os.Symlink(rel, f.path); err != nil {
				return "err " + err.Error()
			}
			if err := lutimes(f.path, linkMtime); err != nil {
				return "err lutimes " + err.Error()
			}
		} else if err := os.WriteFile(f.path, []byte(f.content), 0o644); err != nil {
			return "err " + err.Error()
		}
		t := time.Unix(0, f.mtime)
		if err := os.Chtimes(f.path, t, t); err != nil { // follows the link: the target's mtime
			return "err " + err.Error()
		}
	}
	for _, k := range managedEnv {
		os.Unsetenv(k)
	}
	for k, v := range r.env {
		os.Setenv(k, v)
	}
	res, err := build.VerifCollect(r.g, r.pkgs)
	for k := range r.env {
		os.Unsetenv(k)
	}
	os.Chdir(root)
	if err != nil {
		return "err " + strings.ReplaceAll(err.Error(), "\n", " ")
	}
	var b strings.Builder
	b.WriteString("ok")
	for _, p := range r.pkgs {
		m := res[p.ID]
		canon := m.Canon
		// dependency fingerprints: name the dependency when the entry is sha256 (computed here, independently) of
		// that dependency's manifest text
		for _, q := range r.pkgs {
			mq := res[q.ID]
			if mq.Fingerprint == sha(mq.Text) {
				canon = strings.ReplaceAll(canon, ":"+mq.Fingerprint, ":@"+vhex(q.ID))
			}
		}
		// overlay hashes and (in trees that have them) content hashes: name the content when the entry is its sha256
		for _, c := range r.overlay {
			canon = strings.ReplaceAll(canon, "/"+sha(string(c)), "/#"+vhex(string(c)))
		}
		for _, f := range r.files {
			canon = strings.ReplaceAll(canon, "/"+sha(f.content), "/#"+vhex(f.content))
		}
		fpok := "1"
		if m.Fingerprint != sha(m.Text) {
			fpok = "0"
		}
		fmt.Fprintf(&b, " %s!%s!%s!%s", vhex(p.ID), m.Fingerprint, fpok, canon)
	}
	return b.String()
}

func protocol() {
	root, err := os.MkdirTemp("", "vp13-")
	if err != nil {
		panic(err)
	}
	defer os.RemoveAll(root)
	sc := bufio.NewScanner(os.Stdin)
	sc.Buffer(make([]byte, 1<<20), 1<<26)
	w := bufio.NewWriter(os.Stdout)
	defer w.Flush()
	n := 0
	for sc.Scan() {
		n++
		f := strings.Fields(sc.Text())
		out := "bad-op"
		switch {
		case len(f) == 1 && f[0] == "hello":
			out = fmt.Sprintf("ok gover=%s llgover=%s goos=%s goarch=%s", vhex(runtime.Version()), vhex(env.Version()), vhex(runtime.GOOS), vhex(runtime.GOARCH))
		case len(f) == 2 && f[0] == "use":
			i, err := strconv.Atoi(f[1])
			if err == nil && i >= 0 && i < len(levels) {
				exp, err := crosscompile.Use(runtime.GOOS, runtime.GOARCH, "", true, false, levels[i])
				if err != nil {
					out = "err " + err.Error()
				} else {
					l := make([]string, len(exp.CCFLAGS))
					for j, s := range exp.CCFLAGS {
						l[j] = vhex(s)
					}
					out = "ok " + strings.Join(l, ",")
				}
			}
		case len(f) == 6 && f[0] == "abitypes":
			// abitypes <n types> <seed> <reflect-usage mask, -1 = unfiltered> <repetitions> <shape bits: 1 map, 2 chan, 4 func>:
			// compile the same generated program <repetitions> times in this process and ask for the entry module's type list
			// as genMainModule does
			nT, e1 := strconv.Atoi(f[1])
			seed, e2 := strconv.Atoi(f[2])
			mask, e3 := strconv.Atoi(f[3])
			reps, e4 := strconv.Atoi(f[4])
			shapes, e5 := strconv.Atoi(f[5])
			if e1 != nil || e2 != nil || e3 != nil || e4 != nil || e5 != nil || reps < 2 {
				break
			}
			out = abiTypes(nT, seed, mask, reps, shapes)
		case (len(f) == 4 || len(f) == 5) && f[0] == "meta":
			// meta <needRt 0|1> <needPyInit 0|1> <link args list> [<archive bytes, hex>]: saveToCache then tryLoadFromCache,
			// print what comes back (and the sha256 of the archive file the second build would link)
			args, err := unlist(f[3])
			if err != nil {
				break
			}
			content := "!<arch>\n"
			if len(f) == 5 {
				if content, err = unhex(f[4]); err != nil {
					break
				}
			}
			ar := filepath.Join(root, "pkg.a")
			os.WriteFile(ar, []byte(content), 0o644)
			croot := filepath.Join(root, "cache-"+strconv.Itoa(n))
			hit, rt, py, got, gotAr, err := build.VerifMetaRoundTrip(croot, f[1] == "1", f[2] == "1", args, ar)
			arsum := "~"
			if b, e := os.ReadFile(gotAr); e == nil && gotAr != "" {
				arsum = sha(string(b))
			}
			os.RemoveAll(croot)
			if err != nil {
				out = "err " + err.Error()
				break
			}
			l := make([]string, len(got))
			for j, a := range got {
				l[j] = vhex(a)
			}
			ls := "."
			if len(l) > 0 {
				ls = strings.Join(l, ",")
			}
			out = fmt.Sprintf("ok hit=%v %s %s %s", hit, map[bool]string{true: "1", false: "0"}[rt], map[bool]string{true: "1", false: "0"}[py], ls)
			if len(f) == 5 {
				out += " " + arsum
			}
		case len(f) >= 3 && f[0] == "key":
			out = handleKey(root, n, f[1:])
		}
		fmt.Fprintln(w, out)
	}
}

var rtPkg *types.Package

func abiTypes(n, seed, mask, reps, shapes int) (res string) {
	defer func() {
		if r := recover(); r != nil {
			res = fmt.Sprintf("err panic: %v", r)
		}
	}()
	if rtPkg == nil {
		llssa.Initialize(llssa.InitAll)
		p, err := importer.For("source", nil).Import(llssa.PkgRuntime)
		if err != nil {
			return "err import runtime: " + strings.ReplaceAll(err.Error(), "\n", " ")
		}
		rtPkg = p
	}
	var filter func(sym *llssa.AbiSymbol) bool
	if mask >= 0 {
		filter = func(sym *llssa.AbiSymbol) bool { return build.VerifFilterAbiSymbol(mask, sym) }
	}
	// the descriptors listed by the entry module, in emission order (LLVM prints plain names bare, others quoted)
	nameRe := regexp.MustCompile(`ptr @(?:"([^"]+)"|([-a-zA-Z$._0-9]+))`)
	order := func(ir string) string {
		for _, line := range strings.Split(ir, "\n") {
			if strings.HasPrefix(line, `@"init$abitypes$array" =`) {
				var names []string
				for _, m := range nameRe.FindAllStringSubmatch(line[len(`@"init$abitypes$array" =`):], -1) {
					names = append(names, vhex(m[1]+m[2]))
				}
				if len(names) == 0 {
					return "."
				}
				return strings.Join(names, ",")
			}
		}
		return "."
	}
	// the symbol table as one `range` delivered it + the filter's verdict: the input of the Lean model abiTypeNames
	symList := func(syms []llssa.VerifSym) (string, int) {
		sel := 0
		l := make([]string, len(syms))
		for i, s := range syms {
			b := "0"
			if s.Selected {
				b = "1"
				sel++
			}
			l[i] = vhex(s.Name) + ":" + b
		}
		if len(l) == 0 {
			return ".", 0
		}
		return strings.Join(l, ","), sel
	}
	first, firstUser, syms := llssa.VerifEntryModule(rtPkg, n, seed, shapes, filter)
	sl, selected := symList(syms)
	for i := 2; i <= reps; i++ {
		again, againUser, _ := llssa.VerifEntryModule(rtPkg, n, seed, shapes, filter)
		if again != first {
			return fmt.Sprintf("differs entry build=%d selected=%d %s %s syms=%s", i, selected, order(first), order(again), sl)
		}
		if againUser != firstUser {
			return fmt.Sprintf("differs user build=%d selected=%d . . syms=%s", i, selected, sl)
		}
	}
	return fmt.Sprintf("ok selected=%d entry=%d user=%d sha=%s order=%s syms=%s", selected, len(first), len(firstUser), sha(first + firstUser)[:16], order(first), sl)
}

type xflags []string

func (x *xflags) String() string     { return strings.Join(*x, " ") }
func (x *xflags) Set(s string) error { *x = append(*x, s); return nil }

func doBuild(args []string) {
	fs := flag.NewFlagSet("build", flag.ExitOnError)
	tags := fs.String("tags", "", "")
	out := fs.String("o", "", "")
	opt := fs.String("O", "", "")
	abi := fs.Int("abi", 2, "")
	genll := fs.Bool("gen-llfiles", false, "")
	force := fs.Bool("a", false, "")
	var xs xflags
	fs.Var(&xs, "X", "importpath.name=value")
	fs.Parse(args)
	conf := build.NewDefaultConf(build.ModeBuild)
	// cmd/internal/flags UpdateConfig
	conf.CompilerHash = compilerhash.Value()
	conf.Tags = *tags
	if *opt != "" {
		l, err := optlevel.Parse(*opt)
		if err != nil {
			fmt.Fprintln(os.Stderr, err)
			os.Exit(2)
		}
		conf.OptLevel = l
	}
	conf.AbiMode = build.AbiMode(*abi)
	conf.GenLL = *genll
	conf.ForceRebuild = *force
	conf.OutFile = *out
	for _, x := range xs {
		eq := strings.Index(x, "=")
		if eq < 0 {
			fmt.Fprintln(os.Stderr, "bad -X")
			os.Exit(2)
		}
		dot := strings.LastIndex(x[:eq], ".")
		if dot < 0 {
			fmt.Fprintln(os.Stderr, "bad -X")
			os.Exit(2)
		}
		pkg, name, val := x[:dot], x[dot+1:eq], x[eq+1:]
		if conf.GlobalRewrites == nil {
			conf.GlobalRewrites = map[string]build.Rewrites{}
		}
		if conf.GlobalRewrites[pkg] == nil {
			conf.GlobalRewrites[pkg] = build.Rewrites{}
		}
		conf.GlobalRewrites[pkg][name] = val
	}
	pkgs, err := build.Do(fs.Args(), conf)
	if err != nil {
		fmt.Fprintln(os.Stderr, err)
		os.Exit(1)
	}
	// what the build ended up with per package: metadata recomputed by the compiler (cache miss) or read back from the
	// cache manifest (cache hit).  One line per package: path, hit, need_rt, need_pyinit, link args (hex list)
	if mo := os.Getenv("VERIF_META_OUT"); mo != "" {
		var b strings.Builder
		for _, p := range pkgs {
			if p == nil || p.Package == nil {
				continue
			}
			l := make([]string, len(p.LinkArgs))
			for j, a := range p.LinkArgs {
				l[j] = vhex(a)
			}
			ls := "."
			if len(l) > 0 {
				ls = strings.Join(l, ",")
			}
			fmt.Fprintf(&b, "%s %v %v %v %s\n", p.PkgPath, p.CacheHit, p.NeedRt, p.NeedPyInit, ls)
		}
		os.WriteFile(mo, []byte(b.String()), 0o644)
	}
}

func main() {
	if len(os.Args) > 1 && os.Args[1] == "build" {
		doBuild(os.Args[2:])
		return
	}
	protocol()
}
