"""Reads llgo's emitted run-time type descriptors back from -O0 LLVM IR text (tie A for C15 / C07).

`parse(irtext)` -> {symbol: {"kind", "tflag", "size", "str", "uncommon": None | {"pkgpath","mcount","xcount","methods":[(name, ftype symbol)]},
                             "fields": None | [(name, type symbol, offset, tag, embedded)], "imethods": None | [(name, ftype symbol)],
                             "pkgpath": struct / interface PkgPath_ or None,
                             "ptrtothis": symbol of the descriptor PtrToThis_ points to | None (null) | "?", "elem": PtrType.Elem symbol | None}}
Only what ssa/abitype.go writes as constant initialisers is read; nothing is inferred."""
import re

SYM = r'@(?:"(?:[^"\\]|\\.)*"|[\w.$-]+)'
STRING = r'%"github\.com/goplus/llgo/runtime/internal/runtime\.String" (?:\{ ptr (' + SYM + r'), i64 (\d+) \}|(zeroinitializer))'


def unq(sym):
    s = sym[1:]
    if s.startswith('"'):
        s = s[1:-1]
        s = re.sub(r'\\([0-9A-Fa-f]{2})', lambda m: chr(int(m.group(1), 16)), s)
    return s


def cstring(body):
    out = bytearray()
    i = 0
    while i < len(body):
        if body[i] == '\\' and body[i + 1] == '\\':
            out.append(0x5c)
            i += 2
        elif body[i] == '\\':
            out.append(int(body[i + 1:i + 3], 16))
            i += 3
        else:
            out += body[i].encode()
            i += 1
    return bytes(out)


def parse(text):
    strings = {}
    for m in re.finditer(r'^(' + SYM + r') = private unnamed_addr constant \[(\d+) x i8\] c"((?:[^"\\]|\\[0-9A-Fa-f]{2}|\\\\)*)"', text, re.M):
        strings[m.group(1)] = cstring(m.group(3))

    def sval(m, g):
        """value of a String match whose groups start at g"""
        if m.group(g + 2):
            return b""
        data = strings.get(m.group(g))
        n = int(m.group(g + 1))
        return None if data is None else data[:n]

    globs = {}
    for m in re.finditer(r'^(' + SYM + r') = (?:weak_odr |linkonce_odr |private |internal )*(?:unnamed_addr )?(?:constant|global) (.*)$', text, re.M):
        globs[unq(m.group(1))] = m.group(2)

    method_re = re.compile(r'%"github\.com/goplus/llgo/runtime/abi\.Method" \{ ' + STRING + r', ptr (?:getelementptr inbounds \([^()]*?, ptr (' + SYM + r'), i32 0, i32 0\)|null), ptr (' + SYM + r'|null), ptr (' + SYM + r'|null) \}')
    imethod_re = re.compile(r'%"github\.com/goplus/llgo/runtime/abi\.Imethod" \{ ' + STRING + r', ptr getelementptr inbounds \([^()]*?, ptr (' + SYM + r'), i32 0, i32 0\) \}')
    field_re = re.compile(r'%"github\.com/goplus/llgo/runtime/abi\.StructField" \{ ' + STRING + r', ptr getelementptr inbounds \((?:[^()]|\([^()]*\))*?, ptr (' + SYM + r'), i32 0, i32 0\), i64 (\d+), ' + STRING + r', i1 (true|false) \}')
    type_re = re.compile(r'%"github\.com/goplus/llgo/runtime/abi\.Type" \{ i64 (\d+), i64 (\d+), i32 (-?\d+), i8 (\d+), i8 (\d+), i8 (\d+), i8 (\d+), ')
    unc_re = re.compile(r'%"github\.com/goplus/llgo/runtime/abi\.UncommonType" \{ ' + STRING + r', i16 (\d+), i16 (\d+), i32 (\d+) \}')
    ptr_re = re.compile(r', ptr (null|getelementptr inbounds \([^()]*?, ptr (' + SYM + r'), i32 0, i32 0\)) \}')
    elem_re = re.compile(r', ptr getelementptr inbounds \([^()]*?, ptr (' + SYM + r'), i32 0, i32 0\) \}')
    slice_re = re.compile(STRING + r', %"github\.com/goplus/llgo/runtime/internal/runtime\.Slice" (?:\{ ptr (' + SYM + r'), i64 (\d+), i64 (\d+) \}|zeroinitializer)')

    def table(sym, rx, build):
        init = globs.get(sym)
        if init is None:
            return None
        return [build(m) for m in rx.finditer(init)]

    out = {}
    for name, init in globs.items():
        tm = type_re.search(init)
        if not tm or name.endswith("$fields") or name.endswith("$imethods") or name.endswith("$in") or name.endswith("$out"):
            continue
        d = {"size": int(tm.group(1)), "tflag": int(tm.group(4)), "kind": int(tm.group(7)) & 31, "kindbyte": int(tm.group(7)),
             "align": int(tm.group(5)), "fieldalign": int(tm.group(6)),
             # Equal func(unsafe.Pointer, unsafe.Pointer) bool follows the kind byte: a null closure = not comparable
             "equal": not init[tm.end():].startswith("{ ptr, ptr } zeroinitializer"),
             "uncommon": None, "fields": None, "imethods": None, "pkgpath": None}
        # Str_ is the first String after the common header's Equal/GCData
        sm = re.compile(STRING).search(init, tm.end())
        d["str"] = sval(sm, 1) if sm else None
        rest_from = sm.end() if sm else tm.end()
        # PtrToThis_ *Type follows Str_ and closes the common header; for kind Pointer the PtrType's Elem follows the header.
        # "ptrtothis": symbol | None (null) | "?" (not read); "elem": symbol | None (not a pointer / not read)
        d["ptrtothis"], d["elem"] = "?", None
        pm = ptr_re.match(init, rest_from) if sm else None
        if pm:
            d["ptrtothis"] = unq(pm.group(2)) if pm.group(2) else None
            if d["kind"] == 22:
                em = elem_re.match(init, pm.end())
                if em:
                    d["elem"] = unq(em.group(1))
        um = unc_re.search(init, rest_from)
        if um:
            ms = []
            for mm in method_re.finditer(init, um.end()):
                ms.append((sval(mm, 1), unq(mm.group(4)) if mm.group(4) else None))
            d["uncommon"] = {"pkgpath": sval(um, 1), "mcount": int(um.group(4)), "xcount": int(um.group(5)), "methods": ms}
        # struct / interface extension: String pkgpath + Slice{ptr @sym$fields|$imethods}
        for xm in slice_re.finditer(init, rest_from, um.start() if um else len(init)):
            ref = unq(xm.group(4)) if xm.group(4) else None
            if d["kind"] == 25 and (ref is None or ref.endswith("$fields")):
                d["pkgpath"] = sval(xm, 1)
                d["fields"] = [] if ref is None else table(ref, field_re, lambda f: (sval(f, 1), unq(f.group(4)), int(f.group(5)), sval(f, 6), f.group(9) == "true"))
                break
            if d["kind"] == 20 and (ref is None or ref.endswith("$imethods")):
                d["pkgpath"] = sval(xm, 1)
                d["imethods"] = [] if ref is None else table(ref, imethod_re, lambda f: (sval(f, 1), unq(f.group(4))))
                break
        out[name] = d
    return out
