// Command vp04 reports, for the files of a generated Go package (first file = the layouts), how llgo's compiler classifies every defer
// statement: it builds go/ssa exactly as internal/build does (SanityCheckFunctions|InstantiateGenerics),
// calls the REAL cl/blocks.Infos on each function's blocks, and walks the blocks in the same order as
// cl/compile.go (Info.Next chain), which is the order in which ssa/eh.go numbers defer ids and bits.
//
// Output, one line per defer instruction:
//
//	D <fnline> <order> <line> <kind> <clo> <nargs>      (only for defers of the FIRST file)
//
// fnline = source line of the enclosing function (declaration or func literal), order = index of the
// defer in compile order within that function, line = source line of the defer statement,
// kind = always|cond|loop (llssa.DeferAlways/DeferInCond/DeferInLoop), clo = 1 when the callee is a
// closure value (ssa.MakeClosure or any non-static callee), nargs = number of call arguments.
package main

import (
	"bufio"
	"fmt"
	"go/ast"
	"go/parser"
	"go/token"
	"go/types"
	"os"

	"github.com/goplus/llgo/cl/blocks"
	llssa "github.com/goplus/llgo/ssa"
	"golang.org/x/tools/go/ssa"
)

type unsafeOnly struct{}

func (unsafeOnly) Import(path string) (*types.Package, error) {
	if path == "unsafe" {
		return types.Unsafe, nil
	}
	return nil, fmt.Errorf("import %q not available in the kinds harness", path)
}

func main() {
	if len(os.Args) < 2 {
		fmt.Fprintln(os.Stderr, "usage: vp04 file.go...")
		os.Exit(2)
	}
	fset := token.NewFileSet()
	var files []*ast.File
	for _, name := range os.Args[1:] {
		f, err := parser.ParseFile(fset, name, nil, parser.ParseComments)
		if err != nil {
			fmt.Fprintln(os.Stderr, err)
			os.Exit(1)
		}
		files = append(files, f)
	}
	info := &types.Info{
		Types: map[ast.Expr]types.TypeAndValue{}, Defs: map[*ast.Ident]types.Object{}, Uses: map[*ast.Ident]types.Object{},
		Implicits: map[ast.Node]types.Object{}, Scopes: map[ast.Node]*types.Scope{}, Selections: map[*ast.SelectorExpr]*types.Selection{},
		Instances: map[*ast.Ident]types.Instance{}, FileVersions: map[*ast.File]string{},
	}
	conf := types.Config{Importer: unsafeOnly{}, GoVersion: "go1.24"}
	pkg, err := conf.Check("main", fset, files, info)
	if err != nil {
		fmt.Fprintln(os.Stderr, err)
		os.Exit(1)
	}
	prog := ssa.NewProgram(fset, ssa.SanityCheckFunctions|ssa.InstantiateGenerics)
	prog.CreatePackage(types.Unsafe, nil, nil, true)
	sp := prog.CreatePackage(pkg, files, info, true)
	sp.Build()
	w := bufio.NewWriter(os.Stdout)
	defer w.Flush()
	var visit func(fn *ssa.Function)
	visit = func(fn *ssa.Function) {
		if len(fn.Blocks) > 0 {
			report(w, fset, fn)
		}
		for _, af := range fn.AnonFuncs {
			visit(af)
		}
	}
	for _, m := range sp.Members {
		if fn, ok := m.(*ssa.Function); ok {
			visit(fn)
		}
	}
}

func kindName(k llssa.DoAction) string {
	switch k {
	case llssa.DeferAlways:
		return "always"
	case llssa.DeferInCond:
		return "cond"
	case llssa.DeferInLoop:
		return "loop"
	}
	return fmt.Sprint("kind", int(k))
}

func report(w *bufio.Writer, fset *token.FileSet, fn *ssa.Function) {
	has := false
	for _, b := range fn.Blocks {
		for _, in := range b.Instrs {
			if _, ok := in.(*ssa.Defer); ok {
				has = true
			}
		}
	}
	if !has {
		return
	}
	infos := blocks.Infos(fn.Blocks)
	fnline := fset.Position(fn.Pos()).Line
	order := 0
	for i := 0; i >= 0; i = infos[i].Next {
		for _, in := range fn.Blocks[i].Instrs {
			d, ok := in.(*ssa.Defer)
			if !ok {
				continue
			}
			clo := 1
			if _, static := d.Call.Value.(*ssa.Function); static && d.Call.Method == nil {
				clo = 0
			}
			if _, bi := d.Call.Value.(*ssa.Builtin); bi {
				clo = 0
			}
			if fset.Position(d.Pos()).Filename != os.Args[1] {
				continue
			}
			fmt.Fprintf(w, "D %d %d %d %s %d %d\n", fnline, order, fset.Position(d.Pos()).Line, kindName(infos[i].Kind), clo, len(d.Call.Args))
			order++
		}
	}
}
