import LlgoVerif.Model.CAbiCall
/-!
# C09 — executable model of the cgo conversion helpers (`runtime/internal/runtime/z_cgo.go`)

`C.CString`, `C.CBytes`, `C.GoString`, `C.GoStringN`, `C.GoBytes` are lowered by `cl/instr.go` (`_Cfunc_GoString` …)
to the functions of `/repo/runtime/internal/runtime/z_cgo.go`; `c.GoString(p[, n])` of `github.com/goplus/lib/c`
(`llgo.string`) to `StringFromCStr` / `StringFrom` of `z_string.go`.  cgo's contract (cmd/cgo: "these functions
convert between Go and C types **by making copies of the data**") is what keeps a converted value intact when
the other side later reuses, overwrites or frees its buffer — that is the part of the property this file is about.

One flat memory of byte cells (`CAbiCall.Cells`, a cell holds a `Nat`; NUL is `0`) with an allocation frontier `brk`:
every object handed out so far (by `malloc` or by the Go allocator) lies below it and a new object is carved off
at `brk`.  A Go string is its header `(data, len)`, a Go slice `(data, len, cap)` — so that *aliasing is expressible*.

`CopyCfg` names, per function, whether the result is a fresh copy (`copy`) or points into the source buffer (`alias`):

* `GoStringN`/`GoString`: `string((*[1<<30]byte)(p)[:n:n])` — the conversion `string([]byte)` allocates and copies: `copy`
  (`alias` = `unsafe.String(p, n)`, NOT the current code, kept for the counterexample);
* `GoBytes`: the code before "fix: C.GoBytes returns a copy" returned `(*[1<<30]byte)(p)[:n:n]` itself: `alias`;
  with the fix `copy`.  The check determines which of the two the tree implements (likewise for the `len(b) > 0`
  guard of `CBytes`).

Core Lean only.
-/
namespace LlgoVerif.CgoStr
open LlgoVerif.CAbiCall

structure Heap where
  mem : Cells
  brk : Nat        -- allocation frontier

/-- `malloc` / `AllocU`: a new object of `n` cells (dirty contents) -/
def Heap.alloc (s : Heap) (n : Nat) : Nat × Heap := (s.brk, { s with brk := s.brk + n })

/-- `c.Strlen(p)`: distance to the first NUL; `fuel` bounds the search (`none`: ran off the allocated memory) -/
def strlenB (m : Cells) (p : Nat) : Nat → Option Nat
  | 0 => none
  | fuel + 1 => if m p = 0 then some 0 else (strlenB m (p + 1) fuel).map (· + 1)

inductive CopyCfg where
  | copy | alias
deriving DecidableEq, Repr

/-- a Go string header -/
structure GoStr where
  data : Nat
  len : Nat
deriving DecidableEq, Repr

/-- a Go slice header -/
structure GoSlice where
  data : Nat
  len : Nat
  cap : Nat
deriving DecidableEq, Repr

/-- the bytes a string header denotes NOW -/
def Heap.str (s : Heap) (h : GoStr) : List Nat := readCells s.mem h.data h.len

def Heap.slice (s : Heap) (h : GoSlice) : List Nat := readCells s.mem h.data h.len

/-- `GoStringN(p, n)`: `if n <= 0 { return "" }; return string((*[1 << 30]byte)(unsafe.Pointer(p))[:n:n])` -/
def goStringN (cfg : CopyCfg) (s : Heap) (p : Nat) (n : Int) : GoStr × Heap :=
  if n ≤ 0 then (⟨0, 0⟩, s)
  else
    match cfg with
    | .copy => (⟨s.brk, n.toNat⟩, ⟨writeCells s.mem s.brk (readCells s.mem p n.toNat), s.brk + n.toNat⟩)
    | .alias => (⟨p, n.toNat⟩, s)

/-- `GoString(p)`: `if p == nil { return "" }; return GoStringN(p, int(c.Strlen(p)))` -/
def goString (cfg : CopyCfg) (s : Heap) (p : Nat) : Option (GoStr × Heap) :=
  if p = 0 then some (⟨0, 0⟩, s)
  else
    match strlenB s.mem p (s.brk - p) with
    | none => none
    | some n => some (goStringN cfg s p n)

/-- `GoBytes(p, n)` -/
def goBytes (cfg : CopyCfg) (s : Heap) (p : Nat) (n : Nat) : GoSlice × Heap :=
  match cfg with
  | .copy => (⟨s.brk, n, n⟩, ⟨writeCells s.mem s.brk (readCells s.mem p n), s.brk + n⟩)
  | .alias => (⟨p, n, n⟩, s)

/-- `CString(s)`: `p := c.Malloc(len(s)+1); CStrCopy(p, s)` (`Memcpy` + terminating NUL) -/
def cString (s : Heap) (h : GoStr) : Nat × Heap :=
  (s.brk, ⟨writeCells (writeCells s.mem s.brk (readCells s.mem h.data h.len)) (s.brk + h.len) [0], s.brk + h.len + 1⟩)

/-- `CBytes(b)`: `p := c.Malloc(len(b)); c.Memcpy(p, unsafe.Pointer(&b[0]), len(b))`.  `&b[0]` of an empty slice panics
    (index out of range): `none`, unless the copy is guarded by `len(b) > 0` (`guard`; "fix: C.CBytes of an empty slice") -/
def cBytes (guard : Bool) (s : Heap) (h : GoSlice) : Option (Nat × Heap) :=
  if h.len = 0 ∧ guard = false then none
  else some (s.brk, ⟨writeCells s.mem s.brk (readCells s.mem h.data h.len), s.brk + h.len⟩)

/-- what the other side does afterwards: arbitrary stores -/
def applyWrites (m : Cells) : List (Nat × Nat) → Cells
  | [] => m
  | w :: r => applyWrites (m.set w.1 w.2) r

/-- later stores avoid the `n` cells allocated at `brk` (the Go allocator's object is not C's to write) -/
def Avoids (brk n : Nat) (ws : List (Nat × Nat)) : Prop := ∀ w ∈ ws, w.1 < brk ∨ brk + n ≤ w.1

instance (brk n : Nat) (ws : List (Nat × Nat)) : Decidable (Avoids brk n ws) := by unfold Avoids; infer_instance

end LlgoVerif.CgoStr
