"""C05, end-to-end route (B-E): an interpreter program (harness/c05/e2e_main.go.txt, the script embedded as a constant)
is compiled by llgo — built from the working tree — at -O0 and -O2, and by the Go toolchain as the reference.
The llgo binaries' outputs are (1) compared line by line with the Lean model, (2) judged against Go's slice semantics
(GoRef, capacity growth read from the output), (3) compared with the Go-built binary on everything Go fixes
(all string operations; slice lines of the Go-built binary must themselves pass GoRef — a validation of the spec)."""
import os
import re

from vlib.common import *
from vlib import e2e
from checks import c05 as C

H = os.path.join(VERIF, "harness", "c05")


def instantiate_template():
    src = open(os.path.join(H, "e2e_main.go.txt")).read()
    a, rest = src.split("//@TYPE-BEGIN\n", 1)
    body, b = rest.split("//@TYPE-END\n", 1)
    out = a
    for n in C.ESIZES:
        out += body.replace("@N@", str(n))
    out += b
    a, rest = out.split("//@INT-BEGIN\n", 1)
    body, b = rest.split("//@INT-END\n", 1)
    # unsafe.String with a length operand narrower than int does not compile on the unchanged tree (the backend aborts:
    # ssa/expr.go passes the operand unconverted); that case lives in a separate probe program (ustr_probe below)
    narrow_body = re.sub(r'\tcase "ustr":\n.*?\tcase "cp":', '\tcase "cp":', body, flags=re.S)
    out = a + "".join((body if INT_TYPES[t][0] == 64 else narrow_body).replace("@T@", t) for t in INT_TYPES) + b
    out = out.replace("//@INT-DISPATCH", "\n\t".join('case "%s":\n\t\treturn typed_%s(f)' % (t, t) for t in INT_TYPES))
    out = out.replace("//@RESET-ALL", "\n\t\t".join("reset%d()" % n for n in C.ESIZES))
    out = out.replace("//@DISPATCH", "\n\t\t".join("case %d:\n\t\t\treturn handle%d(f)" % (n, n) for n in C.ESIZES))
    return out


INT_TYPES = {"int8": (8, True), "int16": (16, True), "int32": (32, True), "int64": (64, True), "int": (64, True),
             "uint8": (8, False), "uint16": (16, False), "uint32": (32, False), "uint64": (64, False), "uint": (64, False),
             "uintptr": (64, False)}
B_LEN, B_CAP, Z_LEN, Z_CAP = 40000, 70000, 3000000000, 4300000000


def typed_values(t, limit):
    """boundary values of integer type t that are interesting as a bound: top bit set for narrow unsigned types,
    negatives for signed ones, both ends of the range; `limit` caps what is useful for the base in question"""
    w, signed = INT_TYPES[t]
    if signed:
        vs = [0, 1, 2, 5, 100, (1 << (w - 1)) - 1, (1 << (w - 1)) - 2, -1, -5, -(1 << (w - 1))]
    else:
        vs = [0, 1, 2, 5, 100, (1 << (w - 1)) - 1, 1 << (w - 1), (1 << (w - 1)) + 5, (1 << w) - 56, (1 << w) - 1]
    vs += [limit, limit - 1, limit + 1, limit // 2]
    lo, hi = (-(1 << (w - 1)), (1 << (w - 1)) - 1) if signed else (0, (1 << w) - 1)
    return sorted(set(v for v in vs if lo <= v <= hi))


def gen_typed_lines(rng, quick):
    """`ty <type> <kind> a b c` lines: slice bounds, make len/cap, copy/append counts, unsafe.Slice/String lengths with
    operands of every integer type.  Everything here is fixed by the Go spec: judged against the Go-built program."""
    ls = []
    for t in INT_TYPES:
        vb = typed_values(t, B_CAP)
        vl = typed_values(t, B_LEN)
        vz = typed_values(t, Z_CAP) + [v for v in typed_values(t, Z_LEN) if v > 0]

        def tri(vals, n):
            out = []
            for _ in range(n):
                x = sorted(rng.choice(vals) for _ in range(3))
                if rng.random() < 0.2:
                    rng.shuffle(x)
                out.append(x)
            return out
        # every single value as each kind of bound (this is where a wrong extension shows)
        for v in vb:
            ls.append("ty %s relo %d" % (t, v))
            ls.append("ty %s rehi 0 %d" % (t, v))
            ls.append("ty %s rehi3 0 %d %d" % (t, v, v))
            ls.append("ty %s re3 %d %d %d" % (t, v, v, v))
            ls.append("ty %s srelo %d" % (t, v))
            ls.append("ty %s srehi 0 %d" % (t, v))
            if v <= B_CAP:
                ls.append("ty %s mk1 %d" % (t, v))
                ls.append("ty %s mk2 %d %d" % (t, min(v, 3) if v >= 0 else v, v))
                ls.append("ty %s mk2 %d %d" % (t, v, B_CAP if INT_TYPES[t][0] > 16 else v))
                ls.append("ty %s cp %d %d" % (t, v, max(0, v // 2)))
                if v <= B_LEN:
                    ls.append("ty %s ap %d" % (t, v))
                if v >= 0:          # negative / oversized lengths of unsafe.Slice are C03's subject (mandated panic)
                    ls.append("ty %s us %d" % (t, v))
                    if INT_TYPES[t][0] == 64:
                        ls.append("ty %s ustr %d" % (t, v))
        for v in vz:
            ls.append("ty %s zrelo %d" % (t, v))
            ls.append("ty %s zrehi 0 %d" % (t, v))
            ls.append("ty %s zre3 %d %d %d" % (t, v, v, v))
            ls.append("ty %s zmk1 %d" % (t, v))
            ls.append("ty %s zmk2 %d %d" % (t, min(v, 7) if v >= 0 else v, v))
        for (a, b, c) in tri(vb + vl, 12 if quick else 120):
            ls.append("ty %s re3 %d %d %d" % (t, a, b, c))
            ls.append("ty %s re2 %d %d" % (t, a, b))
            ls.append("ty %s sre2 %d %d" % (t, a, b))
        for (a, b, c) in tri(vz, 8 if quick else 80):
            ls.append("ty %s zre3 %d %d %d" % (t, a, b, c))
            ls.append("ty %s zre2 %d %d" % (t, a, b))
    return ls


def go_quote(s):
    return '"' + s.replace("\\", "\\\\").replace('"', '\\"').replace("\n", "\\n") + '"'


def parse_out(stderr, n):
    got = {}
    done = None
    for line in stderr.split("\n"):
        m = re.match(r"^@(\d+) (.*)$", line)
        if m:
            got[int(m.group(1))] = m.group(2)
        elif line.startswith("@done "):
            done = int(line[6:])
    if done != n or len(got) != n:
        return None, "program printed %d of %d answers (done=%s); tail: %s" % (len(got), n, done, stderr[-600:])
    return [got[i] for i in range(n)], None


SWITCH_CASES = {b"a\x00b": 1, b"a\x00c": 2, b"a": 3, b"a\x00": 4, b"\x80": 5, b"\xff": 6, b"": 7, b"\x00": 8, b"ab": 9}


def keyed_only_lines():
    """switch and map on strings with embedded NUL / high bytes (e2e only; Python expectation + Go-built binary)"""
    out = []
    keys = sorted(set(list(SWITCH_CASES) + [b"a\x00d", b"b", b"\x00\x00", b"\x7f", b"a\x00b\x00", b"abc"]))
    for kx in keys:
        out.append(("swi %s" % hexs(kx), "ok %d" % SWITCH_CASES.get(kx, 0)))
    for a, b in C.ORDER_PAIRS:
        out.append(("mapk %s %s" % (hexs(a), hexs(b)), "ok len=%d a=%d b=2" % ((1, 2) if a == b else (2, 1))))
    return out


def gen_e2e_only(rng):
    a, b = C.rbytes(rng, 4), C.rbytes(rng, 4)
    if rng.random() < 0.5:
        return "apps %s %s" % (hexs(a), hexs(b)), "ok " + hexs(a + b)
    n = min(len(a), len(b))
    return "cps %s %s" % (hexs(a), hexs(b)), "ok n=%d %s" % (n, hexs(b[:n] + a[n:]))


KEY_USTR = "unsafe.String:narrow-length-operand"


def ustr_probe(ctx):
    """unsafe.String(p, n) with n of a type narrower than int: one small program, -O0, against the Go toolchain"""
    d = os.path.join(ctx.scratch, "e2e-c05-ustr")
    e2e.write_module(d, {"main.go": open(os.path.join(H, "ustr_probe.go.txt")).read()})
    refbin = os.path.join(d, "ref.bin")
    p = e2e.go_run_reference(ctx, d, refbin)
    if p.returncode != 0:
        raise RuntimeError("ustr probe does not build with the Go toolchain: " + (p.stdout + p.stderr)[-800:])
    want = [l for l in e2e.run_prog(refbin)[1].split("\n") if l.startswith("@")]
    out_bin = os.path.join(d, "probe.bin")
    p = e2e.llgo_build(ctx, d, out_bin, opt="-O0")
    if p.returncode != 0 or not os.path.exists(out_bin):
        msg = (p.stdout + p.stderr)
        first = next((l for l in msg.split("\n") if "ERROR" in l or "error" in l), msg[:200])
        ctx.report(KEY_USTR, "llgo cannot compile unsafe.String(p, n) when n has an integer type narrower than int: " + first.strip()[:200],
                   {"program": "harness/c05/ustr_probe.go.txt", "llgo_build_rc": p.returncode, "first_error_line": first.strip()[:300], "go": want})
        return {"ustr_probe": "llgo build failed"}
    got = [l for l in e2e.run_prog(out_bin)[1].split("\n") if l.startswith("@")]
    if got != want:
        diff = [(a, b) for a, b in zip(got, want) if a != b][:5]
        ctx.report("e2e-O0:unsafe.String:narrow:%s" % (diff[0][1] if diff else "output-truncated"),
                   "unsafe.String with a narrow length operand: llgo prints %s, Go toolchain %s" % (got, want), {"llgo": got, "go": want})
        return {"ustr_probe": "differs"}
    return {"ustr_probe": "agrees with Go (%d cases)" % (len(want) - 1)}


def grow_probe(ctx):
    """append beyond the int range (zero-size elements) and copy/share behaviour of the conversions: one small program, -O0,
    against the Go toolchain (the end-to-end replay of Lean's growSlice64_len_overflow_counterexample)"""
    from vlib import c05_grow as G
    d = os.path.join(ctx.scratch, "e2e-c05-grow")
    e2e.write_module(d, {"main.go": open(os.path.join(H, "grow_probe.go.txt")).read()})
    refbin = os.path.join(d, "ref.bin")
    p = e2e.go_run_reference(ctx, d, refbin)
    if p.returncode != 0:
        raise RuntimeError("grow probe does not build with the Go toolchain: " + (p.stdout + p.stderr)[-800:])
    want = [l for l in e2e.run_prog(refbin)[1].split("\n") if l.startswith("@")]
    if not want or want[-1] != "@done":
        raise RuntimeError("grow probe: the Go-built reference did not finish: %s" % want)
    out_bin = os.path.join(d, "probe.bin")
    p = e2e.llgo_build(ctx, d, out_bin, opt="-O0")
    if p.returncode != 0 or not os.path.exists(out_bin):
        raise HarnessBuildError("llgo build of harness/c05/grow_probe.go.txt failed:\n" + (p.stdout + p.stderr)[-2000:])
    got = [l for l in e2e.run_prog(out_bin)[1].split("\n") if l.startswith("@")]
    diff = [(a, b) for a, b in zip(got + ["<missing>"] * len(want), want) if a != b]
    ovf = [x for x in diff if x[1].split()[0] in ("@zs-double", "@zs-one", "@arr0-double")]
    rest = [x for x in diff if x not in ovf]
    if ovf:
        ctx.report(G.KEY_LENOVF, "compiled by llgo, `s := make([]struct{}, 1<<62); s = append(s, s...)` prints `%s`, Go toolchain `%s`" % ovf[0],
                   {"program": "harness/c05/grow_probe.go.txt", "llgo": got, "go": want})
    if rest:
        ctx.report("e2e-O0:grow-probe:%s" % rest[0][1], "conversions copy / slicing shares / append near the int limit: llgo prints `%s`, Go toolchain `%s`" % rest[0],
                   {"program": "harness/c05/grow_probe.go.txt", "llgo": got, "go": want})
    return {"grow_probe": "agrees with Go (%d lines)" % len(want) if not diff else "differs on %d lines" % len(diff)}


def run_e2e(ctx, rng, quick):
    e2e.build_llgo(ctx)
    ctx.log("e2e: llgo built from the working tree")
    probe_cov = ustr_probe(ctx)
    probe_cov.update(grow_probe(ctx))
    # ---- one script for everything
    scripts = [("e2e-witness-zero", ["reset", "nil r0 0", "mk r1 1 1 0 0", "app r2 r0 r1 -"]),
               ("e2e-witness-overlap", ["reset", "mk r0 4 4 1 7", "appself r1 r0 1 2 -"])]
    target = 3000 if quick else 40000
    total, i = 0, 0
    while total < target:
        s = C.gen_slice_script(rng, esz=C.ESIZES[i % len(C.ESIZES)])
        # the e2e program allocates for real: keep impossible sizes out (llgo's nogc allocator would be asked for them
        # only if MakeSlice's own check failed, which the native route already covers)
        s = [l for l in s if not (l.startswith("mk ") and (int(l.split()[3]) > (1 << 20)))]
        scripts.append(("e2e-%d" % i, s))
        total += len(s)
        i += 1
    string_lines = C.order_pair_lines() + [C.gen_string_line(rng) for _ in range(1500 if quick else 20000)]
    string_lines = [l for l in string_lines if not l.startswith("dec ")]     # decoderune is not callable from Go
    only = keyed_only_lines() + [gen_e2e_only(rng) for _ in range(200 if quick else 2000)]
    flat = [l for _, ls in scripts for l in ls] + ["reset"] + string_lines
    typed = gen_typed_lines(rng, quick)
    all_lines = flat + [l for l, _ in only] + typed
    d = os.path.join(ctx.scratch, "e2e-c05")
    e2e.write_module(d, {"main.go": instantiate_template(),
                         "script.go": "package main\n\nconst script = " + go_quote("\n".join(all_lines)) + "\n"})
    # ---- reference: the Go toolchain
    refbin = os.path.join(d, "ref.bin")
    p = e2e.go_run_reference(ctx, d, refbin)
    if p.returncode != 0:
        raise RuntimeError("the e2e interpreter does not build with the Go toolchain: " + (p.stdout + p.stderr)[-1500:])
    _, rerr, rrc = e2e.run_prog(refbin, timeout=600)
    ref_out, why = parse_out(rerr, len(all_lines))
    if ref_out is None:
        raise RuntimeError("Go-built reference interpreter: " + why)
    # spec validation: Go's own slices must satisfy GoRef (otherwise the reference in checks/c05.py is wrong)
    ref = C.GoRef()
    bad_ref = 0
    for l, out in zip(flat, ref_out):
        if l.split()[0] in ("reset", "mk", "nil", "set", "app", "appself", "cp", "cpself", "re", "clr", "dump") and out != "bad-op":
            v, dd = C.judge_slice(ref, l, out)
            if v:
                bad_ref += 1
                if bad_ref == 1:
                    ctx.log("SPEC VALIDATION: Go-built program disagrees with GoRef at `%s`: %s (%s)" % (l, v, dd))
                ref = C.GoRef()   # resynchronise at the next reset
    if bad_ref:
        ctx.broken.append("spec validation failed: the Go toolchain's own slices do not satisfy checks/c05.py GoRef (%d lines)" % bad_ref)
        ctx.report_broken("C05 spec validation (GoRef vs Go toolchain)", {"lines": bad_ref})

    modeld = os.path.join(LEAN, ".lake", "build", "bin", "modeld_c05")
    t_base = len(flat) + len(only)
    t_ok = sum(1 for j in range(len(typed)) if ref_out[t_base + j].startswith("ok"))
    t_bad = [typed[j] for j in range(len(typed)) if ref_out[t_base + j] == "bad-op"]
    if t_bad or t_ok < len(typed) // 4:
        raise RuntimeError("typed-operand section of the e2e interpreter is off: %d ok of %d, bad-op: %s" % (t_ok, len(typed), t_bad[:3]))
    cov = dict(probe_cov)
    cov.update({"e2e_typed_operand_lines": len(typed), "e2e_typed_ok_in_go": t_ok, "e2e_typed_panic_in_go": len(typed) - t_ok,
           "e2e_lines": len(all_lines), "e2e_builds": 0, "e2e_opt_levels": [], "e2e_spec_validation_failures": bad_ref})
    for opt in ("-O0", "-O2"):
        out_bin = os.path.join(d, "prog%s.bin" % opt)
        p = e2e.llgo_build(ctx, d, out_bin, opt=opt)
        if p.returncode != 0 or not os.path.exists(out_bin):
            raise HarnessBuildError("llgo build %s of the C05 interpreter failed:\n%s" % (opt, (p.stdout + p.stderr)[-3000:]))
        so, se, rc = e2e.run_prog(out_bin, timeout=900)
        outs, why = parse_out(se, len(all_lines))
        label = "e2e%s:" % opt
        if outs is None:
            # the program died: the last answered line + 1 is the culprit
            answered = len(re.findall(r"^@\d+ ", se, flags=re.M))
            culprit = all_lines[answered] if answered < len(all_lines) else "?"
            ctx.report(label + "crash:" + culprit, "llgo-compiled interpreter (%s) died (rc=%s) while executing `%s`" % (opt, rc, culprit),
                       {"line": culprit, "answered": answered, "stderr_tail": se[-800:], "script_tail": all_lines[max(0, answered - 12):answered + 1]})
            continue
        cov["e2e_builds"] += 1
        cov["e2e_opt_levels"].append(opt)
        # which repair does the compiled runtime contain? (zero-size witness; memcpy overlap is not observable end to end)
        zfix = outs[3].startswith("ok len=1 ")
        cfg_line = "cfg %d 1" % int(zfix)
        n_flat = len(flat)
        fixed = {"outs": outs}

        def run_real(lines, fixed=fixed, n_flat=n_flat):
            assert len(lines) == n_flat
            return fixed["outs"][:n_flat]
        mism, spec_fail, stats, nontriv, samples, _ = C.process(ctx, None, modeld, cfg_line, scripts, string_lines, [], zfix, True,
                                                                run_real=run_real, label=label)
        # everything Go fixes completely: string operations must equal the Go toolchain's answers
        sfail = {}
        base = len(flat) - len(string_lines)
        for j, l in enumerate(string_lines):
            a, b = outs[base + j], ref_out[base + j]
            if a != b:
                sfail.setdefault(l.split()[0], []).append((l, a, b))
        for j, (l, want) in enumerate(only):
            a, b = outs[n_flat + j], ref_out[n_flat + j]
            if b != want:
                ctx.broken.append("spec validation: Go toolchain gives %s for `%s`, expected %s" % (b, l, want))
            if a != b:
                sfail.setdefault(l.split()[0], []).append((l, a, b))
        # bounds / lengths / counts given as operands of every integer type: everything is fixed by Go
        tfail = {}
        for j, l in enumerate(typed):
            a, b = outs[t_base + j], ref_out[t_base + j]
            if a != b:
                f = l.split()
                tfail.setdefault((f[2], f[1]), []).append((l, a, b))
        by_kind = {}
        for (kind, ty), lst in tfail.items():
            by_kind.setdefault(kind, []).extend(lst)
        if by_kind:
            every = sorted((x for lst in by_kind.values() for x in lst), key=lambda x: (len(x[0]), x[0]))
            l, a, b = every[0]
            ctx.report(label + "typed:%s" % l, "llgo %s: `%s` (bound/length/count operand of type %s) gives `%s`, Go toolchain: `%s`; %d typed-operand lines differ (kinds: %s; operand types: %s)"
                       % (opt, l, l.split()[1], a, b, len(every), ",".join(sorted(by_kind)), ",".join(sorted(set(x[0].split()[1] for x in every)))),
                       {"line": l, "llgo": a, "go": b, "opt": opt,
                        "shortest_differing_line_per_kind": {k: dict(zip(("line", "llgo", "go"), sorted(v, key=lambda x: (len(x[0]), x[0]))[0])) for k, v in by_kind.items()},
                        "differing_lines": [x[0] for x in every[:80]]})
        spec_fail += sum(len(v) for v in by_kind.values())
        for op in sorted(sfail):
            lst = sorted(sfail[op], key=lambda x: len(x[0]))
            l, a, b = lst[0]
            ctx.report(label + "string:%s:%s" % (op, l), "llgo %s: `%s` gives %s, Go toolchain: %s (%d lines of this operation differ)" % (opt, l, a, b, len(lst)),
                       {"line": l, "llgo": a, "go": b, "opt": opt})
        if mism:
            ctx.log("e2e %s: %d lines differ from the Lean model, first: %s" % (opt, len(mism), str(mism[0])[:500]))
            ctx.broken.append("e2e %s correspondence llgo-compiled vs Lean model (%d lines differ)" % (opt, len(mism)))
            if not ctx.violations:
                ctx.report_broken("correspondence C05 e2e%s llgo-vs-model" % opt, {"first": [str(x)[:800] for x in mism[:5]]})
        cov["e2e%s" % opt] = {"lines": len(all_lines), "model_mismatches": len(mism), "spec_failures": spec_fail + sum(len(v) for v in sfail.values()),
                              "zero_size_append_repaired": zfix, "ops": stats}
        ctx.log("e2e %s: %d lines, %d model mismatches, %d spec failures" % (opt, len(all_lines), len(mism), spec_fail + sum(len(v) for v in sfail.values())))
    return cov
