/-!
# Model of llgo's defer / panic / recover machinery (C04)

Transcription of `ssa/eh.go` (`Defer`, `saveDeferArgsTo`, `appendDeferStmt`, `loopDeferDrainer`, `callDefer`,
`RunDefers`, `endDefer`, `getDefer`/`initDeferState`) and of the runtime side
(`runtime/internal/runtime/z_rt.go` `Defer`, `Panic`, `Recover`; `z_default.go` `Rethrow`; `defer_tls.go`).
The model mirrors the code that exists, **including its defects** (DESIGN §8 rows 3, 3b, 3c and the ones
found while building this model, see design/C04.md).

Two layers:

* **frame layer** (`Model.replay`): one function's defer frame `{bits, args}` and the replay code that
  `endDefer` emits, generic in how a deferred call is executed (`exec`), so the theorems of `Props/C04.lean`
  hold for every possible behaviour of the deferred calls;
* **program layer** (`Model.execFn`): whole programs (functions with a static defer layout and a body of
  events), thread-local frame chain, pending panic value, `Rethrow` through `siglongjmp`; it instantiates
  `exec` of the frame layer with the interpreter itself.  This is what `modeld_c04` runs against the
  llgo-compiled programs.

Core Lean only.
-/
namespace LlgoVerif.Defer

/-! ## Static layout -/

/-- `llssa.DoAction` of a defer statement, chosen by `cl/blocks` from the block it sits in:
    `DeferAlways` (entry block / unique exit block), `DeferInCond`, `DeferInLoop` (block on a cycle). -/
inductive Kind
  | always | cond | loop
  /-- a `defer` inside a range-over-func body (`Builder.DeferTo`): compiled in the synthetic yield closure, it pushes
      a node on the OWNER's list and registers a loop case of the owner (id from `owner.nextDeferID`), but is not a
      statement of the owner's replay. In the layout these entries follow all replay statements; the model's id of
      every defer site is its index in the layout (a renaming of llgo's ids, which are unique per owner). -/
  | ext
  deriving DecidableEq, Repr, Inhabited

/-- One `defer` statement of a function, in the order `Builder.Defer` is called (compile order).
    Its index in the list is its defer id (`Func.nextDeferID++`). -/
structure Stmt where
  kind : Kind
  /-- callee is a closure value (`fn.kind == vkClosure`): the closure itself is stored in the node -/
  clo : Bool
  /-- number of call arguments -/
  nargs : Nat
  /-- statically known callee (function index in the program); for closures: the function literal -/
  fn : Nat
  deriving DecidableEq, Repr, Inhabited

/-- `saveDeferArgsTo`: `if kind != DeferInLoop && fn.kind != vkClosure && len(args) == 0 { return nil }`
    — otherwise a node `{prev, id, [closure], args…}` is pushed on `defer.Args`. -/
def Stmt.pushes (s : Stmt) : Bool := s.kind == .loop || s.kind == .ext || s.clo || s.nargs != 0

/-- the statement registers a loop case (`self.loopCases`): `DeferInLoop` statements and `DeferTo` sites.
    (`DeferStackDrain` — the drain point after a range-over-func call — appends to the replay exactly the closure a
    `DeferInLoop` statement appends, `loopDeferDrainer`, without registering a case: in a layout it is a `loop`
    statement that is never executed.) -/
def Stmt.isLoop (s : Stmt) : Bool := s.kind == .loop || s.kind == .ext
def Stmt.isCond (s : Stmt) : Bool := s.kind == .cond

/-- `self.nextBit++` for every `DeferInCond` statement: bit number of statement `k` = number of
    conditional statements compiled before it. -/
def bitOf (ss : List Stmt) (k : Nat) : Nat := ((ss.take k).filter Stmt.isCond).length

/-- `Defer` panics at compile time with "too many conditional defers" when a bit ≥ 64 is needed. -/
def layoutOk (ss : List Stmt) : Bool := (ss.filter Stmt.isCond).length ≤ 64

/-- `loopDeferDrainer` compares the node id with the id of every entry of `self.loopCases`
    (= every `DeferInLoop` statement of the function). -/
def isLoopId (ss : List Stmt) (id : Nat) : Bool :=
  match ss[id]? with
  | some s => s.isLoop
  | none => false

/-! ## Frame state -/

/-- A node of the `defer.Args` list: `{prev, id, payload}`. -/
structure Node (α : Type) where
  id : Nat
  val : α
  deriving DecidableEq, Repr

/-- The part of `runtime.Defer` the replay reads: `Bits` and `Args` (top of the list first).
    `Link`, `Reth`, `Rund` are control state and live in the program layer / in the shape of `replay`. -/
structure Frame (α : Type) where
  bits : Nat
  args : List (Node α)
  deriving Repr

def Frame.empty {α : Type} : Frame α := ⟨0, []⟩

/-- Run-time effect of executing defer statement `k` with evaluated payload `v`
    (`Builder.Defer`: set the bit for `DeferInCond`; `saveDeferArgs`: push a node unless node-less). -/
def execDefer {α : Type} (ss : List Stmt) (k : Nat) (v : α) (fr : Frame α) : Frame α :=
  match ss[k]? with
  | none => fr
  | some s =>
    let bits := if s.isCond then fr.bits ||| (1 <<< bitOf ss k) else fr.bits
    let args := if s.pushes then ⟨k, v⟩ :: fr.args else fr.args
    ⟨bits, args⟩

/-- Frame after the defer statements of `hist` (oldest first) were executed. -/
def frameOf {α : Type} (ss : List Stmt) (hist : List (Nat × α)) : Frame α :=
  hist.foldl (fun fr e => execDefer ss e.1 e.2 fr) Frame.empty

/-! ## Replay (`endDefer`) -/

/-- How a deferred call ended, as seen by the frame that replays it. -/
inductive Out (ε : Type)
  | ok                  -- returned normally
  | landed              -- it panicked and the `siglongjmp` landed in THIS frame (`panicBlk`: `Rund := rethrow; goto *Reth`)
  | escaped (e : ε)     -- control never comes back to this frame (process exit, jump elsewhere, undefined behaviour, no fuel)
  deriving Repr

/-- A deferred call performed by the replay code: the statement whose code (`callDefer`) performs it
    and the node it popped (`none`: node-less statement — static callee, no arguments). -/
structure Call (α : Type) where
  stmt : Nat
  node : Option (Node α)
  deriving DecidableEq, Repr

/-- Replay state. `log` is ghost (calls performed so far, most recent first). -/
structure U (α σ : Type) where
  args : List (Node α)
  st : σ
  log : List (Call α)
  /-- `Rund == rethrowBlk`: some panic landed in this frame (`panicBlk` stores it) -/
  rethrow : Bool

/-- How the whole replay ended. -/
inductive Fin (ε : Type)
  | completed           -- fell through statement 0: `SetThreadDefer(link); goto *Rund`
  | landedLast          -- the call of statement 0 panicked: `Reth` was `rethrowBlk`, which is entered WITHOUT `SetThreadDefer(link)`
  | escaped (e : ε)
  deriving Repr

section replay
variable {α σ ε : Type}

/-- The drain loop of `loopDeferDrainer`: while the list is non-empty and the top node's id is the id of
    ANY loop statement, `Reth := drainEntry`, pop it, call it (`callDefer` of that loop case), loop.
    A panic in the call lands at `drainEntry`, which re-enters this loop. Stops at the first node whose id
    is not a loop id. -/
def drain (ss : List Stmt) (exec : Call α → σ → Out ε × σ) :
    List (Node α) → σ → List (Call α) → Bool → U α σ × Option ε
  | [], st, log, re => (⟨[], st, log, re⟩, none)
  | nd :: rest, st, log, re =>
    if isLoopId ss nd.id then
      let c : Call α := ⟨nd.id, some nd⟩
      match exec c st with
      | (.ok, st') => drain ss exec rest st' (c :: log) re
      | (.landed, st') => drain ss exec rest st' (c :: log) true
      | (.escaped e, st') => (⟨rest, st', c :: log, re⟩, some e)
    else (⟨nd :: rest, st, log, re⟩, none)

/-- `callDefer` for a `DeferInCond`/`DeferAlways` statement `k`:
    `typ == nil` → call directly; otherwise, if the list is non-empty, pop the TOP node — whatever its id —
    decode it with this statement's node type and call; if the list is empty, do nothing. -/
def callDefer (exec : Call α → σ → Out ε × σ) (k : Nat) (s : Stmt) (u : U α σ) : U α σ × Option (Out ε) :=
  if s.pushes then
    match u.args with
    | [] => (u, none)
    | nd :: rest =>
      let c : Call α := ⟨k, some nd⟩
      let (o, st') := exec c u.st
      ({ u with args := rest, st := st', log := c :: u.log }, some o)
  else
    let c : Call α := ⟨k, none⟩
    let (o, st') := exec c u.st
    ({ u with st := st', log := c :: u.log }, some o)

/-- What happens after `callDefer` of a `DeferInCond`/`DeferAlways` statement. `cont` = the code of the
    remaining statements (the block `Reth` points to); `last` = this was statement 0, whose `Reth` is `rethrowBlk`. -/
def afterCall (last : Bool) (cont : U α σ → U α σ × Fin ε) : U α σ × Option (Out ε) → U α σ × Fin ε
  | (u', none) => cont u'
  | (u', some .ok) => cont u'
  | (u', some .landed) =>
    if last then ({ u' with rethrow := true }, .landedLast) else cont { u' with rethrow := true }
  | (u', some (.escaped e)) => (u', .escaped e)

/-- The code `endDefer` emits, from `procBlk` down to statement 0. The argument list is the statement list
    REVERSED (with indices), as `for i := n-1; i >= 0; i--` visits it; `g` is `loopDrainerGenerated`.
    Before statement `i` runs, `Reth := rethsNext[i]` — the block that continues with statement `i-1` — so a
    landing panic resumes with the remaining statements (`rest`); for statement 0 that block is `rethrowBlk`. -/
def replay (ss : List Stmt) (exec : Call α → σ → Out ε × σ) (bits : Nat) :
    List (Nat × Stmt) → Bool → U α σ → U α σ × Fin ε
  | [], _, u => (u, .completed)
  | (k, s) :: rest, g, u =>
    match s.kind with
    | .loop =>
      if g then replay ss exec bits rest true u      -- drainer already generated for this run of loop statements
      else
        match drain ss exec u.args u.st u.log u.rethrow with
        | (u', none) => replay ss exec bits rest true u'
        | (u', some e) => (u', .escaped e)
    | .cond =>
      if bits.testBit (bitOf ss k) then
        afterCall rest.isEmpty (replay ss exec bits rest false) (callDefer exec k s u)
      else replay ss exec bits rest false u
    | .always =>
      -- no record of whether the statement was executed: it is replayed unconditionally
      afterCall rest.isEmpty (replay ss exec bits rest false) (callDefer exec k s u)
    | .ext => replay ss exec bits rest g u      -- not a statement of the replay

/-- statements with their indices -/
def indexed : Nat → List Stmt → List (Nat × Stmt)
  | _, [] => []
  | i, s :: t => (i, s) :: indexed (i + 1) t

/-- the order in which `endDefer` visits the statements -/
def slots (ss : List Stmt) : List (Nat × Stmt) := (indexed 0 ss).reverse

/-- Replay of a whole frame from `procBlk`. `rethrow0` = value of `Rund == rethrowBlk` on entry
    (`false` after `RunDefers`, `true` when entered through `panicBlk`). -/
def unwind (ss : List Stmt) (exec : Call α → σ → Out ε × σ) (fr : Frame α) (st : σ) (rethrow0 : Bool) :
    U α σ × Fin ε :=
  replay ss exec fr.bits (slots ss) false ⟨fr.args, st, [], rethrow0⟩

def Fin.esc : Fin ε → Option ε
  | .escaped e => some e
  | _ => none

/-- What the property observes of a frame's replay: final state of the world, the calls in the order
    they were made, and whether control left the frame abnormally. -/
def unwindView (ss : List Stmt) (exec : Call α → σ → Out ε × σ) (hist : List (Nat × α)) (st : σ) :
    σ × List (Call α) × Option ε :=
  let r := unwind ss exec (frameOf ss hist) st false
  (r.1.st, r.1.log.reverse, r.2.esc)

end replay

/-! ## Programs -/

/-- argument expressions, evaluated when the statement executes -/
inductive Arg | lit (n : Int) | x | r | p (i : Nat)
  deriving DecidableEq, Repr, Inhabited

inductive Var | x | r
  deriving DecidableEq, Repr, Inhabited

/-- Dynamic events of a function body (the executed path, loops unrolled, branches resolved). -/
inductive Ev
  | defer (k : Nat) (args : List Arg)     -- execute defer statement `k` (arguments evaluated now)
  | call (g : Nat) (args : List Arg)      -- `t := Fg(args); println("T", g, t)`
  | mark (m : Int)                        -- `println("M", m)`
  | panic (a : Arg)                       -- `panic(v)`
  | fault                                 -- run-time fault (index out of range, nil map write, division by zero)
  | recover                               -- `prt(recover())`
  | ret                                   -- `return`
  | entryEnd                              -- end of the function's entry block reached (first branching statement)
  | set (up : Bool) (v : Var) (a : Arg)   -- `v = a`   (`up`: variable of the function that created this closure)
  | add (up : Bool) (v : Var) (a : Arg)   -- `v += a`
  | show (up : Bool) (v : Var)            -- `println("V", code, v)`
  deriving DecidableEq, Repr, Inhabited

structure Fn where
  stmts : List Stmt
  body : List Ev
  /-- the named result is captured by a closure (go/ssa allocates it on the heap) -/
  capR : Bool
  /-- the function evaluates `ssa:deferstack()` at entry (it contains a range-over-func body that defers):
      `getDeferInCurrentBlock` sets the frame up right there -/
  entryFrame : Bool := false
  /-- go/ssa emitted no `RunDefers` before the function's `return` (its only defers are in range-over-func bodies) and
      `cl/compile.go` adds one (`returnNeedsImplicitRunDefers`) AFTER the results were evaluated -/
  implicitRun : Bool := false
  /-- defer sites the compiler silently drops: explicit-stack defers of a range-over-func body inside an INSTANCE of a
      generic function (`deferStackOwner` walks past the synthetic "instance of" function to nil, `DeferTo` falls back
      to `Builder.Defer` in the yield closure, which has no recover block, so `getDefer` returns nil) -/
  dropped : List Nat := []
  /-- the frame is set up at entry but no `return` of the function runs `RunDefers` (instance of a generic function whose
      only defers are in range-over-func bodies: go/ssa emits no `RunDefers`, `returnNeedsImplicitRunDefers` refuses
      "synthetic" functions): the function returns with its frame still at the head of the thread's chain -/
  noRun : Bool := false
  deriving DecidableEq, Repr, Inhabited

structure Prog where
  fns : List Fn
  deriving Repr

/-- locals of one activation: `x`, named result `r`, parameters -/
structure Loc where
  x : Int
  r : Int
  ps : List Int
  deriving DecidableEq, Repr, Inhabited

inductive Tag | F | M | R | Rnil | T | V
  deriving DecidableEq, Repr

/-- one `println` line -/
structure Line where
  tag : Tag
  vals : List Int
  deriving DecidableEq, Repr

/-- payload of a node: the closure (function, creating activation) and the evaluated arguments -/
structure Pay where
  cfn : Nat
  ctx : Nat
  args : List Int
  deriving DecidableEq, Repr, Inhabited

/-- the panic value of every run-time fault, as far as the traces distinguish it -/
def rtVal : Int := -1

def evalArg (l : Loc) : Arg → Int
  | .lit n => n
  | .x => l.x
  | .r => l.r
  | .p i => l.ps.getD i 0

def Loc.get (l : Loc) : Var → Int
  | .x => l.x
  | .r => l.r

def Loc.put (l : Loc) (v : Var) (n : Int) : Loc :=
  match v with
  | .x => { l with x := n }
  | .r => { l with r := n }

def varCode : Var → Int
  | .x => 0
  | .r => 1

/-- defect classes observed while running (ghost; used only to name the class of a failing layout) -/
inductive Flag
  | wrongNode          -- a statement's replay popped a node pushed by another statement
  | unexecAlways       -- an `always` statement that was never executed was replayed
  | drainOrder         -- calls of a frame were not made in LIFO order of the executed defers (loop drain crossed a node-less defer)
  | staleFrame         -- a `siglongjmp` targeted a frame that is no longer on the stack
  | regResult          -- (-O2) a named result kept in a register reverted to its value at `sigsetjmp`
  | resultBeforeRun    -- the results of a `return` were read before the implicit `RunDefers` ran a closure that changed them
  | droppedDefer       -- a defer statement the compiler dropped was executed
  | frameInitSkipped   -- a defer statement ran before the in-place frame set-up of a `DeferAlways` statement that does not dominate it
  | nodesLeft          -- the replay completed and left nodes on the list (deferred calls that never ran)
  | frameNeverPopped   -- a function returned without `RunDefers`: its frame stays the head of the thread's defer chain
  | recoverIndirect    -- spec: `recover()` not called directly by a deferred function while a panic is in flight
  | nestedRecover      -- spec: a panic was recovered while an older panic is still in flight
  deriving DecidableEq, Repr

namespace Model

/-- Which variant of the code is modelled (probed from the working tree by the check). -/
structure Cfg where
  /-- `-O2`: named results that are not captured live in SSA registers; after a `siglongjmp` they have the
      value they had when `sigsetjmp` was called -/
  o2 : Bool
  /-- `Rethrow(link)` calls `SetThreadDefer(link)` before it longjmps to `link` (proposed repair fixes/C04-1.diff) -/
  tlsFix : Bool
  deriving Repr

/-- why control does not return to the caller in the ordinary way -/
inductive Esc
  | jump (t : Nat)      -- `siglongjmp` to the frame of activation `t`
  | exit (v : Int)      -- uncaught panic: `TracePanic`, `exit(2)`
  | ub                  -- undefined behaviour (node decoded with a different layout, jump into a dead frame)
  | stuck               -- interpreter fuel exhausted
  deriving DecidableEq, Repr

inductive Res
  | ret (v : Int)
  | esc (e : Esc)
  deriving DecidableEq, Repr

/-- machine state -/
structure MSt where
  out : List Line            -- printed lines, most recent first
  store : List Loc           -- locals of every activation so far (index = activation id)
  pending : Option Int       -- `excepKey`: the pending panic value
  tls : Option Nat           -- `deferTLS`: innermost defer frame of the thread
  flags : List Flag          -- ghost
  deriving Repr

def MSt.init : MSt := ⟨[], [], none, none, []⟩

def MSt.emit (st : MSt) (l : Line) : MSt := { st with out := l :: st.out }
def MSt.flag (st : MSt) (f : Flag) : MSt := if st.flags.contains f then st else { st with flags := f :: st.flags }
def MSt.loc (st : MSt) (a : Nat) : Loc := st.store.getD a default
def MSt.setLoc (st : MSt) (a : Nat) (l : Loc) : MSt := { st with store := st.store.set a l }

/-- `Recover()`: return the pending value and clear it — no matter who calls. -/
def recover (st : MSt) : Option Int × MSt := (st.pending, { st with pending := none })

/-- `Panic(v)`: store the value (an older pending value is overwritten), then `Rethrow(GetThreadDefer())`. -/
def setPanic (v : Int) (st : MSt) : MSt := { st with pending := some v }

/-- `Rethrow(link)` in `z_default.go`. `none` = it returned (nothing pending). -/
def rethrow (link : Option Nat) (st : MSt) : Option Esc :=
  match st.pending with
  | none => none
  | some v =>
    match link with
    | none => some (.exit v)
    | some l => some (.jump l)

/-- `Rethrow(link)` as the compiled code calls it, with its effect on the thread's defer head:
    the unrepaired runtime leaves the head alone; the repaired one makes `link` the head before jumping to it. -/
def rethrowSt (cfg : Cfg) (link : Option Nat) (st : MSt) : MSt × Option Esc :=
  match rethrow link st with
  | some (.jump l) => (if cfg.tlsFix then { st with tls := some l } else st, some (.jump l))
  | r => (st, r)

/-- per-activation working state -/
structure Act where
  id : Nat
  fr : Option (Frame Pay)    -- `none`: the defer frame is not set up (yet)
  link : Option Nat          -- `Defer.Link`
  snap : Int                 -- value of the named result when `sigsetjmp` was called
  exd : List Nat             -- ghost: executed defer statements, most recent first

/-- `initDeferState`: `link := GetThreadDefer(); SetThreadDefer(self); Args := nil; sigsetjmp`. -/
def setupFrame (a : Act) (st : MSt) : Act × MSt :=
  ({ a with fr := some Frame.empty, link := st.tls, snap := (st.loc a.id).r }, { st with tls := some a.id })

/-- effects of a landing `siglongjmp` on the activation's registers -/
def landEffects (cfg : Cfg) (f : Fn) (a : Act) (st : MSt) : MSt :=
  if cfg.o2 && !f.capR then
    let l := st.loc a.id
    if l.r == a.snap then st else (st.setLoc a.id { l with r := a.snap }).flag .regResult
  else st

/-- node layouts agree: `{prev,id,closure?,args…}` -/
def sameShape (s t : Stmt) : Bool := s.clo == t.clo && s.nargs == t.nargs

abbrev CallFn := (g : Nat) → (args : List Int) → (up : Option Nat) → MSt → MSt × Res

/-- execute one replayed call (instance of `exec` of the frame layer) -/
def execCall (cfg : Cfg) (callFn : CallFn) (f : Fn) (a : Act) (c : Call Pay) (st : MSt) : Out Esc × MSt :=
  match f.stmts[c.stmt]? with
  | none => (.escaped .ub, st)
  | some s =>
    let st := if s.kind == .always && !a.exd.contains c.stmt then st.flag .unexecAlways else st
    let run (g : Nat) (args : List Int) (up : Option Nat) (st : MSt) : Out Esc × MSt :=
      match callFn g args up st with
      | (st', .ret _) => (.ok, st')
      | (st', .esc (.jump t)) => if t == a.id then (.landed, landEffects cfg f a st') else (.escaped (.jump t), st')
      | (st', .esc e) => (.escaped e, st')
    match c.node with
    | none => run s.fn [] none st
    | some nd =>
      let st := if nd.id != c.stmt then st.flag .wrongNode else st
      match f.stmts[nd.id]? with
      | none => (.escaped .ub, st)
      | some o =>
        if sameShape o s then
          if s.clo then run nd.val.cfn nd.val.args (some nd.val.ctx) st
          else run s.fn nd.val.args none st
        else (.escaped .ub, st)

inductive BodyEnd
  | normal      -- `return` / end of body: `RunDefers`
  | landed      -- a panic landed in this frame while the body ran
  | esc (e : Esc)

/-- what a raised panic does to the running body of activation `a` -/
def raise (a : Act) (st : MSt) : BodyEnd :=
  match rethrow st.tls st with
  | none => .normal    -- unreachable: `pending` was just set
  | some (.jump t) => if a.fr.isSome && t == a.id then .landed else .esc (.jump t)
  | some e => .esc e

def target (up : Bool) (upId : Option Nat) (a : Act) : Nat := if up then upId.getD a.id else a.id

/-- run the events of a body -/
def runBody (cfg : Cfg) (callFn : CallFn) (f : Fn) (upId : Option Nat) :
    List Ev → Act → MSt → Act × MSt × BodyEnd
  | [], a, st => (a, st, .normal)
  | ev :: rest, a, st =>
    let l := st.loc a.id
    match ev with
    | .defer k args =>
      if f.dropped.contains k then runBody cfg callFn f upId rest a (st.flag .droppedDefer) else
      -- first compiled defer is `DeferAlways`: the frame is set up in place, in ITS block. A defer statement that runs
      -- before it (its block is not dominated by that block) uses the frame pointer before it exists.
      if a.fr.isNone && k != 0 && (f.stmts.head?.map (·.kind == .always)).getD false then
        (a, st.flag .frameInitSkipped, .esc .ub) else
      let (a, st) := if a.fr.isNone then setupFrame a st else (a, st)   -- first `DeferAlways`: frame set up in place
      let s := f.stmts.getD k default
      let pay : Pay := ⟨s.fn, a.id, args.map (evalArg l)⟩
      let a := { a with fr := a.fr.map (execDefer f.stmts k pay), exd := k :: a.exd }
      runBody cfg callFn f upId rest a st
    | .call g args =>
      match callFn g (args.map (evalArg l)) none st with
      | (st', .ret v) => runBody cfg callFn f upId rest a (st'.emit ⟨.T, [g, v]⟩)
      | (st', .esc (.jump t)) =>
        if a.fr.isSome && t == a.id then (a, landEffects cfg f a st', .landed) else (a, st', .esc (.jump t))
      | (st', .esc e) => (a, st', .esc e)
    | .mark m => runBody cfg callFn f upId rest a (st.emit ⟨.M, [m]⟩)
    | .panic arg =>
      let st := setPanic (evalArg l arg) st
      match raise a st with
      | .landed => (a, landEffects cfg f a st, .landed)
      | e => (a, st, e)
    | .fault =>
      let st := setPanic rtVal st
      match raise a st with
      | .landed => (a, landEffects cfg f a st, .landed)
      | e => (a, st, e)
    | .recover =>
      let (v, st) := recover st
      let st := match v with
        | some n => st.emit ⟨.R, [n]⟩
        | none => st.emit ⟨.Rnil, []⟩
      runBody cfg callFn f upId rest a st
    | .ret => (a, st, .normal)
    | .entryEnd =>
      -- getDefer: unless the first compiled defer is `DeferAlways` (then the frame is set up in place, see `.defer`),
      -- `deferInitBuilder` appends `initDeferState` to the END of block 0: code of the entry block runs without a frame
      let (a, st) := match f.stmts with
        | [] => (a, st)
        | s :: _ => if s.kind != .always && a.fr.isNone then setupFrame a st else (a, st)
      runBody cfg callFn f upId rest a st
    | .set up v arg =>
      let t := target up upId a
      runBody cfg callFn f upId rest a (st.setLoc t ((st.loc t).put v (evalArg l arg)))
    | .add up v arg =>
      let t := target up upId a
      runBody cfg callFn f upId rest a (st.setLoc t ((st.loc t).put v ((st.loc t).get v + evalArg l arg)))
    | .show up v =>
      let t := target up upId a
      runBody cfg callFn f upId rest a (st.emit ⟨.V, [varCode v, (st.loc t).get v]⟩)

/-- ghost: name the deviation of a frame's call order from LIFO -/
def orderFlag (a : Act) (log : List (Call Pay)) (st : MSt) : MSt :=
  let made := (log.reverse.map (·.stmt))
  if made.isPrefixOf a.exd then st
  else if st.flags.contains .wrongNode || st.flags.contains .unexecAlways then st
  else st.flag .drainOrder

/-- leave the function: replay the frame (if any), then return / rethrow -/
def finish (cfg : Cfg) (callFn : CallFn) (f : Fn) (a : Act) (st : MSt) (be : BodyEnd) : MSt × Res :=
  match be with
  | .esc e => (st, .esc e)
  | be =>
    match a.fr with
    | none => (st, .ret (st.loc a.id).r)
    | some fr =>
      let landed := match be with | .landed => true | _ => false
      if f.noRun && !landed then (st.flag .frameNeverPopped, .ret (st.loc a.id).r) else
      let r0 := (st.loc a.id).r      -- operands of `Return`, evaluated before an implicit `RunDefers`
      let (u, fin) := unwind f.stmts (execCall cfg callFn f a) fr st landed
      let st := orderFlag a u.log u.st
      let st := match fin, u.args with
        | .completed, _ :: _ => st.flag .nodesLeft
        | _, _ => st
      match fin with
      | .escaped e => (st, .esc e)
      | .completed =>
        let st := { st with tls := a.link }                 -- SetThreadDefer(link)
        if u.rethrow then
          match rethrowSt cfg a.link st with
          | (st, some e) => (st, .esc e)
          | (st, none) => (st, .ret (st.loc a.id).r)        -- Rethrow returned: `recov` block loads the named results
        else if f.implicitRun then
          (if r0 == (st.loc a.id).r then st else st.flag .resultBeforeRun, .ret r0)
        else (st, .ret (st.loc a.id).r)
      | .landedLast =>
        -- `rethrowBlk` entered through `Reth`: no `SetThreadDefer(link)` on this path
        match rethrowSt cfg a.link st with
        | (st, some e) => (st, .esc e)
        | (st, none) => (st, .ret (st.loc a.id).r)

/-- call function `g` -/
def execFn (cfg : Cfg) (p : Prog) : Nat → Nat → List Int → Option Nat → MSt → MSt × Res
  | 0, _, _, _, st => (st, .esc .stuck)
  | fuel + 1, g, args, up, st =>
    match p.fns[g]? with
    | none => (st, .esc .ub)
    | some f =>
      let id := st.store.length
      let st := { st with store := st.store ++ [(⟨0, 0, args⟩ : Loc)] }
      let st := st.emit ⟨.F, (g : Int) :: args⟩
      let a : Act := ⟨id, none, none, 0, []⟩
      let (a, st) := if f.entryFrame then setupFrame a st else (a, st)
      let (a, st, be) := runBody cfg (execFn cfg p fuel) f up f.body a st
      finish cfg (execFn cfg p fuel) f a st be

/-- run the program: `t := F0(); println("T", 0, t)` in a fresh process -/
def run (cfg : Cfg) (p : Prog) (fuel : Nat) : MSt × Res :=
  match execFn cfg p fuel 0 [] none MSt.init with
  | (st, .ret v) => (st.emit ⟨.T, [0, v]⟩, .ret v)
  | (st, .esc (.jump _)) => (st.flag .staleFrame, .esc .ub)    -- nobody on the stack owns the target frame
  | r => r

end Model

end LlgoVerif.Defer
