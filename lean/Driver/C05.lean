import LlgoVerif.Util
import LlgoVerif.Model.Utf8
import LlgoVerif.Model.Slice
import LlgoVerif.Model.Slice64
import LlgoVerif.Model.StrHeap
/-! Line-protocol driver for C05 (slices and strings).  One request per line, one answer per line; the protocol is
    the one of `harness/c05/main.go.txt` (the native-copy interpreter over llgo's real runtime functions):

    `cfg Z M` (which repairs the tree contains) | `reset` | `mk r len cap esz seed` | `nil r esz` | `set a idx seed` |
    `app r a b [cap]` | `appself r a i j [cap]` | `cp a b` | `cpself a i j` | `re r a i j k` | `clr a` | `dump` |
    `nsc newLen oldCap` | `cat H H` | `ssl H i j` | `less H H` | `eq H H` | `s2b H` | `b2s H` | `s2r H` | `r2s r,r,…` |
    `i2s N` | `u2s N` | `rune2s N` | `iter H` | `dec H k` | `enc N` | `encrange lo hi` | `rtrange lo hi` | `decgrid mode lo hi`.
    Machine-integer layer (`Model/Slice64.lean`): `cfg64 L` | `nsc64 newLen oldCap` | `mk64 len cap esz` |
    `grow64 len cap num esz seed` | `app64 len cap num esz seed`.  Heap-aware strings and C strings (`Model/StrHeap.lean`):
    `hb2s H i v` | `hs2b H i v` | `hssl H i j` | `hcat A B mode` | `cstr H` | `cstrcopy H` | `fromcstr H|nil` | `sfrom H n`.

    The optional `[cap]` of `app`/`appself` is the capacity the real code chose when it had to grow (Go does not fix
    the growth policy); without it the model uses its own `nextslicecap`. -/
open LlgoVerif LlgoVerif.Util LlgoVerif.Slice

structure St where
  cfg : Cfg := Cfg.current
  lc : Bool := false      -- does the tree's GrowSlice test the wrapped new length (fixes/C05-3.diff)?
  mem : Mem := Mem.empty
  regs : Array (Option (Slice × Nat)) := Array.replicate 8 none
  allocs : Array (Nat × Nat) := #[]

/-- extensionally the identity: re-tabulate the heap so that reads stay O(1) (executable only) -/
def compact (m : Mem) : Mem :=
  if m.next > 134217728 then m else      -- a heap that no process could hold (the real code went wrong): do not tabulate
  let arr : Array Nat := Array.ofFn (n := m.next + 64) fun i => m.bytes i.val
  { m with bytes := fun a => arr.getD a 0 }

def pat (seed t : Nat) : Nat := (seed * 37 + t * 11 + 5) % 251

def hexN (bs : List Nat) : String := hex (bs.map UInt8.ofNat)

def parseInt (s : String) : Option Int :=
  match s.toList with
  | '-' :: rest => if rest.isEmpty then none else (String.ofList rest).toNat?.map fun n => - (n : Int)
  | _ => s.toNat?.map fun n => (n : Int)

def parseReg (s : String) : Option Nat :=
  match s.toList with
  | ['r', d] => if '0' ≤ d ∧ d ≤ '7' then some (d.toNat - '0'.toNat) else none
  | _ => none

def whereIs (allocs : Array (Nat × Nat)) (p capBytes : Nat) : String × Array (Nat × Nat) :=
  match allocs.findIdx? (fun a => a.1 ≤ p ∧ p < a.1 + a.2) with
  | some i => (s!"{i}+{p - (allocs.getD i (0, 0)).1}", allocs)
  | none => (s!"{allocs.size}+0", allocs.push (p, if capBytes = 0 then 1 else capBytes))

def desc (st : St) (r : Option (Slice × Nat)) : String × St :=
  match r with
  | none => ("unset", st)
  | some (s, esz) =>
    let nilf := if s.data = 0 then 1 else 0
    let (al, allocs) :=
      if s.cap > 0 ∧ s.data ≠ 0 then whereIs st.allocs s.data (s.cap * esz).toNat else ("-", st.allocs)
    let st := { st with allocs := allocs }
    if s.len < 0 ∨ s.cap < s.len ∨ s.cap > 1048576 then
      (s!"len={s.len} cap={s.cap} al={al} nil={nilf} d=? t=?", st)
    else
      let l := (s.len * esz).toNat
      let d := st.mem.read s.data l
      let t := st.mem.read (s.data + l) ((s.cap - s.len) * esz).toNat
      (s!"len={s.len} cap={s.cap} al={al} nil={nilf} d={hexN d} t={hexN t}", st)

def getReg (st : St) (name : String) : Option (Slice × Nat) :=
  match parseReg name with
  | some i => (st.regs.getD i none)
  | none => none

def b2i (b : Bool) : Nat := if b then 1 else 0

def polOf (hint : Option String) : Int → Int → Int :=
  match hint.bind parseInt with
  | some c => fun _ _ => c
  | none => nextslicecap

/-- `SliceAppend` as the real process behaves: on `memcpy` UB the stand-in (like glibc) copies as `memmove`,
    and the call is flagged `ub=1` -/
def appendObserved (cfg : Cfg) (pol : Int → Int → Int) (m : Mem) (src : Slice) (data : Nat) (num esz : Int) :
    Except Err (Mem × Slice × Nat) :=
  match SliceAppend cfg pol m src data num esz with
  | .ok (m', s') => .ok (m', s', 0)
  | .error .ub =>
    match SliceAppend { cfg with memmoveFix := true } pol m src data num esz with
    | .ok (m', s') => .ok (m', s', 1)
    | .error e => .error e
  | .error e => .error e

def runesStr (rs : List Int) : String :=
  if rs.isEmpty then "-" else ",".intercalate (rs.map toString)

def mix (d v : Nat) : Nat := (d ^^^ v) * 1099511628211 % 18446744073709551616
def fnvOff : Nat := 14695981039346656037

def grid : List Nat := [0x00, 0x01, 0x7F, 0x80, 0x81, 0x8F, 0x90, 0x9F, 0xA0, 0xAF, 0xB0, 0xBF, 0xC0, 0xC1, 0xF4, 0xFF]

def gridOne (d : Nat) (s : List Nat) : Nat :=
  let r := Utf8.decodeRune s
  let d := mix (mix d r.1) r.2
  mix (mix d r.1) (r.2 + 1)

/-- a fresh block holding `bs` -/
def place (m : Mem) (bs : List Nat) : Nat × Mem :=
  let r := allocU m bs.length
  (r.1, r.2.blit r.1 bs)

def inRange (p base n : Nat) : Nat := b2i (decide (p ≠ 0 ∧ base ≤ p ∧ p < base + n))

def strOf (p : Nat) (bs : List Nat) : Str := if bs.isEmpty then ⟨0, 0⟩ else ⟨p, bs.length⟩

def execLimit : Nat := 67108864   -- 2^26: the native allocator stand-in records bigger requests without executing them

def errStr : Err64 → String
  | .panic => "panic"
  | .ub => "ub"
  | .diverge => "diverge"

/-- `grow64` / `app64`: `GrowSlice64` / `SliceAppend64` on a raw header over a heap in which the source window exists -/
def grow64 (st : St) (isApp : Bool) (l c num esz : Int) (seed : Nat) : String :=
  if esz < 0 ∨ l < 0 ∨ c < l ∨ num < 0 then "bad-op" else
  let small := esz > 0 ∧ c ≤ 4096 ∧ num ≤ 4096
  if esz > 0 ∧ ¬ small ∧ ¬ (l = c ∧ c * esz ≥ 2 ^ 27 ∧ c ≤ 2 ^ 50 ∧ num ≤ 2 ^ 50) then "bad-op" else
  let (p, dataP, m) : Nat × Nat × Mem :=
    if small then
      let srcBytes := (List.range (l * esz).toNat).map (pat seed) ++ List.replicate ((c - l) * esz).toNat 0
      let (p, m1) := place Mem.empty (srcBytes ++ [0])
      let (q, m2) := place m1 ((List.range (num * esz).toNat).map (pat (seed + 1)) ++ [0])
      (p, q, compact m2)
    else (1, 1, { bytes := fun _ => 0, next := 1 + (c * esz).toNat + 1 })
  let src : Slice := ⟨p, l, c⟩
  let res := if isApp then SliceAppend64 st.lc m src dataP num esz else GrowSlice64 st.lc m src num esz
  match res with
  | .error e => errStr e
  | .ok (m', s') =>
    let grown := s'.data ≠ p
    let alloc := m'.next - m.next - 1
    if grown ∧ alloc > execLimit then s!"accept alloc={alloc}"
    else
      let a := if grown then toString alloc else "-"
      let d := if isApp ∧ small ∧ 0 ≤ s'.len ∧ s'.len ≤ s'.cap ∧ s'.cap * esz ≤ 65536 then
        " d=" ++ hexN ((compact m').read s'.data (s'.len * esz).toNat) else ""
      s!"ok len={s'.len} cap={s'.cap} sh={b2i (s'.data = p)} alloc={a}{d} ub=0"

def bytesOf (h : String) : Option (List Nat) := (unhex h).map fun l => l.map (·.toNat)

/-- the heap-aware string and C-string operations (each on a fresh heap) -/
def heapOp (f : List String) : Option String :=
  match f with
  | ["hb2s", h, i, v] =>
    match bytesOf h, i.toNat?, v.toNat? with
    | some bs, some i, some v =>
      let (p, m) := place Mem.empty bs
      let sl : Slice := if bs.isEmpty then ⟨0, 0, 0⟩ else ⟨p, bs.length, bs.length⟩
      match StringFromBytesH m sl with
      | .error _ => some "ub"
      | .ok (m1, s) =>
        let n := bs.length
        let (m2, al) := if n > 0 then
            (m1.blit (p + i % n) [(bs.getD (i % n) 0) ^^^ ((v ||| 1) % 256)], inRange s.data p n) else (m1, 0)
        some s!"ok {hexN (strBytes m2 s)} al={al} nil={b2i (s.data = 0)} ub=0"
    | _, _, _ => none
  | ["hs2b", h, i, v] =>
    match bytesOf h, i.toNat?, v.toNat? with
    | some bs, some i, some v =>
      let (p, m) := place Mem.empty bs
      let s := strOf p bs
      match StringToBytesH m s with
      | .error .panic => some "panic"
      | .error .ub => some "ub"
      | .ok (m1, d) =>
        let n := d.len.toNat
        let (m2, al) := if n > 0 then
            (m1.blit (d.data + i % n) [(m1.bytes (d.data + i % n)) ^^^ ((v ||| 1) % 256)], inRange d.data p bs.length)
          else (m1, 0)
        some s!"ok s={hexN (strBytes m2 s)} d={hexN (view m2 d 1)} al={al} nil={b2i (d.data = 0)} ub=0"
    | _, _, _ => none
  | ["hssl", h, i, j] =>
    match bytesOf h, parseInt i, parseInt j with
    | some bs, some i, some j =>
      let (p, m) := place Mem.empty bs
      let s := strOf p bs
      match StringSliceH s i j with
      | .error _ => some "panic"
      | .ok r =>
        let off := if r.len > 0 then toString (r.data - s.data) else "-"
        some s!"ok {hexN (strBytes m r)} off={off} ub=0"
    | _, _, _ => none
  | ["hcat", a, b, mode] =>
    match bytesOf a, bytesOf b with
    | some ab, some bb =>
      let (pa, m1) := place Mem.empty ab
      let (pb, m) := place m1 bb
      let sa := strOf pa ab
      let sb? : Option Str :=
        if mode = "0" then some (strOf pb bb)
        else if mode = "1" then some sa
        else if mode = "2" then (if ab.length < 2 then none else some ⟨pa + 1, ab.length - 1⟩)
        else none
      match sb? with
      | none => some "bad-op"
      | some sb =>
        match StringCatH m sa sb with
        | .error .ub => some "ub"
        | .error .panic => some "panic"
        | .ok (m', r) =>
          let al := if inRange r.data pa ab.length = 1 ∨ inRange r.data pb bb.length = 1 then 1 else 0
          some s!"ok {hexN (strBytes m' r)} al={al} ub=0"
    | _, _ => none
  | ["cstr", h] =>
    match bytesOf h with
    | some bs =>
      let (ps, m) := place Mem.empty bs
      let s := strOf ps bs
      match CStrDup m s with
      | .error _ => some "ub"
      | .ok (m1, p) =>
        let buf := m1.read p (bs.length + 1)
        let al1 := inRange p ps bs.length
        match StringFromCStr m1 p with
        | .error _ => some "ub"
        | .ok (m2, back) =>
          let al2 := if back.len > 0 then inRange back.data p (bs.length + 1) else 0
          some s!"ok buf={hexN buf} back={hexN (strBytes m2 back)} al1={al1} al2={al2} nil={b2i (back.data = 0)} ub=0"
    | none => none
  | ["cstrcopy", h] =>
    match bytesOf h with
    | some bs =>
      let (ps, m1) := place Mem.empty bs
      let (dest, m) := place m1 (List.replicate (bs.length + 5) 0xEE)
      match CStrCopy m dest (strOf ps bs) with
      | .error _ => some "ub"
      | .ok (m', ret) => some s!"ok buf={hexN (m'.read dest (bs.length + 5))} ret={b2i (ret = dest)} ub=0"
    | none => none
  | ["fromcstr", h] =>
    if h = "nil" then
      match StringFromCStr Mem.empty 0 with
      | .error _ => some "ub"
      | .ok (m2, t) => some s!"ok {hexN (strBytes m2 t)} al=0 nil={b2i (t.data = 0)} ub=0"
    else
      match bytesOf h with
      | some bs =>
        let (p, m) := place Mem.empty (bs ++ [0])
        match StringFromCStr m p with
        | .error _ => some "ub"
        | .ok (m2, t) =>
          let al := if t.len > 0 then inRange t.data p (bs.length + 1) else 0
          some s!"ok {hexN (strBytes m2 t)} al={al} nil={b2i (t.data = 0)} ub=0"
      | none => none
  | ["sfrom", h, n] =>
    match bytesOf h, n.toNat? with
    | some bs, some n =>
      if n > bs.length then some "bad-op" else
      let (p, m) := place Mem.empty (0 :: bs ++ [0])
      match StringFrom m (p + 1) n with
      | .error _ => some "ub"
      | .ok (m2, t) =>
        let al := if t.len > 0 then inRange t.data p (bs.length + 2) else 0
        some s!"ok {hexN (strBytes m2 t)} al={al} nil={b2i (t.data = 0)} ub=0"
    | _, _ => none
  | _ => none

def finish (st : St) (out : String) : St × String := ({ st with mem := compact st.mem }, out)

def sliceOp (st : St) (ri : Nat) (res : Except Err (Mem × Slice × Nat)) (esz : Nat) (shWith : Option Nat) : St × String :=
  match res with
  | .error _ => (st, "panic")
  | .ok (m, s, ub) =>
    let st := { st with mem := m, regs := st.regs.setIfInBounds ri (some (s, esz)) }
    let (d, st) := desc st (some (s, esz))
    let sh := match shWith with
      | some p => s!" sh={b2i (p = s.data)}"
      | none => ""
    finish st s!"ok {d}{sh} ub={ub}"

def handle (st : St) (line : String) : St × String :=
  let f := fields line
  match f with
  | ["cfg", z, m] => ({ st with cfg := ⟨z = "1", m = "1"⟩ }, "ok")
  | ["cfg64", l] => ({ st with lc := l = "1" }, "ok")
  | ["reset"] => ({ cfg := st.cfg, lc := st.lc }, "ok")
  | ["mk", r, l, c, e, seed] =>
    match parseReg r, parseInt l, parseInt c, e.toNat?, seed.toNat? with
    | some ri, some l, some c, some esz, some seed =>
      match MakeSlice st.mem l c esz with
      | .error _ => (st, "panic")
      | .ok (m, s) =>
        let n := (l * esz).toNat
        let m := m.blit s.data ((List.range n).map (pat seed))
        sliceOp st ri (.ok (m, s, 0)) esz none
    | _, _, _, _, _ => (st, "bad-op")
  | ["nil", r, e] =>
    match parseReg r, e.toNat? with
    | some ri, some esz => sliceOp st ri (.ok (st.mem, ⟨0, 0, 0⟩, 0)) esz none
    | _, _ => (st, "bad-op")
  | ["set", a, idx, seed] =>
    match getReg st a, idx.toNat?, seed.toNat? with
    | some (s, esz), some idx, some seed =>
      if (idx : Int) < s.len then
        finish { st with mem := st.mem.blit (s.data + idx * esz) ((List.range esz).map (pat seed)) } "ok"
      else (st, "bad-op")
    | _, _, _ => (st, "bad-op")
  | "app" :: r :: a :: b :: hint =>
    match parseReg r, getReg st a, getReg st b with
    | some ri, some (sa, ea), some (sb, eb) =>
      if ea ≠ eb then (st, "bad-op") else
      sliceOp st ri (appendObserved st.cfg (polOf hint.head?) st.mem sa sb.data sb.len ea) ea (some sa.data)
    | _, _, _ => (st, "bad-op")
  | "appself" :: r :: a :: i :: j :: hint =>
    match parseReg r, getReg st a, parseInt i, parseInt j with
    | some ri, some (sa, ea), some i, some j =>
      let res : Except Err (Mem × Slice × Nat) := do
        let x ← NewSlice3 sa.data ea sa.cap 0 i sa.cap
        let y ← NewSlice3 sa.data ea sa.cap j sa.len sa.cap
        appendObserved st.cfg (polOf hint.head?) st.mem x y.data y.len ea
      sliceOp st ri res ea (some sa.data)
    | _, _, _, _ => (st, "bad-op")
  | ["cp", a, b] =>
    match getReg st a, getReg st b with
    | some (sa, ea), some (sb, eb) =>
      if ea ≠ eb then (st, "bad-op") else
      let (m, n) := SliceCopy st.mem sa sb.data sb.len ea
      let st := { st with mem := m }
      let (d, st) := desc st (some (sa, ea))
      finish st s!"ok n={n} {d} ub=0"
    | _, _ => (st, "bad-op")
  | ["cpself", a, i, j] =>
    match getReg st a, parseInt i, parseInt j with
    | some (sa, ea), some i, some j =>
      let res : Except Err (Mem × Int) := do
        let x ← NewSlice3 sa.data ea sa.cap i sa.len sa.cap
        let y ← NewSlice3 sa.data ea sa.cap j sa.len sa.cap
        pure (SliceCopy st.mem x y.data y.len ea)
      match res with
      | .error _ => (st, "panic")
      | .ok (m, n) =>
        let st := { st with mem := m }
        let (d, st) := desc st (some (sa, ea))
        finish st s!"ok n={n} {d} ub=0"
    | _, _, _ => (st, "bad-op")
  | ["re", r, a, i, j, k] =>
    match parseReg r, getReg st a, parseInt i, parseInt j, parseInt k with
    | some ri, some (sa, ea), some i, some j, some k =>
      match NewSlice3 sa.data ea sa.cap i j k with
      | .error _ => (st, "panic")
      | .ok s => sliceOp st ri (.ok (st.mem, s, 0)) ea none
    | _, _, _, _, _ => (st, "bad-op")
  | ["clr", a] =>
    match getReg st a with
    | some (sa, ea) =>
      let st := { st with mem := SliceClear st.mem sa ea }
      let (d, st) := desc st (some (sa, ea))
      finish st s!"ok {d} ub=0"
    | none => (st, "bad-op")
  | ["dump"] =>
    let (out, st) := (List.range 8).foldl (fun (acc : String × St) i =>
      match acc.2.regs.getD i none with
      | none => acc
      | some r => let (d, st') := desc acc.2 (some r); (acc.1 ++ s!" r{i}[{d}]", st')) ("ok", st)
    (st, out)
  | ["nsc", a, b] =>
    match parseInt a, parseInt b with
    | some a, some b => (st, s!"ok {nextslicecap a b}")
    | _, _ => (st, "bad-op")
  -- strings
  | ["cat", a, b] =>
    match unhex a, unhex b with
    | some a, some b => (st, s!"ok {hexN (StringCat (a.map (·.toNat)) (b.map (·.toNat)))} ub=0")
    | _, _ => (st, "bad-op")
  | ["ssl", a, i, j] =>
    match unhex a, parseInt i, parseInt j with
    | some a, some i, some j =>
      match StringSlice (a.map (·.toNat)) i j with
      | .ok s => (st, s!"ok {hexN s}")
      | .error _ => (st, "panic")
    | _, _, _ => (st, "bad-op")
  | ["less", a, b] =>
    match unhex a, unhex b with
    | some a, some b => (st, s!"ok {b2i (StringLess (a.map (·.toNat)) (b.map (·.toNat)))}")
    | _, _ => (st, "bad-op")
  | ["eq", a, b] =>
    match unhex a, unhex b with
    | some a, some b => (st, s!"ok {b2i (StringEqual (a.map (·.toNat)) (b.map (·.toNat)))}")
    | _, _ => (st, "bad-op")
  | ["s2b", a] =>
    match unhex a with
    | some a => (st, s!"ok {hexN (StringToBytes (a.map (·.toNat)))} ub=0")
    | none => (st, "bad-op")
  | ["b2s", a] =>
    match unhex a with
    | some a =>
      -- the bytes live in a scratch block of the heap; the string is a copy of the slice's window
      let bs := a.map (·.toNat)
      let r := allocU st.mem bs.length
      let m := r.2.blit r.1 bs
      (st, s!"ok {hexN (StringFromBytes m ⟨r.1, bs.length, bs.length⟩)} ub=0")
    | none => (st, "bad-op")
  | ["s2r", a] =>
    match unhex a with
    | some a => (st, s!"ok {runesStr ((StringToRunes (a.map (·.toNat))).map Int.ofNat)}")
    | none => (st, "bad-op")
  | ["r2s", rs] =>
    let l := if rs = "-" then some [] else (rs.splitOn ",").mapM parseInt
    match l with
    | some l => (st, s!"ok {hexN (StringFromRunes l)}")
    | none => (st, "bad-op")
  | ["i2s", v] =>
    match parseInt v with
    | some v => (st, s!"ok {hexN (StringFromInt64 v)}")
    | none => (st, "bad-op")
  | ["u2s", v] =>
    match v.toNat? with
    | some v => (st, s!"ok {hexN (StringFromUint64 v)}")
    | none => (st, "bad-op")
  | ["rune2s", v] =>
    match parseInt v with
    | some v => (st, s!"ok {hexN (StringFromRune v)}")
    | none => (st, "bad-op")
  | ["iter", a] =>
    match unhex a with
    | some a =>
      let l := iterAll (a.map (·.toNat))
      (st, "ok " ++ (if l.isEmpty then "-" else ",".intercalate (l.map fun kv => s!"{kv.1}:{kv.2}")))
    | none => (st, "bad-op")
  | ["dec", a, k] =>
    match unhex a, k.toNat? with
    | some a, some k =>
      let r := Utf8.decodeRune ((a.map (·.toNat)).drop k)
      (st, s!"ok {r.1} {k + r.2}")
    | _, _ => (st, "bad-op")
  | ["enc", v] =>
    match parseInt v with
    | some v => (st, s!"ok {hexN (Utf8.encodeRune (u32 v))}")
    | none => (st, "bad-op")
  | ["encrange", lo, hi] =>
    match parseInt lo, parseInt hi with
    | some lo, some hi => Id.run do
      let mut d := fnvOff
      for i in [0:(hi - lo).toNat] do
        let bs := Utf8.encodeRune (u32 (lo + i))
        d := mix d bs.length
        for b in bs do d := mix d b
      return (st, s!"ok {d}")
    | _, _ => (st, "bad-op")
  | ["rtrange", lo, hi] =>
    match parseInt lo, parseInt hi with
    | some lo, some hi => Id.run do
      let mut d := fnvOff
      for i in [0:(hi - lo).toNat] do
        let s := StringFromRune (lo + i) ++ [0x41]
        match StringIterNext s 0 with
        | some (_, v, pos) =>
          d := mix d v
          match StringIterNext s pos with
          | some (k2, _, _) => d := mix d k2
          | none => d := mix d 0
        | none => d := mix (mix d 0) 0
      return (st, s!"ok {d}")
    | _, _ => (st, "bad-op")
  | ["decgrid", mode, lo, hi] =>
    match mode.toNat?, lo.toNat?, hi.toNat? with
    | some mode, some lo, some hi => Id.run do
      if mode < 1 ∨ mode > 5 then return (st, "bad-op")
      let mut d := fnvOff
      for b0 in [lo:hi] do
        if mode = 1 then d := gridOne d [b0]
        else if mode = 2 then
          for b1 in [0:256] do d := gridOne d [b0, b1]
        else if mode = 3 then
          for b1 in [0:256] do
            for b2 in grid do d := gridOne d [b0, b1, b2]
        else if mode = 4 then
          for b1 in grid do
            for b2 in grid do
              for b3 in grid do d := gridOne d [b0, b1, b2, b3]
        else
          for b1 in [0x80:0xC0] do
            for b2 in [0x80:0xC0] do
              d := gridOne d [b0, b1, b2, 0x80]
              d := gridOne d [b0, b1, b2, 0xBF]
              d := gridOne d [b0, b1, b2]
      return (st, s!"ok {d}")
    | _, _, _ => (st, "bad-op")
  | ["nsc64", a, b] =>
    match parseInt a, parseInt b with
    | some a, some b =>
      match nextslicecap64 a b with
      | some r => (st, s!"ok {r}")
      | none => (st, "diverge")
    | _, _ => (st, "bad-op")
  | ["mk64", l, c, e] =>
    match parseInt l, parseInt c, parseInt e with
    | some l, some c, some e =>
      match MakeSlice Mem.empty l c e with
      | .error _ => (st, "panic")
      | .ok (m', s) =>
        let alloc := m'.next - 2
        if alloc > execLimit then (st, s!"accept alloc={alloc}")
        else (st, s!"ok len={s.len} cap={s.cap} alloc={alloc}")
    | _, _, _ => (st, "bad-op")
  | [op, l, c, n, e, seed] =>
    if op = "grow64" ∨ op = "app64" then
      match parseInt l, parseInt c, parseInt n, parseInt e, seed.toNat? with
      | some l, some c, some n, some e, some seed => (st, grow64 st (op = "app64") l c n e seed)
      | _, _, _, _, _ => (st, "bad-op")
    else (st, "bad-op")
  | _ =>
    match heapOp f with
    | some out => (st, out)
    | none => (st, "bad-op")

def main : IO Unit := lineLoopSt ({} : St) handle
