/-! placeholder driver (property C13 not built yet) -/
def main : IO Unit := IO.println "bad-op"
