import LlgoVerif.Util
import LlgoVerif.Spec.GoArith
/-! Line-protocol driver for C02: evaluates the Go specification (`Spec/GoArith.lean`).
    request: `<cls> <s:0|1> <w> <s2> <w2> <c> <x> <y>`  (x, y: decimal bit patterns; c: constant operand or 0)
    answer : decimal bit pattern of the result (w or w2 bits) | `panic divzero` | `panic negshift` -/
open LlgoVerif LlgoVerif.Util

def showE {w : Nat} (e : Except GoArith.Panic (BitVec w)) : String :=
  match e with
  | .ok v => toString v.toNat
  | .error .divZero => "panic"
  | .error .negShift => "panic"

def b2s (b : Bool) : String := if b then "1" else "0"

/-- shifts use the evaluation-safe forms (proved equal to the mathematical ones in Lemmas/Arith.lean) -/
def shlSafe (sy : Bool) (x : BitVec w) (y : BitVec u) : Except GoArith.Panic (BitVec w) :=
  if GoArith.val sy y < 0 then .error .negShift else .ok (GoArith.shlE x (GoArith.val sy y).toNat)
def shrSafe (sx sy : Bool) (x : BitVec w) (y : BitVec u) : Except GoArith.Panic (BitVec w) :=
  if GoArith.val sy y < 0 then .error .negShift else .ok (GoArith.shrE sx x (GoArith.val sy y).toNat)

def evalOp (cls : String) (s : Bool) (w : Nat) (s2 : Bool) (w2 : Nat) (c : Int) (xn yn : Nat) : String :=
  let x := BitVec.ofNat w xn
  let y := BitVec.ofNat w yn
  let yc := BitVec.ofInt w c
  match cls with
  | "add" => toString (GoArith.add s x y).toNat
  | "sub" => toString (GoArith.sub s x y).toNat
  | "mul" => toString (GoArith.mul s x y).toNat
  | "quo" => showE (GoArith.quo s x y)
  | "rem" => showE (GoArith.rem s x y)
  | "and" => toString (x &&& y).toNat
  | "or" => toString (x ||| y).toNat
  | "xor" => toString (x ^^^ y).toNat
  | "andnot" => toString (x &&& ~~~y).toNat
  | "neg" => toString (GoArith.neg s x).toNat
  | "not" => toString (~~~x).toNat
  | "eq" => b2s (GoArith.eq s x y)
  | "ne" => b2s (!GoArith.eq s x y)
  | "lt" => b2s (GoArith.lt s x y)
  | "le" => b2s (GoArith.le s x y)
  | "gt" => b2s (GoArith.lt s y x)
  | "ge" => b2s (GoArith.le s y x)
  | "shl" => showE (shlSafe s2 x (BitVec.ofNat w2 yn))
  | "shr" => showE (shrSafe s s2 x (BitVec.ofNat w2 yn))
  | "conv" => toString (GoArith.conv s w2 x).toNat
  | "quoc" => showE (GoArith.quo s x yc)
  | "remc" => showE (GoArith.rem s x yc)
  | "quox" => showE (GoArith.quo s yc y)
  | "remx" => showE (GoArith.rem s yc y)
  | "shlc" => toString (GoArith.shlE x c.toNat).toNat
  | "shrc" => toString (GoArith.shrE s x c.toNat).toNat
  | _ => "bad-op"

def handle (line : String) : String :=
  match fields line with
  | [cls, s, w, s2, w2, c, x, y] =>
    match w.toNat?, w2.toNat?, c.toInt?, x.toNat?, y.toNat? with
    | some w, some w2, some c, some x, some y => evalOp cls (s == "1") w (s2 == "1") w2 c x y
    | _, _, _, _, _ => "bad-op"
  | _ => "bad-op"

def main : IO Unit := lineLoop handle
