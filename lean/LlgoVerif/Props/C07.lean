import LlgoVerif.Lemmas.GoType
import LlgoVerif.Lemmas.Iface
namespace LlgoVerif.Types
theorem stub_c07 : True := trivial
end LlgoVerif.Types
