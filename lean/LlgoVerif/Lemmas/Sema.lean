import LlgoVerif.Model.Sema
/-! Helper lemmas for `Props/C11.lean`: decomposition of a step, sums over the thread list, the one-step lemmas of
    every invariant. -/
namespace LlgoVerif.Sema

/-! ### decomposition of `next` -/

theorem next_step_inv {cfg : Cfg} {s s' : State} {i pick : Nat} (h : next cfg s (.step i pick) = some s') :
    ∃ t sh' t' w ev ths, s.threads[i]? = some t ∧ stepThread cfg i s.sh t = some (sh', t', w, ev) ∧
      applyWake (s.threads.set i t') w pick = some ths ∧ s' = ⟨sh', ths⟩ := by
  unfold next nextEv at h
  cases ht : s.threads[i]? with
  | none => simp [ht] at h
  | some t =>
    simp only [ht] at h
    cases hs : stepThread cfg i s.sh t with
    | none => simp [hs] at h
    | some r =>
      obtain ⟨sh', t', w, ev⟩ := r
      simp only [hs] at h
      cases ha : applyWake (s.threads.set i t') w pick with
      | none => simp [ha] at h
      | some ths =>
        simp only [ha, Option.map_some, Option.some.injEq] at h
        exact ⟨t, sh', t', w, ev, ths, rfl, hs, ha, h.symm⟩

theorem next_spurious_inv {cfg : Cfg} {s s' : State} {i : Nat} (h : next cfg s (.spurious i) = some s') :
    ∃ t, s.threads[i]? = some t ∧ (t.semWaiting = true ∨ t.listWaiting = true) ∧
      s' = { s with threads := s.threads.set i t.wake } := by
  unfold next nextEv at h
  cases ht : s.threads[i]? with
  | none => simp [ht] at h
  | some t =>
    simp only [ht] at h
    by_cases hw : (t.semWaiting || t.listWaiting) = true
    · simp only [hw, if_true, Option.map_some, Option.some.injEq] at h
      exact ⟨t, rfl, by simpa using hw, h.symm⟩
    · simp [hw] at h

/-- an invariant of the whole system follows from its two one-step lemmas -/
theorem reachable_induction {cfg : Cfg} {s0 : State} (P : State → Prop) (h0 : P s0)
    (hstep : ∀ s s' a, P s → next cfg s a = some s' → P s') : ∀ s, Reachable cfg s0 s → P s := by
  intro s hr
  induction hr with
  | refl => exact h0
  | step a _ hn ih => exact hstep _ _ a ih hn

theorem run_reachable {cfg : Cfg} {s0 : State} : ∀ (as : List Action) (s s' : State),
    Reachable cfg s0 s → run cfg s as = some s' → Reachable cfg s0 s' := by
  intro as
  induction as with
  | nil => intro s s' hr h; simp [run] at h; exact h ▸ hr
  | cons a as ih =>
    intro s s' hr h
    unfold run at h
    cases hn : next cfg s a with
    | none => simp [hn] at h
    | some s1 =>
      simp only [hn] at h
      exact ih s1 s' (.step a hr hn) h

/-! ### sums over the thread list -/

def total (m : Thread → Nat) : List Thread → Nat
  | [] => 0
  | t :: l => m t + total m l

theorem total_set (m : Thread → Nat) : ∀ (l : List Thread) (i : Nat) (x t : Thread), l[i]? = some t →
    total m (l.set i x) + m t = total m l + m x := by
  intro l
  induction l with
  | nil => intro i x t h; simp at h
  | cons a l ih =>
    intro i x t h
    cases i with
    | zero =>
      simp at h
      subst h
      simp [total]
      omega
    | succ i =>
      simp at h
      have := ih i x t h
      simp [total]
      omega

theorem total_map_eq (m : Thread → Nat) (f : Thread → Thread) (hf : ∀ t, m (f t) = m t) :
    ∀ l : List Thread, total m (l.map f) = total m l := by
  intro l
  induction l with
  | nil => rfl
  | cons a l ih => simp [total, hf, ih]

theorem total_le (m1 m2 : Thread → Nat) (h : ∀ t, m1 t ≤ m2 t) : ∀ l : List Thread, total m1 l ≤ total m2 l := by
  intro l
  induction l with
  | nil => simp [total]
  | cons a l ih => simp only [total]; have := h a; omega

theorem total_zero_of_any_false (m : Thread → Nat) (p : Thread → Bool) (hp : ∀ t, p t = false → m t = 0) :
    ∀ l : List Thread, l.any p = false → total m l = 0 := by
  intro l
  induction l with
  | nil => intro _; rfl
  | cons a l ih =>
    intro h
    simp only [List.any_cons, Bool.or_eq_false_iff] at h
    simp [total, hp a h.1, ih h.2]

theorem total_pos (m : Thread → Nat) : ∀ l : List Thread, 0 < total m l → ∃ (j : Nat) (t : Thread), l[j]? = some t ∧ 0 < m t := by
  intro l
  induction l with
  | nil => intro h; simp [total] at h
  | cons a l ih =>
    intro h
    simp only [total] at h
    by_cases ha : 0 < m a
    · exact ⟨0, a, by simp, ha⟩
    · have : 0 < total m l := by omega
      obtain ⟨j, t, hj, ht⟩ := ih this
      exact ⟨j + 1, t, by simpa using hj, ht⟩

theorem total_pos_of_mem (m : Thread → Nat) : ∀ (l : List Thread) (j : Nat) (t : Thread), l[j]? = some t → 0 < m t →
    0 < total m l := by
  intro l
  induction l with
  | nil => intro j t h; simp at h
  | cons a l ih =>
    intro j t h ht
    cases j with
    | zero => simp at h; subst h; simp [total]; omega
    | succ j => simp at h; have := ih j t h ht; simp [total]; omega

/-! ### thread-local invariants and measures -/

/-- the count remembered by a pending CAS is not zero (`v != 0 && CAS(...)`) -/
def PcOK (t : Thread) : Prop :=
  match t.pc with
  | .aCas1 v | .aCas2 v => v ≠ 0
  | _ => True

/-- … and not larger than `b` -/
def PcLe (b : Nat) (t : Thread) : Prop :=
  match t.pc with
  | .aCas1 v | .aCas2 v => v ≤ b
  | _ => True

/-- a ticket held by a thread has been issued -/
def TkOK (wait : Nat) (t : Thread) : Prop :=
  match t.pc with
  | .wGet tk | .wLock tk | .wLoad tk | .wWait tk | .wWoken tk => tk < wait
  | _ => True

/-- blocked in the semaphore's `Cond.Wait` -/
def mWt (t : Thread) : Nat := if t.pc = .aWait then 1 else 0
/-- counted in `st.waiters` (between `waiters++` and `waiters--`) -/
def mW (t : Thread) : Nat := match t.pc with | .aWait | .aWoken => 1 | _ => 0
/-- a wake-up or a re-check is pending: a releaser between its `Add` and its `Signal`, a woken waiter, or the
    mutex holder about to (re-)read the count -/
def mP (t : Thread) : Nat := match t.pc with | .rGet | .rLock | .aWoken | .aLoad2 | .aCas2 _ => 1 | _ => 0

theorem finish_pcOK (t : Thread) : PcOK t.finish := by
  unfold Thread.finish
  split
  · simp [PcOK]
  · rename_i o r _
    cases o <;> simp [PcOK, firstPc]

theorem finish_pcLe (b : Nat) (t : Thread) : PcLe b t.finish := by
  unfold Thread.finish
  split
  · simp [PcLe]
  · rename_i o r _
    cases o <;> simp [PcLe, firstPc]

theorem finish_tkOK (n : Nat) (t : Thread) : TkOK n t.finish := by
  unfold Thread.finish
  split
  · simp [TkOK]
  · rename_i o r _
    cases o <;> simp [TkOK, firstPc]

theorem finish_measures (t : Thread) : mWt t.finish = 0 ∧ mW t.finish = 0 ∧ mP t.finish = 0 := by
  unfold Thread.finish
  split
  · simp [mWt, mW, mP]
  · rename_i o r _
    cases o <;> simp [mWt, mW, mP, firstPc]

theorem finish_not_listWaiting (t : Thread) : ∀ tk, t.finish.pc ≠ .wWait tk := by
  unfold Thread.finish
  split
  · simp
  · rename_i o r _
    cases o <;> simp [firstPc]

theorem start_pcOK (p : List Op) : PcOK (Thread.start p) := by
  unfold Thread.start
  split
  · simp [PcOK]
  · rename_i o r
    cases o <;> simp [PcOK, firstPc]

theorem start_pcLe (b : Nat) (p : List Op) : PcLe b (Thread.start p) := by
  unfold Thread.start
  split
  · simp [PcLe]
  · rename_i o r
    cases o <;> simp [PcLe, firstPc]

theorem start_tkOK (n : Nat) (p : List Op) : TkOK n (Thread.start p) := by
  unfold Thread.start
  split
  · simp [TkOK]
  · rename_i o r
    cases o <;> simp [TkOK, firstPc]

theorem start_measures (p : List Op) : mWt (Thread.start p) = 0 ∧ mW (Thread.start p) = 0 ∧ mP (Thread.start p) = 0 := by
  unfold Thread.start
  split
  · simp [mWt, mW, mP]
  · rename_i o r
    cases o <;> simp [mWt, mW, mP, firstPc]

theorem start_not_listWaiting (p : List Op) : ∀ tk, (Thread.start p).pc ≠ .wWait tk := by
  unfold Thread.start
  split
  · simp
  · rename_i o r
    cases o <;> simp [firstPc]

theorem wake_pcOK {t : Thread} (h : PcOK t) : PcOK t.wake := by
  unfold Thread.wake; split <;> simp_all [PcOK, Thread.goto]

theorem wake_pcLe {b : Nat} {t : Thread} (h : PcLe b t) : PcLe b t.wake := by
  unfold Thread.wake; split <;> simp_all [PcLe, Thread.goto]

theorem wake_tkOK {n : Nat} {t : Thread} (h : TkOK n t) : TkOK n t.wake := by
  unfold Thread.wake; split <;> simp_all [TkOK, Thread.goto]

theorem wake_mW (t : Thread) : mW t.wake = mW t := by
  unfold Thread.wake; split <;> simp_all [mW, Thread.goto]

theorem wake_not_listWaiting (t : Thread) : ∀ tk, t.wake.pc ≠ .wWait tk := by
  unfold Thread.wake; split <;> simp_all [Thread.goto]

theorem wake_list_measures {t : Thread} (h : t.listWaiting = true) :
    mWt t.wake = mWt t ∧ mP t.wake = mP t := by
  unfold Thread.listWaiting at h
  unfold Thread.wake
  split at h <;> simp_all [mWt, mP, Thread.goto]

theorem wake_sem_measures {t : Thread} (h : t.semWaiting = true) :
    mWt t = 1 ∧ mWt t.wake = 0 ∧ mP t = 0 ∧ mP t.wake = 1 := by
  unfold Thread.semWaiting at h
  simp at h
  simp [Thread.wake, h, mWt, mP, Thread.goto]

theorem semWaiting_false_mWt {t : Thread} (h : t.semWaiting = false) : mWt t = 0 := by
  unfold Thread.semWaiting at h
  simp at h
  simp [mWt, h]

theorem mWt_le_mW (t : Thread) : mWt t ≤ mW t := by
  unfold mWt mW
  split <;> split <;> simp_all

/-! ### one step of one thread -/

theorem stepThread_pcOK {cfg : Cfg} {i : Nat} {sh sh' : Shared} {t t' : Thread} {w : Wake} {ev : Option Event}
    (h : stepThread cfg i sh t = some (sh', t', w, ev)) : PcOK t' := by
  have hf := finish_pcOK t
  unfold stepThread at h
  split at h <;> (try split at h) <;> (try split at h) <;> simp at h <;>
    (obtain ⟨_, rfl, _, _⟩ := h) <;> first | exact hf | simp_all [PcOK, Thread.goto]

theorem stepThread_conserve {cfg : Cfg} {i : Nat} {sh sh' : Shared} {t t' : Thread} {w : Wake} {ev : Option Event}
    (hok : PcOK t) (h : stepThread cfg i sh t = some (sh', t', w, ev)) :
    sh'.val + sh'.acquired + sh.released = sh.val + sh.acquired + sh'.released := by
  unfold stepThread at h
  split at h <;> (try split at h) <;> (try split at h) <;> simp at h <;>
    (obtain ⟨rfl, _, _, _⟩ := h) <;> simp_all [PcOK] <;> omega

/-- the history of successful acquires: one entry per acquire, each the positive count it replaced -/
theorem stepThread_acqSaw {cfg : Cfg} {i : Nat} {sh sh' : Shared} {t t' : Thread} {w : Wake} {ev : Option Event}
    (hok : PcOK t) (h : stepThread cfg i sh t = some (sh', t', w, ev))
    (hs : sh.acqSaw.length = sh.acquired ∧ ∀ c ∈ sh.acqSaw, 0 < c) :
    sh'.acqSaw.length = sh'.acquired ∧ ∀ c ∈ sh'.acqSaw, 0 < c := by
  unfold stepThread at h
  split at h <;> (try split at h) <;> (try split at h) <;> simp at h <;>
    (obtain ⟨rfl, _, _, _⟩ := h) <;> simp_all [PcOK] <;> omega

/-- `notifyListWait` returns exactly when its loop condition is false -/
theorem stepThread_rets_shape {cfg : Cfg} {i : Nat} {sh sh' : Shared} {t t' : Thread} {w : Wake} {ev : Option Event}
    (h : stepThread cfg i sh t = some (sh', t', w, ev)) (ht : TkOK sh.wait t) :
    (sh'.rets = sh.rets ∨ ∃ tk, tk < sh.wait ∧ sh'.rets = (i, tk, sh.notify) :: sh.rets ∧
        keepWaiting cfg sh.notify tk = false) ∧
    TkOK sh'.wait t' ∧ sh.wait ≤ sh'.wait := by
  have hf := finish_tkOK sh.wait t
  have hf1 := finish_tkOK (sh.wait + 1) t
  unfold stepThread at h
  split at h <;> (try split at h) <;> (try split at h) <;> simp at h <;>
    (obtain ⟨rfl, rfl, _, _⟩ := h) <;> simp_all [TkOK, Thread.goto]
  exact ⟨_, ht, rfl, by assumption⟩

theorem stepThread_rets {cfg : Cfg} {i : Nat} {sh sh' : Shared} {t t' : Thread} {w : Wake} {ev : Option Event}
    (h : stepThread cfg i sh t = some (sh', t', w, ev))
    (hs : ∀ r ∈ sh.rets, keepWaiting cfg r.2.2 r.2.1 = false ∧ r.2.1 < sh.wait) (ht : TkOK sh.wait t) :
    (∀ r ∈ sh'.rets, keepWaiting cfg r.2.2 r.2.1 = false ∧ r.2.1 < sh'.wait) ∧ TkOK sh'.wait t' ∧ sh.wait ≤ sh'.wait := by
  obtain ⟨hr, htk, hw⟩ := stepThread_rets_shape h ht
  refine ⟨?_, htk, hw⟩
  intro r hmem
  rcases hr with hr | ⟨tk, h1, h2, h3⟩
  · rw [hr] at hmem
    exact ⟨(hs r hmem).1, Nat.lt_of_lt_of_le (hs r hmem).2 hw⟩
  · rw [h2] at hmem
    cases hmem with
    | head => exact ⟨h3, Nat.lt_of_lt_of_le h1 hw⟩
    | tail _ hm => exact ⟨(hs r hm).1, Nat.lt_of_lt_of_le (hs r hm).2 hw⟩

theorem stepThread_maxVal {cfg : Cfg} {i : Nat} {sh sh' : Shared} {t t' : Thread} {w : Wake} {ev : Option Event}
    (h : stepThread cfg i sh t = some (sh', t', w, ev)) (hv : sh.val ≤ sh.maxVal) (_hp : PcLe sh.maxVal t) :
    sh.maxVal ≤ sh'.maxVal ∧ sh'.val ≤ sh'.maxVal ∧ PcLe sh'.maxVal t' := by
  have hf := finish_pcLe sh.maxVal t
  unfold stepThread at h
  split at h <;> (try split at h) <;> (try split at h) <;> simp at h <;>
    (obtain ⟨rfl, rfl, _, _⟩ := h) <;> simp_all [PcLe, Thread.goto] <;>
    first
      | omega
      | exact finish_pcLe _ t
      | (refine ⟨by omega, by omega, ?_⟩; exact finish_pcLe _ t)
      | (refine ⟨by omega, ?_⟩; exact finish_pcLe _ t)

theorem stepThread_sem {cfg : Cfg} {i : Nat} {sh sh' : Shared} {t t' : Thread} {w : Wake} {ev : Option Event}
    (h : stepThread cfg i sh t = some (sh', t', w, ev))
    (hc : cfg.casRetry = true ∨ (sh.val ≤ 1 ∧ PcLe 1 t)) (hok : PcOK t) :
    mWt t = 0 ∧ (mW t ≤ sh.waiters → sh'.waiters + mW t = sh.waiters + mW t') ∧
    ((mWt t' = 1 ∧ sh'.val = 0 ∧ w = .none) ∨
     (mWt t' = 0 ∧ w ≠ .semOne ∧ sh'.val + mP t ≤ sh.val + mP t') ∨
     (mWt t' = 0 ∧ sh'.val = sh.val ∧ mP t = 1 ∧ mP t' = 0 ∧ mW t = 0 ∧ mW t' = 0 ∧ sh'.waiters = sh.waiters ∧
        w = (if sh.waiters ≠ 0 then .semOne else .none))) := by
  obtain ⟨f1, f2, f3⟩ := finish_measures t
  unfold stepThread at h
  split at h <;> (try split at h) <;> (try split at h) <;> simp at h <;>
    (obtain ⟨rfl, rfl, rfl, _⟩ := h) <;> simp_all [PcOK, PcLe, mWt, mW, mP, Thread.goto] <;> omega

/-- the thread holds the notify list's mutex -/
def holdsN (t : Thread) : Bool :=
  match t.pc with
  | .wLoad _ | .naLoadWait | .naStore _ | .n1LoadNotify | .n1LoadWait _ | .n1Add => true
  | _ => false

/-- what a thread knows about the TRUE ticket counters: its ticket was drawn (`c0 ≤ tk < wait`), the value of `wait` it
    read is not ahead, the value of `notify` it read under the mutex is still current -/
def NlLocal (c0 : Nat) (sh : Shared) (t : Thread) : Prop :=
  match t.pc with
  | .wGet tk | .wLock tk | .wLoad tk | .wWait tk | .wWoken tk => c0 ≤ tk ∧ tk < sh.wait
  | .naStore w => sh.notify ≤ w ∧ w ≤ sh.wait
  | .n1LoadWait n => n = sh.notify
  | .n1Add => sh.notify < sh.wait
  | _ => True

theorem finish_pc_cases (t : Thread) : t.finish.pc = .done ∨ t.finish.pc = .aLoad1 ∨ t.finish.pc = .rAdd ∨
    t.finish.pc = .wAdd ∨ t.finish.pc = .n1Get ∨ t.finish.pc = .naGet := by
  unfold Thread.finish
  split
  · simp
  · rename_i o r _
    cases o <;> simp [firstPc]

theorem finish_nl (c0 : Nat) (sh : Shared) (t : Thread) : NlLocal c0 sh t.finish ∧ holdsN t.finish = false := by
  unfold Thread.finish
  split
  · simp [NlLocal, holdsN]
  · rename_i o r _
    cases o <;> simp [NlLocal, holdsN, firstPc]

theorem start_nl (c0 : Nat) (sh : Shared) (p : List Op) : NlLocal c0 sh (Thread.start p) ∧ holdsN (Thread.start p) = false := by
  unfold Thread.start
  split
  · simp [NlLocal, holdsN]
  · rename_i o r
    cases o <;> simp [NlLocal, holdsN, firstPc]

theorem wake_nl {c0 : Nat} {sh : Shared} {t : Thread} (h : NlLocal c0 sh t) : NlLocal c0 sh t.wake := by
  unfold Thread.wake; split <;> simp_all [NlLocal, Thread.goto]

theorem wake_holdsN (t : Thread) : holdsN t.wake = holdsN t := by
  unfold Thread.wake; split <;> simp_all [holdsN, Thread.goto]

/-- what a thread knows stays true while `notify` is untouched and `wait` only grows -/
theorem nlLocal_frame {c0 : Nat} {sh sh' : Shared} {u : Thread} (h : NlLocal c0 sh u) (hw : sh.wait ≤ sh'.wait)
    (hn : sh'.notify = sh.notify ∨ holdsN u = false) : NlLocal c0 sh' u := by
  unfold NlLocal at *
  unfold holdsN at hn
  split <;> simp_all <;> omega

/-- One step of one thread and the notify list's counters: order `c0 ≤ notify ≤ wait`, the local knowledge of the stepping
    thread, the mutex, and how the step frames the others (`notify` and the mutex only move in the hands of the holder). -/
theorem stepThread_nl {cfg : Cfg} {c0 i : Nat} {sh sh' : Shared} {t t' : Thread} {w : Wake} {ev : Option Event}
    (h : stepThread cfg i sh t = some (sh', t', w, ev))
    (hN : c0 ≤ sh.notify ∧ sh.notify ≤ sh.wait) (hl : NlLocal c0 sh t) (hm : holdsN t = true → sh.nmu = some i) :
    (c0 ≤ sh'.notify ∧ sh'.notify ≤ sh'.wait) ∧ NlLocal c0 sh' t' ∧ (holdsN t' = true → sh'.nmu = some i) ∧
    sh.wait ≤ sh'.wait ∧ sh.notify ≤ sh'.notify ∧
    ((sh'.notify = sh.notify ∧ sh'.nmu = sh.nmu) ∨ (sh.nmu = none ∧ sh'.notify = sh.notify) ∨ holdsN t = true) := by
  have f2 := (finish_nl c0 sh t).2
  unfold stepThread at h
  split at h <;> (try split at h) <;> (try split at h) <;> simp at h <;>
    (obtain ⟨rfl, rfl, _, _⟩ := h) <;> simp_all [NlLocal, holdsN, Thread.goto, W32] <;>
    (try (rcases finish_pc_cases t with hp | hp | hp | hp | hp | hp <;> simp [hp])) <;> (try omega)

/-- a recorded return carries a ticket that was drawn -/
theorem stepThread_rets_range {cfg : Cfg} {c0 i : Nat} {sh sh' : Shared} {t t' : Thread} {w : Wake} {ev : Option Event}
    (h : stepThread cfg i sh t = some (sh', t', w, ev)) (hl : NlLocal c0 sh t) :
    sh'.rets = sh.rets ∨ ∃ tk, c0 ≤ tk ∧ tk < sh.wait ∧ sh'.rets = (i, tk, sh.notify) :: sh.rets := by
  unfold stepThread at h
  split at h <;> (try split at h) <;> (try split at h) <;> simp at h <;>
    (obtain ⟨rfl, rfl, _, _⟩ := h) <;> simp_all [NlLocal, Thread.goto]

/-- with the repaired notify list: `notify` only moves together with a broadcast, and — while fewer than 2^31 tickets
    have been drawn — a thread goes to sleep only with a ticket that has not been notified (the wrapped comparison
    `notifyLess` is exact in that range) -/
theorem stepThread_notify {cfg : Cfg} {c0 i : Nat} {sh sh' : Shared} {t t' : Thread} {w : Wake} {ev : Option Event}
    (h : stepThread cfg i sh t = some (sh', t', w, ev)) (h1 : cfg.ticketLess = true) (h2 : cfg.oneBroadcast = true)
    (hN : c0 ≤ sh.notify ∧ sh.notify ≤ sh.wait) (hl : NlLocal c0 sh t) (hb : sh.wait < c0 + 2147483648) :
    (sh'.notify = sh.notify ∨ w = .listAll) ∧ (∀ tk, t'.pc = .wWait tk → sh'.notify ≤ tk) := by
  have hf := finish_not_listWaiting t
  unfold stepThread at h
  split at h <;> (try split at h) <;> (try split at h) <;> simp at h <;>
    (obtain ⟨rfl, rfl, rfl, _⟩ := h) <;> simp_all [keepWaiting, less32, W32, NlLocal, Thread.goto]
  all_goals first
    | omega
    | (have hk := of_decide_eq_false ‹decide _ = false›; omega)

/-! ### predicates on all threads, through `set` and the wake-ups -/

def AllT (P : Thread → Prop) (l : List Thread) : Prop := ∀ t ∈ l, P t

theorem allT_set {P : Thread → Prop} {l : List Thread} {i : Nat} {x : Thread} (h : AllT P l) (hx : P x) :
    AllT P (l.set i x) := by
  intro t ht
  rcases List.mem_or_eq_of_mem_set ht with h1 | h1
  · exact h t h1
  · exact h1 ▸ hx

theorem allT_get {P : Thread → Prop} {l : List Thread} {i : Nat} {t : Thread} (h : AllT P l) (ht : l[i]? = some t) :
    P t := h t (List.mem_of_getElem? ht)

theorem allT_mono {P Q : Thread → Prop} {l : List Thread} (hpq : ∀ t, P t → Q t) (h : AllT P l) : AllT Q l :=
  fun t ht => hpq t (h t ht)

theorem signalOne_inv {l l' : List Thread} {isW : Thread → Bool} {pick : Nat} (h : signalOne l isW pick = some l') :
    (l.any isW = false ∧ l' = l) ∨ ∃ t, l[pick]? = some t ∧ isW t = true ∧ l' = l.set pick t.wake := by
  unfold signalOne at h
  by_cases ha : l.any isW = true
  · simp only [ha, if_true] at h
    cases hp : l[pick]? with
    | none => simp [hp] at h
    | some t =>
      simp only [hp] at h
      by_cases hw : isW t = true
      · simp only [hw, if_true, Option.some.injEq] at h
        exact Or.inr ⟨t, rfl, hw, h.symm⟩
      · simp [hw] at h
  · simp only [ha] at h
    simp at h
    exact Or.inl ⟨by simpa using ha, h.symm⟩

theorem allT_applyWake {P : Thread → Prop} (hw : ∀ t, P t → P t.wake) {l l' : List Thread} {w : Wake} {pick : Nat}
    (h : AllT P l) (ha : applyWake l w pick = some l') : AllT P l' := by
  unfold applyWake at ha
  cases w with
  | none => simp at ha; exact ha ▸ h
  | semOne =>
    simp only at ha
    rcases signalOne_inv ha with ⟨_, rfl⟩ | ⟨t, ht, _, rfl⟩
    · exact h
    · exact allT_set h (hw t (allT_get h ht))
  | listOne =>
    simp only at ha
    rcases signalOne_inv ha with ⟨_, rfl⟩ | ⟨t, ht, _, rfl⟩
    · exact h
    · exact allT_set h (hw t (allT_get h ht))
  | listAll =>
    simp only [Option.some.injEq] at ha
    subst ha
    intro t ht
    simp only [List.mem_map] at ht
    obtain ⟨a, ha, rfl⟩ := ht
    by_cases hl : a.listWaiting = true
    · simp only [hl, if_true]; exact hw a (h a ha)
    · simp only [hl]; exact h a ha

/-- `st.waiters` accounting is not touched by a wake-up (the sleeper decrements after it has the mutex again) -/
theorem applyWake_mW {l l' : List Thread} {w : Wake} {pick : Nat} (ha : applyWake l w pick = some l') :
    total mW l' = total mW l := by
  unfold applyWake at ha
  cases w with
  | none => simp at ha; rw [ha]
  | semOne =>
    simp only at ha
    rcases signalOne_inv ha with ⟨_, rfl⟩ | ⟨t, ht, _, rfl⟩
    · rfl
    · have := total_set mW l pick t.wake t ht
      rw [wake_mW] at this; omega
  | listOne =>
    simp only at ha
    rcases signalOne_inv ha with ⟨_, rfl⟩ | ⟨t, ht, _, rfl⟩
    · rfl
    · have := total_set mW l pick t.wake t ht
      rw [wake_mW] at this; omega
  | listAll =>
    simp only [Option.some.injEq] at ha
    subst ha
    apply total_map_eq
    intro t
    by_cases hl : t.listWaiting = true
    · simp only [hl, if_true]; exact wake_mW t
    · simp only [hl]; rfl

/-- a wake-up on the notify list's condition variable does not concern the semaphore's measures -/
theorem applyWake_list {l l' : List Thread} {w : Wake} {pick : Nat} (hw : w ≠ .semOne)
    (ha : applyWake l w pick = some l') : total mWt l' = total mWt l ∧ total mP l' = total mP l := by
  unfold applyWake at ha
  cases w with
  | none => simp at ha; rw [ha]; exact ⟨rfl, rfl⟩
  | semOne => exact absurd rfl hw
  | listOne =>
    simp only at ha
    rcases signalOne_inv ha with ⟨_, rfl⟩ | ⟨t, ht, hlw, rfl⟩
    · exact ⟨rfl, rfl⟩
    · have h1 := total_set mWt l pick t.wake t ht
      have h2 := total_set mP l pick t.wake t ht
      obtain ⟨e1, e2⟩ := wake_list_measures hlw
      rw [e1] at h1; rw [e2] at h2
      constructor <;> omega
  | listAll =>
    simp only [Option.some.injEq] at ha
    subst ha
    constructor <;> apply total_map_eq <;> intro t <;> by_cases hl : t.listWaiting = true
    · simp only [hl, if_true]; exact (wake_list_measures hl).1
    · simp only [hl]; rfl
    · simp only [hl, if_true]; exact (wake_list_measures hl).2
    · simp only [hl]; rfl

/-- `Signal` on the semaphore's condition variable: nobody is asleep, or exactly one sleeper becomes a woken thread -/
theorem applyWake_sem {l l' : List Thread} {pick : Nat} (ha : applyWake l .semOne pick = some l') :
    (total mWt l = 0 ∧ l' = l) ∨ (total mWt l' + 1 = total mWt l ∧ total mP l' = total mP l + 1) := by
  unfold applyWake at ha
  simp only at ha
  rcases signalOne_inv ha with ⟨hn, rfl⟩ | ⟨t, ht, hlw, rfl⟩
  · exact Or.inl ⟨total_zero_of_any_false mWt _ (fun t h => semWaiting_false_mWt h) _ hn, rfl⟩
  · have h1 := total_set mWt l pick t.wake t ht
    have h2 := total_set mP l pick t.wake t ht
    obtain ⟨e1, e2, e3, e4⟩ := wake_sem_measures hlw
    rw [e1, e2] at h1; rw [e3, e4] at h2
    exact Or.inr ⟨by omega, by omega⟩

/-- no thread sleeps on the notify list with a notified ticket -/
def NoStale (n : Nat) (t : Thread) : Prop := ∀ tk, t.pc = .wWait tk → n ≤ tk

theorem applyWake_noStale {n : Nat} {l l' : List Thread} {w : Wake} {pick : Nat} (h : AllT (NoStale n) l)
    (ha : applyWake l w pick = some l') : AllT (NoStale n) l' :=
  allT_applyWake (fun t _ tk htk => absurd htk (wake_not_listWaiting t tk)) h ha

theorem applyWake_listAll_noStale {n : Nat} {l l' : List Thread} {pick : Nat}
    (ha : applyWake l .listAll pick = some l') : AllT (NoStale n) l' := by
  unfold applyWake at ha
  simp only [Option.some.injEq] at ha
  subst ha
  intro t ht tk htk
  simp only [List.mem_map] at ht
  obtain ⟨a, _, rfl⟩ := ht
  by_cases hl : a.listWaiting = true
  · simp only [hl, if_true] at htk; exact absurd htk (wake_not_listWaiting a tk)
  · have hl' : a.listWaiting = false := by simpa using hl
    simp only [hl'] at htk
    simp at htk
    unfold Thread.listWaiting at hl'
    rw [htk] at hl'
    simp at hl'

theorem tkOK_mono {n n' : Nat} (h : n ≤ n') (t : Thread) (ht : TkOK n t) : TkOK n' t := by
  unfold TkOK at *
  split <;> simp_all <;> omega

theorem pcLe_mono {n n' : Nat} (h : n ≤ n') (t : Thread) (ht : PcLe n t) : PcLe n' t := by
  unfold PcLe at *
  split <;> simp_all <;> omega

/-! ### invariants of the whole system -/

/-- the invariants that hold for every code variant -/
structure BaseInv (cfg : Cfg) (v0 : Nat) (s : State) : Prop where
  ok : AllT PcOK s.threads
  cons : s.sh.val + s.sh.acquired = v0 + s.sh.released
  saw : s.sh.acqSaw.length = s.sh.acquired ∧ ∀ c ∈ s.sh.acqSaw, 0 < c
  rets : ∀ r ∈ s.sh.rets, keepWaiting cfg r.2.2 r.2.1 = false ∧ r.2.1 < s.sh.wait
  tk : AllT (TkOK s.sh.wait) s.threads
  mx : s.sh.val ≤ s.sh.maxVal
  le : AllT (PcLe s.sh.maxVal) s.threads

theorem allT_start (P : Thread → Prop) (h : ∀ p, P (Thread.start p)) (progs : List (List Op)) :
    AllT P (progs.map Thread.start) := by
  intro t ht
  simp only [List.mem_map] at ht
  obtain ⟨p, _, rfl⟩ := ht
  exact h p

theorem total_start (m : Thread → Nat) (h : ∀ p, m (Thread.start p) = 0) :
    ∀ progs : List (List Op), total m (progs.map Thread.start) = 0 := by
  intro progs
  induction progs with
  | nil => rfl
  | cons p ps ih => simp [total, h p, ih]

theorem baseInv_init (cfg : Cfg) (v c0 : Nat) (progs : List (List Op)) : BaseInv cfg v (initAt v c0 progs) where
  ok := allT_start _ start_pcOK progs
  cons := by simp [initAt, initShared]
  saw := by simp [initAt, initShared]
  rets := by simp [initAt, initShared]
  tk := allT_start _ (start_tkOK _) progs
  mx := by simp [initAt, initShared]
  le := allT_start _ (start_pcLe _) progs

theorem baseInv_next {cfg : Cfg} {v0 : Nat} {s s' : State} {a : Action} (h : BaseInv cfg v0 s)
    (hn : next cfg s a = some s') : BaseInv cfg v0 s' ∧ s.sh.maxVal ≤ s'.sh.maxVal := by
  cases a with
  | step i pick =>
    obtain ⟨t, sh', t', w, ev, ths, ht, hs, ha, rfl⟩ := next_step_inv hn
    have hok := allT_get h.ok ht
    have hcons := stepThread_conserve hok hs
    have hrets := stepThread_rets hs h.rets (allT_get h.tk ht)
    have hmax := stepThread_maxVal hs h.mx (allT_get h.le ht)
    refine ⟨⟨?_, ?_, ?_, ?_, ?_, ?_, ?_⟩, hmax.1⟩
    · exact allT_applyWake (P := PcOK) (fun _ => wake_pcOK) (allT_set h.ok (stepThread_pcOK hs)) ha
    · have := h.cons; simp only; omega
    · exact stepThread_acqSaw hok hs h.saw
    · exact hrets.1
    · exact allT_applyWake (P := TkOK sh'.wait) (fun _ => wake_tkOK)
        (allT_set (allT_mono (tkOK_mono hrets.2.2) h.tk) hrets.2.1) ha
    · exact hmax.2.1
    · exact allT_applyWake (P := PcLe sh'.maxVal) (fun _ => wake_pcLe)
        (allT_set (allT_mono (pcLe_mono hmax.1) h.le) hmax.2.2) ha
  | spurious i =>
    obtain ⟨t, ht, _, rfl⟩ := next_spurious_inv hn
    exact ⟨⟨allT_set h.ok (wake_pcOK (allT_get h.ok ht)), h.cons, h.saw, h.rets,
      allT_set h.tk (wake_tkOK (allT_get h.tk ht)), h.mx, allT_set h.le (wake_pcLe (allT_get h.le ht))⟩,
      Nat.le_refl _⟩

theorem baseInv_reachable {cfg : Cfg} {v c0 : Nat} {progs : List (List Op)} {s : State}
    (hr : Reachable cfg (initAt v c0 progs) s) : BaseInv cfg v s :=
  reachable_induction (BaseInv cfg v) (baseInv_init cfg v c0 progs) (fun _ _ _ h hn => (baseInv_next h hn).1) s hr

/-- the semaphore's wake-up bookkeeping -/
structure SemInv (s : State) : Prop where
  /-- `st.waiters` counts exactly the threads between `waiters++` and `waiters--` -/
  wc : s.sh.waiters = total mW s.threads
  /-- while somebody sleeps, every permit is matched by a pending wake-up or re-check -/
  lw : 0 < total mWt s.threads → s.sh.val ≤ total mP s.threads

theorem semInv_init (v c0 : Nat) (progs : List (List Op)) : SemInv (initAt v c0 progs) where
  wc := by simp [initAt, initShared, total_start mW (fun p => (start_measures p).2.1)]
  lw := by simp [initAt, total_start mWt (fun p => (start_measures p).1)]

theorem semInv_next {cfg : Cfg} {v0 : Nat} {s s' : State} {a : Action} (hb : BaseInv cfg v0 s) (h : SemInv s)
    (hn : next cfg s a = some s') (hc : cfg.casRetry = true ∨ s'.sh.maxVal ≤ 1) : SemInv s' := by
  have hmono := (baseInv_next hb hn).2
  cases a with
  | step i pick =>
    obtain ⟨t, sh', t', w, ev, ths, ht, hs, ha, rfl⟩ := next_step_inv hn
    have hok := allT_get hb.ok ht
    have hc' : cfg.casRetry = true ∨ (s.sh.val ≤ 1 ∧ PcLe 1 t) := by
      rcases hc with hc | hc
      · exact Or.inl hc
      · simp only at hc hmono
        exact Or.inr ⟨by have := hb.mx; omega, pcLe_mono (by omega) t (allT_get hb.le ht)⟩
    obtain ⟨e0, eW, e3⟩ := stepThread_sem hs hc' hok
    have sW := total_set mW s.threads i t' t ht
    have sWt := total_set mWt s.threads i t' t ht
    have sP := total_set mP s.threads i t' t ht
    have aW := applyWake_mW ha
    have hwc := h.wc
    have hle : mW t ≤ s.sh.waiters := by
      have := total_pos_of_mem mW s.threads i t ht
      have h01 : mW t ≤ 1 := by unfold mW; split <;> simp
      by_cases hz : mW t = 0
      · omega
      · have := this (by omega); omega
    have eW := eW hle
    have hWtle := total_le mWt mW mWt_le_mW s.threads
    constructor
    · simp only; omega
    · simp only
      intro hpos
      rcases e3 with ⟨_, hv, _⟩ | ⟨e1, hw, hv⟩ | ⟨e1, hv, p1, p2, w1, w2, hwt, hw⟩
      · omega
      · obtain ⟨a1, a2⟩ := applyWake_list hw ha
        have := h.lw (by omega)
        omega
      · by_cases hz : s.sh.waiters = 0
        · simp only [hz, ne_eq, not_true_eq_false, if_false] at hw
          subst hw
          simp [applyWake] at ha
          subst ha
          omega
        · simp only [ne_eq, hz, not_false_eq_true, if_true] at hw
          subst hw
          rcases applyWake_sem ha with ⟨z, rfl⟩ | ⟨b1, b2⟩
          · omega
          · have := h.lw (by omega)
            omega
  | spurious i =>
    obtain ⟨t, ht, hw, rfl⟩ := next_spurious_inv hn
    have sW := total_set mW s.threads i t.wake t ht
    have sWt := total_set mWt s.threads i t.wake t ht
    have sP := total_set mP s.threads i t.wake t ht
    rw [wake_mW] at sW
    constructor
    · simp only; have := h.wc; omega
    · simp only
      intro hpos
      rcases hw with hw | hw
      · obtain ⟨e1, e2, e3, e4⟩ := wake_sem_measures hw
        have := h.lw (by omega)
        omega
      · obtain ⟨e1, e2⟩ := wake_list_measures hw
        have := h.lw (by omega)
        omega

/-- `SemInv` holds in every reachable state of the repaired code, and of the pinned code as long as the count has
    never exceeded 1 -/
theorem semInv_reachable {cfg : Cfg} {v c0 : Nat} {progs : List (List Op)} {s : State}
    (hr : Reachable cfg (initAt v c0 progs) s) : (cfg.casRetry = true ∨ s.sh.maxVal ≤ 1) → SemInv s := by
  induction hr with
  | refl => intro _; exact semInv_init v c0 progs
  | step a hr' hn ih =>
    intro hc
    have hb := baseInv_reachable hr'
    have hmono := (baseInv_next hb hn).2
    exact semInv_next hb (ih (by rcases hc with hc | hc; exact Or.inl hc; exact Or.inr (by omega))) hn hc

/-! ### the notify list's true counters, its mutex, and the wrapped comparisons -/

theorem applyWake_get {l l' : List Thread} {w : Wake} {pick : Nat} (ha : applyWake l w pick = some l') :
    ∀ (j : Nat) (u : Thread), l'[j]? = some u → ∃ u0, l[j]? = some u0 ∧ (u = u0 ∨ u = u0.wake) := by
  intro j u hu
  have hset : ∀ (p : Nat) (t0 : Thread), l[p]? = some t0 → (l.set p t0.wake)[j]? = some u →
      ∃ u0, l[j]? = some u0 ∧ (u = u0 ∨ u = u0.wake) := by
    intro p t0 hp hu'
    by_cases hj : j = p
    · subst hj
      have hlt : j < l.length := (List.getElem?_eq_some_iff.mp hp).1
      simp [List.getElem?_set_self hlt] at hu'
      exact ⟨t0, hp, Or.inr hu'.symm⟩
    · rw [List.getElem?_set_ne (Ne.symm hj)] at hu'
      exact ⟨u, hu', Or.inl rfl⟩
  unfold applyWake at ha
  cases w with
  | none => simp at ha; subst ha; exact ⟨u, hu, Or.inl rfl⟩
  | semOne =>
    simp only at ha
    rcases signalOne_inv ha with ⟨_, rfl⟩ | ⟨t0, ht0, _, rfl⟩
    · exact ⟨u, hu, Or.inl rfl⟩
    · exact hset pick t0 ht0 hu
  | listOne =>
    simp only at ha
    rcases signalOne_inv ha with ⟨_, rfl⟩ | ⟨t0, ht0, _, rfl⟩
    · exact ⟨u, hu, Or.inl rfl⟩
    · exact hset pick t0 ht0 hu
  | listAll =>
    simp only [Option.some.injEq] at ha
    subst ha
    simp only [List.getElem?_map] at hu
    cases hl : l[j]? with
    | none => simp [hl] at hu
    | some u0 =>
      simp only [hl, Option.map_some, Option.some.injEq] at hu
      refine ⟨u0, rfl, ?_⟩
      by_cases hw : u0.listWaiting = true
      · simp only [hw, if_true] at hu; exact Or.inr hu.symm
      · simp only [hw] at hu; exact Or.inl (by simpa using hu.symm)

/-- the notify list: true counters in order, every thread's local knowledge, the mutex has one holder, and every return
    recorded a ticket and a `notify` value inside the range of the counters -/
structure NlInv (c0 : Nat) (s : State) : Prop where
  ord : c0 ≤ s.sh.notify ∧ s.sh.notify ≤ s.sh.wait
  loc : ∀ (j : Nat) (u : Thread), s.threads[j]? = some u → NlLocal c0 s.sh u
  mux : ∀ (j : Nat) (u : Thread), s.threads[j]? = some u → holdsN u = true → s.sh.nmu = some j
  rng : ∀ r ∈ s.sh.rets, c0 ≤ r.2.1 ∧ r.2.1 < s.sh.wait ∧ c0 ≤ r.2.2 ∧ r.2.2 ≤ s.sh.wait

theorem nlInv_init (v c0 : Nat) (progs : List (List Op)) : NlInv c0 (initAt v c0 progs) := by
  have fresh : ∀ (j : Nat) (u : Thread), (initAt v c0 progs).threads[j]? = some u →
      NlLocal c0 (initAt v c0 progs).sh u ∧ holdsN u = false := by
    intro j u hu
    have hm := List.mem_of_getElem? hu
    simp only [initAt, List.mem_map] at hm
    obtain ⟨p, _, rfl⟩ := hm
    exact start_nl c0 _ p
  refine ⟨by simp [initAt, initShared], fun j u hu => (fresh j u hu).1, ?_, by simp [initAt, initShared]⟩
  intro j u hu hh
  rw [(fresh j u hu).2] at hh; simp at hh

theorem nlInv_next {cfg : Cfg} {c0 : Nat} {s s' : State} {a : Action} (h : NlInv c0 s)
    (hn : next cfg s a = some s') : NlInv c0 s' ∧ s.sh.wait ≤ s'.sh.wait := by
  cases a with
  | step i pick =>
    obtain ⟨t, sh', t', w, ev, ths, ht, hs, ha, rfl⟩ := next_step_inv hn
    obtain ⟨g1, g2, g3, gw, gn, fr⟩ := stepThread_nl hs h.ord (h.loc i t ht) (h.mux i t ht)
    have hlt : i < s.threads.length := (List.getElem?_eq_some_iff.mp ht).1
    -- the threads after `set`, before the wake-up
    have mid : ∀ (j : Nat) (u : Thread), (s.threads.set i t')[j]? = some u →
        NlLocal c0 sh' u ∧ (holdsN u = true → sh'.nmu = some j) := by
      intro j u hu
      by_cases hj : j = i
      · subst hj
        simp [List.getElem?_set_self hlt] at hu
        subst hu
        exact ⟨g2, g3⟩
      · rw [List.getElem?_set_ne (Ne.symm hj)] at hu
        have ol := h.loc j u hu
        have om := h.mux j u hu
        -- another thread never holds the mutex together with the stepping one
        have notboth : holdsN t = true → holdsN u = false := by
          intro htt
          cases hu' : holdsN u with
          | false => rfl
          | true =>
            have a1 := om hu'
            have a2 := h.mux i t ht htt
            rw [a1] at a2
            simp at a2
            exact absurd a2 hj
        rcases fr with ⟨e1, e2⟩ | ⟨e1, e2⟩ | e3
        · exact ⟨nlLocal_frame ol gw (Or.inl e1), fun hh => by rw [e2]; exact om hh⟩
        · refine ⟨nlLocal_frame ol gw (Or.inl e2), fun hh => ?_⟩
          have := om hh; rw [e1] at this; simp at this
        · have nh := notboth e3
          exact ⟨nlLocal_frame ol gw (Or.inr nh), fun hh => by rw [nh] at hh; simp at hh⟩
    refine ⟨⟨g1, ?_, ?_, ?_⟩, gw⟩
    · intro j u hu
      obtain ⟨u0, hu0, hor⟩ := applyWake_get ha j u hu
      rcases hor with rfl | rfl
      · exact (mid j _ hu0).1
      · exact wake_nl (mid j u0 hu0).1
    · intro j u hu hh
      obtain ⟨u0, hu0, hor⟩ := applyWake_get ha j u hu
      rcases hor with rfl | rfl
      · exact (mid j _ hu0).2 hh
      · rw [wake_holdsN] at hh; exact (mid j u0 hu0).2 hh
    · intro r hr
      have ho := h.ord
      rcases stepThread_rets_range hs (h.loc i t ht) with e | ⟨tk, k1, k2, e⟩
      · simp only at hr; rw [e] at hr
        have := h.rng r hr
        simp only; omega
      · simp only at hr; rw [e] at hr
        cases hr with
        | head => simp only; omega
        | tail _ hm =>
          have := h.rng r hm
          simp only; omega
  | spurious i =>
    obtain ⟨t, ht, _, rfl⟩ := next_spurious_inv hn
    have hlt : i < s.threads.length := (List.getElem?_eq_some_iff.mp ht).1
    refine ⟨⟨h.ord, ?_, ?_, h.rng⟩, Nat.le_refl _⟩
    · intro j u hu
      by_cases hj : j = i
      · subst hj
        simp [List.getElem?_set_self hlt] at hu
        subst hu
        exact wake_nl (h.loc j t ht)
      · rw [List.getElem?_set_ne (Ne.symm hj)] at hu
        exact h.loc j u hu
    · intro j u hu hh
      by_cases hj : j = i
      · subst hj
        simp [List.getElem?_set_self hlt] at hu
        subst hu
        rw [wake_holdsN] at hh
        exact h.mux j t ht hh
      · rw [List.getElem?_set_ne (Ne.symm hj)] at hu
        exact h.mux j u hu hh

theorem nlInv_reachable {cfg : Cfg} {v c0 : Nat} {progs : List (List Op)} {s : State}
    (hr : Reachable cfg (initAt v c0 progs) s) : NlInv c0 s :=
  reachable_induction (NlInv c0) (nlInv_init v c0 progs) (fun _ _ _ h hn => (nlInv_next h hn).1) s hr

/-- the repaired notify list: nobody sleeps with a notified ticket -/
theorem noStale_init (v c0 : Nat) (progs : List (List Op)) :
    AllT (NoStale (initAt v c0 progs).sh.notify) (initAt v c0 progs).threads :=
  allT_start _ (fun p tk h => absurd h (start_not_listWaiting p tk)) progs

theorem noStale_next {cfg : Cfg} {c0 : Nat} {s s' : State} {a : Action} (h1 : cfg.ticketLess = true)
    (h2 : cfg.oneBroadcast = true) (hI : NlInv c0 s) (hb : s.sh.wait < c0 + 2147483648)
    (h : AllT (NoStale s.sh.notify) s.threads) (hn : next cfg s a = some s') :
    AllT (NoStale s'.sh.notify) s'.threads := by
  cases a with
  | step i pick =>
    obtain ⟨t, sh', t', w, ev, ths, ht, hs, ha, rfl⟩ := next_step_inv hn
    obtain ⟨hw, ht'⟩ := stepThread_notify hs h1 h2 hI.ord (hI.loc i t ht) hb
    rcases hw with hw | hw
    · simp only
      rw [hw]
      rw [hw] at ht'
      exact applyWake_noStale (allT_set h ht') ha
    · subst hw
      exact applyWake_listAll_noStale ha
  | spurious i =>
    obtain ⟨t, ht, _, rfl⟩ := next_spurious_inv hn
    exact allT_set h (fun tk htk => absurd htk (wake_not_listWaiting t tk))

/-- while fewer than 2^31 tickets have been drawn, nobody sleeps with a notified ticket (repaired notify list) -/
theorem noStale_reachable {cfg : Cfg} {v c0 : Nat} {progs : List (List Op)} {s : State} (h1 : cfg.ticketLess = true)
    (h2 : cfg.oneBroadcast = true) (hr : Reachable cfg (initAt v c0 progs) s) :
    s.sh.wait < c0 + 2147483648 → AllT (NoStale s.sh.notify) s.threads := by
  induction hr with
  | refl => intro _; exact noStale_init v c0 progs
  | step a hr' hn ih =>
    intro hb
    have hI := nlInv_reachable hr'
    have hmono := (nlInv_next hI hn).2
    exact noStale_next h1 h2 hI (by omega) (ih (by omega)) hn

end LlgoVerif.Sema
