"""C16 — go:embed delivers exactly the files and bytes the go tool would embed.

Lean: LlgoVerif/Model/Embed.lean (goembed.go), Spec/Embed.lean (cmd/go's rule), Props/C16.lean.
Tie: hand-written model + correspondence.  Generated package trees are materialised under ctx.scratch;
every case goes through
  R  the real goembed.ResolvePatterns / LoadDirectives (harness/c16, built against the working tree),
  M  the compiled Lean model (modeld_c16), in the variant that matches the code (probed first),
  G  `go list -e -json` (EmbedPatterns / EmbedFiles / Error) of a generated package with the same
     //go:embed lines — the reference toolchain, i.e. the property's oracle — and `go build` for the
     directive-level cases.
R vs G is the verdict on the property; R vs M the correspondence; M(repaired) vs G the validation of the
Lean specification (Props/C16 proves model(repaired) = Spec)."""
import json
import os
import random
import re
import shutil
import stat
import subprocess
import threading

import vlib.common as vc
from vlib.common import *

sh = vc.run          # (`run` below is the check's entry point)

# ----------------------------------------------------------------------------- names and trees
GOOD = [b"a", b"b", b"c.txt", b"d.json", b"x", b"y1", b"data", b"sub", b"README", b"readme", b"k.txt", b"m.json", b"z"]
HIDDEN = [b".h", b".hid.txt", b"_u", b"_priv.txt", b".d", b"_d"]
SPACES = [b"a b", b"sp ace.txt", b" lead", b"trail "]
UNI = ["é".encode(), "世界".encode(), "ñ.txt".encode(), "Ωmega".encode(), "über.json".encode()]
BAD = [b".git", b".hg", b".svn", b".bzr", b"...", b"a.", b"a'b", b"q?", b"st*r", b'b"q', b"a:b", b"x|y", b"lt<", b"s;c",
       "em\U0001F600".encode(), "nb\u00a0sp".encode(), b"con", b"CON.txt", b"nul", b"aux.txt", b"com1", b"LPT9.x", b"Com3",
       b"\xff", b"a\xfeb", b"`bq", b"a\\b"]
META = [b"[z]", b"a[1]", b"{x}", b"a+b", b"t~1", b"#h", b"$v", b"a,b", b"p(1)", b"e=f", b"at@x", b"^c"]
ALL_NAMES = GOOD + HIDDEN + SPACES + UNI + BAD + META


def rdata(rng):
    n = rng.choice([0, 1, 2, 5, 12])
    return bytes(rng.choice([0, 10, 32, 65, 97, 0xc3, 0xa9, 0xff, 0x80, 47]) for _ in range(n))


class N:
    """tree node: kind f(data) d(children: dict name->N) l(target: bytes path as written, resolved: N or None) i"""

    def __init__(self, kind, data=None, children=None, target=None, resolved=None):
        self.kind, self.data, self.children, self.target, self.resolved = kind, data, children, target, resolved


OUT_DIR = N("d", children={b"of.txt": N("f", data=b"outside"), b".ohid": N("f", data=b"h"), b"go.mod": N("f", data=b"module o\n")})
OUT_DIR2 = N("d", children={b"g.txt": N("f", data=b"g2")})
OUT_FILE = N("f", data=b"outfile")


def gen_dir(rng, depth, top=False, outside=None):
    """children dict of a directory at the given depth (depth 1 = package directory itself)"""
    ch = {}
    nmax = rng.choice([0, 1, 2, 3, 3, 4, 5]) if not top else rng.choice([1, 2, 3, 4, 5, 6])
    for _ in range(nmax):
        r = rng.random()
        pool = GOOD if r < 0.45 else HIDDEN if r < 0.6 else SPACES if r < 0.66 else UNI if r < 0.74 else BAD if r < 0.88 else META
        nm = rng.choice(pool)
        if nm in ch:
            continue
        k = rng.random()
        if k < 0.5 or depth >= 4:
            if k >= 0.5 and rng.random() < 0.5:
                ch[nm] = N("i")
            else:
                ch[nm] = N("f", data=rdata(rng))
        elif k < 0.8:
            ch[nm] = N("d", children=gen_dir(rng, depth + 1, outside=outside))
        elif k < 0.93:
            # symbolic link: to an earlier sibling, dangling, or outside of the module
            sib = list(ch.items())
            t = rng.random()
            if sib and t < 0.6:
                tn, tv = rng.choice(sib)
                ch[nm] = N("l", target=tn, resolved=tv)
            elif t < 0.75:
                ch[nm] = N("l", target=b"nowhere", resolved=None)
            elif t < 0.85:
                ch[nm] = N("l", target=os.path.join(outside, b"od"), resolved=OUT_DIR)
            elif t < 0.93:
                ch[nm] = N("l", target=os.path.join(outside, b"od2"), resolved=OUT_DIR2)
            else:
                ch[nm] = N("l", target=os.path.join(outside, b"ofile"), resolved=OUT_FILE)
        else:
            ch[nm] = N("i")
    # nested module marker (never in the package directory itself: it would make the package its own module)
    if not top and rng.random() < 0.12:
        k = rng.random()
        if k < 0.7:
            ch[b"go.mod"] = N("f", data=b"module nested\n")
        elif k < 0.8:
            ch[b"go.mod"] = N("d", children={})
        elif k < 0.9:
            ch[b"go.mod"] = N("l", target=b"nowhere", resolved=None)      # dangling: Stat fails, not a module
        else:
            ch[b"go.mod"] = N("i")
    return ch


def materialise(path, ch):
    os.makedirs(path, exist_ok=True)
    for nm, n in ch.items():
        p = os.path.join(path, nm)
        if n.kind == "f":
            with open(p, "wb") as f:
                f.write(n.data)
        elif n.kind == "d":
            materialise(p, n.children)
        elif n.kind == "l":
            os.symlink(n.target, p)
        else:
            os.mkfifo(p)


def enc_node(nm, n, toks):
    h = hexs(nm)
    if n.kind == "f":
        toks.append("f:%s:%s" % (h, hexs(n.data)))
    elif n.kind == "d":
        toks.append("d:" + h)
        for k in sorted(n.children):
            enc_node(k, n.children[k], toks)
        toks.append("e")
    elif n.kind == "l":
        if n.resolved is None:
            toks.append("x:" + h)
        else:
            toks.append("l:" + h)
            enc_node(b"", n.resolved, toks)
    else:
        toks.append("i:" + h)


def enc_tree(ch):
    toks = []
    for k in sorted(ch):
        enc_node(k, ch[k], toks)
    return ",".join(toks) if toks else "-"


def tree_json(ch):
    out = {}
    for k, n in ch.items():
        key = k.hex() or "-"
        if n.kind == "f":
            out[key] = {"file": n.data.hex()}
        elif n.kind == "d":
            out[key] = {"dir": tree_json(n.children)}
        elif n.kind == "l":
            out[key] = {"symlink": n.target.hex()}
        else:
            out[key] = {"fifo": True}
    return out


def all_paths(ch, prefix=(), through_links=True, depth=0):
    """[(path tuple, node)] of everything reachable (links to directories are looked through once)"""
    out = []
    for k, n in ch.items():
        p = prefix + (k,)
        out.append((p, n))
        d = n
        hops = 0
        while d is not None and d.kind == "l" and hops < 5:
            d = d.resolved
            hops += 1
        if d is not None and d.kind == "d" and depth < 5 and (n.kind == "d" or through_links):
            out += all_paths(d.children, p, through_links, depth + 1)
    return out


# ----------------------------------------------------------------------------- patterns
INVALID_PATS = [b".", b"..", b"", b"/abs", b"a/", b"a//b", b"a/../b", b"./a", b"[", b"a[", b"\\", b"all:", b"all:.", b"\xff",
                b"a/[", b"[a/b]", b"a\\", b"all:a/", b"../x", b"a/./b", b"[]a]", b"[^]", b"[a-]", b"a/.."]


def glob_of(rng, comp):
    """a pattern element that (probably) matches the name `comp`"""
    try:
        s = comp.decode()
    except UnicodeDecodeError:
        return b"*"
    r = rng.random()
    esc = lambda t: "".join("\\" + c if c in "*?[\\" else c for c in t)
    if r < 0.2:
        return b"*"
    if r < 0.35 and "." in s:
        return ("*" + esc(s[s.rindex("."):])).encode()
    if r < 0.5 and s:
        i = rng.randrange(len(s))
        return (esc(s[:i]) + "?" + esc(s[i + 1:])).encode()
    if r < 0.65 and s:
        c = s[0]
        lo, hi = chr(max(1, ord(c) - rng.randint(0, 2))), chr(ord(c) + rng.randint(0, 2))
        if any(x in "]-\\^/" for x in (lo, hi)) or not lo.isprintable() or not hi.isprintable():
            return ("[" + ("\\" + c if c in "]-\\^" else c) + "]*").encode() if c != "/" else b"*"
        return ("[" + lo + "-" + hi + "]" + esc(s[1:])).encode()
    if r < 0.75 and s:
        return (esc(s[:1]) + "*").encode()
    if r < 0.82 and len(s) > 1:
        return ("*" + esc(s[-1:])).encode()
    if r < 0.88 and s:
        return ("[^" + ("q" if s[0] != "q" else "r") + "]" + esc(s[1:])).encode()
    return esc(s).encode()


def gen_patterns(rng, ch):
    paths = all_paths(ch)
    plain = all_paths(ch, through_links=False)
    pats = []
    for _ in range(rng.choice([1, 1, 1, 2, 2, 3])):
        r = rng.random()
        if r < 0.08 or not paths:
            p = rng.choice(INVALID_PATS)
        elif r < 0.14:
            p = rng.choice([b"nope", b"no/such", b"*.none", b"zz*"])
        else:
            # mostly aim at something embeddable (regular file / real directory, harmless names), sometimes at anything
            okp = [(pp, nn) for pp, nn in plain if nn.kind in "fd" and all(c in GOOD or c in HIDDEN or c in UNI or c in SPACES[:2] for c in pp)]
            path, node = rng.choice(okp) if okp and rng.random() < 0.6 else rng.choice(paths)
            comps = []
            for c in path:
                lit_ok = all(x not in c for x in b"*?[\\")
                if rng.random() < 0.35 or not lit_ok:
                    comps.append(glob_of(rng, c))
                else:
                    comps.append(c)
            p = b"/".join(comps)
            if rng.random() < 0.25:
                p = b"all:" + p
        pats.append(p)
    if rng.random() < 0.1:
        pats.append(rng.choice(pats))          # duplicate
    return pats



# ----------------------------------------------------------------------------- lists in which per-pattern state must not leak
# ResolvePatterns keeps state per pattern (`all`, the file/directory kind of the match, the per-pattern counters).  These lists
# put a pattern of one kind in front of (behind, between) patterns of a different kind, over directories whose dot/underscore
# entries make a leaked `all:` visible: `all:conf web` must not embed web/.hidden, `all:conf cache` (cache holding only `.keep`)
# must be rejected, `web all:conf` and `a all:conf web` likewise keep `web` filtered.
SC_DIRS = [b"conf", b"web", b"cache", b"assets", b"tpl", b"static"]


def sc_dir(rng, only_hidden=False):
    ch = {}
    if not only_hidden:
        for nm in rng.sample([b"index.html", b"app.js", b"k.txt", b"m.json", b"v"], rng.randint(1, 3)):
            ch[nm] = N("f", data=rdata(rng))
    for nm in rng.sample([b".hidden", b"_x", b".keep", b"_priv.txt", b".env"], rng.randint(1, 3)):
        ch[nm] = N("f", data=rdata(rng))
    r = rng.random()
    if r < 0.35:
        ch[rng.choice([b".sub", b"_gen"])] = N("d", children={b"inner.txt": N("f", data=rdata(rng))})
    if r > 0.6 and not only_hidden:
        ch[b"sub"] = N("d", children={b"u.txt": N("f", data=rdata(rng)), rng.choice([b".t", b"_t"]): N("f", data=rdata(rng))})
    return ch


def gen_state_carry(rng, outside):
    """(children of the package directory, pattern list, note)"""
    ch = gen_dir(rng, 1, top=True, outside=outside) if rng.random() < 0.4 else {}
    names = rng.sample(SC_DIRS, rng.choice([2, 3, 3]))
    hidden_only = rng.random() < 0.3
    for i, nm in enumerate(names):
        ch[nm] = N("d", children=sc_dir(rng, only_hidden=(hidden_only and i == 1)))
    ch[b"f1.txt"] = N("f", data=rdata(rng))
    ch[b"top.json"] = N("f", data=rdata(rng))
    if rng.random() < 0.5:
        ch[rng.choice([b".topdot", b"_topus"])] = N("f", data=rdata(rng))

    def elem(d, kind):
        """one pattern of the given kind aimed at directory d"""
        vis = sorted(k for k, v in ch[d].children.items() if v.kind == "f" and k[0:1] not in (b".", b"_"))
        if kind == "dirlit":
            return d
        if kind == "dirglob":
            return rng.choice([d[:2] + b"*", b"?" + d[1:], b"[" + d[:1] + b"]" + d[1:], d[:-1] + b"?"])
        if kind == "innerglob":
            return d + b"/*"
        if kind == "subdir" and b"sub" in ch[d].children:
            return d + b"/sub"
        if kind == "filelit" and vis:
            return d + b"/" + rng.choice(vis)
        if kind == "fileglob":
            return rng.choice([b"*.txt", b"*.json", b"f1.*", d + b"/*.*"])
        if kind == "topfile":
            return rng.choice([b"f1.txt", b"top.json"])
        return d

    dir_kinds = ["dirlit", "dirlit", "dirglob", "innerglob", "subdir"]
    file_kinds = ["filelit", "fileglob", "topfile"]
    x, y, z = names[0], names[1], names[-1]
    t = rng.randrange(12)
    A = lambda p: b"all:" + p
    if t == 0:
        pats, note = [A(elem(x, rng.choice(dir_kinds))), elem(y, rng.choice(dir_kinds))], "all:dir then plain dir"
    elif t == 1:
        pats, note = [elem(y, rng.choice(dir_kinds)), A(elem(x, rng.choice(dir_kinds)))], "plain dir then all:dir"
    elif t == 2:
        pats, note = [elem(y, rng.choice(dir_kinds + file_kinds)), A(elem(x, rng.choice(dir_kinds))), elem(z, rng.choice(dir_kinds))], "all: in the middle of three"
    elif t == 3:
        pats, note = [A(elem(x, rng.choice(dir_kinds))), elem(y, rng.choice(dir_kinds)), elem(z, rng.choice(dir_kinds + file_kinds))], "all: first of three"
    elif t == 4:
        pats, note = [A(elem(x, rng.choice(file_kinds))), elem(y, "dirlit")], "all:file/glob then plain dir"
    elif t == 5:
        pats, note = [A(elem(x, "dirlit")), elem(y, "dirglob")], "all:literal dir then globbed dir"
    elif t == 6:
        pats, note = [elem(x, "topfile"), A(elem(x, rng.choice(dir_kinds))), elem(y, "innerglob")], "file, all:dir, glob inside dir"
    elif t == 7:
        pats, note = [A(elem(y, "dirlit")), elem(y, "dirlit")], "all:dir then the same dir plain"
    elif t == 8:
        pats, note = [elem(x, rng.choice(file_kinds)), elem(y, rng.choice(dir_kinds))], "file then dir (no all:)"
    elif t == 9:
        pats, note = [elem(y, rng.choice(dir_kinds)), elem(x, rng.choice(file_kinds)), elem(z, "dirglob")], "dir, file, globbed dir (no all:)"
    elif t == 10:
        pats, note = [A(elem(x, "dirglob")), elem(y, "filelit"), elem(z, "dirlit")], "all:glob, literal file, literal dir"
    else:
        pats, note = [A(elem(x, "innerglob")), elem(y, "dirlit"), A(elem(z, "dirlit"))], "all:, plain, all:"
    return ch, pats, "state-carry: " + note


SAFE_BARE = re.compile(rb"^[A-Za-z0-9_./*?\[\]\-:^+=@~,#$%&(){}!]+$")


def render_pattern(rng, p):
    """Go source text of one //go:embed argument denoting the byte string p"""
    styles = ["dq"]
    try:
        s = p.decode()
        printable = all(c.isprintable() or c == " " for c in s) and all(ord(c) < 0x80 or c.isalpha() for c in s)
    except UnicodeDecodeError:
        s, printable = None, False
    if s is not None and printable and "`" not in s and s != "":
        styles.append("bq")
    if SAFE_BARE.match(p):
        styles += ["bare", "bare"]
    st = rng.choice(styles)
    if st == "bare":
        return p
    if st == "bq":
        return b"`" + p + b"`"
    out = b'"'
    i = 0
    while i < len(p):
        c = p[i]
        if c in (0x22, 0x5c):
            out += b"\\" + bytes([c])
        elif 0x20 <= c < 0x7f:
            out += bytes([c])
        elif s is not None and c >= 0x80 and printable:
            out += bytes([c])
        else:
            out += b"\\x%02x" % c
        i += 1
    return out + b'"'


# ----------------------------------------------------------------------------- go list / go build
def go_list(moddir):
    p = sh(["go", "list", "-e", "-json", "./..."], cwd=moddir, env=go_env(), timeout=900)
    dec = json.JSONDecoder()
    out = {}
    s = p.stdout
    i = 0
    while i < len(s):
        while i < len(s) and s[i].isspace():
            i += 1
        if i >= len(s):
            break
        obj, j = dec.raw_decode(s, i)
        i = j
        out[os.path.basename(obj["Dir"])] = obj
    if not out:
        raise RuntimeError("go list produced nothing:\n" + p.stderr[-3000:])
    return out


def go_build_status(moddir, names):
    """compile the named packages (those `go list` loads without error): set of names the compiler rejects"""
    if not names:
        return set(), ""
    p = sh(["go", "build"] + ["./" + n for n in names], cwd=moddir, env=go_env(), timeout=900)
    bad = set(re.findall(r"^# \S+/(\S+)$", p.stderr, flags=re.M))
    if p.returncode != 0 and not bad:
        raise RuntimeError("go build failed without naming a package:\n" + p.stderr[-3000:])
    return bad, p.stderr


LOAD_UNSAFE = "invalid input file name"
LOAD_FOLD = "case-insensitive file name collision"


def safe_arg(name):
    """cmd/go load.SafeArg + the `_cgo_` rule applied to every input file, embedded files included"""
    if not name or name.startswith(b"_cgo_"):
        return False
    c = name[0]
    return chr(c).isalnum() and c < 0x80 or c in b"._/" or c >= 0x80


def g_result(obj):
    """('err', msg) | ('ok', sorted embed files) from a go list object"""
    err = obj.get("Error")
    if err:
        return ("err", err.get("Err", ""))
    return ("ok", sorted(obj.get("EmbedFiles") or []))


def parse_files(line):
    """'ok N=D,N=D' -> [(name bytes, data bytes)] ; 'err' -> None"""
    if not line.startswith("ok"):
        return None
    rest = line[2:].strip()
    if rest in (".", ""):
        return []
    out = []
    for kv in rest.split(","):
        k, v = kv.split("=")
        out.append((unhexs(k), unhexs(v)))
    return out


# ----------------------------------------------------------------------------- directive-level cases
D_TREE = {b"a": N("f", data=b"A"), b"b": N("f", data=b"B"), b"x": N("f", data=b"X"), b"a b": N("f", data=b"AB"),
          b"'a'": N("f", data=b"QA"), b"d": N("d", children={b"f": N("f", data=b"F"), b".g": N("f", data=b"G")}),
          b"c.txt": N("f", data=b"C"),
          b"w": N("d", children={b"i": N("f", data=b"I"), b".hid": N("f", data=b"H"), b"_x": N("f", data=b"U"),
                                 b"s": N("d", children={b".t": N("f", data=b"T"), b"u": N("f", data=b"V")})}),
          b"cache": N("d", children={b".keep": N("f", data=b"")})}

# (class, source text after the import block).  Tabs directly after `go:embed` are avoided: go/build and the
# compiler disagree on them (go/build takes the line, the compiler ignores it).
D_TEMPLATES = [
    ("plain", "//go:embed a\nvar V embed.FS\n"),
    ("plain", "//go:embed a b x\nvar V embed.FS\n"),
    ("plain", "//go:embed \"a b\" `c.txt`\nvar V embed.FS\n"),
    ("plain", "//go:embed d all:d\nvar V embed.FS\n"),
    ("plain", "//go:embed *.txt\nvar V embed.FS\n//go:embed a\nvar S string\n//go:embed b\nvar B []byte\n"),
    ("plain", "// doc\n//go:embed a\n//go:embed b\nvar V embed.FS\n"),
    ("plain", "var (\n\t//go:embed a\n\tV embed.FS\n\t//go:embed b\n\tW embed.FS\n)\n"),
    ("plain", "//go:embed   a    b  \nvar V embed.FS\n"),
    ("plain", "//go:embed \"\\x61\"\nvar V embed.FS\n"),
    ("plain", "//go:embedx a\nvar V embed.FS\n"),
    ("plain", "//go:embed nosuch\nvar V embed.FS\n"),
    ("plain", "//go:embed \"a\nvar V embed.FS\n"),
    ("plain", "//go:embed `a\nvar V embed.FS\n"),
    ("plain", "//go:embed\nvar V embed.FS\n"),
    ("plain", "//go:embed a\nvar V, W embed.FS\n"),
    ("plain", "//go:embed a\"b\nvar V embed.FS\n"),
    # per-pattern state: `all:` must hold for its own pattern only (w has dot/underscore entries, cache only `.keep`)
    ("plain", "//go:embed all:d w\nvar V embed.FS\n"),
    ("plain", "//go:embed w all:d\nvar V embed.FS\n"),
    ("plain", "//go:embed a all:d w\nvar V embed.FS\n"),
    ("plain", "//go:embed all:d w a\nvar V embed.FS\n"),
    ("plain", "//go:embed all:d cache\nvar V embed.FS\n"),
    ("plain", "//go:embed cache all:d\nvar V embed.FS\n"),
    ("plain", "//go:embed all:cache w\nvar V embed.FS\n"),
    ("plain", "//go:embed all:d\n//go:embed w\nvar V embed.FS\n"),
    ("plain", "//go:embed all:*.txt w\nvar V embed.FS\n"),
    ("plain", "//go:embed all:d w/*\nvar V embed.FS\n"),
    ("plain", "//go:embed all:d w/s\nvar V embed.FS\n"),
    ("plain", "//go:embed \"all:d\" `w`\nvar V embed.FS\n"),
    ("plain", "//go:embed all:w/i w\nvar V embed.FS\n"),
    ("plain", "//go:embed c.txt w all:w/s\nvar V embed.FS\n"),
    ("plain", "//go:embed all:d\nvar V embed.FS\n//go:embed w\nvar W embed.FS\n"),
    ("directive:blank-before-go-embed", "// go:embed x\nvar V embed.FS\n"),
    ("directive:blank-before-go-embed", "//  go:embed a b\nvar V embed.FS\n"),
    ("directive:blank-before-go-embed", "//\tgo:embed nosuch\nvar V embed.FS\n"),
    ("directive:unicode-space-separator", "//go:embed a\u00a0b\nvar V embed.FS\n"),
    ("directive:unicode-space-separator", "//go:embed a\u2003x\nvar V embed.FS\n"),
    ("directive:unicode-space-separator", "//go:embed a\u0085b x\nvar V embed.FS\n"),
    ("directive:quoted-arg-followed-by-nonspace", "//go:embed \"a\"\"b\"\nvar V embed.FS\n"),
    ("directive:quoted-arg-followed-by-nonspace", "//go:embed `a`x\nvar V embed.FS\n"),
    ("directive:quoted-arg-followed-by-nonspace", "//go:embed \"a\"b\nvar V embed.FS\n"),
    ("directive:blank-line-before-var", "//go:embed a\n\nvar V embed.FS\n"),
    ("directive:blank-line-before-var", "//go:embed a b\n\n// other comment\nvar V embed.FS\n"),
    ("directive:group-doc-single-spec", "//go:embed a\nvar (\n\tV embed.FS\n)\n"),
    ("directive:single-quoted-arg-unquoted", "//go:embed 'a'\nvar V embed.FS\n"),
    ("directive:single-quoted-arg-unquoted", "//go:embed 'x' b\nvar V embed.FS\n"),
]


def d_class_of(src):
    """which documented divergence (if any) a directive-level source exercises — decided from the source text alone"""
    for line in src.split("\n"):
        if re.match(r"^//[ \t]+go:embed([ \t]|$)", line):
            return "directive:blank-before-go-embed"
    lines = src.split("\n")
    for i, line in enumerate(lines):
        if not re.match(r"^\s*//go:embed([ \t]|$)", line):
            continue
        args = line.split("go:embed", 1)[1]
        if re.search(r"[\u0085\u00a0\u1680\u2000-\u200a\u2028\u2029\u202f\u205f\u3000\v\f]", args):
            return "directive:unicode-space-separator"
        if re.search(r"(\"(?:[^\"\\]|\\.)*\"|`[^`]*`)(?=\S)", args):
            return "directive:quoted-arg-followed-by-nonspace"
        if re.search(r"(^|[ \t])'[^ \t]*'(?=[ \t]|$)", args):
            return "directive:single-quoted-arg-unquoted"
        # what follows the comment group
        j = i + 1
        while j < len(lines) and lines[j].startswith("//"):
            j += 1
        if j < len(lines) and lines[j].strip() == "":
            return "directive:blank-line-before-var"
        if j < len(lines) and re.match(r"^var\s*\($", lines[j].strip()):
            return "directive:group-doc-single-spec"
    return None


MF_IMPORTS = ['import "embed"\n\nvar _ embed.FS\n', 'import _ "embed"\n', 'import (\n\t"unsafe"\n\t_ "embed"\n)\n\nvar _ unsafe.Pointer\n',
              'import e "embed"\n\nvar _ e.FS\n', "", "", 'import "unsafe"\n\nvar _ unsafe.Pointer\n']


def gen_multifile(rng, n):
    """packages of 2-3 files; each file independently imports embed (plainly, blank, renamed) or not, and carries 0-2
    directives on string / []byte variables (embed.FS only where the file can name the type)"""
    out = [
        [("a.go", 'package p\n\nimport _ "embed"\n\n//go:embed a\nvar A string\n'), ("b.go", "package p\n\n//go:embed b\nvar B string\n")],
        [("a.go", "package p\n\n//go:embed a\nvar A []byte\n"), ("b.go", 'package p\n\nimport _ "embed"\n\n//go:embed b\nvar B string\n')],
        [("a.go", 'package p\n\nimport _ "embed"\n\n//go:embed a\nvar A string\n'), ("b.go", 'package p\n\nimport _ "embed"\n\n//go:embed b\nvar B []byte\n')],
        [("a.go", "package p\n\n//go:embed a\nvar A string\n"), ("b.go", "package p\n\nvar B string\n")],
    ]
    while len(out) < n:
        files = []
        for k in range(rng.choice([2, 2, 3])):
            imp = rng.choice(MF_IMPORTS)
            text = "package p\n\n" + imp + "\n"
            for j in range(rng.choice([0, 1, 1, 2])):
                pat = rng.choice(["a", "b", "x", "c.txt", "d/f", "*.txt"])
                typ = rng.choice(["string", "[]byte"])
                text += "//go:embed %s\nvar V%d_%d %s\n\n" % (pat, k, j, typ)
            files.append(("f%d.go" % k, text))
        out.append(files)
    return out[:n]


def gen_directive_src(rng):
    """random single-var sources from a small alphabet (the malformed stream)"""
    toks = ["a", "b", "x", "\"a b\"", "`c.txt`", "d", "all:d", "*.txt", "nosuch", "\"a\"", "'a'", "a\u00a0b", "\"a\"\"b\"",
            "`a`x", "\"a", ".", "d/f", "\"d/f\"", "  ", " ", "w", "w", "all:w", "cache", "all:cache", "w/*", "w/s", "all:d", "all:c.txt"]
    if rng.random() < 0.4:
        # an all: pattern next to plain patterns over directories with dot/underscore entries, in every order
        seq = rng.choice([["all:%s", "%s"], ["%s", "all:%s"], ["%s", "all:%s", "%s"], ["all:%s", "%s", "%s"], ["all:%s", "%s", "all:%s"]])
        pool = ["d", "w", "cache", "w/s", "w/*", "c.txt", "a", "*.txt", "d/f", "w/i", "?"]
        return "//go:embed " + " ".join(t % rng.choice(pool) for t in seq) + "\nvar V embed.FS\n"
    line = "//" + rng.choice(["", "", "", "", " "]) + "go:embed" + rng.choice([" ", " ", "  ", ""])
    line += " ".join(rng.choice(toks) for _ in range(rng.randint(0, 3)))
    tail = rng.choice(["\nvar V embed.FS\n", "\nvar V embed.FS\n", "\nvar V embed.FS\n", "\n\nvar V embed.FS\n", "\nvar (\n\tV embed.FS\n)\n"])
    return line + tail


# ----------------------------------------------------------------------------- embed.FS table requirements (spec for BuildFSEntries)
def embed_split(name):
    isdir = name.endswith(b"/")
    if isdir:
        name = name[:-1]
    i = name.rfind(b"/")
    return ((b".", name) if i < 0 else (name[:i], name[i + 1:])), isdir


def check_fs_table(files, out):
    """files, out: [(name, data)] — what embed.FS needs (embed/embed.go, cmd/compile staticdata.embedFileList)"""
    names = [n for n, _ in out]
    if len(set(names)) != len(names):
        return "duplicate entry"
    want = {}
    for n, d in files:
        want[n] = d
        parts = n.split(b"/")
        for k in range(1, len(parts)):
            want[b"/".join(parts[:k]) + b"/"] = b""
    if dict(out) != want:
        return "entries differ from files + parent directories"
    keys = [embed_split(n)[0] for n in names]
    if any(not (keys[i] < keys[i + 1]) for i in range(len(keys) - 1)):
        return "not sorted by (dir, elem)"
    return None



# ----------------------------------------------------------------------------- cl/embed.go: reading the LLVM module back
def build_clembed(ctx):
    """second binary of harness/c16: cl.NewPackageEx in-process (-tags llvm14,verif + opaque-pointer overlay on package ssa)"""
    dst = os.path.join(ctx.scratch, "h-c16")
    ov = {"Replace": {os.path.join(REPO, "ssa", "zz_verif_opaque.go"): os.path.join(dst, "overlay", "zz_verif_opaque.go.txt")}}
    ovp = os.path.join(dst, "ov-cl.json")
    json.dump(ov, open(ovp, "w"))
    out = os.path.join(dst, "clembed.bin")
    p = sh(["go", "build", "-tags", "llvm14,verif", "-overlay", ovp, "-o", out, "./clembed"], cwd=dst, env=go_env(), timeout=1800)
    if p.returncode != 0:
        raise HarnessBuildError("go build of harness c16/clembed failed:\n" + (p.stdout + p.stderr)[-4000:])
    return out, dst


def ll_unescape(s):
    out = bytearray()
    i = 0
    b = s.encode("latin-1")
    while i < len(b):
        if b[i] == 0x5c:
            out.append(int(b[i + 1:i + 3], 16))
            i += 3
        else:
            out.append(b[i])
            i += 1
    return bytes(out)


def parse_module(text):
    """-> {"S": bytes|None, "B": bytes|None, "F": [(name, data)] | None, "n": MakeSlice length | None} from the module of package p.
    Reads exactly what cl/embed.go writes: constant initialisers of @p.S / @p.B and the stores into the embed.file table in @p.init."""
    consts = {}
    for m in re.finditer(r'^@(\d+) = private (?:unnamed_addr )?(?:constant|global) \[(\d+) x i8\] (?:c"((?:[^"\\]|\\[0-9A-Fa-f]{2})*)"|zeroinitializer)', text, flags=re.M):
        consts[m.group(1)] = ll_unescape(m.group(3)) if m.group(3) is not None else b"\0" * int(m.group(2))

    def strval(v):
        v = v.strip()
        if v == "zeroinitializer":
            return b""
        m = re.match(r"\{ ptr (?:@(\d+)|null), i64 (\d+)(?:, i64 (\d+))? \}", v)
        if not m:
            raise ValueError("unrecognised aggregate: " + v)
        if m.group(1) is None:
            return b""
        data = consts[m.group(1)]
        n = int(m.group(2))
        if n > len(data) or (m.group(3) is not None and int(m.group(3)) != n):
            raise ValueError("length out of range: " + v)
        return data[:n]

    def backing(v):
        m = re.match(r"\{ ptr (?:@(\d+)|null), i64 (\d+)", v.strip())
        return m.group(1) if m else None

    res = {"S": None, "B": None, "F": None, "n": None, "B2": None, "B_store": None, "B2_store": None}
    m = re.search(r'^@p\.B2 = global %"[^"]*\.Slice" (.*?), align', text, flags=re.M)
    if m:
        res["B2"] = strval(m.group(1))
        res["B2_store"] = backing(m.group(1))
    m = re.search(r'^@p\.S = global %"[^"]*\.String" (.*?), align', text, flags=re.M)
    if m:
        res["S"] = strval(m.group(1))
    m = re.search(r'^@p\.B = global %"[^"]*\.Slice" (.*?), align', text, flags=re.M)
    if m:
        res["B"] = strval(m.group(1))
        res["B_store"] = backing(m.group(1))
    if re.search(r"^@p\.F = ", text, flags=re.M):
        init = re.search(r"define void @p\.init\(\).*?^}", text, flags=re.M | re.S)
        table = {}
        if init:
            body = init.group(0)
            mk = re.search(r'MakeSlice"\(i64 (\d+), i64 (\d+), i64 \d+\)', body)
            if mk:
                res["n"] = int(mk.group(1))
            elem, field = {}, {}
            for line in body.split("\n"):
                g = re.match(r"\s*(%\d+) = getelementptr inbounds %embed\.file, ptr (%\d+), i64 (\d+)$", line)
                if g:
                    elem[g.group(1)] = int(g.group(3))
                    continue
                g = re.match(r"\s*(%\d+) = getelementptr inbounds %embed\.file, ptr (%\d+), i32 0, i32 (\d+)$", line)
                if g and g.group(2) in elem:
                    field[g.group(1)] = (elem[g.group(2)], int(g.group(3)))
                    continue
                g = re.match(r'\s*store %"[^"]*\.String" (.*), ptr (%\d+), align', line)
                if g and g.group(2) in field:
                    table.setdefault(field[g.group(2)][0], {})[field[g.group(2)][1]] = strval(g.group(1))
        idx = sorted(table)
        if idx != list(range(len(idx))):
            raise ValueError("embed.FS table indices are not 0..n-1: %r" % idx)
        res["F"] = [(table[i].get(0), table[i].get(1)) for i in idx]
    return res


DUMP_GO = b"""package p

import (
	"encoding/hex"
	"fmt"
	"io/fs"
)

// Dump prints what a program compiled by the reference toolchain sees in the embed variables.
func Dump() {
	fmt.Println("S", "x"+hex.EncodeToString([]byte(S)))
	fmt.Println("B", "x"+hex.EncodeToString(B))
	fs.WalkDir(F, ".", func(path string, d fs.DirEntry, err error) error {
		if err != nil {
			fmt.Println("ERR", err)
			return nil
		}
		if path == "." {
			return nil
		}
		if d.IsDir() {
			fmt.Println("F", "x"+hex.EncodeToString([]byte(path)), "d")
			return nil
		}
		b, err := F.ReadFile(path)
		if err != nil {
			fmt.Println("ERR", err)
			return nil
		}
		fmt.Println("F", "x"+hex.EncodeToString([]byte(path)), "f", "x"+hex.EncodeToString(b))
		return nil
	})
}
"""


def glob_escape(b):
    return b"".join(b"\\" + bytes([c]) if c in b"*?[\\" else bytes([c]) for c in b)



def tree_from_json(d, outside):
    ch = {}
    for k, v in d.items():
        nm = b"" if k == "-" else bytes.fromhex(k)
        if "file" in v:
            ch[nm] = N("f", data=bytes.fromhex(v["file"]))
        elif "dir" in v:
            ch[nm] = N("d", children=tree_from_json(v["dir"], outside))
        elif "symlink" in v:
            t = bytes.fromhex(v["symlink"])
            if b"/outside/" in t:           # links that left the module pointed into the run's scratch directory
                t = os.path.join(outside, t.split(b"/outside/", 1)[1])
            ch[nm] = N("l", target=t, resolved=None)
        else:
            ch[nm] = N("i")
    return ch


def replay(ctx, path):
    """re-run one stored case on the real code and on the reference toolchain"""
    rep = json.load(open(path))["replay"]
    harness = build_go_harness(ctx, "c16")
    scratch = ctx.scratch.encode()
    outside = os.path.join(scratch, b"outside")
    materialise(os.path.join(outside, b"od"), OUT_DIR.children)
    materialise(os.path.join(outside, b"od2"), OUT_DIR2.children)
    with open(os.path.join(outside, b"ofile"), "wb") as f:
        f.write(OUT_FILE.data)
    mod = os.path.join(scratch, b"w[x]y", b"mod") if "package_dir" in rep else os.path.join(scratch, b"mod")
    pdir = os.path.join(mod, b"p0000")
    os.makedirs(pdir)
    with open(os.path.join(mod, b"go.mod"), "wb") as f:
        f.write(b"module tmod\n\ngo 1.24\n")
    if rep.get("package_dir_tree"):
        materialise(pdir, tree_from_json(rep["package_dir_tree"], outside))
        src = rep["go_source"].encode("utf-8", "surrogateescape")
        line = "resolve %s %s" % (hexs(pdir), " ".join(hexs(bytes.fromhex(h)) for h in rep["patterns_hex"]))
    else:
        materialise(pdir, D_TREE)
        src = ("package p\n\nimport \"embed\"\n\nvar _ embed.FS\n\n" + rep["go_source_after_imports"]).encode()
        line = "load %s" % hexs(os.path.join(pdir, b"p.go"))
    with open(os.path.join(pdir, b"p.go"), "wb") as f:
        f.write(src)
    real, _, _ = run_lines([harness], [line])
    g = go_list(mod.decode("utf-8", "surrogateescape"))["p0000"]
    gres = g_result(g)
    bad = set()
    if not g.get("Error"):
        bad, _ = go_build_status(mod.decode("utf-8", "surrogateescape"), ["p0000"])
    print("real code   :", real[0])
    print("go list     :", gres)
    print("go build    :", "rejects" if bad else "accepts" if not g.get("Error") else "(not run: package does not load)")
    return 0



# ----------------------------------------------------------------------------- //line directives
# The go tool resolves //go:embed patterns in the directory that really contains the .go file; //line directives only move
# reported positions.  LoadDirectives derives the package directory from a token position, so generated sources carry //line
# directives naming a file in another directory (relative, parent-relative, absolute), the same directory, or a directory
# that does not exist — before the package clause, after the imports, inside the directive's comment group, between
# directive and var, in /*line*/ form.  Every named directory holds *twin* files (same names, different bytes), so that a
# resolution in the wrong directory yields different bytes rather than an error.
L_TREE = {b"a": N("f", data=b"top-level a"), b"b": N("f", data=b"top-level b"), b"schema.txt": N("f", data=b"top-level schema"),
          b"d": N("d", children={b"f": N("f", data=b"top d/f"), b".g": N("f", data=b"top d/.g")})}


def twin_tree(ch, tag):
    out = {}
    for k, n in ch.items():
        if n.kind == "f":
            out[k] = N("f", data=n.data + b" ~twin in " + tag)
        elif n.kind == "d":
            out[k] = N("d", children=twin_tree(n.children, tag))
        else:
            out[k] = n
    return out


def line_sources(abs_twin):
    """[(note, full source text)]"""
    A = abs_twin.decode()
    targets = [("relative directory", "gen/expr.y"), ("parent-relative directory", "../ltwin/expr.y"), ("absolute directory", A + "/expr.y"),
               ("absolute directory that does not exist", "/nonexistent-c16/dir/expr.y"), ("same directory", "expr.y"),
               ("same directory with ./", "./expr.y"), ("relative path back into the same directory", "gen/../expr.y")]
    body = "//go:embed a\nvar S string\n\n//go:embed schema.txt d\nvar F embed.FS\n\n//go:embed all:d b\nvar G embed.FS\n"
    imp = "import \"embed\"\n\n"
    out = [("no //line directive", "package p\n\n" + imp + body)]
    for what, t in targets:
        out.append(("//line before the package clause: " + what, "//line %s:2\npackage p\n\n%s%s" % (t, imp, body)))
        out.append(("/*line*/ before the package clause: " + what, "/*line %s:2:1*/package p\n\n%s%s" % (t, imp, body)))
        out.append(("//line after a file comment, before the package clause: " + what,
                    "// Code generated by goyacc -o p.go %s. DO NOT EDIT.\n\n//line %s:1\npackage p\n\n%s%s" % (t, t, imp, body)))
        out.append(("//line after the imports: " + what, "package p\n\n%s//line %s:10\n\n%s" % (imp, t, body)))
        out.append(("//line at the head of the directive's comment group: " + what,
                    "package p\n\n%s//line %s:20\n//go:embed a\nvar S string\n\n// F holds the schema.\n//line %s:30\n//go:embed schema.txt d\nvar F embed.FS\n\n//go:embed all:d b\nvar G embed.FS\n" % (imp, t, t)))
        # go/parser compares //line-adjusted line numbers when it attaches a doc comment, so a //line between the directive and
        # the var detaches the directive for goembed (known finding); the other variables must still come from the right directory
        out.append(("//line between the directive and its var: " + what,
                    "package p\n\n%s//go:embed a\nvar S string\n\n//go:embed schema.txt d\n//line %s:30\nvar F embed.FS\n\n//go:embed all:d b\nvar G embed.FS\n" % (imp, t)))
        out.append(("//line before the package clause and again before each var: " + what,
                    "//line %s:2\npackage p\n\n%s//line %s:40\n//go:embed a\nvar S string\n\n//line p.go:12\n//go:embed schema.txt d\nvar F embed.FS\n\n//go:embed all:d b\nvar G embed.FS\n" % (t, imp, t)))
    # an error must stay an error whatever the //line says (the twin directory HAS the file)
    out.append(("pattern missing here but present in the named directory", "//line gen/expr.y:2\npackage p\n\n" + imp + "//go:embed onlyingen.txt\nvar F embed.FS\n"))
    return out


# ----------------------------------------------------------------------------- the check
def run(ctx, args):
    if getattr(args, "replay", None):
        return replay(ctx, args.replay)
    rng = ctx.rng
    quick = ctx.tier == "quick"
    n_trees = 200 if quick else 2200
    n_state = 90 if quick else 900
    n_dir_rand = 60 if quick else 500
    n_multi = 40 if quick else 300
    n_fn = 1500 if quick else 30000

    st = lean_check(ctx, ["LlgoVerif.Props.C16"], ["LlgoVerif/Props/C16.lean"],
                    extra_files=["LlgoVerif/Model/Embed.lean", "LlgoVerif/Spec/Embed.lean", "LlgoVerif/Lemmas/Embed.lean"],
                    leanchecker=(ctx.tier == "thorough"))
    modeld = build_driver(ctx, "modeld_c16")
    harness = build_go_harness(ctx, "c16")
    # the in-process cl harness (llvm14) takes a while to link: build it while the trees are generated and listed
    clres = {}

    def _bg_build():
        try:
            clres["ok"] = build_clembed(ctx)
        except Exception as e:      # re-raised in the main thread
            clres["err"] = e
    clthread = threading.Thread(target=_bg_build)
    clthread.start()

    scratch = ctx.scratch.encode()
    outside = os.path.join(scratch, b"outside")
    materialise(os.path.join(outside, b"od"), OUT_DIR.children)
    materialise(os.path.join(outside, b"od2"), OUT_DIR2.children)
    with open(os.path.join(outside, b"ofile"), "wb") as f:
        f.write(OUT_FILE.data)
    mod = os.path.join(scratch, b"mod")
    os.makedirs(mod)
    with open(os.path.join(mod, b"go.mod"), "wb") as f:
        f.write(b"module tmod\n\ngo 1.24\n")
    if re.search(rb"[*?\[\\]", scratch):
        raise RuntimeError("scratch path contains glob metacharacters; set VERIF_SCRATCH")

    # ---------------------------------------------------------------- cases
    cases = []   # dict(kind, name, tree, pats, src)

    def add_tree_case(name, ch, pats, note=""):
        pdir = os.path.join(mod, name.encode())
        materialise(pdir, ch)
        line = b"//go:embed " + b" ".join(render_pattern(rng, p) for p in pats)
        src = b"package p\n\nimport \"embed\"\n\n" + line + b"\nvar V embed.FS\n"
        with open(os.path.join(pdir, b"p.go"), "wb") as f:
            f.write(src)
        cases.append({"kind": "tree", "name": name, "tree": ch, "pats": pats, "dir": pdir, "src": src, "note": note})

    # corpus: the witness of Props/C16 (resolve_current_counterexample) and boundary layouts, always first
    real_d = N("d", children={b"x": N("f", data=b"hi")})
    cex = {b"real": real_d, b"link": N("l", target=b"real", resolved=real_d)}
    add_tree_case("p0000", cex, [b"link/x"], "witness of resolve_current_counterexample")
    add_tree_case("p0001", cex, [b"link/*", b"real"], "glob through a linked directory")
    add_tree_case("p0002", cex, [b"link"], "the link itself: irregular")
    hid = {b"d": N("d", children={b".h": N("f", data=b"1"), b"_u": N("f", data=b"2"), b"k": N("f", data=b"3"),
                                  b".git": N("d", children={b"c": N("f", data=b"4")}),
                                  b"m": N("d", children={b"go.mod": N("f", data=b""), b"q": N("f", data=b"5")}),
                                  b"e": N("d", children={})}),
           b"only": N("d", children={b".h": N("f", data=b"1")}), b"f": N("i")}
    for i, pl in enumerate([[b"d"], [b"all:d"], [b"d/.h"], [b"d/*"], [b"all:d/*"], [b"d/m"], [b"d/m/q"], [b"d/.git"], [b"d/.git/c"],
                            [b"only"], [b"all:only"], [b"d/e"], [b"f"], [b"d", b"d"], [b"d/k", b"all:d"], [b"*"], [b"d/_u", b"nope"]]):
        add_tree_case("p%04d" % (3 + i), hid, pl, "boundary")
    fold = {b"README": N("f", data=b"1"), b"readme": N("f", data=b"2"), b"sub": N("d", children={b"P.GO": N("f", data=b"3")}),
            b"P.Go": N("f", data=b"4")}
    add_tree_case("p%04d" % len(cases), fold, [b"README", b"readme"], "case-insensitive collision between embedded files")
    add_tree_case("p%04d" % len(cases), fold, [b"P.Go"], "case-insensitive collision with a Go file")
    add_tree_case("p%04d" % len(cases), fold, [b"sub", b"README"], "no collision: sub/P.GO differs from p.go by its directory")
    # stored corpus (corpus/C16/*.json): minimised inputs of past misses, always run
    cdir = os.path.join(VERIF, "corpus", "C16")
    if os.path.isdir(cdir):
        for fn in sorted(os.listdir(cdir)):
            if fn.endswith(".json"):
                for cc in json.load(open(os.path.join(cdir, fn)))["cases"]:
                    pl = [bytes.fromhex(h) for h in cc["patterns_hex"]] if "patterns_hex" in cc else [x.encode() for x in cc["patterns"]]
                    add_tree_case("p%04d" % len(cases), tree_from_json(cc["tree"], outside), pl, "corpus %s: %s" % (fn, cc.get("note", "")))
    n_corpus = len(cases)
    # lists in which per-pattern state (all:, file/directory, glob/literal) must not leak into the next pattern
    for i in range(n_state):
        ch, pl, note = gen_state_carry(rng, outside)
        add_tree_case("p%04d" % len(cases), ch, pl, note)
    base = len(cases)
    for i in range(n_trees):
        ch = gen_dir(rng, 1, top=True, outside=outside)
        add_tree_case("p%04d" % (base + i), ch, gen_patterns(rng, ch))

    # directive-level cases: fixed tree, varying source text
    dcases = []
    srcs = [(c, s) for c, s in D_TEMPLATES] + [(None, gen_directive_src(rng)) for _ in range(n_dir_rand)]
    for i, (cls, body) in enumerate(srcs):
        name = "d%04d" % i
        pdir = os.path.join(mod, name.encode())
        materialise(pdir, D_TREE)
        src = ("package p\n\nimport \"embed\"\n\nvar _ embed.FS\n\n" + body).encode()
        with open(os.path.join(pdir, b"p.go"), "wb") as f:
            f.write(src)
        dcases.append({"kind": "directive", "name": name, "body": body, "dir": pdir, "class": d_class_of(body), "declared": cls})
    # multi-file packages: `//go:embed` is only allowed in Go FILES that import "embed" (the rule is per file, not per
    # package); string / []byte variables need no embed.FS, so a file can carry a directive without the import.
    # The whole package directory is loaded (every .go file, name order); oracle: go list + go build of the same directory.
    for i, files in enumerate(gen_multifile(rng, n_multi)):
        name = "mf%04d" % i
        pdir = os.path.join(mod, name.encode())
        materialise(pdir, D_TREE)
        for fn, text in files:
            with open(os.path.join(pdir, fn.encode()), "wb") as f:
                f.write(text.encode())
        body = "\n".join("// file %s\n%s" % (fn, text) for fn, text in files)
        dcases.append({"kind": "directive", "name": name, "body": body, "dir": pdir, "class": None, "declared": None, "entry": pdir})

    # //line directives: twin files in every directory a //line may name
    abs_twin = os.path.join(outside, b"labs")
    materialise(abs_twin, twin_tree(L_TREE, b"the absolute directory"))
    materialise(os.path.join(mod, b"ltwin"), twin_tree(L_TREE, b"../ltwin"))
    lcases = []
    for i, (note, text) in enumerate(line_sources(abs_twin)):
        name = "l%04d" % i
        pdir = os.path.join(mod, name.encode())
        lt = dict(L_TREE)
        gen_ch = twin_tree(L_TREE, b"gen/")
        gen_ch[b"onlyingen.txt"] = N("f", data=b"only in gen")
        lt[b"gen"] = N("d", children=gen_ch)
        materialise(pdir, lt)
        with open(os.path.join(pdir, b"p.go"), "wb") as f:
            f.write(text.encode())
        lcases.append({"kind": "line-directive", "name": name, "note": note, "src": text, "dir": pdir})

    # package directory whose path contains glob metacharacters (the tree sits in a second module)
    mod2 = os.path.join(scratch, b"w[x]y", b"m2")
    os.makedirs(mod2)
    with open(os.path.join(mod2, b"go.mod"), "wb") as f:
        f.write(b"module tmod2\n\ngo 1.24\n")
    mcases = []
    for i, pl in enumerate([[b"c.txt"], [b"d"], [b"*.txt", b"all:d"]]):
        name = "m%04d" % i
        pdir = os.path.join(mod2, name.encode())
        materialise(pdir, D_TREE)
        src = b"package p\n\nimport \"embed\"\n\n//go:embed " + b" ".join(pl) + b"\nvar V embed.FS\n"
        with open(os.path.join(pdir, b"p.go"), "wb") as f:
            f.write(src)
        mcases.append({"kind": "pkgdir-meta", "name": name, "pats": pl, "dir": pdir, "tree": D_TREE})

    ctx.log("materialised %d tree cases, %d directive cases, %d //line cases, %d pkgdir cases" % (len(cases), len(dcases), len(lcases), len(mcases)))

    # ---------------------------------------------------------------- reference toolchain
    G = go_list(mod.decode("utf-8", "surrogateescape"))
    G2 = go_list(mod2.decode("utf-8", "surrogateescape"))
    bad_build, build_err = go_build_status(mod.decode("utf-8", "surrogateescape"),
                                           sorted(n for n, o in G.items() if re.fullmatch(r"(d|l|mf)\d+", n) and not o.get("Error")))
    ctx.log("go list: %d + %d packages; go build: %d packages rejected" % (len(G), len(G2), len(bad_build)))
    if os.environ.get("C16_DEBUG"):
        ctx.log(build_err[:1500])

    # ---------------------------------------------------------------- real code and model
    # which variant of CheckPath does the working tree have?  (witness of Props/C16)
    probe, _, _ = run_lines([harness], ["resolve %s %s" % (hexs(cases[0]["dir"]), hexs(b"link/x"))])
    variant = "0" if probe and probe[0].startswith("ok") else "1"
    ctx.log("CheckPath variant of the working tree: %s" % ("as it stands (no non-directory test)" if variant == "0" else "with non-directory test"))

    lr, lm, lm1 = [], [], []
    for c in cases:
        ph = " ".join(hexs(p) for p in c["pats"])
        lr.append("resolve %s %s" % (hexs(c["dir"]), ph))
        t2 = dict(c["tree"])
        t2[b"p.go"] = N("f", data=c["src"])      # the generated Go file is part of the real directory
        enc = enc_tree(t2)
        lm.append("resolve %s %s %s" % (variant, enc, ph))
        lm1.append("resolve 1 %s %s" % (enc, ph))
    for c in mcases:
        lr.append("resolve %s %s" % (hexs(c["dir"]), " ".join(hexs(p) for p in c["pats"])))
    for c in dcases:
        lr.append("load %s" % hexs(c.get("entry") or os.path.join(c["dir"], b"p.go")))
    for c in lcases:
        lr.append("loadd %s" % hexs(os.path.join(c["dir"], b"p.go")))

    # function-level correspondence lines (same text for real and model)
    fl = []
    pat_elems = [b"*", b"?", b"*.txt", b"[a-c]*", b"[^a]", b"a?c", b"\\*", b"[", b"[]", b"[a", b"a\\", b"[a-]", b"[\\]]x", b"*[^\xc3\xa9]",
                 "é*".encode(), "?界".encode(), b"**a", b"a*b*c", b"[a-a]", b"[z-a]", b"x[a/b]y", b"*/", b"a/b", b"[^/]", b"?"]
    for _ in range(n_fn):
        k = rng.random()
        if k < 0.35:
            p = rng.choice(pat_elems) if rng.random() < 0.5 else glob_of(rng, rng.choice(ALL_NAMES))
            nm = rng.choice(ALL_NAMES + [b"", b"abc", b"a/b", b"aXc", "aé".encode(), b"b.txt"])
            fl.append("match %s %s" % (hexs(p), hexs(nm)))
        elif k < 0.5:
            nm = rng.choice(ALL_NAMES + [b"", b"go.mod", b"a/b", b"a//b", b"a/", b"x.", b"prn.tar.gz", b"Lpt1", b"lpt10", b"COM0", b"conx"])
            fl.append("badname %s" % hexs(nm))
        elif k < 0.62:
            p = rng.choice(INVALID_PATS + [b"a", b"a/b", b"*.txt", b"all:x", b"a\\/b", "é".encode(), b"a b"])
            fl.append("validpat %s" % hexs(p))
        elif k < 0.8:
            alpha = [b" ", b"\t", b'"', b"`", b"\\", b"a", b"b", b"*", b".", b"/", b"'", "é".encode(), b"\xff", b"  "]
            s = b"".join(rng.choice(alpha) for _ in range(rng.randint(0, 9)))
            fl.append("split %s" % hexs(s))
        elif k < 0.93:
            alpha = [b" ", b"\t", b'"', b"`", b"\\\\", b'\\"', b"a", b"b", b"*", b"'", "é".encode(), "\u00a0".encode(), b"x y"]
            s = b"//" + rng.choice([b"", b"", b" ", b"\t"]) + rng.choice([b"go:embed", b"go:embed", b"go:embe", b"go:embedx"]) + \
                rng.choice([b" ", b" ", b"\t", b""]) + b"".join(rng.choice(alpha) for _ in range(rng.randint(0, 7)))
            fl.append("parsedir %s" % hexs(s))
        else:
            files = {}
            for _ in range(rng.randint(0, 5)):
                comps = [rng.choice(GOOD + HIDDEN + SPACES + UNI + META) for _ in range(rng.randint(1, 4))]
                files[b"/".join(comps)] = rdata(rng)
            # a real tree cannot have a name that is both a file and a directory
            keep = {n: d for n, d in files.items() if not any(o.startswith(n + b"/") for o in files)}
            fl.append("fsentries " + (",".join("%s=%s" % (hexs(n), hexs(d)) for n, d in keep.items()) if keep else "."))
    # unicode.IsLetter table of the model, swept completely
    doms = [(0, 0x24F), (0x370, 0x52F), (0x2000, 0x206F), (0x3040, 0x30FF), (0x4E00, 0x9FFF), (0x1F300, 0x1F6FF), (0xFFFD, 0xFFFD)]
    il = ["isletter %d" % r for lo, hi in doms for r in range(lo, hi + 1)]

    real, rc, err = run_lines([harness], lr + fl + il)
    model, rc2, err2 = run_lines([modeld], lm + lm1 + fl + il)
    if len(real) != len(lr) + len(fl) + len(il) or len(model) != len(lm) * 2 + len(fl) + len(il):
        raise RuntimeError("driver/harness died: real %d model %d\n%s\n%s" % (len(real), len(model), err[-2000:], err2[-2000:]))
    nT = len(cases)
    r_tree, r_m = real[:nT], real[nT:nT + len(mcases)]
    r_d = real[nT + len(mcases):nT + len(mcases) + len(dcases)]
    r_l = real[nT + len(mcases) + len(dcases):len(lr)]
    m_tree, m1_tree = model[:nT], model[nT:2 * nT]
    r_fn, m_fn = real[len(lr):len(lr) + len(fl)], model[2 * nT:2 * nT + len(fl)]
    r_il, m_il = real[len(lr) + len(fl):], model[2 * nT + len(fl):]

    stats = {"tree": 0, "tree:real-ok": 0, "tree:real-err": 0, "tree:model-unsupported": 0, "directive": len(dcases), "pkgdir-meta": len(mcases)}
    stats["cl:sources with //line naming another directory / same directory / none"] = "k%4 = 1,3 / 2 / 0"
    mism, specmism, specval_mism = [], 0, []
    nontrivial = set()

    unknown = [0]

    def report(key, what, obj):
        """ctx.report with a cap: a broken rule shows up on many generated inputs, a handful of replays is enough"""
        if ctx.match_known(key) is None and key not in ctx.reported_keys:
            unknown[0] += 1
            if unknown[0] > 6:
                return
        ctx.report(key, what, obj)

    def case_replay(c, extra):
        d = {"package_dir_tree": tree_json(c["tree"]) if "tree" in c else None, "patterns_hex": [p.hex() for p in c.get("pats", [])],
             "patterns": [p.decode("utf-8", "replace") for p in c.get("pats", [])], "go_source": c.get("src", b"").decode("utf-8", "replace") if "src" in c else c.get("body")}
        d.update(extra)
        return d

    # ---------------------------------------------------------------- tree cases: verdict, correspondence, spec validation
    for i, c in enumerate(cases):
        stats["tree"] += 1
        g = G.get(c["name"])
        if g is None:
            raise RuntimeError("go list did not report package " + c["name"])
        gres = g_result(g)
        gmsg = gres[1] if gres[0] == "err" else ""
        # rules of cmd/go's package loader that look at the embedded file names after resolveEmbed succeeded
        g_load = LOAD_UNSAFE if gmsg.startswith(LOAD_UNSAFE) else LOAD_FOLD if gmsg.startswith(LOAD_FOLD) else None
        if gres[0] == "err" and not gmsg.startswith("pattern ") and not g_load:
            raise RuntimeError("go list failed for another reason on %s: %s" % (c["name"], gmsg))
        rf = parse_files(r_tree[i])
        stats["tree:real-ok" if rf is not None else "tree:real-err"] += 1
        if gres[0] == "err":
            gk = "go-rejects:" + (g_load or re.sub(r"^pattern .*?: ", "", gmsg).split(" ")[0:3].__str__())
            stats[gk] = stats.get(gk, 0) + 1
        if rf is not None and len(rf) > 1 or len(c["pats"]) > 1:
            nontrivial.add(lr[i].split(" ", 2)[2] + "|" + lm[i].split(" ", 3)[2])

        def load_rule_holds(names):
            """does the loader's rule (named by go list's message) really apply to this list of embedded names?"""
            if g_load == LOAD_UNSAFE:
                return any(not safe_arg(n) for n in names)
            low = [n.decode("utf-8", "replace").lower() for n in names + [b"p.go"]]
            return len(set(low)) != len(low)

        # (a) the property, judged on the real code against the reference toolchain
        ok_spec = True
        why = ""
        if (rf is None) != (gres[0] == "err"):
            ok_spec, why = False, "real %s, go list %s" % ("rejects" if rf is None else "accepts", "rejects: " + gmsg if gres[0] == "err" else "accepts")
        elif rf is not None:
            names = [n.decode("utf-8", "surrogateescape") for n, _ in rf]
            if names != gres[1]:
                ok_spec, why = False, "file lists differ: real %r, go list %r" % (names, gres[1])
            else:
                for n, d in rf:
                    with open(os.path.join(c["dir"], n), "rb") as f:
                        if f.read() != d:
                            ok_spec, why = False, "bytes of %r differ from the file's contents" % n
            if [n for n, _ in rf] != sorted(set(n for n, _ in rf)):
                ok_spec, why = False, "result not sorted / not duplicate-free"
        if not ok_spec:
            specmism += 1
            key = None
            if rf is not None and g_load and load_rule_holds([n for n, _ in rf]):
                key = "load:embedded-name-unsafe-first-byte" if g_load == LOAD_UNSAFE else "load:case-insensitive-collision"
            elif variant == "0" and m_tree[i] == r_tree[i] and m1_tree[i] != "unsupported" and not g_load and \
                    ((m1_tree[i] == "err") == (gres[0] == "err")) and \
                    (m1_tree[i] == "err" or [n.decode("utf-8", "surrogateescape") for n, _ in parse_files(m1_tree[i])] == gres[1]):
                # exactly the modelled defect: the code as it stands = model(0), go list = model(1)
                key = "checkpath:path-through-symlinked-directory"
            if key is None:
                key = "resolve:" + lr[i].split(" ", 2)[2] + ":" + enc_tree(c["tree"])[:60]
            report(key, "ResolvePatterns disagrees with the Go toolchain: " + why,
                       case_replay(c, {"real": r_tree[i], "go_list": gres, "note": c["note"]}))
        # (b) correspondence real vs model
        if m_tree[i] == "unsupported":
            stats["tree:model-unsupported"] += 1
        elif m_tree[i] != r_tree[i]:
            mism.append(("resolve", c["name"], lm[i], r_tree[i], m_tree[i]))
        # (c) validation of the Lean specification: model(repaired) = Spec (theorem) vs go list.  The Lean
        #     specification is resolveEmbed's rule; where go list rejects because of a loader rule, the
        #     specification must accept and the loader rule must really apply to the names it yields.
        if m1_tree[i] != "unsupported":
            mf = parse_files(m1_tree[i])
            if g_load:
                if mf is None or not load_rule_holds([n for n, _ in mf]):
                    specval_mism.append((c["name"], lm1[i], m1_tree[i], gres))
            elif (mf is None) != (gres[0] == "err") or (mf is not None and [n.decode("utf-8", "surrogateescape") for n, _ in mf] != gres[1]):
                specval_mism.append((c["name"], lm1[i], m1_tree[i], gres))

    # ---------------------------------------------------------------- package directory with glob metacharacters
    for i, c in enumerate(mcases):
        g = G2.get(c["name"])
        gres = g_result(g)
        rf = parse_files(r_m[i])
        agree = (rf is None) == (gres[0] == "err") and (rf is None or [n.decode() for n, _ in rf] == gres[1])
        if not agree:
            specmism += 1
            report("pkgdir:glob-metacharacter-in-package-path",
                       "ResolvePatterns globs the unquoted package directory: with a '[' in the path nothing matches (go list: %r)" % (gres,),
                       case_replay(c, {"package_dir": c["dir"].decode(), "real": r_m[i], "go_list": gres}))

    # ---------------------------------------------------------------- directive-level cases
    for i, c in enumerate(dcases):
        g = G.get(c["name"])
        gres = g_result(g)
        go_rejects = gres[0] == "err" or c["name"] in bad_build
        r = r_d[i]
        if r == "parse-error":
            continue
        if r == "err":
            real_rejects, rfiles = True, None
        else:
            real_rejects = False
            rfiles = set()
            rest = r[2:].strip()
            if rest != ".":
                for part in rest.split(";"):
                    _, fl_ = part.split("=")
                    for h in fl_.split("+"):
                        if h:
                            rfiles.add(unhexs(h).decode("utf-8", "surrogateescape"))
        ok_spec = (real_rejects == go_rejects) and (real_rejects or sorted(rfiles) == gres[1])
        nontrivial.add("src:" + c["body"])
        if not ok_spec:
            specmism += 1
            cls = c["class"]
            key = cls if cls else "directive:" + c["body"]
            report(key, "LoadDirectives disagrees with the Go toolchain on %r: real %s, go %s" %
                       (c["body"], "rejects" if real_rejects else sorted(rfiles), "rejects" if go_rejects else gres[1]),
                       {"go_source_after_imports": c["body"], "real": r, "go_list": gres, "go_build_rejects": c["name"] in bad_build})

    # ---------------------------------------------------------------- //line directives: names AND bytes against the real directory
    for i, c in enumerate(lcases):
        g = G.get(c["name"])
        if g is None:
            raise RuntimeError("go list did not report package " + c["name"])
        gres = g_result(g)
        go_rejects = gres[0] == "err" or c["name"] in bad_build
        r = r_l[i]
        nontrivial.add("line:" + c["src"])
        why = None
        detached = False
        if r == "parse-error":
            why = "go/parser rejects the generated source (generator problem)"
        elif (r == "err") != go_rejects:
            why = "real %s, go %s" % ("rejects" if r == "err" else "accepts", "rejects" if go_rejects else "accepts")
        elif r != "err":
            got = {}
            rest = r[2:].strip()
            if rest != ".":
                for part in rest.split(";"):
                    var, fl_ = part.split("=")
                    for nd in fl_.split("+"):
                        if nd:
                            n_, d_ = nd.split(":")
                            got.setdefault(unhexs(n_), set()).add(unhexs(d_))
            names = sorted(n.decode("utf-8", "surrogateescape") for n in got)
            if names != gres[1]:
                why = "file lists differ: real %r, go list %r" % (names, gres[1])
                if re.search(r"^//go:embed[^\n]*\n(//line |/\*line )", c["src"], flags=re.M) and names == sorted(set(gres[1]) - {"schema.txt"}):
                    detached = True       # exactly the variable whose directive is followed by //line is missing
            if why is None or detached:
                for n_, ds in got.items():
                    with open(os.path.join(c["dir"], n_), "rb") as f:
                        want = f.read()
                    if ds != {want}:
                        why = "bytes of %r: real %r, the package directory's file has %r" % (n_, sorted(ds), want)
                        detached = False
                        break
        stats["line-directive"] = stats.get("line-directive", 0) + 1
        if why:
            specmism += 1
            report("directive:line-directive-between-embed-and-var" if detached else "line-directive:" + c["src"],
                   "LoadDirectives resolves patterns elsewhere than the Go toolchain (%s): %s" % (c["note"], why),
                   {"note": c["note"], "go_source": c["src"], "package_dir_tree": tree_json(L_TREE), "twin_directories": ["gen/", "../ltwin/", "<scratch>/outside/labs/"],
                    "real": r, "go_list": gres, "go_build_rejects": c["name"] in bad_build})

    # ---------------------------------------------------------------- function-level correspondence + embed.FS table spec
    fn_stats = {}
    for i, line in enumerate(fl):
        op = line.split(" ", 1)[0]
        fn_stats[op] = fn_stats.get(op, 0) + 1
        if len(line) > 14:
            nontrivial.add(line)
        if m_fn[i] == "unsupported":
            fn_stats[op + ":unsupported"] = fn_stats.get(op + ":unsupported", 0) + 1
        elif m_fn[i] != r_fn[i]:
            mism.append((op, "", line, r_fn[i], m_fn[i]))
        if op == "fsentries":
            files = parse_files("ok " + line.split(" ", 1)[1])
            out = parse_files(r_fn[i])
            bad = check_fs_table(files, out)
            if bad:
                specmism += 1
                report("fsentries:" + line, "BuildFSEntries output does not satisfy embed.FS's requirements: " + bad,
                           {"files": line, "real": r_fn[i]})
    il_bad = [(il[i], r_il[i], m_il[i]) for i in range(len(il)) if r_il[i] != m_il[i]]
    if il_bad:
        mism.append(("isletter", "", il_bad[0][0], il_bad[0][1], il_bad[0][2]))


    # ---------------------------------------------------------------- cl/embed.go: data stored into string / []byte / embed.FS globals
    # Accepted tree cases are compiled (a) by the reference toolchain into one program that prints the variables and walks
    # the FS, (b) in-process by cl.NewPackageEx (which runs LoadDirectives itself); the initialisers are read from the module.
    n_cl = 24 if quick else 150
    sel = [c for c in cases if g_result(G[c["name"]])[0] == "ok" and g_result(G[c["name"]])[1]][:n_cl]
    cl_stats = {"cl:packages": len(sel), "cl:fs-entries": 0, "cl:bytes": 0}
    if sel:
        clthread.join()
        if "err" in clres:
            raise clres["err"]
        clbin, hdir = clres["ok"]
        emod = os.path.join(scratch, b"emod")
        os.makedirs(emod)
        with open(os.path.join(emod, b"go.mod"), "wb") as f:
            f.write(b"module emod\n\ngo 1.24\n")
        main = b"package main\n\nimport (\n\t\"fmt\"\n"
        calls = b""
        for k, c in enumerate(sel):
            name = ("e%04d" % k).encode()
            pdir = os.path.join(emod, name)
            materialise(pdir, c["tree"])
            first = g_result(G[c["name"]])[1][0].encode("utf-8", "surrogateescape")
            lit = render_pattern(random.Random(0), glob_escape(first))
            line = b"//go:embed " + b" ".join(render_pattern(rng, p) for p in c["pats"])
            # //line directives in the compiled source: none / same directory / a twin directory with different bytes
            # (absolute path: a relative twin inside the package directory would change what the patterns match)
            lk = k % 4
            if lk == 1:
                etw = os.path.join(scratch, b"etwin", name)
                materialise(etw, twin_tree(c["tree"], b"etwin"))
                head = b"//line " + etw + b"/expr.y:2\n"
            elif lk == 2:
                head = b"//line expr.y:7\n"
            elif lk == 3:
                head = b"// Code generated. DO NOT EDIT.\n\n/*line /nonexistent-c16/gen/expr.y:3:1*/"
            else:
                head = b""
            if re.search(rb"[\n\r:]", etw if lk == 1 else b""):
                head = b""
            src = head + b"package p\n\nimport \"embed\"\n\n//go:embed " + lit + b"\nvar S string\n\n//go:embed " + lit + b"\nvar B []byte\n\n//go:embed " + lit + b"\nvar B2 []byte\n\n" + line + b"\nvar F embed.FS\n"
            with open(os.path.join(pdir, b"p.go"), "wb") as f:
                f.write(src)
            with open(os.path.join(pdir, b"dump.go"), "wb") as f:
                f.write(DUMP_GO)
            c["edir"], c["esrc"], c["efirst"] = pdir, src, first
            main += b"\t" + name + b" \"emod/" + name + b"\"\n"
            calls += b"\tfmt.Println(\"== " + name + b"\")\n\t" + name + b".Dump()\n"
        with open(os.path.join(emod, b"main.go"), "wb") as f:
            f.write(main + b")\n\nfunc main() {\n" + calls + b"}\n")
        pr = sh(["go", "run", "."], cwd=emod.decode(), env=go_env(), timeout=1800)
        if pr.returncode != 0:
            raise RuntimeError("reference program (go run) failed:\n" + pr.stderr[-3000:])
        ref = {}
        cur = None
        for line in pr.stdout.split("\n"):
            w = line.split(" ")
            if w[0] == "==":
                cur = ref.setdefault(w[1], {"S": None, "B": None, "F": {}})
            elif w[0] in ("S", "B"):
                cur[w[0]] = bytes.fromhex(w[1][1:])
            elif w[0] == "F":
                cur["F"][bytes.fromhex(w[1][1:])] = None if w[2] == "d" else bytes.fromhex(w[3][1:])
            elif w[0] == "ERR":
                raise RuntimeError("reference program reported: " + line)
        pc = sh([clbin] + [c["edir"].decode("utf-8", "surrogateescape") for c in sel], cwd=hdir, env=go_env(), timeout=1800)
        blocks = re.split(r"^== (.*)$", pc.stdout, flags=re.M)
        mods = {}
        for j in range(1, len(blocks), 2):
            mods[os.path.basename(blocks[j].strip())] = blocks[j + 1].lstrip("\n")
        for k, c in enumerate(sel):
            name = "e%04d" % k
            txt = mods.get(name)
            rep = {"package_dir_tree": tree_json(c["tree"]), "go_source": c["esrc"].decode("utf-8", "replace")}
            if txt is None or not txt.startswith("ok"):
                specmism += 1
                report("cl-embed:compile:" + c["esrc"].decode("utf-8", "replace")[-80:],
                           "cl.NewPackageEx fails on a package the Go toolchain compiles and runs: " + (txt or pc.stderr)[:300], rep)
                continue
            try:
                got = parse_module(txt)
            except (ValueError, KeyError) as e:
                ctx.broken.append("cl/embed.go emits initialisers the check cannot read: %s" % e)
                ctx.report_broken("cl-embed module reader", {"error": str(e), "module": txt[:3000]})
                break
            want = ref[name]
            bad = None
            if got["S"] != want["S"]:
                bad = "string variable: llgo module %r, Go program %r" % (got["S"], want["S"])
            elif got["B"] != want["B"]:
                bad = "[]byte variable: llgo module %r, Go program %r" % (got["B"], want["B"])
            elif got["B2"] != want["B"]:
                bad = "second []byte variable embedding the same file: llgo module %r, Go program %r" % (got["B2"], want["B"])
            elif want["B"] and got["B_store"] is not None and got["B_store"] == got["B2_store"]:
                # Go gives every []byte variable its own copy of the file: writing through one must not show in the other
                bad = "two []byte variables embedding the same file share ONE backing array (@%s): a write through B is visible in B2" % got["B_store"]
            elif got["F"] is None:
                bad = "embed.FS variable has no file table"
            else:
                tab = got["F"]
                seen_fs = {}
                for nm, dat in tab:
                    if nm is None or dat is None:
                        bad = "embed.FS table entry without name or data store"
                        break
                    seen_fs[nm[:-1] if nm.endswith(b"/") else nm] = None if nm.endswith(b"/") else dat
                if bad is None and got["n"] != len(tab):
                    bad = "embed.FS table length %r but %d entries stored" % (got["n"], len(tab))
                if bad is None and seen_fs != want["F"]:
                    bad = "embed.FS contents differ: llgo module %r, Go program %r" % (sorted(seen_fs.items()), sorted(want["F"].items()))
                if bad is None:
                    files = [(n, d) for n, d in want["F"].items() if d is not None]
                    bad = check_fs_table(files, [(n, d) for n, d in tab])
                    if bad:
                        bad = "embed.FS table " + bad + " (embed.FS looks names up by binary search in this order)"
                cl_stats["cl:fs-entries"] += len(tab)
                cl_stats["cl:bytes"] += sum(len(d or b"") for _, d in tab)
            nontrivial.add("cl:" + c["esrc"].decode("utf-8", "replace") + enc_tree(c["tree"]))
            if bad:
                specmism += 1
                report("cl-embed:" + c["esrc"].decode("utf-8", "replace")[-80:] + ":" + enc_tree(c["tree"])[:40],
                           "cl/embed.go stores something else than the Go toolchain embeds: " + bad, rep)
    clthread.join()
    stats.update(cl_stats)

    # ---------------------------------------------------------------- verdicts on model / spec / theorems
    if mism:
        ctx.log("correspondence mismatches: %d, first: %s" % (len(mism), mism[0]))
        ctx.broken.append("correspondence real vs Lean model (%d lines differ), e.g. %s" % (len(mism), mism[0][2][:300]))
        if not ctx.violations:
            ctx.report_broken("correspondence C16 real-vs-model", {"first": [list(m) for m in mism[:5]]})
    if specval_mism:
        ctx.log("Lean specification (= repaired model) disagrees with go list: %d, first: %s" % (len(specval_mism), specval_mism[0]))
        ctx.broken.append("specification validation: model(repaired) vs go list differ on %d cases" % len(specval_mism))
        if not ctx.violations:
            ctx.report_broken("spec-validation C16 model(repaired)-vs-go-list", {"first": [list(m) for m in specval_mism[:3]]})
    for name, s in st.items():
        if s != "ok":
            ctx.log("theorem", name, s)
    if any(s != "ok" for s in st.values()) and not ctx.violations:
        ctx.report_broken("Props/C16: " + ", ".join(n for n, s in st.items() if s != "ok"), st)

    stats.update({"fn:" + k: v for k, v in fn_stats.items()})
    stats["isletter-sweep"] = len(il)
    nkinds = {}
    for c in cases:
        for _, n in all_paths(c["tree"], through_links=False):
            nkinds[n.kind] = nkinds.get(n.kind, 0) + 1
    stats["nodes-by-kind (f=file d=dir l=symlink i=fifo)"] = nkinds
    def _all_then_plain(pl):
        seen_all = False
        for q in pl:
            if q.startswith(b"all:"):
                seen_all = True
            elif seen_all:
                return True
        return False
    stats["corpus-cases (in code + corpus/C16)"] = n_corpus
    stats["state-carry lists (a pattern of one kind followed by a different kind)"] = n_state
    stats["lists with an all: pattern followed by a plain pattern"] = sum(1 for c in cases if _all_then_plain(c["pats"]))
    stats["lists with a plain pattern followed by an all: pattern"] = sum(1 for c in cases if _all_then_plain([b"all:x" if not q.startswith(b"all:") else b"x" for q in c["pats"]]))
    stats["patterns-with-all"] = sum(1 for c in cases for p in c["pats"] if p.startswith(b"all:"))
    stats["patterns-with-glob"] = sum(1 for c in cases for p in c["pats"] if re.search(rb"[*?\[]", p))
    ctx.coverage["samples"] = [lr[0], lm[0], {"real": r_tree[0], "model": m_tree[0], "go_list": g_result(G[cases[0]["name"]])},
                               lr[nT // 2][:400], {"real": r_tree[nT // 2][:300], "go_list": g_result(G[cases[nT // 2]["name"]])},
                               fl[0], {"real": r_fn[0], "model": m_fn[0]}]
    ctx.coverage["trusted_base"] += [
        "the reference Go toolchain (go1.24.0 `go list -e -json`, `go build`) as the oracle for which files are embedded / which patterns are rejected",
        "hand-written Lean model of internal/goembed tied by differential run on %d generated trees + %d function-level lines "
        "(real Go code built from the working tree vs compiled Lean model); path.Match/module.CheckFilePath/strconv.Unquote/unicode.IsLetter are "
        "transcribed in the model and compared with the Go library on every run" % (nT, len(fl) + len(il)),
        "Python generator, tree materialisation (files, directories, symlinks, fifos) and pattern rendering in checks/c16.py",
        "cl/embed.go: %d accepted packages compiled in-process by cl.NewPackageEx (llvm14 + opaque-pointer overlay); the initialisers of the string / []byte "
        "globals and the embed.file table stores are read from the LLVM module text (regex reader in checks/c16.py) and compared with what a program built "
        "by the reference toolchain prints (go run); running llgo-compiled programs that import embed is not possible here (DESIGN §9)" % cl_stats["cl:packages"],
    ]
    ctx.assumptions += [
        "the package directory's own path contains no glob metacharacter (the model globs inside the package directory only); "
        "the real code is probed separately on such a path (finding pkgdir:glob-metacharacter-in-package-path)",
        "file names are byte strings without '/' and NUL, unique per directory (guaranteed by the OS)",
        "model answers `unsupported` for names outside its unicode.IsLetter table (%d tree cases)" % stats["tree:model-unsupported"],
        "a tab directly after `//go:embed` is not generated: go/build and the Go compiler disagree on it",
    ]
    return ctx.finish("proof", {"evaluations": nT + len(dcases) + len(lcases) + len(mcases) + len(fl) + len(il),
                               "distinct_nontrivial": len(nontrivial),
                               "rule": "tree cases count as non-trivial when they have more than one pattern or more than one resolved file "
                                       "(distinct by directory encoding + patterns); directive cases distinct by source text; function lines longer than 14 chars",
                               "input_distribution": stats, "spec_failures_on_real_code": specmism,
                               "correspondence_mismatches": len(mism), "spec_validation_mismatches": len(specval_mism),
                               "checkpath_variant_of_working_tree": variant})
