import LlgoVerif.Model.PyGuard
/-!
# C19: which Python symbols a package loads in its `init`, and how (ssa/python.go, cl/compile.go)

Two pieces of compiler code decide what `llgoLoadPyModSyms` calls a package's `init` contains:

## (A) `Package.pyLoadModSyms` + `Builder.PyLoadModSyms` (ssa/python.go)

```go
names := keys(p.pyobjs); sort.Strings(names)          // "__llgo_py.<module>.<attr>"
mods := map[string][]PyObjRef{}; modNames := nil; lastMod := ""
for _, name := range names {
    modName := modOf(name)                            // everything before the LAST dot; panics if there is none
    mods[modName] = append(mods[modName], objs[name])
    if modName != lastMod { modNames = append(modNames, modName); lastMod = modName }
}
for _, modName := range modNames { b.PyLoadModSyms(modName, mods[modName]...) }
```
and `PyLoadModSyms(modName, objs...)` emits
`llgoLoadPyModSyms(load @<modName>, cstr(fullName[len(modName)+1:]), &@<fullName>, …, NULL)`.
The C helper does `*pfunc = PyObject_GetAttrString(mod, name)` — a PLAIN attribute lookup: a name with a dot in
it never resolves.  So the emitted pair must be (the part after the last dot, the variable) and the module
object must be the one named by everything before the last dot.  Python modules nest (`os` / `os.path`),
and in sorted order the symbols of a submodule sit BETWEEN the symbols of its parent
(`os.getcwd < os.path.join < os.uname`): the model is over arbitrary dotted names.

Names are `List Char`; `sort.Strings` compares bytes, `List Char`'s `≤` compares code points — the same order
on UTF-8 (and the generated names are ASCII).  Note the wart the model keeps: a module whose symbols are
interrupted by a submodule's is appended to `modNames` twice and gets two (identical) calls; the second one is
a no-op at run time (`if (*pfunc == NULL)`).

## (B) the rounds of `cl.NewPackageEx` (cl/compile.go)

`processPkg` queues one closure per member body (`ctx.inits`); running a closure compiles the body, which
registers every Python function the body mentions in `pkg.pyobjs` (`funcOf` → `PyNewFunc`) and may queue MORE
bodies — instances of generic functions, wrappers — that exist only because this body refers to them.
`for len(ctx.inits) > 0 { inits := ctx.inits; ctx.inits = nil; for _, ini := range inits { ini() } }`
runs until nothing is left, and only THEN `ctx.initAfter` (recorded when the body of `init` was compiled, in the
first round) calls `Package.AfterInit` → `pyLoadModSyms`, which sees the `pyobjs` of ALL rounds.
-/
namespace LlgoVerif.PyGuard

/-- a dotted name, e.g. `__llgo_py.os.path.join` -/
abbrev Name := List Char

/-- split at the LAST dot: `(before, after)`; `none` if there is no dot -/
def splitLast : Name → Option (Name × Name)
  | [] => none
  | c :: r =>
    match splitLast r with
    | some (m, a) => some (c :: m, a)
    | none => if c = '.' then some ([], r) else none

/-- `modOf` of ssa/python.go: `if pos := strings.LastIndexByte(name, '.'); pos > 0 { return name[:pos] }; panic`;
    `none` = the panic -/
def modOf (name : Name) : Option Name :=
  match splitLast name with
  | some (m, _) => if m.isEmpty then none else some m
  | none => none

/-- `mods[m] = append(mods[m], x)` on an association list -/
def addTo : List (Name × List Name) → Name → Name → List (Name × List Name)
  | [], m, x => [(m, [x])]
  | (k, v) :: r, m, x => if k = m then (k, v ++ [x]) :: r else (k, v) :: addTo r m x

/-- `mods[m]` (nil for a missing key) -/
def getOf : List (Name × List Name) → Name → List Name
  | [], _ => []
  | (k, v) :: r, m => if k = m then v else getOf r m

structure GroupAcc where
  mods : List (Name × List Name) := []
  modNames : List Name := []
  lastMod : Name := []

/-- one iteration of the grouping loop -/
def groupStep (acc : GroupAcc) (name : Name) : Option GroupAcc :=
  match modOf name with
  | none => none
  | some m =>
    if m = acc.lastMod then some { acc with mods := addTo acc.mods m name }
    else some { mods := addTo acc.mods m name, modNames := acc.modNames ++ [m], lastMod := m }

/-- insertion into a sorted list -/
def insertName (x : Name) : List Name → List Name
  | [] => [x]
  | y :: r => if x ≤ y then x :: y :: r else y :: insertName x r

/-- `sort.Strings` (the keys of a Go map are distinct, so every sorting algorithm gives the same list) -/
def sortNames (l : List Name) : List Name := l.foldr insertName []

/-- one emitted `llgoLoadPyModSyms(load @modVar, cstr(attr₁), &@var₁, …, NULL)` -/
structure LoadCall where
  /-- the module variable whose value is the first argument -/
  modVar : Name
  /-- (attribute name passed as C string, symbol variable whose address is passed) -/
  pairs : List (Name × Name)
  deriving DecidableEq, Repr

/-- `Builder.PyLoadModSyms(modName, objs...)`: `name := fullName[len(modName)+1:]` -/
def pyLoadModSymsCall (modName : Name) (objs : List Name) : LoadCall :=
  { modVar := modName, pairs := objs.map fun full => (full.drop (modName.length + 1), full) }

/-- `Package.pyLoadModSyms`; `none` = `modOf` panics on some name -/
def pyLoadModSyms (pyobjs : List Name) : Option (List LoadCall) :=
  match (sortNames pyobjs).foldlM groupStep {} with
  | none => none
  | some acc => some (acc.modNames.map fun m => pyLoadModSymsCall m (getOf acc.mods m))

/-- `Package.AfterInit`: nothing is emitted for a package without Python symbols (`pyHasModSyms`) -/
def afterInit (pyobjs : List Name) : Option (List LoadCall) :=
  if pyobjs.isEmpty then some [] else pyLoadModSyms pyobjs

/-! ## (B) compile rounds -/

/-- what compiling one function body does, as far as Python symbols are concerned -/
structure Body where
  /-- Python functions the body mentions (`funcOf` registers each in `pkg.pyobjs`) -/
  pyRefs : List Name := []
  /-- bodies that are queued because this body refers to them (generic instances, wrappers, …) -/
  spawns : List Nat := []
  deriving Repr

structure CompSt where
  /-- `pkg.pyobjs` (a Go map: a set of names) -/
  pyobjs : List Name := []
  /-- `ctx.inits` -/
  queue : List Nat := []
  /-- functions that already exist in the package (`pkg.FuncOf(name) != nil`): never queued twice -/
  seen : List Nat := []
  deriving Repr

def addObj (objs : List Name) (n : Name) : List Name := if n ∈ objs then objs else objs ++ [n]

def enqueue (st : CompSt) (j : Nat) : CompSt :=
  if j ∈ st.seen then st else { st with queue := st.queue ++ [j], seen := j :: st.seen }

/-- running one queued closure -/
def buildBody (B : Nat → Body) (st : CompSt) (i : Nat) : CompSt :=
  (B i).spawns.foldl enqueue { st with pyobjs := (B i).pyRefs.foldl addObj st.pyobjs }

/-- one iteration of `for len(ctx.inits) > 0` -/
def round (B : Nat → Body) (st : CompSt) : CompSt :=
  st.queue.foldl (buildBody B) { st with queue := [] }

/-- the loop; `none` = out of fuel (the Go loop ends because a package has finitely many functions) -/
def rounds (B : Nat → Body) : Nat → CompSt → Option CompSt
  | 0, st => if st.queue.isEmpty then some st else none
  | fuel+1, st => if st.queue.isEmpty then some st else rounds B fuel (round B st)

/-- `NewPackageEx` as far as the symbol loads go: `processPkg` queues the member bodies `roots`, the loop runs
    dry, then `initAfter` emits the loads for the `pyobjs` known at that point.
    outer `none` = out of fuel, inner `none` = `modOf` panics -/
def newPackageLoads (B : Nat → Body) (roots : List Nat) (fuel : Nat) : Option (Option (List LoadCall)) :=
  match rounds B fuel (roots.foldl enqueue {}) with
  | none => none
  | some st => some (afterInit st.pyobjs)

/-- body `i` is compiled: it is a member body or some compiled body refers to it -/
inductive Reach (B : Nat → Body) (roots : List Nat) : Nat → Prop
  | root {i : Nat} : i ∈ roots → Reach B roots i
  | spawn {i j : Nat} : Reach B roots i → j ∈ (B i).spawns → Reach B roots j

end LlgoVerif.PyGuard
