import LlgoVerif.Lemmas.Path
import LlgoVerif.Lemmas.Extract
import LlgoVerif.Lemmas.ExtractPreserve
import LlgoVerif.Lemmas.ExtractLock
import LlgoVerif.Lemmas.Gzip
import LlgoVerif.Lemmas.Tar
import LlgoVerif.Lemmas.Zip
/-!
# C20 — SDK archive extraction stays inside its destination and preserves contents

Property theorems only.  Models: `Model/Path.lean` (`filepath.Clean/Join/Dir`), `Model/Extract.lean`
(`extractTarGz`, `extractZip`, `checkDownloadAndExtractLib` for one caller), `Model/ExtractLock.lean` (the lock
protocol over any number of processes); specification: `Spec/Extract.lean`; lemmas: `Lemmas/Path.lean`,
`Lemmas/Extract.lean`, `Lemmas/ExtractPreserve.lean`, `Lemmas/ExtractLock.lean`.

`Cfg.current` is the code of the pinned tree, `Cfg.fixed` the variant after `/verif/fixes/C20-1.diff` and
`C20-2.diff`.  Statements that are false for `Cfg.current` stay visible as `def … : Prop`, with a
`…_counterexample` (concrete witness, replayed on the real code by `checks/c20.py`) and a `…_partial`.
-/
namespace LlgoVerif.C20
open LlgoVerif.Path LlgoVerif.Extract LlgoVerif.ExtractLock LlgoVerif.Container

/-! ## 1. `filepath.Clean` -/

/-- **`Clean` is idempotent and its result is in normal form**: either `.`, or an optional leading `/` followed by
    `k` elements `..` (none if rooted) and then ordinary elements (non-empty, not `.`, not `..`, no separator),
    joined by single `/` — so no empty element, no `.`, and `..` only as a leading run of a relative path. -/
theorem clean_spec (p : Str) :
    clean (clean p) = clean p ∧
    (clean p = ['.'] ∨
     ∃ (rooted : Bool) (k : Nat) (cs : List Comp),
       clean p = (if rooted then ['/'] else []) ++ joinSlash (List.replicate k dotdot ++ cs) ∧
       (∀ c ∈ cs, Normal c) ∧ (rooted = true → k = 0) ∧
       (rooted = false → List.replicate k dotdot ++ cs ≠ [])) := by
  refine ⟨clean_idem p, ?_⟩
  generalize hq : clean p = q
  have hs := clean_shape p
  rw [hq] at hs
  cases hs with
  | dot => exact Or.inl rfl
  | rooted cs h => exact Or.inr ⟨true, 0, cs, by simp, h, fun _ => rfl, fun h => (by cases h)⟩
  | rel k cs h hne => exact Or.inr ⟨false, k, cs, by simp, h, fun h => (by cases h), fun _ => hne⟩

/-! ## 2. Confinement of one entry name -/

/-- **`confined`** — for EVERY entry name and every absolute destination: if the guard of `extractTarGz`
    (`strings.HasPrefix(filepath.Join(dest, name), filepath.Clean(dest)+"/")`) passes, the target's elements
    are those of `Clean(dest)` followed by a non-empty list of ordinary elements (in particular no `..`):
    the target lies strictly below the destination. -/
theorem confined (dest name : Str) (habs : dest.head? = some '/')
    (h : guardOK false dest (join dest name) = true) :
    ∃ rest, comps (join dest name) = comps (clean dest) ++ rest ∧ rest ≠ [] ∧ dotdot ∉ rest ∧
      ∀ c ∈ rest, Normal c := by
  obtain ⟨d0, rfl⟩ : ∃ d0, dest = '/' :: d0 := by
    cases dest with
    | nil => simp at habs
    | cons c cs => simp at habs; exact ⟨cs, by rw [habs]⟩
  rcases guard_comps d0 name false h with ⟨h1, _⟩ | ⟨rest, h1, h2, h3⟩
  · cases h1
  · exact ⟨rest, h1, h2, fun hin => (h3 _ hin).2.2.1 rfl, h3⟩

example : ("/r/a/b/dest".toList).head? = some '/' ∧
    guardOK false "/r/a/b/dest".toList (join "/r/a/b/dest".toList "x/../y//./z".toList) = true := by decide

/-- the repaired guard additionally lets the destination itself through (`./` entries), nothing else -/
theorem confined_acceptRoot (dest name : Str) (habs : dest.head? = some '/')
    (h : guardOK true dest (join dest name) = true) :
    join dest name = clean dest ∨
    ∃ rest, comps (join dest name) = comps (clean dest) ++ rest ∧ rest ≠ [] ∧ dotdot ∉ rest := by
  obtain ⟨d0, rfl⟩ : ∃ d0, dest = '/' :: d0 := by
    cases dest with
    | nil => simp at habs
    | cons c cs => simp at habs; exact ⟨cs, by rw [habs]⟩
  rcases guard_comps d0 name true h with ⟨_, h1⟩ | ⟨rest, h1, h2, h3⟩
  · exact Or.inl h1
  · exact Or.inr ⟨rest, h1, h2, fun hin => (h3 _ hin).2.2.1 rfl⟩

example : guardOK true "/r/dest".toList (join "/r/dest".toList "./".toList) = true := by decide

/-- the hypothesis "absolute destination" is needed: for the relative destination `..` the name `..`
    passes the guard although the target `../..` is the *parent* of the destination -/
theorem confined_relative_counterexample :
    guardOK false "..".toList (join "..".toList "..".toList) = true ∧
    comps (join "..".toList "..".toList) = comps (clean "..".toList) ++ [dotdot] := by decide

/-! ## 3. Confinement of whole archives -/

/-- **`extractTarGz` is confined, for every archive and both guard variants**: whatever the entries are, and
    whether the loop runs to the end or aborts with an error, every path that is not strictly below the
    destination is exactly as it was — nothing outside is created, removed or rewritten; what an escaping entry
    would have created is rejected (the run stops with `some err`) before anything is written for it. -/
theorem extractTarGz_confined (cfg : Cfg) (dest : Str) (habs : dest.head? = some '/') (fs : FS)
    (hr : DestReady fs (comps (clean dest))) (ar : List Entry) :
    ∀ q, ¬ Under (comps (clean dest)) q → lookup (extract cfg .tgz dest fs ar).1 q = lookup fs q := by
  obtain ⟨d0, rfl⟩ : ∃ d0, dest = '/' :: d0 := by
    cases dest with
    | nil => simp at habs
    | cons c cs => simp at habs; exact ⟨cs, by rw [habs]⟩
  exact runSteps_frame _ _ (fun fs fs' e hr h => tarStep_frame cfg d0 fs fs' e hr h) ar fs hr

/-- an entry that would escape makes the call fail (and, by `extractTarGz_confined`, leaves no trace outside) -/
theorem extractTarGz_rejects (cfg : Cfg) (dest : Str) (fs : FS) (pre : List Entry) (e : Entry) (post : List Entry)
    (hpre : (extract cfg .tgz dest fs pre).2 = none)
    (hesc : guardOK cfg.tarAcceptRoot dest (join dest e.name) = false) :
    (extract cfg .tgz dest fs (pre ++ e :: post)).2 = some .illegalPath := by
  unfold extract at *
  induction pre generalizing fs with
  | nil => simp [runSteps, Extract.step, tarStep, hesc]
  | cons a as ih =>
    simp only [List.cons_append, runSteps] at hpre ⊢
    split
    · rename_i fs' hs
      rw [hs] at hpre
      exact ih fs' hpre
    · rename_i err hs
      rw [hs] at hpre; cases hpre

example : DestReady [(["r"].map String.toList, .dir), ((["r", "dest"]).map String.toList, .dir)]
    (comps (clean "/r/dest".toList)) := destReady_of_B _ _ (by decide)

/-- the same statement for `extractZip`, as a property of a code variant -/
def ZipConfined (cfg : Cfg) : Prop :=
  ∀ (dest : Str), dest.head? = some '/' → ∀ (fs : FS), DestReady fs (comps (clean dest)) → ∀ (ar : List Entry),
    ∀ q, ¬ Under (comps (clean dest)) q → lookup (extract cfg .zip dest fs ar).1 q = lookup fs q

/-- witness: destination `/r/a/b/dest`, one regular entry `../evil.txt` with content `E` -/
def zipSlipDest : Str := "/r/a/b/dest".toList
def zipSlipFS : FS := (prefixesOf (comps zipSlipDest)).map fun k => (k, Node.dir)
def zipSlipArchive : List Entry := [{ kind := .reg, name := "../evil.txt".toList, data := [69], link := [] }]

/-- **zip-slip**: `extractZip` of the pinned tree writes `/r/a/b/evil.txt`, outside `/r/a/b/dest` -/
theorem extractZip_confined_counterexample : ¬ ZipConfined Cfg.current := by
  intro h
  have hr : DestReady zipSlipFS (comps (clean zipSlipDest)) := destReady_of_B _ _ (by decide)
  have := h zipSlipDest (by decide) zipSlipFS hr zipSlipArchive (["r", "a", "b", "evil.txt"].map String.toList)
    (by intro ⟨h1, _⟩; revert h1; decide)
  revert this; decide

/-- with the guard (`C20-1.diff`) `extractZip` is confined like `extractTarGz` -/
theorem extractZip_confined_partial (cfg : Cfg) (hg : cfg.zipGuard = true) : ZipConfined cfg := by
  intro dest habs fs hr ar
  obtain ⟨d0, rfl⟩ : ∃ d0, dest = '/' :: d0 := by
    cases dest with
    | nil => simp at habs
    | cons c cs => simp at habs; exact ⟨cs, by rw [habs]⟩
  exact runSteps_frame _ _ (fun fs fs' e hr h => zipStep_frame cfg hg d0 fs fs' e hr h) ar fs hr

example : Cfg.fixed.zipGuard = true := rfl

/-- the unguarded code is confined on the archives whose every entry name passes the guard -/
theorem extractZip_confined_partial_names (cfg : Cfg) (dest : Str) (habs : dest.head? = some '/') (fs : FS)
    (hr : DestReady fs (comps (clean dest))) (ar : List Entry)
    (hnames : ar.all (fun e => guardOK true dest (join dest e.name)) = true) :
    ∀ q, ¬ Under (comps (clean dest)) q → lookup (extract cfg .zip dest fs ar).1 q = lookup fs q := by
  obtain ⟨d0, rfl⟩ : ∃ d0, dest = '/' :: d0 := by
    cases dest with
    | nil => simp at habs
    | cons c cs => simp at habs; exact ⟨cs, by rw [habs]⟩
  rw [List.all_eq_true] at hnames
  exact runSteps_frame_mem _ _ ar
    (fun e he fs fs' hr h => zipStep_frame_of_guard cfg d0 fs fs' e (hnames e he) hr h) fs hr

example : [({ kind := .reg, name := "a/../b/x".toList, data := [1], link := [] } : Entry)].all
    (fun e => guardOK true zipSlipDest (join zipSlipDest e.name)) = true := by decide

/-! ## 4. Preservation -/

/-- **`preserve`** as a property of a code variant and a format: for every absolute destination other than `/`
    that is ready and empty, and every well-formed archive, extraction succeeds, the archive is consistent, the
    tree below the destination is exactly the archived tree (every directory, every regular file with exactly
    the archived bytes, nothing else), and nothing outside changed. -/
def Preserve (cfg : Cfg) (fmt : Format) : Prop :=
  ∀ (dest : Str), dest.head? = some '/' → comps (clean dest) ≠ [] →
  ∀ (fs : FS), DestReady fs (comps (clean dest)) → TreeAt (comps (clean dest)) fs [] →
  ∀ (ar : List Entry), wellFormed fmt ar = true →
    (extract cfg fmt dest fs ar).2 = none ∧ (specTree ar).2 = none ∧
    TreeAt (comps (clean dest)) (extract cfg fmt dest fs ar).1 (specTree ar).1 ∧
    DestReady (extract cfg fmt dest fs ar).1 (comps (clean dest))

/-- general form: under the side conditions `runOK cfg fmt` of the variant -/
theorem preserve_under (cfg : Cfg) (fmt : Format) (dest : Str) (habs : dest.head? = some '/')
    (hd : comps (clean dest) ≠ []) (fs : FS) (hr : DestReady fs (comps (clean dest)))
    (hempty : TreeAt (comps (clean dest)) fs []) (ar : List Entry) (hok : runOK cfg fmt [] ar = true) :
    (extract cfg fmt dest fs ar).2 = none ∧ (specTree ar).2 = none ∧
    TreeAt (comps (clean dest)) (extract cfg fmt dest fs ar).1 (specTree ar).1 ∧
    DestReady (extract cfg fmt dest fs ar).1 (comps (clean dest)) := by
  obtain ⟨d0, rfl⟩ : ∃ d0, dest = '/' :: d0 := by
    cases dest with
    | nil => simp at habs
    | cons c cs => simp at habs; exact ⟨cs, by rw [habs]⟩
  obtain ⟨h1, h2, h3⟩ := run_rel cfg fmt d0 hd ar fs [] ⟨hr, hempty⟩ hok
  exact ⟨h1, h2, h3.2, h3.1⟩

/-- **the repaired code preserves every well-formed archive, in both formats** -/
theorem preserve_fixed (fmt : Format) : Preserve Cfg.fixed fmt := by
  intro dest habs hd fs hr hempty ar hwf
  exact preserve_under Cfg.fixed fmt dest habs hd fs hr hempty ar hwf

def wfExample : List Entry :=
  [{ kind := .dir, name := "./".toList, data := [], link := [] },
   { kind := .reg, name := "./a/b/x".toList, data := [1, 2, 3], link := [] },
   { kind := .reg, name := "a/b/x".toList, data := [9], link := [] },
   { kind := .dir, name := "c/".toList, data := [], link := [] }]

example : wellFormed .tgz wfExample = true ∧ wellFormed .zip wfExample = true := by decide

def emptyDestFS : FS := (prefixesOf (comps zipSlipDest)).map fun k => (k, Node.dir)

theorem emptyDest_treeAt : TreeAt (comps (clean zipSlipDest)) emptyDestFS [] := by
  intro k hk
  have hd : comps (clean zipSlipDest) = ["r", "a", "b", "dest"].map String.toList := by decide
  rw [hd]
  have : ∀ q ∈ emptyDestFS.map (·.1), q.length ≤ 4 := by decide
  have hlen : (["r", "a", "b", "dest"].map String.toList ++ k).length > 4 := by
    cases k with
    | nil => exact absurd rfl hk
    | cons x xs => simp
  -- a key longer than every stored key is absent
  have hnone : ∀ (fs : FS) (q : Key), (∀ x ∈ fs.map (·.1), x.length < q.length) → lookup fs q = none := by
    intro fs
    induction fs with
    | nil => intro q _; rfl
    | cons a as ih =>
      intro q hq
      obtain ⟨ak, an⟩ := a
      rw [lookup_cons]
      have : q ≠ ak := by
        intro e; have := hq ak (by simp); rw [e] at this; omega
      simp only [this, if_false]
      exact ih q (fun x hx => hq x (by simp at hx ⊢; exact Or.inr hx))
  rw [hnone]
  · rfl
  · intro x hx; have := this x hx; omega

/-- tar, pinned tree: a `./` root entry (what `tar -C dir .` writes first) is rejected -/
theorem preserve_tar_counterexample : ¬ Preserve Cfg.current .tgz := by
  intro h
  have hr : DestReady emptyDestFS (comps (clean zipSlipDest)) := destReady_of_B _ _ (by decide)
  have := (h zipSlipDest (by decide) (by decide) emptyDestFS hr emptyDest_treeAt
    [{ kind := .dir, name := "./".toList, data := [], link := [] },
     { kind := .reg, name := "./x".toList, data := [49], link := [] }] (by decide)).1
  revert this; decide

/-- tar, pinned tree: a later, shorter entry of the same name keeps the tail of the earlier one
    (`os.OpenFile` without `O_TRUNC`): archived `x = "c"`, extracted `x = "cb"` -/
theorem tar_duplicate_stale_tail :
    let ar : List Entry := [{ kind := .reg, name := "x".toList, data := [97, 98], link := [] },
                            { kind := .reg, name := "x".toList, data := [99], link := [] }]
    wellFormed .tgz ar = true ∧
    lookup (specTree ar).1 ["x".toList] = some (.file [99]) ∧
    lookup (extract Cfg.current .tgz zipSlipDest emptyDestFS ar).1
      (comps (clean zipSlipDest) ++ ["x".toList]) = some (.file [99, 98]) := by decide

/-- tar, pinned tree: preserved when no entry names the destination itself and no later duplicate is shorter
    (`runOK Cfg.current .tgz`, decidable) -/
theorem preserve_tar_partial (dest : Str) (habs : dest.head? = some '/') (hd : comps (clean dest) ≠ [])
    (fs : FS) (hr : DestReady fs (comps (clean dest))) (hempty : TreeAt (comps (clean dest)) fs [])
    (ar : List Entry) (hok : runOK Cfg.current .tgz [] ar = true) :
    (extract Cfg.current .tgz dest fs ar).2 = none ∧ (specTree ar).2 = none ∧
    TreeAt (comps (clean dest)) (extract Cfg.current .tgz dest fs ar).1 (specTree ar).1 ∧
    DestReady (extract Cfg.current .tgz dest fs ar).1 (comps (clean dest)) :=
  preserve_under Cfg.current .tgz dest habs hd fs hr hempty ar hok

example : runOK Cfg.current .tgz []
    [{ kind := .reg, name := "a/b/x".toList, data := [1], link := [] },
     { kind := .sym, name := "l".toList, data := [], link := [46, 46] },
     { kind := .reg, name := "a/b/x".toList, data := [2, 3], link := [] }] = true := by decide

/-- zip, pinned tree: an archive without directory entries fails (no `MkdirAll` of the parent) -/
theorem preserve_zip_counterexample : ¬ Preserve Cfg.current .zip := by
  intro h
  have hr : DestReady emptyDestFS (comps (clean zipSlipDest)) := destReady_of_B _ _ (by decide)
  have := (h zipSlipDest (by decide) (by decide) emptyDestFS hr emptyDest_treeAt
    [{ kind := .reg, name := "a/b/x".toList, data := [49], link := [] }] (by decide)).1
  revert this; decide

/-- zip, pinned tree: preserved when every file's parent directory was archived before it -/
theorem preserve_zip_partial (dest : Str) (habs : dest.head? = some '/') (hd : comps (clean dest) ≠ [])
    (fs : FS) (hr : DestReady fs (comps (clean dest))) (hempty : TreeAt (comps (clean dest)) fs [])
    (ar : List Entry) (hok : runOK Cfg.current .zip [] ar = true) :
    (extract Cfg.current .zip dest fs ar).2 = none ∧ (specTree ar).2 = none ∧
    TreeAt (comps (clean dest)) (extract Cfg.current .zip dest fs ar).1 (specTree ar).1 ∧
    DestReady (extract Cfg.current .zip dest fs ar).1 (comps (clean dest)) :=
  preserve_under Cfg.current .zip dest habs hd fs hr hempty ar hok

example : runOK Cfg.current .zip []
    [{ kind := .dir, name := "a/b/".toList, data := [], link := [] },
     { kind := .reg, name := "a/b/x".toList, data := [1], link := [] },
     { kind := .reg, name := "y".toList, data := [], link := [] }] = true := by decide

/-! ## 5. The lock protocol of `checkDownloadAndExtractLib`, all interleavings, any number of processes -/

/-- at most one process extracts at any time -/
def LockOneExtractor (allowFail : Bool) : Prop :=
  ∀ (K : Nat) (s : State), Reach K allowFail s →
    ∀ p q, extracting (s.pc p) = true → extracting (s.pc q) = true → p = q

/-- whenever `dst` exists it is one complete copy: all `K` chunks, written by a single process -/
def LockCompleteCopy (allowFail : Bool) : Prop :=
  ∀ (K : Nat) (s : State), Reach K allowFail s → ∀ t, s.dst = some t → ∃ w, t = List.replicate K w

/-- **no failures ⇒ mutual exclusion**, over all interleavings of any number of processes — including the
    interleavings in which a lock file is unlinked while other processes still wait on its inode -/
theorem lock_one_extractor_partial : LockOneExtractor false :=
  fun _ _ hr _ _ hp hq => (inv_reach hr).unique hp hq

/-- **no failures ⇒ `dst` is only ever a complete copy** -/
theorem lock_complete_copy_partial : LockCompleteCopy false :=
  fun _ _ hr t ht => (inv_reach hr).dst_complete t ht

/-- no failures: at most one extraction (= one download) is ever started -/
theorem lock_one_download (K : Nat) (s : State) (hr : Reach K false s) : s.started ≤ 1 := by
  have inv := inv_reach hr
  cases hd : s.dst with
  | some t => rw [inv.started_dst t hd]; exact Nat.le_refl 1
  | none =>
    by_cases h : ∀ p, began (s.pc p) = false
    · rw [inv.started_zero hd h]; exact Nat.zero_le 1
    · have : ∃ p, began (s.pc p) = true := by
        apply Classical.byContradiction
        intro hne
        apply h
        intro p
        cases hb : began (s.pc p) with
        | false => rfl
        | true => exact absurd ⟨p, hb⟩ hne
      obtain ⟨p, hp⟩ := this
      rw [(inv.loc p).started_one hp]; exact Nat.le_refl 1

/-- no failures: **after any release `dst` exists** (and the releasing call reports success) -/
theorem lock_release_dst (K : Nat) (s : State) (hr : Reach K false s) (p : Nat) (h : late (s.pc p) = true) :
    s.dst.isSome = true ∧ failed (s.pc p) = false := by
  have inv := inv_reach hr
  refine ⟨?_, (inv.loc p).no_failure⟩
  cases hd : s.dst with
  | some t => rfl
  | none => have := (inv.loc p).early_pc hd; rw [h] at this; cases this

/-- no failures: **when every caller has returned, exactly one complete copy is left** — `dst` is complete,
    every call reported success, one extraction was run, and neither the lock file nor the two temporary
    directories remain -/
theorem lock_quiescent (K : Nat) (s : State) (hr : Reach K false s) (hq : ∀ p, idle (s.pc p) = true)
    (p : Nat) (ok : Bool) (hp : s.pc p = .done ok) :
    ok = true ∧ (∃ w, s.dst = some (List.replicate K w)) ∧ s.started = 1 ∧
    s.lockFile = none ∧ s.tmp = none ∧ s.ext = none := by
  have inv := inv_reach hr
  have hnoext : ∀ q, extracting (s.pc q) = false := by
    intro q; have := hq q; revert this; cases s.pc q <;> simp [idle, extracting]
  have hlate : late (s.pc p) = true := by rw [hp]; rfl
  obtain ⟨hdst, hnf⟩ := lock_release_dst K s hr p hlate
  obtain ⟨t, ht⟩ := Option.isSome_iff_exists.1 hdst
  obtain ⟨w, hw⟩ := inv.dst_complete t ht
  refine ⟨?_, ⟨w, by rw [ht, hw]⟩, inv.started_dst t ht, ?_, (inv.idle_clean hnoext).1, (inv.idle_clean hnoext).2⟩
  · rw [hp] at hnf; revert hnf; cases ok <;> simp [failed]
  · cases hl : s.lockFile with
    | none => rfl
    | some i =>
      obtain ⟨q, hqo⟩ := inv.lockfile_open i hl
      have := hq q; revert this hqo; cases s.pc q <;> simp [idle, hasOpened]

example : idle (PC.done true) = true ∧ late (PC.done true) = true := by decide

/-- **with or without failures**: the `flock` is exclusive *per inode* — two processes that hold the lock on
    the same inode are the same process -/
theorem flock_exclusive_per_inode (K : Nat) (b : Bool) (s : State) (hr : Reach K b s) (p q i : Nat)
    (hp : holds (s.pc p) i = true) (hq : holds (s.pc q) i = true) : p = q := by
  have g := ginv_reach hr
  have h1 := g.lock_holder p i hp
  have h2 := g.lock_holder q i hq
  rw [h1] at h2; cases h2; rfl

/-- with or without failures: once every caller has returned the lock file is gone -/
theorem lockfile_removed (K : Nat) (b : Bool) (s : State) (hr : Reach K b s) (hq : ∀ p, idle (s.pc p) = true) :
    s.lockFile = none := by
  have g := ginv_reach hr
  cases hl : s.lockFile with
  | none => rfl
  | some i =>
    obtain ⟨q, hqo⟩ := g.lockfile_open i hl
    have := hq q; revert this hqo; cases s.pc q <;> simp [idle, hasOpened]

/-- **no deadlock**, with or without failures: as long as some caller has not returned, some caller that has not
    returned can take a step (a caller blocked in `flock` waits for a holder that is itself able to move) -/
theorem lock_no_deadlock (K : Nat) (b : Bool) (s : State) (hr : Reach K b s) (p : Nat)
    (hp : ∀ ok, s.pc p ≠ .done ok) :
    ∃ q s', (∀ ok, s.pc q ≠ .done ok) ∧ ExtractLock.step K s q false = some s' :=
  progress hr p hp

example : ∀ ok, init.pc 0 ≠ PC.done ok := by intro ok h; cases h

/-- The unlink-after-unlock race.  Process 0 fails its download and releases: `LOCK_UN`, then `os.Remove`.
    Process 1 had opened the lock file before (inode 0) and gets the lock as soon as 0 unlocks; after 0's
    `os.Remove` process 2 creates a *new* lock file (inode 1) and locks it at once.  1 and 2 both extract. -/
def raceSchedule : List (Nat × Bool) :=
  [(0, false), (0, false), (0, false), (0, false), (0, false),   -- 0: stat, open (inode 0), flock, stat, mkTmp
   (1, false), (1, false),                                       -- 1: stat, open (inode 0)  … blocks in flock
   (0, true), (0, false),                                        -- 0: download fails; LOCK_UN
   (1, false), (1, false),                                       -- 1: flock(inode 0) granted, stat: absent
   (0, false),                                                   -- 0: os.Remove(lockPath)
   (2, false), (2, false), (2, false), (2, false)]               -- 2: stat, open (NEW inode 1), flock, stat: absent

/-- … continued: 1 and 2 write into the same temp directory; 1 publishes a directory with a chunk missing -/
def raceSchedule2 : List (Nat × Bool) :=
  raceSchedule ++ [(1, false), (1, false), (2, false), (1, false), (1, false), (1, false), (1, false)]

/-- **a failing download breaks mutual exclusion** (the lock protocol itself, not the failure, lets the second
    and third caller in at the same time) -/
theorem lock_one_extractor_counterexample : ¬ LockOneExtractor true := by
  intro h
  cases hs : runSched 1 init raceSchedule with
  | none =>
    have : (runSched 1 init raceSchedule).isSome = true := by decide
    rw [hs] at this; cases this
  | some s =>
    have h1 : (runSched 1 init raceSchedule).map (fun s => extracting (s.pc 1) && extracting (s.pc 2)) = some true := by
      decide
    rw [hs] at h1
    simp only [Option.map_some, Option.some.injEq, Bool.and_eq_true] at h1
    have := h 1 s (reach_of_run _ _ _ Reach.init hs) 1 2 h1.1 h1.2
    cases this

/-- **… and then the published copy is not complete** -/
theorem lock_complete_copy_counterexample : ¬ LockCompleteCopy true := by
  intro h
  cases hs : runSched 2 init raceSchedule2 with
  | none =>
    have : (runSched 2 init raceSchedule2).isSome = true := by decide
    rw [hs] at this; cases this
  | some s =>
    have h1 : (runSched 2 init raceSchedule2).map (fun s => s.dst) = some (some [1]) := by decide
    rw [hs] at h1
    simp only [Option.map_some, Option.some.injEq] at h1
    obtain ⟨w, hw⟩ := h 2 s (reach_of_run _ _ _ Reach.init hs) [1] h1
    have := congrArg List.length hw
    simp at this

/-! ## 6. The container layer: from the bytes of the archive file to the entries

Models: `Model/Gzip.lean` (`compress/gzip` + `compress/flate`), `Model/Tar.lean` (`archive/tar.Reader`, and
`extractTarGzBytes` = the whole of `extractTarGz` on the bytes of the file).  Writers (what a well-formed
container is): `Spec/Container.lean`. -/

/-- **a `.gz` file is the concatenation of its members, and the reader delivers the concatenation of their
    payloads**: for every non-empty list of members — any optional header fields, any cut of each payload into
    stored blocks — `gzip.NewReader` succeeds and the stream read to its end is `payload₁ ++ payload₂ ++ …`,
    ending in a clean `io.EOF`. -/
theorem gunzip_members (m : GzMember) (ms : List GzMember) (hm : m.WF) (hms : ∀ x ∈ ms, x.WF) :
    Gzip.gunzip true (gzFile (m :: ms)) = .ok ⟨(m :: ms).flatMap GzMember.payload, none⟩ :=
  Gzip.gunzip_gzFile_aux m ms hm hms

def gzExample : GzMember :=
  { text := false, extra := some [1, 2], name := some [115, 100, 107], comment := none, hcrc := true, mtime := 1700000000,
    xfl := 0, os := 3, blocks := [[1, 2, 3], []], last := [4] }

example : gzExample.WF :=
  ⟨(by intro b h; cases h; decide), (by intro b h; cases h; decide), (by intro b h; cases h), (by decide), (by decide)⟩

/-- a reader that stops after the first member (`Multistream(false)`) delivers the first payload only — the
    later members' files would silently be missing.  `extractTarGz` must not do that (`gunzip_members` is what the
    model of the code as it is says; the correspondence runs hold the real code to it). -/
theorem gunzip_first_member_only (m : GzMember) (ms : List GzMember) (hm : m.WF) :
    Gzip.gunzip false (gzFile (m :: ms)) = .ok ⟨m.payload, none⟩ :=
  Gzip.gunzip_single_gzFile m ms hm

/-- **the extraction result does not depend on how the tar stream is cut into gzip members**: two files whose
    members' payloads concatenate to the same stream are extracted identically (same tree, same error status),
    whatever the stream is — well-formed tar or not. -/
theorem extractTarGz_cut_independent (cfg : Cfg) (dest : Str) (fs : FS)
    (m : GzMember) (ms : List GzMember) (m' : GzMember) (ms' : List GzMember)
    (hm : m.WF) (hms : ∀ x ∈ ms, x.WF) (hm' : m'.WF) (hms' : ∀ x ∈ ms', x.WF)
    (hsame : (m :: ms).flatMap GzMember.payload = (m' :: ms').flatMap GzMember.payload) :
    Tar.extractTarGzBytes cfg dest fs (gzFile (m :: ms)) = Tar.extractTarGzBytes cfg dest fs (gzFile (m' :: ms')) := by
  unfold Tar.extractTarGzBytes
  rw [gunzip_members m ms hm hms, gunzip_members m' ms' hm' hms', hsame]

example : ([gzExample, { gzExample with blocks := [], last := [] }].flatMap GzMember.payload) =
    ([{ gzExample with blocks := [[1], [2]], last := [3, 4] }].flatMap GzMember.payload) := by decide

/-- **tar framing**: the members come back in order with their names (of any length: GNU long-name members are
    resolved) and contents, and **what follows the end-of-archive marker is ignored** — `tail` is two zero blocks
    followed by anything (`EndsArchive.marker junk tl`, even a reader error `tl` behind it), a single zero block
    at the end of the stream, or the bare end of the stream at a member boundary. -/
theorem readTar_members (ms : List TarMember) (hwf : ∀ m ∈ ms, m.WF) (tail : Gzip.Bytes) (tl : Option Gzip.Err)
    (hend : Tar.EndsArchive tail tl) :
    Tar.readTar ⟨tarStream ms ++ tail, tl⟩ = (ms.map TarMember.entry, .eof) :=
  Tar.readTar_tarStream ms hwf tail tl hend

def tarExample : List TarMember :=
  [{ kind := .dir, name := Tar.bytesOf "sdk/", data := [] },
   { kind := .reg, name := Tar.bytesOf "sdk/" ++ List.replicate 120 120 ++ Tar.bytesOf "/clang", data := [1, 2, 3] }]

set_option maxRecDepth 20000 in
example : ∀ m ∈ tarExample, m.WF := by
  intro m hm
  simp only [tarExample, List.mem_cons, List.mem_nil_iff, or_false] at hm
  rcases hm with rfl | rfl <;> exact ⟨by decide, by decide, by decide⟩

/-- **from the bytes to the entries**: a file made of gzip members (cut anywhere) whose payloads concatenate to a
    written tar stream is extracted exactly as the entry-level model extracts the list of entries the stream
    means — so every theorem of sections 3 and 4 about lists of entries is a theorem about archive files. -/
theorem extractTarGz_bytes_entries (cfg : Cfg) (dest : Str) (fs : FS)
    (m : GzMember) (ms : List GzMember) (hm : m.WF) (hms : ∀ x ∈ ms, x.WF)
    (tms : List TarMember) (hwf : ∀ t ∈ tms, t.WF) (tail : Gzip.Bytes) (hend : Tar.EndsArchive tail none)
    (hpay : (m :: ms).flatMap GzMember.payload = tarStream tms ++ tail) :
    Tar.extractTarGzBytes cfg dest fs (gzFile (m :: ms)) =
      some (extract cfg .tgz dest fs (tms.map TarMember.entry)) := by
  unfold Tar.extractTarGzBytes
  rw [gunzip_members m ms hm hms, hpay]
  simp only [readTar_members tms hwf tail none hend]
  unfold Tar.finish
  cases h : extract cfg .tgz dest fs (tms.map TarMember.entry) with
  | mk fs' e => cases e <;> rfl

/-- **preservation, from the bytes**: for a well-formed archive (the entries the members mean are `wellFormed`),
    written with names of any length, closed in any of the three ways, and cut into gzip members anywhere, the
    repaired code recreates exactly the archived tree `specTree` below the destination. -/
theorem extractTarGz_bytes_preserve (dest : Str) (habs : dest.head? = some '/') (hd : comps (clean dest) ≠ [])
    (fs : FS) (hr : DestReady fs (comps (clean dest))) (hempty : TreeAt (comps (clean dest)) fs [])
    (m : GzMember) (ms : List GzMember) (hm : m.WF) (hms : ∀ x ∈ ms, x.WF)
    (tms : List TarMember) (hwf : ∀ t ∈ tms, t.WF) (tail : Gzip.Bytes) (hend : Tar.EndsArchive tail none)
    (hpay : (m :: ms).flatMap GzMember.payload = tarStream tms ++ tail)
    (hok : wellFormed .tgz (tms.map TarMember.entry) = true) :
    ∃ fs', Tar.extractTarGzBytes Cfg.fixed dest fs (gzFile (m :: ms)) = some (fs', none) ∧
      TreeAt (comps (clean dest)) fs' (specTree (tms.map TarMember.entry)).1 ∧
      DestReady fs' (comps (clean dest)) := by
  obtain ⟨h1, _, h3, h4⟩ := preserve_fixed .tgz dest habs hd fs hr hempty (tms.map TarMember.entry) hok
  refine ⟨(extract Cfg.fixed .tgz dest fs (tms.map TarMember.entry)).1, ?_, h3, h4⟩
  rw [extractTarGz_bytes_entries Cfg.fixed dest fs m ms hm hms tms hwf tail hend hpay]
  cases h : extract Cfg.fixed .tgz dest fs (tms.map TarMember.entry) with
  | mk fs' e => rw [h] at h1; simp at h1; rw [h1]

set_option maxRecDepth 20000 in
example : wellFormed .tgz (tarExample.map TarMember.entry) = true := by decide

/-- **confinement, for every byte string whatsoever**: whatever the bytes of the file are — valid, truncated,
    damaged, hostile — and whichever way the readers stop, whenever the model answers at all, every path that is
    not strictly below the destination is as it was. -/
theorem extractTarGz_bytes_confined (cfg : Cfg) (dest : Str) (habs : dest.head? = some '/') (fs : FS)
    (hr : DestReady fs (comps (clean dest))) (file : Gzip.Bytes) (fs' : FS) (e : Option Extract.Err)
    (h : Tar.extractTarGzBytes cfg dest fs file = some (fs', e)) :
    ∀ q, ¬ Under (comps (clean dest)) q → lookup fs' q = lookup fs q := by
  obtain ⟨d0, rfl⟩ : ∃ d0, dest = '/' :: d0 := by
    cases dest with
    | nil => simp at habs
    | cons c cs => simp at habs; exact ⟨cs, by rw [habs]⟩
  unfold Tar.extractTarGzBytes at h
  cases hg : Gzip.gunzip true file with
  | error _ =>
    rw [hg] at h
    simp only [Option.some.injEq, Prod.mk.injEq] at h
    obtain ⟨rfl, _⟩ := h
    intro q _; rfl
  | ok s =>
    rw [hg] at h
    simp only at h
    have hframe := extractTarGz_confined cfg ('/' :: d0) rfl fs hr (Tar.readTar s).1
    generalize hx : extract cfg Format.tgz ('/' :: d0) fs (Tar.readTar s).1 = x at h hframe
    obtain ⟨fs1, e1⟩ := x
    generalize (Tar.readTar s).2 = tend at h
    cases e1 with
    | some err =>
      simp only [Tar.finish, Option.some.injEq, Prod.mk.injEq] at h
      obtain ⟨rfl, _⟩ := h
      exact hframe
    | none =>
      cases tend with
      | eof =>
        simp only [Tar.finish, Option.some.injEq, Prod.mk.injEq] at h
        obtain ⟨rfl, _⟩ := h
        exact hframe
      | err _ =>
        simp only [Tar.finish, Option.some.injEq, Prod.mk.injEq] at h
        obtain ⟨rfl, _⟩ := h
        exact hframe
      | unsupported => simp [Tar.finish] at h
      | partialFile ent _ =>
        simp only [Tar.finish] at h
        cases hstep : tarStep cfg ('/' :: d0) fs1 ent with
        | error err =>
          rw [hstep] at h
          simp only [Option.some.injEq, Prod.mk.injEq] at h
          obtain ⟨rfl, _⟩ := h
          exact hframe
        | ok fs2 =>
          rw [hstep] at h
          simp only [Option.some.injEq, Prod.mk.injEq] at h
          obtain ⟨rfl, _⟩ := h
          have hr1 : DestReady fs1 (comps (clean ('/' :: d0))) := hr.of_frame hframe
          have f2 := tarStep_frame cfg d0 fs1 fs2 ent hr1 hstep
          exact fun q hq => (f2 q hq).trans (hframe q hq)

/-! ### zip -/

/-- **zip framing**: `zip.OpenReader` on a written file delivers the members **in the order of the central
    directory** — whatever the order of the local records, whether some local records are named by no central
    header (they are ignored) or by two (they appear twice), and with the kind (directory or not) read off the
    creator's attribute convention or a trailing `/`. -/
theorem readZip_members (ls : List ZipLocal) (cs : List ZipCentral) (wf : ZipWF ls cs) :
    Zip.readZip (zipFile ls cs) = .ok (cs.map (ZipCentral.entry ls)) :=
  Zip.readZip_zipFile ls cs wf

def zipExampleLocals : List ZipLocal :=
  [{ name := Tar.bytesOf "orphan", extra := [], data := [9] },
   { name := Tar.bytesOf "sdk/x", extra := [1, 0, 0, 0], data := [1, 2, 3] },
   { name := Tar.bytesOf "sdk", extra := [], data := [] }]

/-- the central directory names the directory first although its local record comes last, leaves the first local
    record out, and marks the directory by the MS-DOS attribute only (creator FAT) -/
def zipExampleCentral : List ZipCentral :=
  [{ idx := 2, creator := 20, extAttrs := 16, extra := [], comment := [] },
   { idx := 1, creator := 768 + 30, extAttrs := 33188 * 65536, extra := [], comment := [104, 105] }]

set_option maxRecDepth 20000 in
example : ZipWF zipExampleLocals zipExampleCentral :=
  ⟨by decide, by decide, by decide, by decide, by decide, by decide⟩

/-- **from the bytes to the entries (zip)**: when the members of a written file mean the entries `es`, and the
    entry-level loop succeeds on `es`, `extractZip` on the bytes of the file produces the same file system. -/
theorem extractZip_bytes_entries (cfg : Cfg) (dest : Str) (fs : FS)
    (ls : List ZipLocal) (cs : List ZipCentral) (wf : ZipWF ls cs) (es : List Entry)
    (hmean : cs.map (ZipCentral.entry ls) = es.map Zip.ofEntry)
    (hok : (extract cfg .zip dest fs es).2 = none) :
    Zip.extractZipBytes cfg dest fs (zipFile ls cs) = some ((extract cfg .zip dest fs es).1, none) := by
  unfold Zip.extractZipBytes
  rw [readZip_members ls cs wf, hmean]
  exact Zip.runZip_ofEntry cfg dest es fs hok

/-- **preservation, from the bytes (zip)**: a written zip file whose members mean a well-formed list of entries is
    recreated exactly as the archived tree `specTree`, whatever the order of its local records. -/
theorem extractZip_bytes_preserve (dest : Str) (habs : dest.head? = some '/') (hd : comps (clean dest) ≠ [])
    (fs : FS) (hr : DestReady fs (comps (clean dest))) (hempty : TreeAt (comps (clean dest)) fs [])
    (ls : List ZipLocal) (cs : List ZipCentral) (wf : ZipWF ls cs) (es : List Entry)
    (hmean : cs.map (ZipCentral.entry ls) = es.map Zip.ofEntry) (hok : wellFormed .zip es = true) :
    ∃ fs', Zip.extractZipBytes Cfg.fixed dest fs (zipFile ls cs) = some (fs', none) ∧
      TreeAt (comps (clean dest)) fs' (specTree es).1 ∧ DestReady fs' (comps (clean dest)) := by
  obtain ⟨h1, _, h3, h4⟩ := preserve_fixed .zip dest habs hd fs hr hempty es hok
  exact ⟨_, extractZip_bytes_entries Cfg.fixed dest fs ls cs wf es hmean h1, h3, h4⟩

set_option maxRecDepth 20000 in
example : zipExampleCentral.map (ZipCentral.entry zipExampleLocals) =
    [({ kind := .dir, name := "sdk".toList, data := [], link := [] } : Entry),
     { kind := .reg, name := "sdk/x".toList, data := [1, 2, 3], link := [] }].map Zip.ofEntry := by decide

/-- **confinement, for every byte string whatsoever (zip)**: with the guard, whatever the bytes of the file are and
    however `zip.OpenReader`, `Open` or the copy fail, every path not strictly below the destination is as it was. -/
theorem extractZip_bytes_confined (cfg : Cfg) (hg : cfg.zipGuard = true) (dest : Str) (habs : dest.head? = some '/')
    (fs : FS) (hr : DestReady fs (comps (clean dest))) (file : Gzip.Bytes) (fs' : FS) (e : Option Extract.Err)
    (h : Zip.extractZipBytes cfg dest fs file = some (fs', e)) :
    ∀ q, ¬ Under (comps (clean dest)) q → lookup fs' q = lookup fs q := by
  obtain ⟨d0, rfl⟩ : ∃ d0, dest = '/' :: d0 := by
    cases dest with
    | nil => simp at habs
    | cons c cs => simp at habs; exact ⟨cs, by rw [habs]⟩
  unfold Zip.extractZipBytes at h
  cases hz : Zip.readZip file with
  | err _ =>
    rw [hz] at h
    simp only [Option.some.injEq, Prod.mk.injEq] at h
    obtain ⟨rfl, _⟩ := h
    intro q _; rfl
  | unsupported => rw [hz] at h; cases h
  | ok es =>
    rw [hz] at h
    exact Zip.runZip_frame cfg hg d0 es fs fs' e hr h

end LlgoVerif.C20
