import LlgoVerif.Util
import LlgoVerif.Model.Slice
import LlgoVerif.Model.BoundsCall
import LlgoVerif.Lemmas.Bounds
/-! Line-protocol driver for C03 (bound operands ∘ run-time checks).  One request per line, one answer per line; the
    requests are produced by `harness/irgen/bndgen.py` `model_request` for the very operand tuples fed to the
    llgo-compiled evaluator, and the answers use the evaluator's output vocabulary:

    `cfg C N` (repairs live in the tree: NewChan size test, nil test before slicing an array pointer) |
    `ns3 nil esz cap  s w bits  s w bits  s w bits` (x[i:j:k]: each operand as signedness, width, bit pattern) |
    `hdr nil len cap` (p[:]) | `ss len  s w bits  s w bits` | `mk esz  s w bits  s w bits` | `ch esz  s w bits` |
    `mm s w bits` | `us s w bits` | `ut s w bits` | `sa len n` | `nl p` | `ix isstr len s w bits`.

    Answers: `P` (panic) | `R len cap e0 e1 e2` | `T len first last` | `R len cap 0` (make) | `C cap` | `M 1` | `A v` | `U` | `E v`.
    An operand is converted exactly as the regenerated obligations say the compiler does (`BoundsCall.fit`), then the
    run-time routine of the model runs on the `int` reading of the result. -/
open LlgoVerif LlgoVerif.Util LlgoVerif.Slice LlgoVerif.BoundsCall

def storeN : Int := 70016
def baseAddr : Nat := 4096

/-- `fit s a` for a bit pattern of width `w` (w ∈ {8,16,32,64}) read as the runtime's `int` -/
def handed (s : Bool) (w bits : Nat) : Int :=
  if w = 8 then (fit s (BitVec.ofNat 8 bits)).toInt
  else if w = 16 then (fit s (BitVec.ofNat 16 bits)).toInt
  else if w = 32 then (fit s (BitVec.ofNat 32 bits)).toInt
  else (fit s (BitVec.ofNat 64 bits)).toInt

def opnd (s w b : String) : Option Int :=
  match s.toNat?, w.toNat?, b.toNat? with
  | some s, some w, some b => if w = 8 ∨ w = 16 ∨ w = 32 ∨ w = 64 then some (handed (s = 1) w b) else none
  | _, _, _ => none

def elem (i : Int) : Int := 100 + i

/-- what the evaluator prints for a slice result over the element store (element `k` holds `100 + k`) -/
def showSlice (noelems : Bool) (off len cap : Int) : String :=
  let sane := !noelems ∧ 0 ≤ len ∧ len ≤ cap ∧ cap ≤ storeN
  let e0 := if sane ∧ len > 0 then elem off else -1
  let e1 := if sane ∧ len > 0 then elem (off + len - 1) else -1
  let e2 := if sane ∧ cap > 0 then elem (off + cap - 1) else -1
  s!"R {len} {cap} {e0} {e1} {e2}"

def showStr (len : Int) (first last : Int) : String :=
  if 0 < len ∧ len ≤ storeN then s!"T {len} {first} {last}" else s!"T {len} -1 -1"

def handle (cfg : BCfg) (line : String) : BCfg × String :=
  match fields line with
  | ["cfg", c, n] => ({ chanSizeFix := c = "1", nilArrayFix := n = "1" }, "ok")
  | ["ns3", nilp, esz, cap, s1, w1, b1, s2, w2, b2, s3, w3, b3] =>
    match esz.toNat?, cap.toNat?, opnd s1 w1 b1, opnd s2 w2 b2, opnd s3 w3 b3 with
    | some esz, some cap, some i, some j, some k =>
      let p := if nilp = "1" then 0 else baseAddr
      match nilArrayCheck cfg p with
      | .error _ => (cfg, "P")
      | .ok () =>
        match NewSlice3 p esz cap i j k with
        | .error _ => (cfg, "P")
        | .ok r => (cfg, showSlice (nilp = "1") (((r.data : Int) - p) / (esz : Int)) r.len r.cap)
    | _, _, _, _, _ => (cfg, "bad-op")
  | ["hdr", nilp, len, cap] =>
    match len.toNat?, cap.toNat? with
    | some len, some cap =>
      match nilArrayCheck cfg (if nilp = "1" then 0 else baseAddr) with
      | .error _ => (cfg, "P")
      | .ok () => (cfg, showSlice (nilp = "1") 0 len cap)
    | _, _ => (cfg, "bad-op")
  | ["ss", len, s1, w1, b1, s2, w2, b2] =>
    match len.toNat?, opnd s1 w1 b1, opnd s2 w2 b2 with
    | some len, some i, some j =>
      let base := (List.range len).map (· % 251)
      match StringSlice base i j with
      | .error _ => (cfg, "P")
      | .ok r => (cfg, showStr r.length (r.headD 0) (r.getLastD 0))
    | _, _, _ => (cfg, "bad-op")
  | ["mk", esz, s1, w1, b1, s2, w2, b2] =>
    match esz.toNat?, opnd s1 w1 b1, opnd s2 w2 b2 with
    | some esz, some n, some m =>
      match MakeSlice Mem.empty n m esz with
      | .error _ => (cfg, "P")
      | .ok (_, r) => (cfg, s!"R {r.len} {r.cap} 0")
    | _, _, _ => (cfg, "bad-op")
  | ["ch", esz, s1, w1, b1] =>
    match esz.toNat?, opnd s1 w1 b1 with
    | some esz, some n =>
      match NewChan cfg esz n with
      | .error _ => (cfg, "P")
      | .ok r => (cfg, s!"C {r.cap}")
    | _, _ => (cfg, "bad-op")
  | ["mm", s1, w1, b1] =>
    match opnd s1 w1 b1 with
    | some _ => (cfg, "M 1")
    | none => (cfg, "bad-op")
  | ["us", s1, w1, b1] =>
    match opnd s1 w1 b1 with
    | some n => (cfg, showSlice false 0 n n)
    | none => (cfg, "bad-op")
  | ["ut", s1, w1, b1] =>
    match opnd s1 w1 b1 with
    | some n => (cfg, showStr n 0 ((n - 1) % 251))
    | none => (cfg, "bad-op")
  | ["sa", len, n, _] =>
    match len.toNat?, n.toNat? with
    | some len, some n =>
      match sliceToArray len n baseAddr with
      | .error _ => (cfg, "P")
      | .ok _ => (cfg, if n = 0 then "A 0" else s!"A {elem 0 + elem 3}")
    | _, _ => (cfg, "bad-op")
  | ["nl", p] => (cfg, if p = "0" then "P" else "U")
  | ["ix", isstr, len, s1, w1, b1] =>
    match len.toNat?, s1.toNat?, w1.toNat?, b1.toNat? with
    | some len, some s, some w, some b =>
      -- the value of the index at its SOURCE type (`GoArith.val`), judged by `Bounds.idxSpec`
      let v : Int :=
        if w = 8 then GoArith.val (s = 1) (BitVec.ofNat 8 b) else if w = 16 then GoArith.val (s = 1) (BitVec.ofNat 16 b)
        else if w = 32 then GoArith.val (s = 1) (BitVec.ofNat 32 b) else GoArith.val (s = 1) (BitVec.ofNat 64 b)
      match Bounds.idxSpec v (BitVec.ofNat 64 len) with
      | .error _ => (cfg, "P")
      | .ok c => (cfg, if isstr = "1" then s!"E {c.toNat % 251}" else s!"E {elem c.toInt}")
    | _, _, _, _ => (cfg, "bad-op")
  | _ => (cfg, "bad-op")

def main : IO Unit := lineLoopSt BCfg.current handle
