/-!
# TypeCvt — model of `ssa/type_cvt.go` (`goTypes.cvtType` and the functions it calls)   (property C01)

llgo lowers every Go type to a "raw" type before it builds LLVM types and run-time type descriptors: a func type
becomes the closure struct `struct{ $f <raw signature>; $data Pointer } (`Pointer`: go/types' name of the untyped-pointer basic type)`, every composite type that contains a
func type is REBUILT around the lowered component, a named type whose underlying type changes gets a raw twin (same
object, same methods).  The run-time method tables are computed from the lowered type (`ssa/abitype.go`
`abiUncommonMethodSet` calls `types.NewMethodSet` on it), so an attribute dropped while rebuilding (the `embedded` flag
of a field, a tag, a name) silently changes dynamic behaviour: promoted methods disappear from the descriptor.

The model mirrors the Go code branch by branch:

* `cvt`        = `cvtType`      (`Basic`, `Pointer`, `Slice`, `Map`, `Struct` incl. the `IsClosure` test, `Named`,
                                 `Signature`, `Array`, `Chan`, `Interface` with explicit methods)
* `mapTys`     = `cvtTuple`     (a parameter is rebuilt only when its type changes)
* `cvtFuncWith`= `cvtFunc`      (signature rebuilt only when a tuple changed)
* closure      = `cvtClosure`
* `mapFields`  = the loop of `cvtStruct` / `cvtExplicitMethods` (a field is rebuilt — name, type, embedded flag, tag —
                 only when its type changes)
* the memo table `p.typs` for named types, including the entry `typs[t] = t` that is written BEFORE the underlying
  type is converted and cuts recursion (a named type met again while it is being converted is left unchanged).

Not modelled: type parameters / unions / aliases (generic declarations; instances reach the lowering already
substituted), go/ssa's opaque range-iterator type, the `InC` background of named types, embedded interface types of
unnamed interfaces, and the pointer-keyed memo for unnamed structs and interfaces (a pure cache: it is written after
the conversion and never read while the conversion is running).

Recursion is on a fuel (every call spends one unit): the Go code recurses through the underlying type of named types,
which is not a subterm; the memo guarantees termination there.  `none` = out of fuel (never a wrong answer).
-/
namespace LlgoVerif.TypeCvt

mutual
/-- Go types as `go/types` presents them (the part `cvtType` distinguishes) -/
inductive GTy where
  | basic (name : String)
  | ptr (t : GTy)
  | slice (t : GTy)
  | arr (n : Nat) (t : GTy)
  | map (k v : GTy)
  | chan (dir : Nat) (t : GTy)
  | named (id : Nat) (raw : Bool)                 -- declaration `id`; `raw` = its lowered twin (`types.NewNamed` in `cvtNamed`)
  | sig (params results : List GTy) (variadic : Bool)
  | struct (fields : List Field)
  | iface (methods : List Field)                  -- explicit methods: name + signature
/-- `types.Var` of a struct field (with the tag kept beside it) / `types.Func` of an interface method -/
inductive Field where
  | mk (name : String) (ty : GTy) (embedded : Bool) (tag : String)
end

instance : Inhabited GTy := ⟨.basic ""⟩
instance : Inhabited Field := ⟨.mk "" (.basic "") false ""⟩

def Field.name : Field → String | .mk n _ _ _ => n
def Field.ty : Field → GTy | .mk _ t _ _ => t
def Field.embedded : Field → Bool | .mk _ _ e _ => e
def Field.tag : Field → String | .mk _ _ _ t => t

/-- a type declaration `type T <under>` with its declared methods (name, pointer receiver?) -/
structure Decl where
  under : GTy
  methods : List (String × Bool)
deriving Inhabited

abbrev Decls := Nat → Option Decl

/-- `p.typs` restricted to named types: `none` = `typs[t] = t` (unchanged, or conversion in progress),
    `some u` = a raw twin exists and `u` is its underlying type.  The first entry for an id counts. -/
abbrev Memo := List (Nat × Option GTy)

def lookup : Memo → Nat → Option (Option GTy)
  | [], _ => none
  | (i, e) :: rest, id => if i = id then some e else lookup rest id

/-- `types.Typ[types.UnsafePointer]`, by the name go/types gives it -/
def rawPointer : GTy := .basic "Pointer"

/-- `abi.IsClosure`: two fields, `$f` of signature type and `$data` of the untyped-pointer basic type -/
def isClosure : List Field → Bool
  | [.mk n1 (.sig _ _ _) _ _, .mk n2 (.basic b) _ _] => n1 == "$f" && n2 == "$data" && b == "Pointer"
  | _ => false

/-- what `cvtClosure` builds around the raw signature -/
def closureOf (rawSig : GTy) : GTy :=
  .struct [.mk "$f" rawSig false "", .mk "$data" rawPointer false ""]

/-- result of one conversion step: (raw type, changed?) and the memo afterwards; `none` = out of fuel / dangling id -/
abbrev R (α : Type) := Memo → Option (α × Memo)

/-- `cvtTuple` over the element types: an element is replaced only when its conversion reports a change -/
def mapTys (f : GTy → R (GTy × Bool)) : List GTy → R (List GTy × Bool)
  | [], m => some (([], false), m)
  | t :: ts, m =>
    match f t m with
    | none => none
    | some ((t', c), m1) =>
      match mapTys f ts m1 with
      | none => none
      | some ((ts', cs), m2) => some (((if c then t' else t) :: ts', c || cs), m2)

/-- the field loop of `cvtStruct`: `f = types.NewField(f.Pos(), f.Pkg(), f.Name(), t, f.Anonymous())` when the type
    changed — name, embedded flag and (since the tags are copied by index) tag are kept -/
def mapFields (f : GTy → R (GTy × Bool)) : List Field → R (List Field × Bool)
  | [], m => some (([], false), m)
  | .mk n t e tag :: fs, m =>
    match f t m with
    | none => none
    | some ((t', c), m1) =>
      match mapFields f fs m1 with
      | none => none
      | some ((fs', cs), m2) => some (((if c then Field.mk n t' e tag else .mk n t e tag) :: fs', c || cs), m2)

/-- `cvtFunc(sig, nil)`: the signature is rebuilt when a parameter or result tuple changed -/
def cvtFuncWith (f : GTy → R (GTy × Bool)) : GTy → R (GTy × Bool)
  | .sig ps rs v, m =>
    match mapTys f ps m with
    | none => none
    | some ((ps', c1), m1) =>
      match mapTys f rs m1 with
      | none => none
      | some ((rs', c2), m2) => some ((if c1 || c2 then .sig ps' rs' v else .sig ps rs v, c1 || c2), m2)
  | t, m => some ((t, false), m)

/-- wrap a one-component constructor: rebuilt only when the component changed -/
def rebuild1 (orig : GTy) (mk : GTy → GTy) (r : Option ((GTy × Bool) × Memo)) : Option ((GTy × Bool) × Memo) :=
  match r with
  | none => none
  | some ((e', c), m1) => some ((if c then mk e' else orig, c), m1)

/-- `goTypes.cvtType` -/
def cvt (D : Decls) : Nat → GTy → R (GTy × Bool)
  | 0, _, _ => none
  | fuel+1, t, m =>
    match t with
    | .basic _ => some ((t, false), m)
    | .ptr e => rebuild1 t .ptr (cvt D fuel e m)
    | .slice e => rebuild1 t .slice (cvt D fuel e m)
    | .arr n e => rebuild1 t (.arr n) (cvt D fuel e m)
    | .chan d e => rebuild1 t (.chan d) (cvt D fuel e m)
    | .map k v =>
      match cvt D fuel k m with
      | none => none
      | some ((k', c1), m1) =>
        match cvt D fuel v m1 with
        | none => none
        | some ((v', c2), m2) => some ((if c1 || c2 then .map (if c1 then k' else k) (if c2 then v' else v) else t, c1 || c2), m2)
    | .struct fs =>
      if isClosure fs then some ((t, false), m)
      else
        match mapFields (cvt D fuel) fs m with
        | none => none
        | some ((fs', c), m1) => some ((if c then .struct fs' else t, c), m1)
    | .iface ms =>
      match mapFields (cvtFuncWith (cvt D fuel)) ms m with
      | none => none
      | some ((ms', c), m1) => some ((if c then .iface ms' else t, c), m1)
    | .sig _ _ _ =>
      -- `cvtClosure`: always a change
      match cvtFuncWith (cvt D fuel) t m with
      | none => none
      | some ((raw, _), m1) => some ((closureOf raw, true), m1)
    | .named id raw =>
      if raw then some ((t, false), m)                 -- a raw twin is what the lowering produces; it is not fed back
      else
        match lookup m id with
        | some none => some ((t, false), m)            -- unchanged, or in progress: recursion is cut here
        | some (some _) => some ((.named id true, true), m)
        | none =>
          match D id with
          | none => none
          | some d =>
            match cvt D fuel d.under ((id, none) :: m) with
            | none => none
            | some ((u', c), m1) => if c then some ((.named id true, true), (id, some u') :: m1) else some ((t, false), m1)

/-! ## Method sets (`types.NewMethodSet`), as far as names, embedding and receivers decide them -/

/-- the type universe a method set is computed in: underlying type of (declaration id, raw twin?) and the declared methods -/
structure Univ where
  under : Nat → Bool → Option GTy
  methods : Nat → List (String × Bool)

/-- the universe of the source program -/
def srcUniv (D : Decls) : Univ :=
  { under := fun id _ => (D id).map (·.under), methods := fun id => ((D id).map (·.methods)).getD [] }

/-- the universe after lowering: a raw twin has the underlying type recorded in the memo and — `cvtNamed` hands the
    method list over unchanged — the methods of its declaration -/
def rawUniv (D : Decls) (m : Memo) : Univ :=
  { under := fun id raw =>
      if raw then (match lookup m id with
        | some (some u) => some u
        | _ => (D id).map (·.under))
      else (D id).map (·.under),
    methods := fun id => ((D id).map (·.methods)).getD [] }

/-- what an embedded field contributes: a named type or a pointer to one -/
inductive Head where
  | named (id : Nat) (raw : Bool)
  | ptrNamed (id : Nat) (raw : Bool)
  | other
deriving Repr, DecidableEq, Inhabited

def head : GTy → Head
  | .named id raw => .named id raw
  | .ptr (.named id raw) => .ptrNamed id raw
  | _ => .other

/-- entry kinds of one embedding level: 0 = a field, 1 = a method that is in the method set, 2 = a method that is
    found (and hides deeper names) but is not in the method set (pointer receiver reached through a value) -/
abbrev Entry := String × Nat

/-- the fields a selector can reach: the two fields of a closure struct (`$f`, `$data`) have names that are not Go
    identifiers — they can neither be selected nor collide with a method — and are left out -/
def fieldsOf : Option GTy → List Field
  | some (.struct fs) => if isClosure fs then [] else fs
  | _ => []

def ifaceMethodsOf : Option GTy → List Field
  | some (.iface ms) => ms
  | _ => []

/-- what the embedded fields of a struct contribute, given the names one level further down -/
def embEntries (below : Nat → Bool → Bool → List Entry) (addr : Bool) : List Field → List Entry
  | [] => []
  | f :: rest =>
    (if f.embedded then
      match head f.ty with
      | .named i r => below i r addr
      | .ptrNamed i r => below i r true
      | .other => []
     else []) ++ embEntries below addr rest

/-- the names found at exactly embedding depth `d` below the named type `(id, raw)`; `addr` = reached through a pointer -/
def levelNames (U : Univ) : Nat → Nat → Bool → Bool → List Entry
  | 0, id, raw, addr =>
    (U.methods id).map (fun nm => (nm.1, if !nm.2 || addr then 1 else 2))
      ++ (ifaceMethodsOf (U.under id raw)).map (fun f => (f.name, 1))
      ++ (fieldsOf (U.under id raw)).map (fun f => (f.name, 0))
  | d+1, id, raw, addr => embEntries (levelNames U d) addr (fieldsOf (U.under id raw))

def countName (n : String) : List Entry → Nat
  | [] => 0
  | e :: es => (if e.1 == n then 1 else 0) + countName n es

/-- Go's rule: a name counts at the shallowest depth at which it occurs, and only if it occurs exactly once there -/
def selectAt (U : Univ) (id : Nat) (raw addr : Bool) (n : String) : Nat → Nat → Option Nat
  | 0, _ => none
  | fuel+1, d =>
    let lv := levelNames U d id raw addr
    match countName n lv with
    | 0 => selectAt U id raw addr n fuel (d + 1)
    | 1 => (lv.find? (fun e => e.1 == n)).map (·.2)
    | _ => none

/-- is method `n` in the method set of the named type (`addr = false`) / of the pointer to it (`addr = true`)?
    `depth` bounds the embedding depth that is searched -/
def inMethodSet (U : Univ) (depth : Nat) (id : Nat) (raw addr : Bool) (n : String) : Bool :=
  selectAt U id raw addr n depth 0 == some 1

/-! ## The inverse of the lowering (specification side) -/

/-- a closure struct read back as the func type it stands for -/
def collapse : List Field → GTy
  | [.mk n1 (.sig ps rs v) e1 t1, .mk n2 (.basic b) e2 t2] =>
    if n1 == "$f" && n2 == "$data" && b == "Pointer" then .sig ps rs v
    else .struct [.mk n1 (.sig ps rs v) e1 t1, .mk n2 (.basic b) e2 t2]
  | fs => .struct fs

mutual
/-- read a raw type back as a Go type: closure structs become func types, raw twins their declarations -/
def unlower : GTy → GTy
  | .basic n => .basic n
  | .ptr t => .ptr (unlower t)
  | .slice t => .slice (unlower t)
  | .arr n t => .arr n (unlower t)
  | .map k v => .map (unlower k) (unlower v)
  | .chan d t => .chan d (unlower t)
  | .named id _ => .named id false
  | .sig ps rs v => .sig (unlowerL ps) (unlowerL rs) v
  | .struct fs => collapse (unlowerF fs)
  | .iface ms => .iface (unlowerF ms)
def unlowerL : List GTy → List GTy
  | [] => []
  | t :: ts => unlower t :: unlowerL ts
def unlowerF : List Field → List Field
  | [] => []
  | .mk n t e tag :: fs => .mk n (unlower t) e tag :: unlowerF fs
end

mutual
/-- a type of the source program: no raw twins, no field called `$f` (`$` cannot occur in a Go identifier) -/
def isSrc : GTy → Bool
  | .basic _ => true
  | .ptr t => isSrc t
  | .slice t => isSrc t
  | .arr _ t => isSrc t
  | .map k v => isSrc k && isSrc v
  | .chan _ t => isSrc t
  | .named _ raw => !raw
  | .sig ps rs _ => isSrcL ps && isSrcL rs
  | .struct fs => isSrcF fs
  | .iface ms => isSrcF ms
def isSrcL : List GTy → Bool
  | [] => true
  | t :: ts => isSrc t && isSrcL ts
def isSrcF : List Field → Bool
  | [] => true
  | .mk n t _ _ :: fs => n != "$f" && isSrc t && isSrcF fs
end

/-! ## Text form (driver) -/

def hexOfString (s : String) : String :=
  if s.isEmpty then "-" else
  let d (n : Nat) : Char := if n < 10 then Char.ofNat (48 + n) else Char.ofNat (87 + n)
  String.ofList (s.toUTF8.toList.flatMap fun b => [d (b.toNat / 16), d (b.toNat % 16)])

mutual
def showTy : GTy → String
  | .basic n => "(b " ++ n ++ ")"
  | .ptr t => "(p " ++ showTy t ++ ")"
  | .slice t => "(sl " ++ showTy t ++ ")"
  | .arr n t => "(ar " ++ toString n ++ " " ++ showTy t ++ ")"
  | .map k v => "(m " ++ showTy k ++ " " ++ showTy v ++ ")"
  | .chan d t => "(ch " ++ toString d ++ " " ++ showTy t ++ ")"
  | .named id raw => "(n " ++ toString id ++ " " ++ (if raw then "1" else "0") ++ ")"
  | .sig ps rs v => "(f (" ++ showTys ps ++ ") (" ++ showTys rs ++ ") " ++ (if v then "1" else "0") ++ ")"
  | .struct fs => "(st" ++ showFields fs ++ ")"
  | .iface ms => "(if" ++ showFields ms ++ ")"
def showTys : List GTy → String
  | [] => ""
  | [t] => showTy t
  | t :: ts => showTy t ++ " " ++ showTys ts
def showFields : List Field → String
  | [] => ""
  | .mk n t e tag :: fs => " (" ++ n ++ " " ++ showTy t ++ " " ++ (if e then "1" else "0") ++ " " ++ hexOfString tag ++ ")" ++ showFields fs
end

end LlgoVerif.TypeCvt
