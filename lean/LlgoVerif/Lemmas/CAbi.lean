import LlgoVerif.Spec.SysV
/-!
# C09 — lemmas: natural layout, the split loop's running-offset invariant, eightbyte classes
-/
namespace LlgoVerif.CAbi
open LlgoVerif.SysV

/-! ## arithmetic on the four scalar sizes -/

theorem size_cases (s : Scalar) : s.size = 1 ∨ s.size = 2 ∨ s.size = 4 ∨ s.size = 8 := by
  cases s <;> simp [Scalar.size]

theorem size_pos (s : Scalar) : 0 < s.size := by cases s <;> simp [Scalar.size]

theorem size_le8 (s : Scalar) : s.size ≤ 8 := by cases s <;> simp [Scalar.size]

/-- Go's `(offset + size + align-1) &^ (align-1)` is "align the start, then add the size" -/
theorem alignUp_add_size (c : Nat) (s : Scalar) : alignUp (c + s.size) s.size = alignUp c s.size + s.size := by
  rcases size_cases s with h | h | h | h <;> rw [h] <;> unfold alignUp <;> omega

theorem alignUp_ge (c : Nat) (s : Scalar) : c ≤ alignUp c s.size := by
  rcases size_cases s with h | h | h | h <;> rw [h] <;> unfold alignUp <;> omega

theorem alignUp_add8 (c : Nat) (s : Scalar) : alignUp (c + 8) s.size = alignUp c s.size + 8 := by
  rcases size_cases s with h | h | h | h <;> rw [h] <;> unfold alignUp <;> omega

/-- an element that starts below 8 ends at or below 8 (natural alignment: no scalar straddles an eightbyte) -/
theorem no_straddle (c : Nat) (s : Scalar) (h : alignUp c s.size < 8) : alignUp c s.size + s.size ≤ 8 := by
  rcases size_cases s with h1 | h1 | h1 | h1 <;> rw [h1] at h ⊢ <;> unfold alignUp at h ⊢ <;> omega

theorem alignUp_le8 (c : Nat) (s : Scalar) (h : c ≤ 8) : alignUp c s.size ≤ 8 := by
  rcases size_cases s with h1 | h1 | h1 | h1 <;> rw [h1] <;> unfold alignUp <;> omega

/-! ## natural layout -/

theorem natEnd_ge (l : List Scalar) (c : Nat) : c ≤ natEnd l c := by
  induction l generalizing c with
  | nil => simp [natEnd]
  | cons s r ih =>
    simp only [natEnd]
    have := ih (alignUp c s.size + s.size)
    have := alignUp_ge c s
    omega

theorem natEnd_cons_gt (s : Scalar) (r : List Scalar) (c : Nat) : c < natEnd (s :: r) c := by
  simp only [natEnd]
  have := natEnd_ge r (alignUp c s.size + s.size)
  have := alignUp_ge c s
  have := size_pos s
  omega

theorem natLayout_bounds (l : List Scalar) (c : Nat) :
    ∀ e ∈ natLayout l c, c ≤ e.1 ∧ e.1 + e.2.size ≤ natEnd l c := by
  induction l generalizing c with
  | nil => simp [natLayout]
  | cons s r ih =>
    intro e he
    simp only [natLayout, List.mem_cons] at he
    simp only [natEnd]
    have h1 := alignUp_ge c s
    have h2 := natEnd_ge r (alignUp c s.size + s.size)
    rcases he with rfl | he
    · simp; omega
    · have := ih _ e he
      omega

theorem natLayout_types (l : List Scalar) (c : Nat) : (natLayout l c).map (·.2) = l := by
  induction l generalizing c with
  | nil => simp [natLayout]
  | cons s r ih => simp [natLayout, ih]

theorem natLayout_shift8 (l : List Scalar) (c : Nat) : natLayout l (c + 8) = shift 8 (natLayout l c) := by
  induction l generalizing c with
  | nil => simp [natLayout, shift]
  | cons s r ih =>
    simp only [natLayout, shift, List.map_cons]
    rw [alignUp_add8]
    have : alignUp c s.size + 8 + s.size = (alignUp c s.size + s.size) + 8 := by omega
    rw [this, ih]
    simp [shift]

theorem natEnd_shift8 (l : List Scalar) (c : Nat) : natEnd l (c + 8) = natEnd l c + 8 := by
  induction l generalizing c with
  | nil => simp [natEnd]
  | cons s r ih =>
    simp only [natEnd]
    rw [alignUp_add8]
    have : alignUp c s.size + 8 + s.size = (alignUp c s.size + s.size) + 8 := by omega
    rw [this, ih]

theorem subFold_eq_natEnd (l : List Scalar) (n : Nat) : subFold l n = natEnd l n := by
  induction l generalizing n with
  | nil => simp [subFold, natEnd]
  | cons s r ih => simp only [subFold, natEnd]; rw [alignUp_add_size, ih]

/-! ## the split loop: running-offset invariant

`splitLoop types cur i` is entered with the running offset `cur < 8` (everything before lies in the first
eightbyte).  If the natural layout of `types` from `cur` reaches beyond byte 8, the loop stops at `i + k`
where the first `k` elements end at or before byte 8 and the remaining ones are laid out from byte 8 on. -/
theorem splitLoop_spec (types : List Scalar) (cur i : Nat) (hcur : cur < 8) (hend : 8 < natEnd types cur) :
    ∃ k, splitLoop types cur i = i + k ∧ k ≤ types.length ∧
      natEnd (types.take k) cur ≤ 8 ∧
      natLayout types cur = natLayout (types.take k) cur ++ natLayout (types.drop k) 8 ∧
      natEnd types cur = natEnd (types.drop k) 8 ∧
      types.drop k ≠ [] := by
  induction types generalizing cur i with
  | nil => simp [natEnd] at hend; omega
  | cons s r ih =>
    simp only [splitLoop]
    rw [alignUp_add_size]
    by_cases h1 : alignUp cur s.size + s.size < 8
    · -- still inside the first eightbyte
      simp only [h1, if_true]
      have hend' : 8 < natEnd r (alignUp cur s.size + s.size) := by simpa [natEnd] using hend
      obtain ⟨k, hk, hlen, hle, hlay, he, hne⟩ := ih (alignUp cur s.size + s.size) (i + 1) h1 hend'
      refine ⟨k + 1, by omega, by simp; omega, ?_, ?_, ?_, ?_⟩
      · simpa [natEnd] using hle
      · simp only [List.take_succ_cons, List.drop_succ_cons, natLayout, List.cons_append]
        rw [hlay]
      · simpa [natEnd] using he
      · simpa using hne
    · simp only [h1, if_false]
      by_cases h2 : 8 < alignUp cur s.size + s.size
      · -- the element starts exactly at byte 8
        simp only [h2, if_true]
        have hstart : alignUp cur s.size = 8 := by
          have hle := alignUp_le8 cur s (by omega)
          by_cases hlt : alignUp cur s.size < 8
          · have := no_straddle cur s hlt; omega
          · omega
        refine ⟨0, by omega, by simp, by simp [natEnd]; omega, ?_, ?_, by simp⟩
        · simp only [List.take_zero, List.drop_zero, natLayout, List.nil_append]
          have h8 : alignUp 8 s.size = 8 := by
            rcases size_cases s with h | h | h | h <;> rw [h] <;> unfold alignUp <;> omega
          rw [hstart, h8]
        · simp only [List.drop_zero, natEnd]
          have h8 : alignUp 8 s.size = 8 := by
            rcases size_cases s with h | h | h | h <;> rw [h] <;> unfold alignUp <;> omega
          rw [hstart, h8]
      · -- the element ends exactly at byte 8
        simp only [h2, if_false]
        have he8 : alignUp cur s.size + s.size = 8 := by omega
        refine ⟨1, by omega, by simp, ?_, ?_, ?_, ?_⟩
        · simp [natEnd]; omega
        · simp only [List.take_succ_cons, List.take_zero, List.drop_succ_cons, List.drop_zero, natLayout,
            List.cons_append, List.nil_append]
          rw [he8]
        · simp only [List.drop_succ_cons, List.drop_zero, natEnd]; rw [he8]
        · simp only [List.drop_succ_cons, List.drop_zero]
          intro hr
          rw [hr] at hend
          simp [natEnd] at hend
          omega

/-- from offset 0 the loop never stops at index 0 -/
theorem splitLoop_pos (types : List Scalar) (hend : 8 < natEnd types 0) : 0 < splitLoop types 0 0 := by
  cases types with
  | nil => simp [natEnd] at hend
  | cons s r =>
    simp only [splitLoop]
    rw [alignUp_add_size]
    have h0 : alignUp 0 s.size = 0 := by
      rcases size_cases s with h | h | h | h <;> rw [h] <;> unfold alignUp <;> omega
    rw [h0]
    have := size_le8 s
    by_cases h1 : 0 + s.size < 8
    · simp only [h1, if_true]
      have hend' : 8 < natEnd r (0 + s.size) := by simpa [natEnd, h0] using hend
      obtain ⟨k, hk, _⟩ := splitLoop_spec r (0 + s.size) 1 h1 hend'
      omega
    · simp only [h1, if_false]
      have : ¬ 8 < 0 + s.size := by omega
      simp [this]

end LlgoVerif.CAbi
