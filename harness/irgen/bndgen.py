"""C03, tie A beyond index expressions: generates the package `bnd` of one-operation functions whose bound operands the
compiler converts and hands to a run-time check (2-/3-index slice expressions on slices, strings, array pointers and array
values; make of slices, channels and maps; unsafe.Slice / unsafe.String; slice -> array(-pointer) conversion; the explicit
nil check of a large unused dereference), the obligation (Lean theorem text) of each function, the evaluator program that
runs every function of `bnd` and `idx` on operand lines (execution tie), the request line for the Lean model, and the
Go-spec oracle (what the language demands for that operand tuple, computed from the SOURCE values only)."""
from opsgen import TYPES

TY = {t: (w, s) for (t, w, s) in TYPES}
ESZ = 4        # element size of []int32 / [10]int32
ALEN = 10      # *[10]int32
STORE = 70016  # elements backing the slice / string operands of the evaluator
MAXALLOC = 1 << 48
BIGARR = 2 << 20


def val(t, bits):
    w, s = TY[t]
    bits &= (1 << w) - 1
    return bits - (1 << w) if s and bits >> (w - 1) else bits


# --------------------------------------------------------------------------- the functions
def functions():
    F = []

    def add(**o):
        o["index"] = len(F)
        o["widths"] = [TY[t][0] for t in o["ints"]]
        F.append(o)

    def sl_forms(kind):
        # (code, lo, hi, mx): "v" = next int parameter, None = omitted
        forms = [("ij", "v", "v", None), ("i", "v", None, None), ("j", None, "v", None)]
        if kind != "str":
            forms += [("ijk", "v", "v", "v"), ("jk", None, "v", "v")]
        return forms

    def slice_fn(name, kind, ops, ints):
        """ops = [lo, hi, mx] each None | ("v", k) | ("c", type, value)"""
        recv = {"slice": "s []int32", "str": "s string", "aptr": "s *[10]int32", "arr": "s [10]int32"}[kind]
        ret = "string" if kind == "str" else "[]int32"
        params = "".join(", a%d %s" % (k, t) for k, t in enumerate(ints))
        consts, txt = [], []
        for pos, op in enumerate(ops):
            if op is None:
                txt.append("")
            elif op[0] == "v":
                txt.append("a%d" % op[1])
            else:
                consts.append("const k%d %s = %d" % (pos, op[1], op[2]))
                txt.append("k%d" % pos)
        expr = "s[%s:%s%s]" % (txt[0], txt[1], (":" + txt[2]) if ops[2] is not None else "")
        body = "; ".join(consts + ["return " + expr])
        add(name=name, kind=kind, ops=ops, ints=ints, go="func %s(%s%s) %s { %s }" % (name, recv, params, ret, body))

    for kind in ("slice", "str", "aptr"):
        for (code, lo, hi, mx) in sl_forms(kind):
            for (t, w, s) in TYPES:
                k = 0
                ops = []
                for x in (lo, hi, mx):
                    if x == "v":
                        ops.append(("v", k))
                        k += 1
                    else:
                        ops.append(None)
                slice_fn("S%s_%s_%s" % (code, kind, t), kind, ops, [t] * k)
    # operands of DIFFERENT types in one expression (each must be extended according to its own type)
    slice_fn("Smix1_slice", "slice", [("v", 0), ("v", 1), ("v", 2)], ["uint8", "int16", "uint64"])
    slice_fn("Smix2_slice", "slice", [("v", 0), ("v", 1), None], ["int64", "uint8"])
    slice_fn("Smix3_aptr", "aptr", [("v", 0), ("v", 1), ("v", 2)], ["uint", "int8", "uint16"])
    slice_fn("Smix4_str", "str", [("v", 0), ("v", 1), None], ["uint32", "int"])
    slice_fn("Smix5_slice", "slice", [("v", 0), ("v", 1), ("v", 2)], ["int8", "uint16", "int32"])
    # array VALUES (copied, then sliced through the copy's address)
    for t in ("int8", "uint16", "int"):
        slice_fn("Sij_arr_%s" % t, "arr", [("v", 0), ("v", 1), None], [t, t])
    slice_fn("Sijk_arr_int", "arr", [("v", 0), ("v", 1), ("v", 2)], ["int"] * 3)
    # `p[:]` on an array pointer: the header is assembled inline
    slice_fn("Sall_aptr", "aptr", [None, None, None], [])
    # typed CONSTANT bounds
    slice_fn("Sc1_slice", "slice", [("c", "uint8", 3), None, None], [])
    slice_fn("Sc2_slice", "slice", [("c", "int8", 1), ("c", "uint64", 3), None], [])
    slice_fn("Sc3_slice", "slice", [("c", "uint", 2), ("v", 0), None], ["int8"])
    slice_fn("Sc4_slice", "slice", [("v", 0), ("c", "uintptr", 5), ("c", "uint16", 6)], ["uint8"])
    slice_fn("Sc5_slice", "slice", [None, ("c", "uint32", 200), ("v", 0)], ["uint8"])
    slice_fn("Sc1_str", "str", [("c", "uint8", 3), None, None], [])
    slice_fn("Sc2_str", "str", [None, ("c", "uint16", 4), None], [])
    slice_fn("Sc3_str", "str", [("c", "int", 1), ("v", 0), None], ["uint8"])
    slice_fn("Sc1_aptr", "aptr", [("c", "uint8", 2), ("v", 0), None], ["int16"])
    slice_fn("Sc2_aptr", "aptr", [("c", "int64", 1), ("c", "uint8", 5), ("c", "uint", 7)], [])
    slice_fn("Sc3_aptr", "aptr", [("v", 0), ("c", "uint8", 7), ("c", "uint8", 10)], ["uint64"])

    # ---- make
    for (t, w, s) in TYPES:
        add(name="MK1_%s" % t, kind="make", esz=4, ops=[("v", 0), ("v", 0)], ints=[t],
            go="func MK1_%s(a0 %s) []int32 { return make([]int32, a0) }" % (t, t))
        add(name="MK2_%s" % t, kind="make", esz=4, ops=[("v", 0), ("v", 1)], ints=[t, t],
            go="func MK2_%s(a0, a1 %s) []int32 { return make([]int32, a0, a1) }" % (t, t))
        add(name="MCH_%s" % t, kind="chan", esz=4, ops=[("v", 0)], ints=[t],
            go="func MCH_%s(a0 %s) chan int32 { return make(chan int32, a0) }" % (t, t))
        add(name="MMP_%s" % t, kind="map", ops=[("v", 0)], ints=[t],
            go="func MMP_%s(a0 %s) map[int]int { return make(map[int]int, a0) }" % (t, t))
        add(name="USL_%s" % t, kind="uslice", ops=[("v", 0)], ints=[t],
            go="func USL_%s(p *int32, a0 %s) []int32 { return unsafe.Slice(p, a0) }" % (t, t))
        add(name="UST_%s" % t, kind="ustring", ops=[("v", 0)], ints=[t],
            go="func UST_%s(p *byte, a0 %s) string { return unsafe.String(p, a0) }" % (t, t))
    add(name="MKmix1", kind="make", esz=4, ops=[("v", 0), ("v", 1)], ints=["uint16", "int64"],
        go="func MKmix1(a0 uint16, a1 int64) []int32 { return make([]int32, a0, a1) }")
    add(name="MKmix2", kind="make", esz=4, ops=[("v", 0), ("v", 1)], ints=["int8", "uint64"],
        go="func MKmix2(a0 int8, a1 uint64) []int32 { return make([]int32, a0, a1) }")
    add(name="MKc", kind="make", esz=4, ops=[("c", "int", 3), ("v", 0)], ints=["int"],
        go="func MKc(a0 int) []int32 { return make([]int32, 3, a0) }")
    add(name="MK8", kind="make", esz=8, ops=[("v", 0), ("v", 1)], ints=["int", "int"],
        go="func MK8(a0, a1 int) []int64 { return make([]int64, a0, a1) }")
    add(name="MKz_int", kind="make", esz=0, ops=[("v", 0), ("v", 1)], ints=["int", "int"],
        go="func MKz_int(a0, a1 int) []struct{} { return make([]struct{}, a0, a1) }")
    add(name="MKz_uint8", kind="make", esz=0, ops=[("v", 0), ("v", 0)], ints=["uint8"],
        go="func MKz_uint8(a0 uint8) []struct{} { return make([]struct{}, a0) }")
    add(name="MCH8_int", kind="chan", esz=8, ops=[("v", 0)], ints=["int"],
        go="func MCH8_int(a0 int) chan int64 { return make(chan int64, a0) }")
    add(name="MCHz_int", kind="chan", esz=0, ops=[("v", 0)], ints=["int"],
        go="func MCHz_int(a0 int) chan struct{} { return make(chan struct{}, a0) }")
    # ---- slice -> array pointer / array
    add(name="S2A4", kind="s2a", n=4, ints=[], go="func S2A4(s []int32) *[4]int32 { return (*[4]int32)(s) }")
    add(name="S2A0", kind="s2a", n=0, ints=[], go="func S2A0(s []int32) *[0]int32 { return (*[0]int32)(s) }")
    add(name="S2AV4", kind="s2a", n=4, ints=[], go="func S2AV4(s []int32) [4]int32 { return [4]int32(s) }")
    # ---- explicit nil check of a large unused dereference (cl/compile.go isLargeNonPointerValue)
    add(name="NilBig", kind="nil", ints=[], go="func NilBig(p *[%d]byte) { _ = *p }" % BIGARR)
    return F


def source(F):
    return "\n".join(["// Code generated by /verif/harness/irgen/bndgen.py. DO NOT EDIT.", "package bnd", "", 'import "unsafe"', "",
                      "var _ = unsafe.Sizeof(0)", ""] + [o["go"] for o in F]) + "\n"


# --------------------------------------------------------------------------- obligations (Lean)
def lean_sig(o, info):
    sig = []
    if o["kind"] == "slice" or o["kind"] == "s2a":
        sig.append("(len cap : BitVec 64)")
    elif o["kind"] == "str":
        sig.append("(len : BitVec 64)")
    if info.get("uses_ptr"):
        sig.append("(p : BitVec 64)")
    for k, t in enumerate(o["ints"]):
        sig.append("(a%d : BitVec %d)" % (k, TY[t][0]))
    return " ".join(sig)


def lean_args(o, info):
    a = []
    if o["kind"] in ("slice", "s2a"):
        a += ["len", "cap"]
    elif o["kind"] == "str":
        a += ["len"]
    if info.get("uses_ptr"):
        a.append("p")
    a += ["a%d" % k for k in range(len(o["ints"]))]
    return "".join(" " + x for x in a)


def lean_opnd(o, op, default):
    if op is None:
        return default
    if op[0] == "v":
        return "(fit %s a%d)" % ("true" if TY[o["ints"][op[1]]][1] else "false", op[1])
    return "(BitVec.ofInt 64 (%d))" % op[2]


def c64(n):
    return "(BitVec.ofInt 64 (%d))" % n


def expected_call(o):
    k = o["kind"]
    if k in ("slice", "aptr", "arr"):
        lo, hi, mx = o["ops"]
        if k == "slice":
            base, cap, dhi = ".srcData", "cap", "len"
        else:
            base, cap, dhi = (".srcPtr" if k == "aptr" else ".arrCopy"), c64(ALEN), c64(ALEN)
        if k == "aptr" and lo is None and hi is None and mx is None:
            return ".sliceHeader .srcPtr %s %s" % (c64(ALEN), c64(ALEN))
        return ".newSlice3 %s %s %s %s %s %s" % (base, c64(ESZ), cap, lean_opnd(o, lo, c64(0)), lean_opnd(o, hi, dhi), lean_opnd(o, mx, cap))
    if k == "str":
        lo, hi, _ = o["ops"]
        return ".stringSlice .srcData len %s %s" % (lean_opnd(o, lo, c64(0)), lean_opnd(o, hi, "len"))
    if k == "make":
        return ".makeSlice %s %s %s" % (lean_opnd(o, o["ops"][0], None), lean_opnd(o, o["ops"][1], None), c64(o["esz"]))
    if k == "chan":
        return ".newChan %s %s" % (c64(o["esz"]), lean_opnd(o, o["ops"][0], None))
    if k == "map":
        return ".makeMap %s" % lean_opnd(o, o["ops"][0], None)
    if k == "uslice":
        x = lean_opnd(o, o["ops"][0], None)
        return ".sliceHeader .srcPtr %s %s" % (x, x)
    if k == "ustring":
        return ".stringHeader .srcPtr %s" % lean_opnd(o, o["ops"][0], None)
    if k == "s2a":
        return ".arrayPtr .srcData"
    if k == "nil":
        return ".unit"
    raise KeyError(k)


def theorem(o, info):
    """Statement: the generated function reaches exactly the expected routine with exactly the expected operands
    (each `fit <signedness of ITS source type>` of the source operand), after the checks the form requires."""
    n = o["name"]
    call = "(%s)" % expected_call(o)
    rhs = ".ok %s" % call
    if o["kind"] == "s2a":
        rhs = "if len.toInt < %d then .error .sliceConvert else .ok %s" % (o["n"], call)
    if info.get("nil_assert"):
        rhs = "if p = 0#64 then .error .nilDeref else (%s)" % rhs
    head = "theorem %s_spec %s : %s%s = (%s) := by\n" % (n, lean_sig(o, info), n, lean_args(o, info), rhs)
    if o["kind"] == "s2a" and not info.get("nil_assert"):
        return head + "  unfold %s\n  exact s2a_core len _ _ (by decide)\n" % n
    if info.get("nil_assert") and o["kind"] != "s2a":
        return head + "  unfold %s\n  refine (nil_core p _ _ (by decide)).trans ?_\n  try simp only [fit_64]\n  rfl\n" % n
    return head + "  try simp only [fit_64]\n  rfl\n"


# --------------------------------------------------------------------------- evaluator program (execution tie)
EVAL_PRELUDE = r'''// Code generated by /verif/harness/irgen/bndgen.py. DO NOT EDIT.
package main

import (
	"unsafe"

	"verifprog/bnd"
	"verifprog/idx"
)

//go:linkname getchar C.getchar
func getchar() int32

const storeN = @STORE@

var store [storeN]int32
var strbytes [storeN]byte
var big [@BIGARR@]byte
var eof bool

type sliceHdr struct {
	p    unsafe.Pointer
	l, c int
}
type strHdr struct {
	p unsafe.Pointer
	l int
}

func mkslice(l, c int) []int32 {
	h := sliceHdr{unsafe.Pointer(&store[0]), l, c}
	return *(*[]int32)(unsafe.Pointer(&h))
}

func mkstr(l int) string {
	h := strHdr{unsafe.Pointer(&strbytes[0]), l}
	return *(*string)(unsafe.Pointer(&h))
}

func mkaptr(valid int) *[10]int32 {
	if valid == 0 {
		return nil
	}
	return (*[10]int32)(unsafe.Pointer(&store[0]))
}

func readU() uint64 {
	c := getchar()
	for c == ' ' || c == '\n' {
		c = getchar()
	}
	if c < '0' || c > '9' {
		eof = true
		return 0
	}
	var v uint64
	for c >= '0' && c <= '9' {
		v = v*10 + uint64(c-'0')
		c = getchar()
	}
	return v
}

func elemAt(r []int32, i int) int32 {
	return *(*int32)(unsafe.Add(unsafe.Pointer(unsafe.SliceData(r)), i*4))
}

func outSlice(r []int32, noelems bool) {
	l, c := len(r), cap(r)
	e0, e1, e2 := int32(-1), int32(-1), int32(-1)
	if !noelems && 0 <= l && l <= c && c <= storeN {
		if l > 0 {
			e0, e1 = elemAt(r, 0), elemAt(r, l-1)
		}
		if c > 0 {
			e2 = elemAt(r, c-1)
		}
	}
	println("R", l, c, e0, e1, e2)
}

func outStr(r string) {
	l := len(r)
	f, g := -1, -1
	if 0 < l && l <= storeN {
		p := unsafe.Pointer(unsafe.StringData(r))
		f, g = int(*(*byte)(p)), int(*(*byte)(unsafe.Add(p, l-1)))
	}
	println("T", l, f, g)
}

func outMake(l, c int, p unsafe.Pointer, esz int) {
	nz := 0
	if 0 <= l && l <= 4096 {
		for i := 0; i < l*esz; i++ {
			if *(*byte)(unsafe.Add(p, i)) != 0 {
				nz++
			}
		}
	}
	println("R", l, c, nz)
}

func runLine(fn int, ln, cp int, a0, a1, a2 uint64) {
	defer func() {
		if r := recover(); r != nil {
			println("P")
		}
	}()
	switch fn {
@CASES@
	default:
		println("bad-fn", fn)
	}
}

func main() {
	for i := range store {
		store[i] = int32(100 + i)
	}
	for i := range strbytes {
		strbytes[i] = byte(i % 251)
	}
	for {
		fn := readU()
		if eof {
			break
		}
		ln, cp := readU(), readU()
		a0, a1, a2 := readU(), readU(), readU()
		runLine(int(fn), int(ln), int(cp), a0, a1, a2)
	}
	println("done")
}
'''


def eval_case(o, fnidx, pkg="bnd"):
    args = "".join(", %s(a%d)" % (t, k) for k, t in enumerate(o["ints"]))
    f = "%s.%s" % (pkg, o["name"])
    k = o["kind"]
    if k == "slice":
        body = "outSlice(%s(mkslice(ln, cp)%s), false)" % (f, args)
    elif k == "str":
        body = "outStr(%s(mkstr(ln)%s))" % (f, args)
    elif k == "aptr":
        body = "outSlice(%s(mkaptr(ln)%s), ln == 0)" % (f, args)
    elif k == "arr":
        body = "outSlice(%s(*mkaptr(1)%s), false)" % (f, args)
    elif k == "make":
        body = "r := %s(%s); outMake(len(r), cap(r), unsafe.Pointer(unsafe.SliceData(r)), %d)" % (f, args[2:], o["esz"])
    elif k == "chan":
        body = "r := %s(%s); println(\"C\", cap(r))" % (f, args[2:])
    elif k == "map":
        body = "r := %s(%s); r[1] = 1; println(\"M\", len(r))" % (f, args[2:])
    elif k == "uslice":
        body = "outSlice(%s(&store[0]%s), false)" % (f, args)
    elif k == "ustring":
        body = "outStr(%s(&strbytes[0]%s))" % (f, args)
    elif k == "s2a":
        if o["name"] == "S2AV4":
            body = "r := %s(mkslice(ln, cp)); println(\"A\", r[0]+r[3])" % f
        elif o["n"] == 0:
            body = "r := %s(mkslice(ln, cp)); println(\"A\", len(r))" % f
        else:
            body = "r := %s(mkslice(ln, cp)); println(\"A\", r[0]+r[3])" % f
    elif k == "nil":
        body = "if ln == 0 { %s(nil) } else { %s(&big) }; println(\"U\")" % (f, f)
    elif k == "idx":
        recv = {"slice": "mkslice(ln, cp)", "aptr": "mkaptr(1)", "str": "mkstr(ln)"}[o["ikind"]]
        body = "println(\"E\", %s(%s%s))" % (f, recv, args)
    else:
        raise KeyError(k)
    return "\tcase %d:\n\t\t%s" % (fnidx, body)


def evaluator(ALL):
    """ALL: list of (pkg, o) in dispatch order"""
    cases = "\n".join(eval_case(o, i, pkg) for i, (pkg, o) in enumerate(ALL))
    return EVAL_PRELUDE.replace("@CASES@", cases).replace("@STORE@", str(STORE)).replace("@BIGARR@", str(BIGARR))


def idx_as_eval(ob):
    """adapt an obligation of idxgen.py to the evaluator/oracle vocabulary"""
    o = dict(name=ob["name"], kind="idx", ikind=ob["kind"], ints=[] if ob["const"] is not None else [ob["t"]], const=ob["const"],
             ctype=ob["t"])
    return o


# --------------------------------------------------------------------------- oracle: what Go demands (source values only)
def src_val(o, op, a, default):
    if op is None:
        return default
    if op[0] == "v":
        return val(o["ints"][op[1]], a[op[1]])
    return op[2]


def elem(i):
    return 100 + i


def oracle(o, ln, cp, a):
    """-> the line a correct implementation prints for function o on header (ln, cp) and operand bit patterns a"""
    k = o["kind"]
    if k in ("slice", "aptr", "arr"):
        if k == "slice":
            L, C = ln, cp
        else:
            L, C = ALEN, ALEN
            if k == "aptr" and ln == 0:
                return "P"      # slicing through a nil array pointer dereferences it
        lo = src_val(o, o["ops"][0], a, 0)
        hi = src_val(o, o["ops"][1], a, L)
        mx = src_val(o, o["ops"][2], a, C)
        if not (0 <= lo <= hi <= mx <= C):
            return "P"
        rl, rc = hi - lo, mx - lo
        e0 = elem(lo) if rl > 0 else -1
        e1 = elem(hi - 1) if rl > 0 else -1
        e2 = elem(mx - 1) if rc > 0 else -1
        return "R %d %d %d %d %d" % (rl, rc, e0, e1, e2)
    if k == "str":
        lo = src_val(o, o["ops"][0], a, 0)
        hi = src_val(o, o["ops"][1], a, ln)
        if not (0 <= lo <= hi <= ln):
            return "P"
        n = hi - lo
        return "T %d %d %d" % (n, (lo % 251) if n > 0 else -1, ((hi - 1) % 251) if n > 0 else -1)
    if k == "make":
        n = src_val(o, o["ops"][0], a, None)
        m = src_val(o, o["ops"][1], a, None)
        if not (0 <= n <= m < (1 << 63) and m * o["esz"] <= MAXALLOC):
            return "P"
        return "R %d %d 0" % (n, m)
    if k == "chan":
        n = src_val(o, o["ops"][0], a, None)
        if not (0 <= n < (1 << 63) and n * o["esz"] <= MAXALLOC):
            return "P"
        return "C %d" % n
    if k == "map":
        return "M 1"
    if k == "uslice":
        n = src_val(o, o["ops"][0], a, None)
        if n < 0 or n >= (1 << 63):
            return "P"          # unsafe.Slice: "if len is negative [or not an int] a run-time panic occurs"
        if n > STORE:
            return "R %d %d -1 -1 -1" % (n, n)
        return "R %d %d %d %d %d" % (n, n, elem(0) if n > 0 else -1, elem(n - 1) if n > 0 else -1, elem(n - 1) if n > 0 else -1)
    if k == "ustring":
        n = src_val(o, o["ops"][0], a, None)
        if n < 0 or n >= (1 << 63):
            return "P"
        if n == 0 or n > STORE:
            return "T %d -1 -1" % n
        return "T %d %d %d" % (n, 0, (n - 1) % 251)
    if k == "s2a":
        if ln < o["n"]:
            return "P"
        if o["n"] == 0:
            return "A 0"
        return "A %d" % (elem(0) + elem(3))
    if k == "nil":
        return "P" if ln == 0 else "U"
    if k == "idx":
        L = {"slice": ln, "aptr": ALEN, "str": ln}[o["ikind"]]
        v = o["const"] if o["const"] is not None else val(o["ints"][0], a[0])
        if not (0 <= v < L):
            return "P"
        return "E %d" % (v % 251 if o["ikind"] == "str" else elem(v))
    raise KeyError(k)


# --------------------------------------------------------------------------- request line for the Lean model
def opnd_req(o, op, a, default):
    """-> 's w bits' of an operand as the compiler hands it over (a header field or constant is a 64-bit signed operand)"""
    if op is None:
        return "1 64 %d" % (default & ((1 << 64) - 1))
    if op[0] == "v":
        w, s = TY[o["ints"][op[1]]]
        return "%d %d %d" % (1 if s else 0, w, a[op[1]] & ((1 << w) - 1))
    return "1 64 %d" % (op[2] & ((1 << 64) - 1))


def model_request(o, ln, cp, a):
    k = o["kind"]
    if k in ("slice", "aptr", "arr"):
        L, C = (ln, cp) if k == "slice" else (ALEN, ALEN)
        nil = 1 if (k == "aptr" and ln == 0) else 0
        if k == "aptr" and o["ops"] == [None, None, None]:
            return "hdr %d %d %d" % (nil, ALEN, ALEN)
        return "ns3 %d %d %d %s %s %s" % (nil, ESZ, C, opnd_req(o, o["ops"][0], a, 0), opnd_req(o, o["ops"][1], a, L), opnd_req(o, o["ops"][2], a, C))
    if k == "str":
        return "ss %d %s %s" % (ln, opnd_req(o, o["ops"][0], a, 0), opnd_req(o, o["ops"][1], a, ln))
    if k == "make":
        return "mk %d %s %s" % (o["esz"], opnd_req(o, o["ops"][0], a, None), opnd_req(o, o["ops"][1], a, None))
    if k == "chan":
        return "ch %d %s" % (o["esz"], opnd_req(o, o["ops"][0], a, None))
    if k == "map":
        return "mm %s" % opnd_req(o, o["ops"][0], a, None)
    if k == "uslice":
        return "us %s" % opnd_req(o, o["ops"][0], a, None)
    if k == "ustring":
        return "ut %s" % opnd_req(o, o["ops"][0], a, None)
    if k == "s2a":
        return "sa %d %d %d" % (ln, o["n"], 0 if o["n"] == 0 else 1)
    if k == "nil":
        return "nl %d" % (0 if ln == 0 else 1)
    if k == "idx":
        L = {"slice": ln, "aptr": ALEN, "str": ln}[o["ikind"]]
        if o["const"] is not None:
            return "ix %d %d 1 64 %d" % (1 if o["ikind"] == "str" else 0, L, o["const"])
        w, s = TY[o["ints"][0]]
        return "ix %d %d %d %d %d" % (1 if o["ikind"] == "str" else 0, L, 1 if s else 0, w, a[0] & ((1 << w) - 1))
    raise KeyError(k)


# --------------------------------------------------------------------------- operand streams
def interesting(t, bounds, rng):
    """bit patterns of type t around the given bounds + the type's own corners"""
    w, s = TY[t]
    m = (1 << w) - 1
    vs = set()
    for b in bounds:
        for d in (-1, 0, 1):
            vs.add((b + d) & m)
    vs |= {0, 1, m, 1 << (w - 1), (1 << (w - 1)) - 1, (1 << (w - 1)) + 1}
    if w == 8:
        vs |= {200, 128, 255}
    if w == 16:
        vs |= {40000, 0x8000, 0xFFFF}
    if w >= 32:
        vs |= {3000000000 & m, (1 << 31) & m, ((1 << 32) - 1) & m}
    if w == 64:
        vs |= {1 << 62, (1 << 46) + 1, 1 << 46, (1 << 48) + 1, (1 << 63) + 5}
    return sorted(vs)


def cases_for(o, rng, n_valid, n_bad):
    """-> [(ln, cp, [a0,a1,a2])]: a valid stream (operands constructed in range) and a boundary/malformed stream"""
    out = []
    k = o["kind"]
    ints = o["ints"]

    def fits(t, v):
        w, s = TY[t]
        return (-(1 << (w - 1)) <= v < (1 << (w - 1))) if s else (0 <= v < (1 << w))

    def bits(t, v):
        return v & ((1 << TY[t][0]) - 1)

    def pad(a):
        return (a + [0, 0, 0])[:3]

    if k in ("slice", "aptr", "arr", "str"):
        hdrs = [(0, 0), (3, 5), (5, 5), (10, 10), (7, 12), (1, 1)]
        if any(TY[t][0] == 8 for t in ints) or not ints:
            hdrs += [(220, 300), (255, 255)]
        if any(TY[t][0] >= 16 for t in ints):
            hdrs += [(40001, 70000), (65535, 65536)]
        if k in ("aptr",):
            hdrs = [(1, ALEN), (0, ALEN)]       # ln = validity flag of the pointer
        if k == "arr":
            hdrs = [(1, ALEN)]
        if k == "str":
            hdrs = [(l, l) for (l, c) in hdrs]
        for (ln, cp) in hdrs:
            L, C = (ln, cp) if k in ("slice", "str") else (ALEN, ALEN)
            # valid stream: lo <= hi <= mx <= C picked, then pushed through the operand types when they fit
            for _ in range(n_valid):
                mx = rng.randint(0, C)
                hi = rng.randint(0, mx if o["ops"][2] is not None or k == "str" else min(mx, C))
                lo = rng.randint(0, hi)
                if o["ops"][2] is None:
                    mx = C
                if o["ops"][1] is None:
                    hi = L
                    lo = rng.randint(0, hi)
                want = [lo, hi, mx]
                a = [0, 0, 0]
                ok = True
                for pos, op in enumerate(o["ops"]):
                    if op is not None and op[0] == "v":
                        t = ints[op[1]]
                        if not fits(t, want[pos]):
                            ok = False
                        a[op[1]] = bits(t, want[pos])
                if ok:
                    out.append((ln, cp, a))
            # boundary / malformed stream
            for _ in range(n_bad):
                a = [0, 0, 0]
                for pos, op in enumerate(o["ops"]):
                    if op is not None and op[0] == "v":
                        t = ints[op[1]]
                        a[op[1]] = rng.choice(interesting(t, [0, L, C, 3], rng))
                out.append((ln, cp, a))
            if not ints:
                out.append((ln, cp, [0, 0, 0]))
    elif k in ("make", "chan", "map", "uslice", "ustring"):
        lim = {"make": 300, "chan": 300, "map": 300, "uslice": STORE, "ustring": STORE}[k]
        for _ in range(n_valid * 3):
            m = rng.choice([0, 1, 2, 7, 100, 200, 255, 256, 300, 40000, 65535]) if k in ("uslice", "ustring") else rng.randint(0, lim)
            m = min(m, lim)
            n = rng.randint(0, m)
            want = [n, m] if len(o["ops"]) == 2 and o["ops"][0] != o["ops"][1] else [m, m]
            a, ok = [0, 0, 0], True
            for pos, op in enumerate(o["ops"]):
                if op[0] == "v":
                    t = ints[op[1]]
                    ok = ok and fits(t, want[pos])
                    a[op[1]] = bits(t, want[pos])
            if ok:
                out.append((0, 0, a))
        for _ in range(n_bad * 3):
            a = [0, 0, 0]
            for kk, t in enumerate(ints):
                a[kk] = rng.choice(interesting(t, [0, 3, lim], rng))
            # an in-range request far above what the sandbox can allocate is not a test of the check: keep sizes small
            # or clearly out of range
            vals = [val(t, a[kk]) for kk, t in enumerate(ints)]
            big = [v for v in vals if 4096 < v]
            if k in ("make", "chan") and big:
                esz = o["esz"]
                n = src_val(o, o["ops"][0], a, None)
                m = src_val(o, o["ops"][-1], a, None)
                in_range = 0 <= n <= m < (1 << 63) and m * esz <= MAXALLOC
                if in_range and m * max(esz, 1) > (1 << 22):
                    continue
                if k == "make" and esz == 0 and in_range and n > 4096:
                    pass
            if k == "map" and any(v > 4096 for v in vals):
                continue
            out.append((0, 0, a))
    elif k == "s2a":
        for ln in (0, 1, 3, 4, 5, 9):
            out.append((ln, ln + 2, [0, 0, 0]))
    elif k == "nil":
        out += [(0, 0, [0, 0, 0]), (1, 0, [0, 0, 0])]
    elif k == "idx":
        hdrs = [(3, 5), (0, 0), (10, 10)]
        if o["ints"] and TY[o["ints"][0]][0] == 8:
            hdrs.append((220, 300))
        if o["ints"] and TY[o["ints"][0]][0] >= 16:
            hdrs.append((40001, 70000))
        if o["ikind"] == "aptr":
            hdrs = [(1, ALEN)]
        for (ln, cp) in hdrs:
            L = ALEN if o["ikind"] == "aptr" else ln
            if o["const"] is not None:
                out.append((ln, cp, [0, 0, 0]))
                continue
            t = o["ints"][0]
            for _ in range(n_valid):
                if L > 0:
                    v = rng.randint(0, L - 1)
                    if fits(t, v):
                        out.append((ln, cp, [bits(t, v), 0, 0]))
            for _ in range(n_bad):
                out.append((ln, cp, [rng.choice(interesting(t, [0, L, 3], rng)), 0, 0]))
    return out
