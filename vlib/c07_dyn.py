"""C07, dynamic equality / hashing part: generators, serialisers and the independent (Python) reading of Go's `==`.

Pipeline (checks/c07.py `run_dyn`):
  1. a generated package declares one variable per type of the universe; harness/c07 (REAL ssa/abi + verbatim directIfaceType)
     answers the descriptor of each type; the Lean model (`dynty`) must give the same descriptor; the descriptor is judged
     against go/types' Comparable and against a plain reading of "regular memory" / "pointer shaped";
  2. values of these types (boundary pools + random, dirty padding, strings behind different pointers) are laid out by the REAL
     offsets; verbatim EfaceEqual / Equal functions / typehash / nilinterhash / interhash (native route) and the Lean model
     run on the same images; outputs (verdicts, panics, the 64-bit hash values, the number of fastrand calls) are diffed;
  3. the real outputs are judged against `go_eq` below (Go's == on the generated VALUES, no memory involved) and against
     "equal values hash alike, unhashable values panic".
"""

# ------------------------------------------------------------------------------------------------ types

BASICS = ["bool", "int8", "int16", "int32", "int64", "uint8", "uint16", "uint32", "uint64", "int", "uint", "uintptr",
          "float32", "float64", "complex64", "complex128", "string", "unsafe.Pointer"]
BASIC_SIZE = {"bool": 1, "int8": 1, "uint8": 1, "int16": 2, "uint16": 2, "int32": 4, "uint32": 4, "float32": 4,
              "int64": 8, "uint64": 8, "int": 8, "uint": 8, "uintptr": 8, "unsafe.Pointer": 8, "float64": 8, "complex64": 8,
              "complex128": 16, "string": 16}

PRELUDE = """
type N0 int32
type NF float64
type NS struct {
	a int8
	b int64
}
type NA [2]string
type NI interface{ M() }
type NP *int
type NB struct{ _ *int }
type NE struct{}
type NU []int
type NC complex64
type NX struct {
	x any
	y any
}
"""

# (kind, ...) trees; `src` renders Go source
def T_basic(n): return ("basic", n)
def T_ptr(kind, src): return ("ptr", kind, src)
def T_slice(src): return ("slice", src)
def T_iface(nmeth, src): return ("iface", nmeth, src)
def T_array(n, e): return ("array", n, e)
def T_struct(fields): return ("struct", tuple(fields))
def T_named(name, u): return ("named", name, u)

NAMED = {
    "N0": T_basic("int32"), "NF": T_basic("float64"),
    "NS": T_struct([("a", T_basic("int8")), ("b", T_basic("int64"))]),
    "NA": T_array(2, T_basic("string")),
    "NI": T_iface(1, "interface{ M() }"),
    "NP": T_ptr("pointer", "*int"),
    "NB": T_struct([("_", T_ptr("pointer", "*int"))]),
    "NE": T_struct([]),
    "NU": T_slice("[]int"),
    "NC": T_basic("complex64"),
    "NX": T_struct([("x", T_iface(0, "any")), ("y", T_iface(0, "any"))]),
}


def src(t):
    k = t[0]
    if k == "basic":
        return t[1]
    if k == "ptr":
        return t[2]
    if k == "slice":
        return t[1]
    if k == "iface":
        return t[2]
    if k == "array":
        return "[%d]%s" % (t[1], src(t[2]))
    if k == "struct":
        return "struct{ " + "; ".join("%s %s" % (n, src(ft)) for n, ft in t[1]) + " }" if t[1] else "struct{}"
    if k == "named":
        return t[1]
    raise ValueError(t)


def under(t):
    while t[0] == "named":
        t = t[2]
    return t


def comparable(t):
    """Go spec: comparable types"""
    t = under(t)
    k = t[0]
    if k == "basic" or k == "iface":
        return True
    if k == "ptr":
        return t[1] in ("pointer", "chan")
    if k == "slice":
        return False
    if k == "array":
        return comparable(t[2])
    if k == "struct":
        return all(comparable(ft) for _, ft in t[1])
    raise ValueError(t)


def pointer_shaped(t):
    """stored directly in an interface's data word: pointers, channels, maps, funcs, unsafe.Pointer and one-element
    arrays / one-field structs of those"""
    t = under(t)
    k = t[0]
    if k == "basic":
        return t[1] == "unsafe.Pointer"
    if k == "ptr":
        return True
    if k == "array":
        return t[1] == 1 and pointer_shaped(t[2])
    if k == "struct":
        return len(t[1]) == 1 and pointer_shaped(t[1][0][1])
    return False


def blank_direct(t):
    """pointer shaped with the word (also) in a blank field"""
    t = under(t)
    if t[0] == "array":
        return t[1] == 1 and blank_direct(t[2])
    if t[0] == "struct" and len(t[1]) == 1:
        return pointer_shaped(t[1][0][1]) and (t[1][0][0] == "_" or blank_direct(t[1][0][1]))
    return False


CURATED = (
    [T_basic(b) for b in BASICS] +
    [T_ptr("pointer", "*int"), T_ptr("pointer", "*string"), T_ptr("chan", "chan int"), T_ptr("chan", "<-chan int"),
     T_ptr("map", "map[int]int"), T_ptr("func", "func()"), T_slice("[]int"), T_slice("[]string"),
     T_iface(0, "any"), T_iface(1, "interface{ M() }"), T_iface(1, "error")] +
    [T_named(n, u) for n, u in NAMED.items()] +
    [T_array(2, T_ptr("pointer", "*int")), T_array(0, T_ptr("pointer", "*int")), T_array(0, T_basic("int")), T_array(0, T_basic("string")), T_array(0, T_ptr("func", "func()")), T_array(1, T_ptr("pointer", "*int")),
     T_array(2, T_basic("float64")), T_array(3, T_basic("uint8")), T_array(2, T_basic("string")), T_array(2, T_iface(0, "any")),
     T_array(2, T_struct([])), T_array(2, T_array(0, T_iface(0, "any"))), T_array(1, T_slice("[]int")),
     T_array(2, T_struct([("_", T_array(0, T_basic("int")))])),
     T_struct([]), T_struct([("a", T_basic("int8")), ("b", T_basic("int64"))]),
     T_struct([("a", T_basic("int64")), ("b", T_basic("int8"))]),
     T_struct([("a", T_basic("int32")), ("b", T_basic("int32"))]),
     T_struct([("a", T_basic("int8")), ("b", T_basic("int8")), ("c", T_basic("int16")), ("d", T_basic("int32"))]),
     T_struct([("a", T_basic("float64")), ("b", T_basic("int"))]),
     T_struct([("a", T_basic("string")), ("b", T_basic("int"))]),
     T_struct([("_", T_basic("int")), ("x", T_basic("int"))]),
     T_struct([("_", T_basic("float64")), ("x", T_basic("int8"))]),
     T_struct([("_", T_slice("[]int")), ("x", T_basic("int"))]),
     T_struct([("x", T_basic("int")), ("_", T_array(0, T_ptr("func", "func()")))]),
     T_struct([("p", T_ptr("pointer", "*int"))]), T_struct([("_", T_ptr("pointer", "*int"))]),
     T_struct([("_", T_ptr("chan", "chan int"))]), T_array(1, T_struct([("_", T_ptr("pointer", "*int"))])),
     T_struct([("f", T_array(1, T_ptr("pointer", "*int")))]),
     T_struct([("p", T_ptr("pointer", "*int")), ("q", T_ptr("pointer", "*int"))]),
     T_struct([("a", T_iface(0, "any")), ("b", T_iface(0, "any"))]),
     T_struct([("a", T_basic("int")), ("b", T_iface(0, "any"))]),
     T_struct([("a", T_iface(1, "interface{ M() }")), ("b", T_basic("uint8"))]),
     T_struct([("a", T_basic("int")), ("f", T_ptr("func", "func()"))]),
     T_struct([("a", T_basic("complex128")), ("b", T_basic("bool"))]),
     T_struct([("a", T_array(0, T_basic("int64"))), ("b", T_basic("int8")), ("c", T_basic("int8"))]),
     T_struct([("a", T_basic("int64")), ("b", T_array(0, T_basic("int64")))]),
     T_struct([("a", T_struct([("x", T_basic("int8")), ("y", T_basic("int32"))])), ("b", T_basic("int8"))]),
     T_struct([("a", T_named("NS", NAMED["NS"])), ("b", T_named("NF", NAMED["NF"]))]),
     T_struct([("a", T_basic("uint8")), ("s", T_basic("string")), ("f", T_basic("float32")), ("i", T_iface(0, "any"))]),
     ])


class TypeGen:
    def __init__(self, rng):
        self.rng = rng

    def typ(self, depth):
        r = self.rng
        x = r.random()
        if depth <= 0 or x < 0.35:
            return T_basic(r.choice(BASICS))
        if x < 0.45:
            return r.choice([T_ptr("pointer", "*int"), T_ptr("pointer", "*string"), T_ptr("chan", "chan int"), T_ptr("map", "map[int]int"),
                             T_ptr("func", "func()"), T_slice("[]int")])
        if x < 0.55:
            return r.choice([T_iface(0, "any"), T_iface(0, "any"), T_iface(1, "interface{ M() }"), T_iface(1, "error")])
        if x < 0.62:
            n = r.choice(list(NAMED))
            return T_named(n, NAMED[n])
        if x < 0.78:
            return T_array(r.choice([0, 1, 1, 2, 2, 3]), self.typ(depth - 1))
        k = r.choice([0, 1, 1, 2, 2, 3, 3, 4])
        names = ["a", "b", "c", "d"]
        return T_struct([("_" if r.random() < 0.15 else names[i], self.typ(depth - 1)) for i in range(k)])


def universe(rng, n_random):
    seen, out = set(), []
    for t in CURATED:
        if src(t) not in seen:
            seen.add(src(t))
            out.append(t)
    g = TypeGen(rng)
    tries = 0
    while len(out) < len(CURATED) + n_random and tries < 50 * n_random:
        tries += 1
        t = g.typ(rng.choice([1, 2, 2, 3]))
        if src(t) not in seen and len(src(t)) < 300:
            seen.add(src(t))
            out.append(t)
    return out


def package_source(types):
    return "package d\n\nimport \"unsafe\"\n\nvar _ unsafe.Pointer\n" + PRELUDE + "\n" + "\n".join("var D%d %s" % (i, src(t)) for i, t in enumerate(types)) + "\n"


# ------------------------------------------------------------------------------------------------ descriptors

def parse_desc(toks, i=0):
    """-> (desc dict, next index)"""
    k = toks[i]
    d = {"k": k, "size": int(toks[i + 1]), "reg": toks[i + 2] == "1", "dir": toks[i + 3] == "1", "eq": toks[i + 4]}
    i += 5
    if k == "P":
        d["pkind"] = toks[i]
        return d, i + 1
    if k == "I":
        d["nmeth"] = int(toks[i])
        return d, i + 1
    if k == "A":
        d["len"] = int(toks[i])
        d["elem"], i = parse_desc(toks, i + 1)
        return d, i
    if k == "S":
        n = int(toks[i])
        i += 1
        d["fields"] = []
        for _ in range(n):
            blank, off = toks[i] == "1", int(toks[i + 1])
            fd, i = parse_desc(toks, i + 2)
            d["fields"].append((blank, off, fd))
        return d, i
    raise ValueError("desc: " + " ".join(toks[i:i + 8]))


def desc_str(d):
    c = "%s %d %d %d %s" % (d["k"], d["size"], d["reg"], d["dir"], d["eq"])
    if d["k"] == "P":
        return c + " " + d["pkind"]
    if d["k"] == "I":
        return c + " %d" % d["nmeth"]
    if d["k"] == "A":
        return c + " %d %s" % (d["len"], desc_str(d["elem"]))
    return c + " %d" % len(d["fields"]) + "".join(" %d %d %s" % (b, o, desc_str(f)) for b, o, f in d["fields"])


def judge_desc(t, d, go_comparable):
    """the REAL descriptor of type t against the specification; -> list of complaints"""
    bad = []
    if (d["eq"] != "-") != go_comparable:
        bad.append("Equal is %s but go/types says comparable=%s" % ("set" if d["eq"] != "-" else "nil", go_comparable))
    if go_comparable != comparable(t):
        bad.append("generator's comparable() disagrees with go/types (generator bug)")
    if d["dir"] != pointer_shaped(t):
        bad.append("KindDirectIface=%s but the type is %spointer shaped" % (d["dir"], "" if pointer_shaped(t) else "not "))
    if d["dir"] and d["size"] != 8:
        bad.append("direct-interface type of size %d" % d["size"])
    bad += judge_regular(t, d)
    return bad


def judge_regular(t, d):
    """TFlagRegularMemory may be set only if == is byte equality: no float / string / interface part, no blank field, no
    padding byte; also checks the layout facts IsRegularMemory relies on; recursive over the whole descriptor"""
    bad = []
    u = under(t)

    def pure_bytes(t, d):
        """every byte of the image is compared by == and compared as a byte"""
        u = under(t)
        if u[0] == "basic":
            return u[1] not in ("float32", "float64", "complex64", "complex128", "string")
        if u[0] == "ptr":
            return u[1] in ("pointer", "chan")
        if u[0] in ("slice", "iface"):
            return False
        if u[0] == "array":
            return u[1] == 0 or d["size"] == 0 or pure_bytes(u[2], d["elem"])
        if u[0] == "struct":
            pos = 0
            for (name, ft), (blank, off, fd) in zip(u[1], d["fields"]):
                if off != pos or name == "_" or not pure_bytes(ft, fd):
                    return False
                pos = off + fd["size"]
            return pos == d["size"]
        return False
    if d["reg"] and comparable(t) and not pure_bytes(t, d):
        bad.append("TFlagRegularMemory set on a type whose == is not byte equality of its %d bytes" % d["size"])
    if u[0] == "struct":
        if not u[1] and d["size"] != 0:
            bad.append("struct{} of size %d" % d["size"])
        if u[1] and d["fields"][0][1] != 0:
            bad.append("first field at offset %d" % d["fields"][0][1])
        if len(u[1]) == 1 and d["size"] != d["fields"][0][2]["size"]:
            bad.append("one-field struct of size %d, field size %d" % (d["size"], d["fields"][0][2]["size"]))
        pos = 0
        for (name, ft), (blank, off, fd) in zip(u[1], d["fields"]):
            if off < pos:
                bad.append("overlapping fields")
            if blank != (name == "_"):
                bad.append("blank flag of field " + name)
            pos = off + fd["size"]
            bad += judge_regular(ft, fd)
        if pos > d["size"]:
            bad.append("fields beyond the struct size")
    if u[0] == "array":
        if d["size"] != u[1] * d["elem"]["size"] or d["len"] != u[1]:
            bad.append("array size / length")
        bad += judge_regular(u[2], d["elem"])
    return bad


# ------------------------------------------------------------------------------------------------ values

F64 = [0, 1 << 63, 0x3ff0000000000000, 0xbff0000000000000, 0x7ff8000000000001, 0x7ff0000000000001, 0xfff8000000000000,
       0x7ff0000000000000, 0xfff0000000000000, 1, 0x400921fb54442d18]
F32 = [0, 1 << 31, 0x3f800000, 0xbf800000, 0x7fc00001, 0x7f800001, 0xffc00000, 0x7f800000, 0xff800000, 1, 0x40490fdb]
PTRS = [0, 0x1000, 0x1008, 0x2000, (1 << 63) + 8, (1 << 64) - 8]
STRS = [b"", b"a", b"b", b"ab", b"a\x00", b"\xff\xfe", b"hello, world; hello", b"x" * 17, b"y" * 49, b"z" * 100]


def is_nan64(x): return (x >> 52) & 0x7ff == 0x7ff and x & ((1 << 52) - 1) != 0
def is_nan32(x): return (x >> 23) & 0xff == 0xff and x & ((1 << 23) - 1) != 0
def feq64(x, y): return not is_nan64(x) and not is_nan64(y) and (x == y or (x << 1) & ((1 << 64) - 1) == 0 == (y << 1) & ((1 << 64) - 1))
def feq32(x, y): return not is_nan32(x) and not is_nan32(y) and (x == y or (x << 1) & ((1 << 32) - 1) == 0 == (y << 1) & ((1 << 32) - 1))


class ValGen:
    """values: ('w', int) scalar of the type's size | ('c', re, im) | ('s', bytes) | ('nil',) | ('i', type index, value) |
    ('agg', [values]) (ALL fields, blank ones too: their content is what an unsafe store or stale memory leaves there) | ('raw', bytes)"""

    def __init__(self, rng, types, descs, dyn_pool):
        self.rng, self.types, self.descs, self.dyn_pool = rng, types, descs, dyn_pool

    def val(self, t, depth=0):
        r = self.rng
        u = under(t)
        k = u[0]
        if k == "basic":
            b = u[1]
            if b == "bool":
                return ("w", r.choice([0, 1]))
            if b == "float64":
                return ("w", r.choice(F64) if r.random() < 0.85 else r.getrandbits(64))
            if b == "float32":
                return ("w", r.choice(F32) if r.random() < 0.85 else r.getrandbits(32))
            if b == "complex128":
                return ("c", r.choice(F64), r.choice(F64))
            if b == "complex64":
                return ("c", r.choice(F32), r.choice(F32))
            if b == "string":
                return ("s", r.choice(STRS))
            if b == "unsafe.Pointer":
                return ("w", r.choice(PTRS))
            bits = 8 * BASIC_SIZE[b]
            return ("w", r.choice([0, 1, 2, (1 << bits) - 1, 1 << (bits - 1), (1 << (bits - 1)) - 1, r.getrandbits(bits), 255 % (1 << bits), 256 % (1 << bits)]))
        if k == "ptr":
            return ("w", r.choice(PTRS))
        if k == "slice":
            return ("raw", bytes(r.getrandbits(8) for _ in range(24)))
        if k == "iface":
            if r.random() < 0.12 or depth > 3:
                return ("nil",)
            ti = r.choice(self.dyn_pool)
            return ("i", ti, self.val(self.types[ti], depth + 1))
        if k == "array":
            return ("agg", [self.val(u[2], depth + 1) for _ in range(u[1])])
        if k == "struct":
            return ("agg", [self.val(ft, depth + 1) for _, ft in u[1]])
        raise ValueError(t)

    def mutate(self, t, v):
        """a value that differs from v in ONE leaf (or v itself when there is nothing to change) -> (value, changed?)"""
        r = self.rng
        u = under(t)
        k = u[0]
        if k in ("basic", "ptr", "slice"):
            for _ in range(8):
                w = self.val(t)
                if w != v:
                    return w, True
            return v, False
        if k == "iface":
            if v[0] == "i" and r.random() < 0.7:
                w, ch = self.mutate(self.types[v[1]], v[2])
                return ("i", v[1], w), ch
            for _ in range(8):
                w = self.val(t, 2)
                if w != v:
                    return w, True
            return v, False
        if k in ("array", "struct"):
            if not v[1]:
                return v, False
            i = r.randrange(len(v[1]))
            ft = u[2] if k == "array" else u[1][i][1]
            w, ch = self.mutate(ft, v[1][i])
            return ("agg", v[1][:i] + [w] + v[1][i + 1:]), ch
        raise ValueError(t)

    def flip_zero(self, t, v):
        """replace every +0 by -0 and vice versa"""
        u = under(t)
        k = u[0]
        if k == "basic" and u[1] in ("float64", "float32") and v[0] == "w":
            top = 1 << (63 if u[1] == "float64" else 31)
            return ("w", v[1] ^ top) if v[1] in (0, top) else v
        if k == "basic" and u[1] in ("complex128", "complex64") and v[0] == "c":
            top = 1 << (63 if u[1] == "complex128" else 31)
            return ("c", v[1] ^ top if v[1] in (0, top) else v[1], v[2] ^ top if v[2] in (0, top) else v[2])
        if k == "iface" and v[0] == "i":
            return ("i", v[1], self.flip_zero(self.types[v[1]], v[2]))
        if k == "array":
            return ("agg", [self.flip_zero(u[2], x) for x in v[1]])
        if k == "struct":
            return ("agg", [self.flip_zero(ft, x) for (_, ft), x in zip(u[1], v[1])])
        return v


def go_eq(types, t, v, w):
    """Go's == on two VALUES of type t: True | False | 'panic' (run-time panic: uncomparable dynamic type).
    Struct fields in source order, blank ones skipped, stop at the first difference; arrays in index order."""
    u = under(t)
    k = u[0]
    if k == "basic":
        b = u[1]
        if b == "float64":
            return feq64(v[1], w[1])
        if b == "float32":
            return feq32(v[1], w[1])
        if b == "complex128":
            return feq64(v[1], w[1]) and feq64(v[2], w[2])
        if b == "complex64":
            return feq32(v[1], w[1]) and feq32(v[2], w[2])
        return v[1] == w[1]
    if k == "ptr":
        if u[1] not in ("pointer", "chan"):
            raise ValueError("== on " + src(t))
        return v[1] == w[1]
    if k == "iface":
        return iface_eq(types, v, w)
    if k == "array":
        for x, y in zip(v[1], w[1]):
            r = go_eq(types, u[2], x, y)
            if r is not True:
                return r
        return True
    if k == "struct":
        for (name, ft), x, y in zip(u[1], v[1], w[1]):
            if name == "_":
                continue
            r = go_eq(types, ft, x, y)
            if r is not True:
                return r
        return True
    raise ValueError("== on " + src(t))


def iface_eq(types, v, w):
    if v[0] == "nil" or w[0] == "nil":
        return v[0] == w[0]
    if v[1] != w[1]:
        return False
    t = types[v[1]]
    if not comparable(t):
        return "panic"
    return go_eq(types, t, v[2], w[2])


def unhashable(types, t, v):
    """does hashing v (as a map key of type t) panic: an interface, in a non-blank position, holds a value of an
    uncomparable dynamic type"""
    u = under(t)
    k = u[0]
    if k == "iface":
        if v[0] == "nil":
            return False
        dt = types[v[1]]
        return (not comparable(dt)) or unhashable(types, dt, v[2])
    if k == "array":
        return any(unhashable(types, u[2], x) for x in v[1])
    if k == "struct":
        return any(name != "_" and unhashable(types, ft, x) for (name, ft), x in zip(u[1], v[1]))
    return False


def nan_count(types, t, v):
    """number of NaN parts the hash function meets (one fastrand call each)"""
    u = under(t)
    k = u[0]
    if k == "basic":
        b = u[1]
        if b == "float64":
            return int(is_nan64(v[1]))
        if b == "float32":
            return int(is_nan32(v[1]))
        if b == "complex128":
            return int(is_nan64(v[1])) + int(is_nan64(v[2]))
        if b == "complex64":
            return int(is_nan32(v[1])) + int(is_nan32(v[2]))
        return 0
    if k == "iface":
        return 0 if v[0] == "nil" else nan_count(types, types[v[1]], v[2])
    if k == "array":
        return sum(nan_count(types, u[2], x) for x in v[1])
    if k == "struct":
        return sum(nan_count(types, ft, x) for (name, ft), x in zip(u[1], v[1]) if name != "_")
    return 0


# ------------------------------------------------------------------------------------------------ memory images

def hx(b):
    return b.hex() if b else "-"


class Encoder:
    """value -> image (protocol text) laid out by the descriptor's offsets; padding, string data pointers and box addresses
    are garbage drawn from rng"""

    def __init__(self, rng, types, descs):
        self.rng, self.types, self.descs = rng, types, descs

    def junk(self, n):
        return bytes(self.rng.getrandbits(8) for _ in range(n))

    def flat_len(self, d):
        return d["size"]

    def obj(self, t, d, v, tw_for_iface=None):
        """-> (text, flat bytes as far as they are determined (None where an address is involved))"""
        u = under(t)
        k = u[0]
        if k == "basic" and u[1] == "string":
            return "s %d %s" % (self.rng.choice([0x5000, 0x5008, 0x6000]), hx(v[1]))
        if k == "basic" and v[0] == "c":
            half = d["size"] // 2
            return "b " + hx(v[1].to_bytes(half, "little") + v[2].to_bytes(half, "little"))
        if k in ("basic", "ptr"):
            return "b " + hx(v[1].to_bytes(d["size"], "little"))
        if k == "slice":
            return "b " + hx(v[1])
        if k == "iface":
            if v[0] == "nil":
                return "n 0"
            tw = 1 if d.get("nmeth", 0) > 0 else 0
            dt, dd = self.types[v[1]], self.descs[v[1]]
            box = self.obj(dt, dd, v[2])
            dw = self.rng.choice([0x7000, 0x7010, 0x8000])
            if dd["dir"]:
                try:
                    dw = int.from_bytes(self.word_of(dt, dd, v[2]), "little")
                except (IndexError, ValueError, AttributeError):
                    # the descriptor claims "direct" for a type that is not pointer shaped (reported by judge_desc): no data word to show
                    dw = 0
            return "e %d %d %d %s" % (tw, v[1], dw, box)
        if k == "array":
            parts = ["- " + self.obj(u[2], d["elem"], x) for x in v[1]]
            return "q %d %s-" % (len(parts), "".join(p + " " for p in parts))
        if k == "struct":
            pos = 0
            parts = []
            for (name, ft), (blank, off, fd), x in zip(u[1], d["fields"], v[1]):
                parts.append(hx(self.junk(off - pos)) + " " + self.obj(ft, fd, x))
                pos = off + fd["size"]
            return "q %d %s%s" % (len(parts), "".join(p + " " for p in parts), hx(self.junk(d["size"] - pos)))
        raise ValueError(t)

    def word_of(self, t, d, v):
        """the 8 bytes of a pointer-shaped value"""
        u = under(t)
        if u[0] in ("basic", "ptr"):
            return v[1].to_bytes(8, "little")
        if u[0] == "array":
            return self.word_of(u[2], d["elem"], v[1][0])
        if u[0] == "struct":
            return self.word_of(u[1][0][1], d["fields"][0][2], v[1][0])
        raise ValueError(t)


# ------------------------------------------------------------------------------------------------ end to end

E2E_DECLS = """
type DyS struct {
	a int8
	b int64
}
type DyF struct {
	f float64
	s string
}
type DyX struct {
	x any
	y any
}
type DyB struct {
	_ int
	x int
}
type DyU struct {
	a int
	s []int
}
type DyP struct{ p *int }
type DyQ struct{ _ *int }
type DyN int32
type DyE struct{}
type DyI interface{ DyM() int }

func (v DyS) DyM() int { return int(v.a) }
func (v DyN) DyM() int { return int(v) }
func (v DyU) DyM() int { return v.a }

var dyG0, dyG1 int
var dyC0, dyC1 = make(chan int), make(chan int)

func dyF64(b uint64) float64 { return *(*float64)(unsafe.Pointer(&b)) }
func dyF32(b uint32) float32 { return *(*float32)(unsafe.Pointer(&b)) }
func dyStr(s string) string {
	b := []byte(s)
	return string(b)
}

func dyEq(a, b any) (r int) {
	defer func() {
		if recover() != nil {
			r = 2
		}
	}()
	if a == b {
		return 1
	}
	return 0
}

func dyIEq(a, b DyI) (r int) {
	defer func() {
		if recover() != nil {
			r = 2
		}
	}()
	if a == b {
		return 1
	}
	return 0
}

func dyPut(m map[any]int, k any, v int) (ok bool) {
	defer func() {
		if recover() != nil {
			ok = false
		}
	}()
	m[k] = v
	return true
}

func dyGet(m map[any]int, k any) (r int) {
	defer func() {
		if recover() != nil {
			r = -2
		}
	}()
	if v, ok := m[k]; ok {
		return v
	}
	return -1
}

func dyClass(v any) int {
	switch x := v.(type) {
	case nil:
		return 0
	case int:
		return 1
	case int32:
		return 2
	case DyN:
		return 3 + int(x)%2
	case float64:
		return 5
	case float32:
		return 6
	case string:
		return 7 + len(x)%2
	case *int:
		return 9
	case chan int:
		return 10
	case DyS:
		return 11
	case DyF:
		return 12
	case DyX:
		return 13
	case [2]float64:
		return 14
	case DyI:
		return 15 + x.DyM()%2
	case []int, map[int]int:
		return 17
	case func():
		return 18
	case struct{ a, b int }:
		return 19
	case complex128:
		return 20
	}
	return 99
}
"""

E2E_VALUES = [
    "nil", "int(0)", "int(1)", "int(-1)", "int32(1)", "DyN(1)", "DyN(2)", "uint8(1)", "int64(1)", "uint64(1)", "true", "false",
    "dyF64(0)", "dyF64(1<<63)", "dyF64(0x3ff0000000000000)", "dyF64(0x7ff8000000000001)", "dyF64(0x7ff8000000000001)", "dyF32(0)", "dyF32(1<<31)", "dyF32(0x7fc00001)",
    "complex(dyF64(0), dyF64(1<<63))", "complex(dyF64(1<<63), dyF64(0))", "complex(dyF64(0x7ff8000000000001), 0)", "complex64(complex(1, 2))",
    '""', 'dyStr("")', '"ab"', 'dyStr("ab")', 'dyStr("a\\x00")', 'dyStr("abcdefghijklmnopqrstuvwxyz0123456789abcdefghijklmnopqrstuvwxyz")',
    "(*int)(nil)", "&dyG0", "&dyG0", "&dyG1", "(*string)(nil)", "dyC0", "dyC1", "(chan int)(nil)", "(<-chan int)(dyC0)", "unsafe.Pointer(&dyG0)", "unsafe.Pointer(&dyG1)",
    "DyS{1, 2}", "DyS{1, 2}", "DyS{1, 3}", "struct{ a int8; b int64 }{1, 2}", "DyF{dyF64(0), dyStr(\"k\")}", "DyF{dyF64(1<<63), \"k\"}", "DyF{dyF64(0x7ff8000000000001), \"k\"}",
    "DyX{1, 2}", "DyX{1, 2}", "DyX{1, int32(2)}", "DyX{[]int{1}, 2}", "DyX{1, []int{1}}", "DyX{2, []int{1}}", "DyX{DyX{1, nil}, \"s\"}", "DyX{DyX{1, nil}, dyStr(\"s\")}",
    "DyX{dyF64(0x7ff8000000000001), []int{}}", "DyB{x: 1}", "DyB{x: 1}", "DyB{x: 2}", "DyU{1, nil}", "DyU{1, []int{1}}", "DyP{&dyG0}", "DyP{&dyG0}", "DyP{&dyG1}", "DyP{}",
    "DyQ{}", "DyQ{}", "DyE{}", "struct{}{}", "[0]int{}", "[0]func(){}", "[2]float64{dyF64(0), 1}", "[2]float64{dyF64(1<<63), 1}", "[2]float64{dyF64(0x7ff8000000000001), 1}",
    "[2]string{\"a\", dyStr(\"b\")}", "[2]string{dyStr(\"a\"), \"b\"}", "[2]any{1, \"x\"}", "[2]any{1, dyStr(\"x\")}", "[2]any{1, []int{}}", "[2]any{2, []int{}}",
    "[1]*int{&dyG0}", "[1]*int{&dyG0}", "[1]*int{&dyG1}", "[]int{1}", "[]int(nil)", "map[int]int{}", "func() {}", "struct{ a, b int }{1, 2}", "struct{ a, b int }{1, 2}",
    "struct{ a int; f func() }{1, nil}", "error(nil)", "DyI(DyS{1, 2})", "DyI(DyN(1))", "[1]DyI{DyS{1, 2}}", "[1]DyI{DyS{1, 2}}", "[1]DyI{DyN(1)}", "[1]DyI{DyU{1, nil}}",
    "[3]struct{ a any; b uint64 }{{1, 2}, {\"s\", 3}, {nil, 4}}", "[3]struct{ a any; b uint64 }{{1, 2}, {dyStr(\"s\"), 3}, {nil, 4}}",
]

E2E_IFACE_VALUES = ["DyI(nil)", "DyS{1, 2}", "DyS{1, 2}", "DyS{2, 2}", "DyN(1)", "DyN(1)", "DyN(3)", "DyU{1, nil}", "DyU{1, nil}", "DyU{2, []int{1}}"]


def e2e_cases(rng, first_case):
    """-> (declarations, [(kind, reference, func body printing lines that start with its case number)])"""
    vals = list(E2E_VALUES)
    # a few random scalars / strings on top of the fixed boundary list (all randomness from the check's generator)
    for _ in range(6):
        vals.append(rng.choice(["int(%d)" % rng.randint(-5, 5), "uint8(%d)" % rng.randint(0, 3), 'dyStr("%s")' % rng.choice(["ab", "k", "s", "x"]),
                                "DyS{%d, %d}" % (rng.randint(1, 2), rng.randint(2, 3)), "DyX{%d, %d}" % (rng.randint(1, 2), rng.randint(2, 3))]))
    decl = E2E_DECLS + "\nfunc dyVals() []any {\n\treturn []any{\n" + "".join("\t\t%s,\n" % v for v in vals) + "\t}\n}\n"
    decl += "\nfunc dyIVals() []DyI {\n\treturn []DyI{\n" + "".join("\t\t%s,\n" % v for v in E2E_IFACE_VALUES) + "\t}\n}\n"
    cases = []
    cn = first_case
    # all pairs under ==, one line per row
    cases.append(("dyn-eq", "interface == over all pairs of %d values (0 false, 1 true, 2 panic)" % len(vals),
                  "\tvs := dyVals()\n\tfor i := range vs {\n\t\ts := \"\"\n\t\tfor j := range vs {\n\t\t\ts += string(rune('0' + dyEq(vs[i], vs[j])))\n\t\t}\n\t\tprintln(%d, \"dyneq\", i, s)\n\t}\n" % cn))
    cn += 1
    cases.append(("dyn-ieq", "== on a non-empty interface type over all pairs of %d values" % len(E2E_IFACE_VALUES),
                  "\tvs := dyIVals()\n\tfor i := range vs {\n\t\ts := \"\"\n\t\tfor j := range vs {\n\t\t\ts += string(rune('0' + dyIEq(vs[i], vs[j])))\n\t\t}\n\t\tprintln(%d, \"dynieq\", i, s)\n\t}\n" % cn))
    cn += 1
    # interface-keyed map: insertion (panics on unhashable keys), size, lookups, deletion
    cases.append(("dyn-map", "map[any]int keyed by the %d values: insert, len, lookup, delete" % len(vals),
                  ("\tvs := dyVals()\n\tm := map[any]int{}\n\tput := \"\"\n\tfor i, v := range vs {\n\t\tif dyPut(m, v, i) {\n\t\t\tput += \"1\"\n\t\t} else {\n\t\t\tput += \"0\"\n\t\t}\n\t}\n"
                   "\tprintln(%d, \"dynmap-put\", put, len(m))\n\tfor i, v := range vs {\n\t\tprintln(%d, \"dynmap-get\", i, dyGet(m, v))\n\t}\n"
                   "\tfor i, v := range vs {\n\t\tif i%%3 == 0 && dyGet(m, v) >= 0 {\n\t\t\tdelete(m, v)\n\t\t}\n\t}\n\tprintln(%d, \"dynmap-len-after-delete\", len(m))\n"
                   "\tn := 0\n\tfor range m {\n\t\tn++\n\t}\n\tprintln(%d, \"dynmap-range\", n)\n") % (cn, cn, cn, cn)))
    cn += 1
    # maps keyed by struct types with float / string / interface / blank parts (typehash over the key descriptor)
    cases.append(("dyn-keymap", "map[DyF], map[DyX], map[DyB], map[[2]any], map[DyI] keys",
                  ("\tmf := map[DyF]int{}\n\tmf[DyF{dyF64(0), dyStr(\"k\")}] = 1\n\tmf[DyF{dyF64(1<<63), \"k\"}] = 2\n\tmf[DyF{dyF64(0x7ff8000000000001), \"k\"}] = 3\n\tmf[DyF{dyF64(0x7ff8000000000001), \"k\"}] = 4\n"
                   "\tprintln(%d, \"dynkey-f\", len(mf), mf[DyF{0, \"k\"}], mf[DyF{dyF64(0x7ff8000000000001), \"k\"}])\n"
                   "\tmx := map[DyX]int{}\n\tmx[DyX{1, \"a\"}] = 1\n\tmx[DyX{1, dyStr(\"a\")}] = 2\n\tmx[DyX{int32(1), \"a\"}] = 3\n\tmx[DyX{nil, nil}] = 4\n\tmx[DyX{DyS{1, 2}, [2]any{1, 2}}] = 5\n"
                   "\tprintln(%d, \"dynkey-x\", len(mx), mx[DyX{1, \"a\"}], mx[DyX{DyS{1, 2}, [2]any{1, 2}}], mx[DyX{}])\n"
                   "\tfunc() {\n\t\tdefer func() { println(%d, \"dynkey-x-panicked\", recover() != nil) }()\n\t\tmx[DyX{1, []int{}}] = 6\n\t}()\n"
                   "\tmb := map[DyB]int{}\n\tmb[DyB{x: 1}] = 1\n\tmb[DyB{x: 1}] = 2\n\tmb[DyB{x: 2}] = 3\n\tprintln(%d, \"dynkey-b\", len(mb), mb[DyB{x: 1}])\n"
                   "\tma := map[[2]any]int{}\n\tma[[2]any{1, \"x\"}] = 1\n\tma[[2]any{1, dyStr(\"x\")}] = 2\n\tma[[2]any{dyF64(0), nil}] = 3\n\tma[[2]any{dyF64(1<<63), nil}] = 4\n\tprintln(%d, \"dynkey-a\", len(ma), ma[[2]any{1, \"x\"}], ma[[2]any{dyF64(0), nil}])\n"
                   "\tmi := map[DyI]int{}\n\tmi[DyS{1, 2}] = 1\n\tmi[DyS{1, 2}] = 2\n\tmi[DyN(1)] = 3\n\tprintln(%d, \"dynkey-i\", len(mi), mi[DyS{1, 2}], mi[DyN(1)], mi[DyN(2)])\n"
                   "\tfunc() {\n\t\tdefer func() { println(%d, \"dynkey-i-panicked\", recover() != nil) }()\n\t\tmi[DyU{1, nil}] = 4\n\t}()\n") % (cn, cn, cn, cn, cn, cn, cn)))
    cn += 1
    cases.append(("dyn-switch", "type switch over the %d interface values" % len(vals),
                  "\tvs := dyVals()\n\ts := \"\"\n\tfor _, v := range vs {\n\t\ts += string(rune('A' + dyClass(v)%%26))\n\t}\n\tprintln(%d, \"dynswitch\", s)\n" % cn))
    return decl, cases
