"""IR -> Lean translator for the straight-line integer subset llgo emits at -O0 (DESIGN.md §2.2 A).

One Lean `def` per IR function, 1:1 per instruction, in the monad of LlgoVerif/Model/LLVM.lean.
Anything outside the supported subset makes the translation of that function FAIL LOUDLY
(returned in `errors`; the caller turns it into a broken obligation) — never skipped silently.
"""
import re

DEFINE_RE = re.compile(r'^define\s+(?P<ret>\S+)\s+@"?(?P<name>[^"(]+)"?\((?P<params>.*)\)\s*(#\d+\s*)?\{\s*$')
ASSERTS = {
    "github.com/goplus/llgo/runtime/internal/runtime.AssertDivideByZero": ".divZero",
    "github.com/goplus/llgo/runtime/internal/runtime.AssertNegativeShift": ".negShift",
    "github.com/goplus/llgo/runtime/internal/runtime.AssertIndexRange": ".indexRange",
}
BINOPS = {"add": "add", "sub": "sub", "mul": "mul", "and": "and", "or": "or", "xor": "xor",
          "shl": "shl", "lshr": "lshr", "ashr": "ashr"}
DIVOPS = {"sdiv": "sdiv", "udiv": "udiv", "srem": "srem", "urem": "urem"}
CASTS = {"trunc": "trunc", "zext": "zext", "sext": "sext"}


class Unsupported(Exception):
    pass


def ity(t):
    m = re.fullmatch(r"i(\d+)", t)
    if not m:
        raise Unsupported("type " + t)
    return int(m.group(1))


FLOAT_W = {"float": 32, "double": 64}
FBINOPS = {"fadd": "fadd", "fsub": "fsub", "fmul": "fmul", "fdiv": "fdiv"}
FPREDS = {"oeq", "one", "olt", "ole", "ogt", "oge", "ord", "ueq", "une", "ult", "ule", "ugt", "uge", "uno"}


def vty(t):
    """width of an integer OR float type (a float value is its bit pattern)"""
    if t in FLOAT_W:
        return FLOAT_W[t]
    return ity(t)


def float_const_bits(tok, w):
    """LLVM float literal -> bit pattern at width w (decimal literals are exact doubles; hex literals are double bits)"""
    import struct
    if re.fullmatch(r"0x[0-9A-Fa-f]{16}", tok):
        d = struct.unpack("<d", struct.pack("<Q", int(tok, 16)))[0]
    elif re.fullmatch(r"-?\d+\.\d+e[+-]\d+", tok):
        d = float(tok)
    else:
        raise Unsupported("float constant " + tok)
    if w == 64:
        return struct.unpack("<Q", struct.pack("<d", d))[0]
    f = struct.unpack("<f", struct.pack("<f", d))[0]
    if f != d and d == d:
        raise Unsupported("float constant not exact at float: " + tok)
    return struct.unpack("<I", struct.pack("<f", d))[0]


def parse_functions(text):
    """-> {name: (ret type, [(ty, reg)], [instruction lines])} for every `define`"""
    out = {}
    lines = text.split("\n")
    i = 0
    while i < len(lines):
        m = DEFINE_RE.match(lines[i])
        if m:
            body = []
            i += 1
            while i < len(lines) and lines[i].strip() != "}":
                body.append(lines[i])
                i += 1
            params = []
            ps = m.group("params").strip()
            if ps:
                for p in split_params(ps):
                    toks = p.strip().split()
                    params.append((" ".join(toks[:-1]), toks[-1]))
            out[m.group("name")] = (m.group("ret"), params, body)
        i += 1
    return out


def split_params(s):
    parts, depth, cur = [], 0, ""
    for ch in s:
        if ch in "({":
            depth += 1
        if ch in ")}":
            depth -= 1
        if ch == "," and depth == 0:
            parts.append(cur)
            cur = ""
        else:
            cur += ch
    if cur.strip():
        parts.append(cur)
    return parts


def translate_function(name, lean_name, ret, params, body):
    env = {}
    sig = []
    for k, (ty, reg) in enumerate(params):
        w = vty(ty)
        env[reg] = ("(some a%d)" % k, w)
        sig.append("(a%d : BitVec %d)" % (k, w))
    rw = vty(ret)

    def fopnd(tok, w):
        tok = tok.rstrip(",")
        if tok in env:
            e, w2 = env[tok]
            if w2 != w:
                raise Unsupported("width mismatch on " + tok)
            return e
        return "(some (BitVec.ofNat %d %d))" % (w, float_const_bits(tok, w))

    def opnd(tok, w):
        tok = tok.rstrip(",")
        if tok in env:
            e, w2 = env[tok]
            if w2 != w:
                raise Unsupported("width mismatch on " + tok)
            return e
        if tok == "true":
            return "(some (BitVec.ofInt 1 1))"
        if tok == "false":
            return "(some (BitVec.ofInt 1 0))"
        if re.fullmatch(r"-?\d+", tok):
            return "(some (BitVec.ofInt %d (%s)))" % (w, tok)
        raise Unsupported("operand " + tok)

    out = []
    blocks = 0
    returned = False
    for line in body:
        s = line.split(";")[0].strip()
        if not s:
            continue
        if s.endswith(":"):
            blocks += 1
            if blocks > 1:
                raise Unsupported("more than one basic block")
            continue
        if returned:
            raise Unsupported("instruction after ret")
        m = re.fullmatch(r"(%\d+) = (\w+)(?: (?:nsw|nuw|exact))* (i\d+) (\S+), (\S+)", s)
        if m and m.group(2) in BINOPS:
            if re.search(r"\b(nsw|nuw|exact)\b", s):
                raise Unsupported("poison-generating flag in: " + s)
            w = ity(m.group(3))
            env[m.group(1)] = ("v" + m.group(1)[1:], w)
            out.append("  let v%s := %s %s %s" % (m.group(1)[1:], BINOPS[m.group(2)], opnd(m.group(4), w), opnd(m.group(5), w)))
            continue
        if m and m.group(2) in DIVOPS:
            w = ity(m.group(3))
            env[m.group(1)] = ("v" + m.group(1)[1:], w)
            out.append("  let v%s ← %s %s %s" % (m.group(1)[1:], DIVOPS[m.group(2)], opnd(m.group(4), w), opnd(m.group(5), w)))
            continue
        m = re.fullmatch(r"(%\d+) = icmp (\w+) (i\d+) (\S+), (\S+)", s)
        if m:
            w = ity(m.group(3))
            env[m.group(1)] = ("v" + m.group(1)[1:], 1)
            out.append("  let v%s := icmp .%s %s %s" % (m.group(1)[1:], m.group(2), opnd(m.group(4), w), opnd(m.group(5), w)))
            continue
        m = re.fullmatch(r"(%\d+) = select i1 (\S+), (i\d+) (\S+), (i\d+) (\S+)", s)
        if m:
            w = ity(m.group(3))
            env[m.group(1)] = ("v" + m.group(1)[1:], w)
            out.append("  let v%s := select %s %s %s" % (m.group(1)[1:], opnd(m.group(2), 1), opnd(m.group(4), w), opnd(m.group(6), w)))
            continue
        m = re.fullmatch(r"(%\d+) = (trunc|zext|sext) (i\d+) (\S+) to (i\d+)", s)
        if m:
            w1, w2 = ity(m.group(3)), ity(m.group(5))
            env[m.group(1)] = ("v" + m.group(1)[1:], w2)
            out.append("  let v%s := %s %d %s" % (m.group(1)[1:], CASTS[m.group(2)], w2, opnd(m.group(4), w1)))
            continue
        m = re.fullmatch(r'call void @"([^"]+)"\(i1 (\S+)\)', s)
        if m and m.group(1) in ASSERTS:
            out.append("  assert %s %s" % (ASSERTS[m.group(1)], opnd(m.group(2), 1)))
            continue
        # ---- float subset (no fast-math flags: the patterns below do not accept any)
        m = re.fullmatch(r"(%\d+) = (fadd|fsub|fmul|fdiv) (float|double) (\S+), (\S+)", s)
        if m:
            w = FLOAT_W[m.group(3)]
            env[m.group(1)] = ("v" + m.group(1)[1:], w)
            out.append("  let v%s := %s %s %s" % (m.group(1)[1:], FBINOPS[m.group(2)], fopnd(m.group(4), w), fopnd(m.group(5), w)))
            continue
        m = re.fullmatch(r"(%\d+) = fneg (float|double) (\S+)", s)
        if m:
            w = FLOAT_W[m.group(2)]
            env[m.group(1)] = ("v" + m.group(1)[1:], w)
            out.append("  let v%s := fneg %s" % (m.group(1)[1:], fopnd(m.group(3), w)))
            continue
        m = re.fullmatch(r"(%\d+) = fcmp (\w+) (float|double) (\S+), (\S+)", s)
        if m and m.group(2) in FPREDS:
            w = FLOAT_W[m.group(3)]
            env[m.group(1)] = ("v" + m.group(1)[1:], 1)
            out.append("  let v%s := fcmp .%s %s %s" % (m.group(1)[1:], m.group(2), fopnd(m.group(4), w), fopnd(m.group(5), w)))
            continue
        m = re.fullmatch(r"(%\d+) = (sitofp|uitofp) (i\d+) (\S+) to (float|double)", s)
        if m:
            w1, w2 = ity(m.group(3)), FLOAT_W[m.group(5)]
            env[m.group(1)] = ("v" + m.group(1)[1:], w2)
            out.append("  let v%s := %s %d %s" % (m.group(1)[1:], m.group(2), w2, opnd(m.group(4), w1)))
            continue
        m = re.fullmatch(r"(%\d+) = (fptosi|fptoui) (float|double) (\S+) to (i\d+)", s)
        if m:
            w1, w2 = FLOAT_W[m.group(3)], ity(m.group(5))
            env[m.group(1)] = ("v" + m.group(1)[1:], w2)
            out.append("  let v%s := %s %d %s" % (m.group(1)[1:], m.group(2), w2, fopnd(m.group(4), w1)))
            continue
        m = re.fullmatch(r"(%\d+) = (fpext|fptrunc) (float|double) (\S+) to (float|double)", s)
        if m:
            w1, w2 = FLOAT_W[m.group(3)], FLOAT_W[m.group(5)]
            env[m.group(1)] = ("v" + m.group(1)[1:], w2)
            out.append("  let v%s := %s %d %s" % (m.group(1)[1:], m.group(2), w2, fopnd(m.group(4), w1)))
            continue
        m = re.fullmatch(r"ret (float|double) (\S+)", s)
        if m:
            out.append("  ret %s" % fopnd(m.group(2), FLOAT_W[m.group(1)]))
            returned = True
            continue
        m = re.fullmatch(r"ret (i\d+) (\S+)", s)
        if m:
            out.append("  ret %s" % opnd(m.group(2), ity(m.group(1))))
            returned = True
            continue
        raise Unsupported("instruction: " + s)
    if not returned:
        raise Unsupported("no ret")
    return "def %s %s : M (BitVec %d) := do\n%s\n" % (lean_name, " ".join(sig), rw, "\n".join(out))


# --------------------------------------------------------------------------- index-check subset (C03)
SLICE_T = '%"github.com/goplus/llgo/runtime/internal/runtime.Slice"'
STRING_T = '%"github.com/goplus/llgo/runtime/internal/runtime.String"'


def translate_index_function(name, lean_name, ret, params, body, hdr_fields):
    """Functions of the form `return <indexable>[i]`.  Memory is abstracted: the slice/string header fields are the
    Lean parameters `len` (and `cap`), pointers are opaque tokens, and the function's result is the INDEX handed to the
    final getelementptr whose loaded value is returned.  hdr_fields: names of header params to expose, e.g. ["len"]."""
    env = {}        # reg -> (lean expr, width)   integers
    ptrs = {}       # reg -> token                 opaque pointers
    structs = {}    # reg -> {field index: reg-like value}   loaded aggregate values
    cells = {}      # alloca reg -> {field: value}          local aggregate being assembled
    fieldptr = {}   # reg -> (alloca reg, field)
    geps = {}       # reg -> (base token, index expr, width)
    loads = {}      # reg -> gep reg
    sig = ["(len : BitVec 64)"] if "len" in hdr_fields else []
    k = 0
    pending_string = None
    for (ty, reg) in params:
        if ty.startswith("ptr byval(" + SLICE_T):
            structs["byval:" + reg] = {0: ("ptr", "data"), 1: ("int", "(some len)", 64), 2: ("int", "(some cap)", 64)}
            ptrs[reg] = "byval:" + reg
        elif ty == "ptr":
            ptrs[reg] = "p" + reg[1:]
        else:
            w = ity(ty)
            env[reg] = ("(some a%d)" % k, w)
            sig.append("(a%d : BitVec %d)" % (k, w))
            k += 1
    string_len_reg = None
    if hdr_fields == ["strlen"]:
        # (ptr %0, i64 %1, <index>): %1 is the string length -> rename the first integer param to `len`
        first_int = [reg for (ty, reg) in params if ty != "ptr" and not ty.startswith("ptr ")][0]
        env[first_int] = ("(some len)", 64)
        sig = ["(len : BitVec 64)"] + ["(a%d : BitVec %d)" % (j, w) for j, (e, w) in enumerate([]) ]
        sig = ["(len : BitVec 64)"]
        k = 0
        for (ty, reg) in params:
            if ty == "ptr" or ty.startswith("ptr ") or reg == first_int:
                continue
            w = ity(ty)
            env[reg] = ("(some a%d)" % k, w)
            sig.append("(a%d : BitVec %d)" % (k, w))
            k += 1

    def opnd(tok, w):
        tok = tok.rstrip(",")
        if tok in env:
            e, w2 = env[tok]
            if w2 != w:
                raise Unsupported("width mismatch on " + tok)
            return e
        if re.fullmatch(r"-?\d+", tok):
            return "(some (BitVec.ofInt %d (%s)))" % (w, tok)
        if tok == "true":
            return "(some (BitVec.ofInt 1 1))"
        if tok == "false":
            return "(some (BitVec.ofInt 1 0))"
        raise Unsupported("operand " + tok)

    out = []
    returned = False
    blocks = 0
    for line in body:
        s = line.split(";")[0].strip()
        if not s:
            continue
        if s.endswith(":"):
            blocks += 1
            if blocks > 1:
                raise Unsupported("more than one basic block")
            continue
        if returned:
            raise Unsupported("instruction after ret")
        m = re.fullmatch(r"(%\d+) = alloca (\{ ptr, i64 \}|@T@), align \d+".replace("@T@", re.escape(STRING_T)), s)
        if m:
            cells[m.group(1)] = {}
            continue
        m = re.fullmatch(r"(%\d+) = getelementptr inbounds \{ ptr, i64 \}, ptr (%\d+), i32 0, i32 (\d+)", s)
        if m and m.group(2) in cells:
            fieldptr[m.group(1)] = (m.group(2), int(m.group(3)))
            continue
        m = re.fullmatch(r"store (ptr|i64) (%\d+), ptr (%\d+), align \d+", s)
        if m and m.group(3) in fieldptr:
            cell, f = fieldptr[m.group(3)]
            if m.group(1) == "ptr":
                cells[cell][f] = ("ptr", ptrs.get(m.group(2), "p?"))
            else:
                cells[cell][f] = ("int",) + env[m.group(2)]
            continue
        m = re.fullmatch(r"(%\d+) = load (@S@|@T@), ptr (%\d+), align \d+".replace("@S@", re.escape(SLICE_T)).replace("@T@", re.escape(STRING_T)), s)
        if m:
            src = m.group(3)
            if src in cells:
                structs[m.group(1)] = dict(cells[src])
            elif src in ptrs and ptrs[src].startswith("byval:"):
                structs[m.group(1)] = structs[ptrs[src]]
            else:
                raise Unsupported("aggregate load from unknown pointer: " + s)
            continue
        m = re.fullmatch(r"(%\d+) = extractvalue (?:@S@|@T@) (%\d+), (\d+)".replace("@S@", re.escape(SLICE_T)).replace("@T@", re.escape(STRING_T)), s)
        if m:
            fv = structs[m.group(2)].get(int(m.group(3)))
            if fv is None:
                raise Unsupported("extractvalue of unset field: " + s)
            if fv[0] == "ptr":
                ptrs[m.group(1)] = fv[1]
            else:
                env[m.group(1)] = (fv[1], fv[2])
            continue
        m = re.fullmatch(r"(%\d+) = getelementptr inbounds (i\d+), ptr (%\d+), (i\d+) (\S+)", s)
        if m:
            if m.group(3) not in ptrs:
                raise Unsupported("gep on unknown pointer: " + s)
            w = ity(m.group(4))
            geps[m.group(1)] = (ptrs[m.group(3)], opnd(m.group(5), w), w)
            continue
        m = re.fullmatch(r"(%\d+) = load (i\d+), ptr (%\d+), align \d+", s)
        if m and m.group(3) in geps:
            loads[m.group(1)] = m.group(3)
            continue
        m = re.fullmatch(r"(%\d+) = (or|and) i1 (\S+), (\S+)", s)
        if m:
            env[m.group(1)] = ("v" + m.group(1)[1:], 1)
            out.append("  let v%s := %s %s %s" % (m.group(1)[1:], "LLVM." + m.group(2), opnd(m.group(3), 1), opnd(m.group(4), 1)))
            continue
        m = re.fullmatch(r"(%\d+) = icmp (\w+) (i\d+) (\S+), (\S+)", s)
        if m:
            w = ity(m.group(3))
            env[m.group(1)] = ("v" + m.group(1)[1:], 1)
            out.append("  let v%s := icmp .%s %s %s" % (m.group(1)[1:], m.group(2), opnd(m.group(4), w), opnd(m.group(5), w)))
            continue
        m = re.fullmatch(r"(%\d+) = (trunc|zext|sext) (i\d+) (\S+) to (i\d+)", s)
        if m:
            w1, w2 = ity(m.group(3)), ity(m.group(5))
            env[m.group(1)] = ("v" + m.group(1)[1:], w2)
            out.append("  let v%s := %s %d %s" % (m.group(1)[1:], CASTS[m.group(2)], w2, opnd(m.group(4), w1)))
            continue
        m = re.fullmatch(r'call void @"([^"]+)"\(i1 (\S+)\)', s)
        if m and m.group(1) in ASSERTS:
            out.append("  assert %s %s" % (ASSERTS[m.group(1)], opnd(m.group(2), 1)))
            continue
        m = re.fullmatch(r"ret (i\d+) (%\d+)", s)
        if m and m.group(2) in loads:
            base, idx, w = geps[loads[m.group(2)]]
            if w != 64:
                raise Unsupported("gep index is not i64")
            out.append("  ret %s" % idx)
            returned = True
            continue
        raise Unsupported("instruction: " + s)
    if not returned:
        raise Unsupported("no ret of a loaded element")
    return "def %s %s : M (BitVec 64) := do\n%s\n" % (lean_name, " ".join(sig), "\n".join(out))
