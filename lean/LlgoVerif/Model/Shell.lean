import LlgoVerif.Model.Utf8
/-!
Models for C17:
* `internal/shellparse.Parse` over code points (`[]rune(cmd)`),
* `xtool/safesplit.SplitPkgConfigFlags` over characters (the byte tests of the Go loop only
  look for ASCII bytes, which in valid UTF-8 are exactly the ASCII characters; the driver
  feeds invalid UTF-8 to the spec checker only),
* `internal/buildtags.parseBuildTags`,
* `internal/env.ExpandEnvWithDefault` (with the map iteration order as an explicit parameter).
-/
namespace LlgoVerif.Shell

/-! ## unicode.IsSpace -/

def isSpace (c : Char) : Bool :=
  let n := c.toNat
  n = 0x20 || (0x09 ≤ n && n ≤ 0x0D) || n = 0x85 || n = 0xA0 || n = 0x1680 ||
  (0x2000 ≤ n && n ≤ 0x200A) || n = 0x2028 || n = 0x2029 || n = 0x202F || n = 0x205F || n = 0x3000

/-! ## shellparse.Parse -/

structure St where
  args : List (List Char) := []
  cur  : List Char := []        -- reversed
  inQ  : Bool := false
  q    : Char := ' '            -- only consulted while `inQ`
  has  : Bool := false

/-- one iteration of the `for` loop; the `Bool` says "i++ once more" (escape consumed two runes) -/
def step (s : St) (r : Char) (next : Option Char) : St × Bool :=
  if !s.inQ && (r = '"' || r = '\'') then ({ s with inQ := true, q := r, has := true }, false)
  else if s.inQ && r = s.q then ({ s with inQ := false, q := ' ' }, false)
  else if !s.inQ && isSpace r then
    if s.has then ({ s with args := s.args ++ [s.cur.reverse], cur := [], has := false }, false)
    else (s, false)
  else if s.inQ && r = '\\' && next.isSome then
    if s.q = '"' then
      match next with
      | some n => if n = s.q || n = '\\' then ({ s with cur := n :: s.cur }, true)
                  else ({ s with cur := r :: s.cur }, false)
      | none => (s, false)
    else ({ s with cur := r :: s.cur }, false)
  else ({ s with cur := r :: s.cur, has := true }, false)

def run (s : St) (l : List Char) : St :=
  match l with
  | [] => s
  | r :: rest =>
    let p := step s r rest.head?
    run p.1 (if p.2 then rest.tail else rest)
termination_by l.length
decreasing_by
  all_goals simp_wf
  all_goals (split <;> simp [List.length_tail] <;> omega)

theorem run_nil (s : St) : run s [] = s := by rw [run]
theorem run_cons (s : St) (r : Char) (rest : List Char) :
    run s (r :: rest) = run (step s r rest.head?).1 (if (step s r rest.head?).2 then rest.tail else rest) := by
  rw [run]

/-- `Parse`: `.error ()` is "unterminated quote" -/
def parse (cmd : List Char) : Except Unit (List (List Char)) :=
  let s := run {} cmd
  if s.inQ then .error () else
  .ok (if s.has then s.args ++ [s.cur.reverse] else s.args)

/-! The documented quoting: wrap in double quotes, escape `"` and `\`. -/

def esc : List Char → List Char
  | [] => []
  | c :: cs => if c = '"' || c = '\\' then '\\' :: c :: esc cs else c :: esc cs

def quote1 (a : List Char) : List Char := '"' :: (esc a ++ ['"'])

def join : List (List Char) → List Char
  | [] => []
  | [a] => quote1 a
  | a :: b :: as => quote1 a ++ ' ' :: join (b :: as)

/-- single-quote form: usable for arguments without a single quote -/
def squote1 (a : List Char) : List Char := '\'' :: (a ++ ['\''])

def sjoin : List (List Char) → List Char
  | [] => []
  | [a] => squote1 a
  | a :: b :: as => squote1 a ++ ' ' :: sjoin (b :: as)

/-! ## safesplit.SplitPkgConfigFlags

Over **bytes** (`Nat < 256`), as the Go loop indexes the string bytewise: the flag "character"
after `-` is one byte.  `strings.TrimSpace` is rendered as "strip white-space runes at both ends
of the forward UTF-8 segmentation" (invalid bytes are one-byte segments that are not space). -/

abbrev Byte := Nat
def bSP : Byte := 32
def bTAB : Byte := 9
def bDASH : Byte := 45
def bBS : Byte := 92

def isBlank (c : Byte) : Bool := c = 32 || c = 9

def skipSp : List Byte → List Byte
  | [] => []
  | c :: cs => if isBlank c then skipSp cs else c :: cs

theorem skipSp_length (l : List Byte) : (skipSp l).length ≤ l.length := by
  induction l with
  | nil => simp [skipSp]
  | cons c cs ih => unfold skipSp; split <;> simp <;> omega

/-- the inner "read content" loop; `cur` reversed. Returns `(cur, rest)` where `rest` is either
    empty or starts at the `-` of the next flag. -/
def readContent (cur : List Byte) (l : List Byte) : List Byte × List Byte :=
  match l with
  | [] => (cur, [])
  | c :: rest =>
    if c = 92 then
      match rest with
      | n :: rest' => if isBlank n then readContent (n :: cur) rest' else readContent (c :: cur) (n :: rest')
      | [] => (c :: cur, [])
    else if isBlank c then
      if (skipSp rest).head? = some 45 then (cur, skipSp rest)
      else readContent (32 :: cur) (skipSp rest)
    else readContent (c :: cur) rest
termination_by l.length
decreasing_by
  · simp_wf; omega
  · simp_wf
  · simp_wf; have := skipSp_length rest; omega
  · simp_wf

def isSpaceRune (n : Nat) : Bool :=
  n = 0x20 || (0x09 ≤ n && n ≤ 0x0D) || n = 0x85 || n = 0xA0 || n = 0x1680 ||
  (0x2000 ≤ n && n ≤ 0x200A) || n = 0x2028 || n = 0x2029 || n = 0x202F || n = 0x205F || n = 0x3000

/-- forward UTF-8 segmentation: `(rune, its bytes)` -/
def segmentsAux : Nat → List Byte → List (Nat × List Byte)
  | 0, _ => []
  | _, [] => []
  | fuel+1, b :: bs =>
    let p := Utf8.nextRune (b :: bs)
    (p.1, (b :: bs).take p.2) :: segmentsAux fuel ((b :: bs).drop p.2)

def segments (l : List Byte) : List (Nat × List Byte) := segmentsAux l.length l

/-- `strings.TrimSpace` -/
def trimSpace (l : List Byte) : List Byte :=
  ((((segments l).dropWhile (fun s => isSpaceRune s.1)).reverse.dropWhile (fun s => isSpaceRune s.1)).reverse).flatMap (·.2)

theorem readContent_length (cur l : List Byte) : (readContent cur l).2.length ≤ l.length := by
  induction h : l.length using Nat.strongRecOn generalizing cur l with
  | _ n ih =>
    subst h
    cases l with
    | nil => simp [readContent]
    | cons c rest =>
      rw [readContent.eq_def]
      simp only
      split
      · split
        · rename_i n rest'
          split
          · have := ih rest'.length (by simp; omega) (n :: cur) rest' rfl
            simp at *; omega
          · have := ih (n :: rest').length (by simp) (c :: cur) (n :: rest') rfl
            simp at *; omega
        · simp
      · have hs := skipSp_length rest
        split
        · split
          · simp; omega
          · have := ih (skipSp rest).length (by simp; omega) (32 :: cur) (skipSp rest) rfl
            simp at *; omega
        · have := ih rest.length (by simp) (c :: cur) rest rfl
          simp at *; omega

/-- the outer loop, entered with `i < len(s)`; `cur` (reversed) is the part built so far -/
def flagsLoop (acc : List (List Byte)) (cur : List Byte) (l : List Byte) : List (List Byte) :=
  match l with
  | [] => if cur.isEmpty then acc else acc ++ [trimSpace cur.reverse]
  | _ :: l1 =>
    let acc := if cur.isEmpty then acc else acc ++ [trimSpace cur.reverse]
    match l1 with
    | [] => acc ++ [trimSpace [45]]
    | c :: l2 =>
      if (skipSp l2).head? = some 45 then flagsLoop acc [c, 45] (skipSp l2)
      else flagsLoop acc (readContent [c, 45] (skipSp l2)).1 (readContent [c, 45] (skipSp l2)).2
termination_by l.length
decreasing_by
  · simp_wf; have := skipSp_length l2; omega
  · simp_wf
    have := skipSp_length l2
    have := readContent_length [c, 45] (skipSp l2)
    omega

def splitFlags (s : List Byte) : List (List Byte) := flagsLoop [] [] (skipSp s)

/-- escape blanks in a flag's content the way the function's doc comment describes -/
def escBlank : List Byte → List Byte
  | [] => []
  | c :: cs => if isBlank c then 92 :: c :: escBlank cs else c :: escBlank cs

/-! the documented flag-string form: `-` flag-byte content, blanks in the content escaped, flags joined by one blank -/

structure Flag where
  c : Byte
  content : List Byte
deriving DecidableEq, Repr

def Flag.bytes (f : Flag) : List Byte := 45 :: f.c :: f.content
def Flag.render (f : Flag) : List Byte := 45 :: f.c :: escBlank f.content

def joinFlags : List Flag → List Byte
  | [] => []
  | [f] => f.render
  | f :: g :: fs => f.render ++ 32 :: joinFlags (g :: fs)

/-- the decidable well-formedness predicate of the round-trip law -/
def Flag.WF (f : Flag) : Prop :=
  f.content.head? ≠ some 45 ∧ f.content.getLast? ≠ some 92 ∧ trimSpace f.bytes = f.bytes

instance (f : Flag) : Decidable f.WF := by unfold Flag.WF; infer_instance

/-! ## buildtags.parseBuildTags -/

def isTagSep (c : Char) : Bool := c = ',' || c = ' '

/-- `strings.FieldsFunc(s, isTagSep)` -/
def fieldsAux (cur : List Char) : List Char → List (List Char)
  | [] => if cur.isEmpty then [] else [cur.reverse]
  | c :: cs =>
    if isTagSep c then
      (if cur.isEmpty then fieldsAux [] cs else cur.reverse :: fieldsAux [] cs)
    else fieldsAux (c :: cur) cs

def fieldsTags (s : List Char) : List (List Char) := fieldsAux [] s

def tagsPrefix : List Char := "-tags=".toList

def collectTags : List (List Char) → List (List Char)
  | [] => []
  | f :: rest =>
    if f = "-tags".toList then
      match rest with
      | v :: rest' => fieldsTags v ++ collectTags rest'
      | [] => []
    else if tagsPrefix.isPrefixOf f then fieldsTags (f.drop 6) ++ collectTags rest
    else collectTags rest

def dedup : List (List Char) → List (List Char) → List (List Char)
  | _, [] => []
  | seen, t :: ts => if seen.contains t then dedup seen ts else t :: dedup (t :: seen) ts

def parseBuildTags (flags : List (List Char)) : List (List Char) := dedup [] (collectTags flags)

/-! ### internal/clang: the argument vector handed to the compiler / linker

`Cmd.Compile(args…)` runs `app (split $CCFLAGS) (split $CFLAGS) cfg.CCFLAGS cfg.CFLAGS args`, `Cmd.Link(args…)` runs
`app (split $CCFLAGS) (split $LDFLAGS) cfg.LDFLAGS args`; an unset or empty variable contributes nothing; nothing is
removed, reordered or de-duplicated. -/

def envFlags (v : List Byte) : List (List Byte) := if v.isEmpty then [] else splitFlags v

def compileArgv (envCC envC : List Byte) (cfgCC cfgC args : List (List Byte)) : List (List Byte) :=
  envFlags envCC ++ envFlags envC ++ cfgCC ++ cfgC ++ args

def linkArgv (envCC envLD : List Byte) (cfgLD args : List (List Byte)) : List (List Byte) :=
  envFlags envCC ++ envFlags envLD ++ cfgLD ++ args

/-! ### `CheckTags`: which `// +build` expressions hold under the tags of the command line

`buildtags.CheckTags` writes one virtual file `// +build <expr>` per requested expression and asks `go/build`'s
`MatchFile`.  go/build is not llgo code; its evaluation of an old-style constraint line (`constraint.parsePlusBuildExpr`
+ `Context.matchTag`) is modelled here so that the WHOLE function has a model: blank-separated options are OR-ed,
comma-separated terms AND-ed, `!` negates, a malformed term stands for the tag `ignore`. -/

def isValidTagChar (c : Char) : Bool := c.isAlphanum || c = '_' || c = '.'
def isValidTag (l : List Char) : Bool := !l.isEmpty && l.all isValidTagChar

def ignoreTag : List Char := "ignore".toList

/-- one term of a clause -/
def evalLit (has : List Char → Bool) (lit : List Char) : Bool :=
  match lit with
  | ['!'] => has ignoreTag
  | '!' :: '!' :: _ => has ignoreTag
  | '!' :: rest => !(if isValidTag rest then has rest else has ignoreTag)
  | _ => if isValidTag lit then has lit else has ignoreTag

/-- `strings.Split(s, ",")` -/
def splitComma (cur : List Char) : List Char → List (List Char)
  | [] => [cur.reverse]
  | c :: rest => if c = ',' then cur.reverse :: splitComma [] rest else splitComma (c :: cur) rest

def evalClause (has : List Char → Bool) (clause : List Char) : Bool := (splitComma [] clause).all (evalLit has)

def isBlankChar (c : Char) : Bool := c = ' ' || c = '\t'
/-- `strings.Fields` on the alphabet of the generator (blank and tab) -/
def blankFields (cur : List Char) : List Char → List (List Char)
  | [] => if cur.isEmpty then [] else [cur.reverse]
  | c :: rest => if isBlankChar c then (if cur.isEmpty then blankFields [] rest else cur.reverse :: blankFields [] rest)
                 else blankFields (c :: cur) rest

def evalPlusBuild (has : List Char → Bool) (expr : List Char) : Bool :=
  match blankFields [] expr with
  | [] => has ignoreTag
  | cs => cs.any (evalClause has)

/-- tags that hold without being named on the command line (linux/amd64 host, gc toolchain) -/
def implicitTags : List (List Char) := ["linux".toList, "amd64".toList, "gc".toList, "unix".toList]

def hasTag (flags : List (List Char)) (t : List Char) : Bool :=
  (parseBuildTags flags).contains t || implicitTags.contains t

/-- `CheckTags(flags, m)`: every expression that holds is set to true; nothing is ever reset -/
def checkTags (flags : List (List Char)) (m : List (List Char × Bool)) : List (List Char × Bool) :=
  m.map fun (e, v) => (e, v || evalPlusBuild (hasTag flags) e)

/-! ## env.ExpandEnvWithDefault -/

/-- `strings.ReplaceAll(s, old, new)` for non-empty `old` -/
def replaceAll (old new : List Char) (s : List Char) : List Char :=
  if old.isEmpty then s else
  let rec go (fuel : Nat) (s : List Char) : List Char :=
    match fuel, s with
    | 0, s => s
    | _, [] => []
    | fuel+1, c :: cs =>
      if old.isPrefixOf (c :: cs) then new ++ go fuel ((c :: cs).drop old.length)
      else c :: go fuel cs
  go (s.length + 1) s

/-- `ExpandEnvWithDefault(template, envs, default)` where `envs` is listed in the order the Go map
    iteration happens to visit it -/
def expandTemplate (template : List Char) (envs : List (List Char × List Char)) (dflt : List Char) : List Char :=
  if template.isEmpty then [] else
  let r := replaceAll ['{', '}'] dflt template
  envs.foldl (fun acc kv => if kv.1.isEmpty then acc else replaceAll ('{' :: kv.1 ++ ['}']) kv.2 acc) r


/-! ## xtool/env: `$(pkg-config …)` and `$VAR` expansion in link directives

`expandEnvWithCmd`: first every leftmost `\$\([^)]+\)` match is replaced by the output of the sub-command
(only `pkg-config` / `llvm-config`; words split on blank, tab, newline; output trimmed, newlines → blanks; a
failing or foreign command yields ""), then `os.Expand` substitutes `$NAME` / `${NAME}` from the environment, then
`strings.TrimSpace`.  The sub-command and the environment are PARAMETERS (`cmdOut`, `env`).
Over characters (valid UTF-8 templates; all delimiters are ASCII). -/

def isWordSep (c : Char) : Bool := c = ' ' || c = '\t' || c = '\n'

/-- `reFlag.FindAllString(s, -1)` with `[^ \t\n]+` -/
def wordsAux (cur : List Char) : List Char → List (List Char)
  | [] => if cur.isEmpty then [] else [cur.reverse]
  | c :: cs =>
    if isWordSep c then (if cur.isEmpty then wordsAux [] cs else cur.reverse :: wordsAux [] cs)
    else wordsAux (c :: cur) cs

def words (s : List Char) : List (List Char) := wordsAux [] s

def trimChars (l : List Char) : List Char :=
  ((l.dropWhile isSpace).reverse.dropWhile isSpace).reverse

/-- what one `$(…)` match is replaced with; `none` = the Go code panics (`args[0]` on an empty word list) -/
def subcmdValue (cmdOut : List (List Char) → Option (List Char)) (inner : List Char) : Option (List Char × Bool) :=
  match words (trimChars inner) with
  | [] => none
  | cmd :: args =>
    if cmd ≠ "pkg-config".toList && cmd ≠ "llvm-config".toList then some ([], false)
    else match cmdOut (cmd :: args) with
      | none => some ([], true)
      | some out => some ((trimChars out).map (fun c => if c = '\n' then ' ' else c), true)

/-- scan for the `)` closing a `$(`: returns (inner, rest after `)`) when inner is non-empty -/
def splitParen : List Char → Option (List Char × List Char)
  | [] => none
  | c :: cs =>
    if c = ')' then some ([], cs)
    else match splitParen cs with
      | some (inner, rest) => some (c :: inner, rest)
      | none => none

/-- the `ReplaceAllStringFunc` pass; result `(text, sawConfigCommand)`, `none` = panic -/
def replaceSubcmds (cmdOut : List (List Char) → Option (List Char)) : Nat → List Char → Option (List Char × Bool)
  | 0, s => some (s, false)
  | _, [] => some ([], false)
  | fuel+1, c :: cs =>
    let plain := (replaceSubcmds cmdOut fuel cs).map (fun p => (c :: p.1, p.2))
    if c = '$' then
      match cs with
      | '(' :: body =>
        match splitParen body with
        | some (inner, rest) =>
          if inner.isEmpty then plain
          else match subcmdValue cmdOut inner, replaceSubcmds cmdOut fuel rest with
            | some (v, cfg), some (t, cfg') => some (v ++ t, cfg || cfg')
            | _, _ => none
        | none => plain
      | _ => plain
    else plain

def isAlnumU (c : Char) : Bool :=
  c = '_' || ('0' ≤ c && c ≤ '9') || ('a' ≤ c && c ≤ 'z') || ('A' ≤ c && c ≤ 'Z')

def isShellSpecial (c : Char) : Bool :=
  c = '*' || c = '#' || c = '$' || c = '@' || c = '!' || c = '?' || c = '-' || ('0' ≤ c && c ≤ '9')

/-- `os.getShellName`: (name, bytes consumed) for the text after a `$` -/
def shellName (s : List Char) : List Char × Nat :=
  match s with
  | [] => ([], 0)
  | '{' :: rest =>
    match rest with
    | c :: '}' :: _ => if isShellSpecial c then ([c], 3) else
        (match rest.idxOf? '}' with
         | some i => if i = 0 then ([], 2) else (rest.take i, i + 2)
         | none => ([], 1))
    | _ =>
      match rest.idxOf? '}' with
      | some i => if i = 0 then ([], 2) else (rest.take i, i + 2)
      | none => ([], 1)
  | c :: _ =>
    if isShellSpecial c then ([c], 1)
    else let n := s.takeWhile isAlnumU; (n, n.length)

/-- `os.Expand(s, env)` -/
def osExpand (env : List Char → List Char) : Nat → List Char → List Char
  | 0, s => s
  | _, [] => []
  | fuel+1, c :: cs =>
    if c = '$' && !cs.isEmpty then
      let p := shellName cs
      if p.1.isEmpty && p.2 > 0 then osExpand env fuel (cs.drop p.2)          -- bad syntax: eaten
      else if p.1.isEmpty then '$' :: osExpand env fuel cs                    -- lone `$`
      else env p.1 ++ osExpand env fuel (cs.drop p.2)
    else c :: osExpand env fuel cs

/-- `expandEnvWithCmd` -/
def expandEnvWithCmd (cmdOut : List (List Char) → Option (List Char)) (env : List Char → List Char)
    (s : List Char) : Option (List Char × Bool) :=
  match replaceSubcmds cmdOut (s.length + 1) s with
  | none => none
  | some (t, cfg) => some (trimChars (osExpand env (t.length + 1) t), cfg)

end LlgoVerif.Shell
