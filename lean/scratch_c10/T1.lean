import LlgoVerif.Lemmas.Chan
open LlgoVerif.Chan

def s0 := init [0] [[.recv 0], [.recv 0], [.send 0 42]]
def sched : List Choice := [.step 0, .step 0, .step 0, .step 2, .step 2, .step 1, .step 1, .step 1, .step 0]

example : (runSched s0 sched).map noneRunnable = some true := by decide
