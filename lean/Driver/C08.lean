import LlgoVerif.Util
import LlgoVerif.Model.Layout
/-! Line-protocol driver for C08.

    `q  <target> <term>`        → `a=<size>,<align>,<offs> b=<size>,<align>,<offs> c=<size>,<align>,<fieldalign>,<ptrbytes>,<offs>`
    `set align-table fixed|orig`, `set func-words 1|2` → `ok`; select the variant of the descriptor code used by `q`/`mb`
    every `q`/`mb` answer ends with ` e=<size>,<align>` = the descriptor referenced for an element of that type
    `mb <target> <key> <elem>`  → `md=<KeySize>,<ValueSize>,<BucketSize>,<Flags&3> kb=<size>,<align> eb=<size>,<align> ks=<n> es=<n> bs=<n> a=… b=… c=…`
                                  (emitted map descriptor; key/elem in LLVM; abi sizes; the three computations on the bucket struct)
    `cl <target> <term>`        → `c=<size>,<align>,<offs>` (natural C layout) or `notc`
    `pf <target> <term>`        → `<padFree t> <padFree (toRaw t)>`
    `tg <target>`               → the target record

    target ∈ amd64 | arm64 | 386 | arm | wasm | custom:<ptr>,<gc 0/1>,<word>,<maxalign>,<i8>,<i16>,<i32>,<i64>,<f32>,<f64>,<ptr>
    term: b i8 i16 i32 i64 u8 u16 u32 u64 i u up f32 f64 c64 c128 str usp | F | F1 | E | I | P(t) S(t) C(t) N(t)
          | A(n,t) | M(k,v) | T(t,…) | B(t) = blank `_` field of a struct | L(t) = alias    (same grammar as harness/c08/main.go)
    <offs> = `-` non-struct, `.` struct without fields, else o1:o2:… -/
open LlgoVerif LlgoVerif.Util LlgoVerif.Layout

def basicOf : String → Option Basic
  | "b" => some .bool | "i8" => some .int8 | "i16" => some .int16 | "i32" => some .int32 | "i64" => some .int64
  | "u8" => some .uint8 | "u16" => some .uint16 | "u32" => some .uint32 | "u64" => some .uint64
  | "i" => some .int | "u" => some .uint | "up" => some .uintptr | "f32" => some .float32 | "f64" => some .float64
  | "c64" => some .complex64 | "c128" => some .complex128 | "str" => some .string | "usp" => some .unsafePointer
  | _ => none

def isIdChar (c : Char) : Bool := c.isAlphanum

def takeIdent (cs : List Char) : List Char × List Char := (cs.takeWhile isIdChar, cs.dropWhile isIdChar)

def expectC (c : Char) : List Char → Option (List Char)
  | d :: r => if c = d then some r else none
  | [] => none

def stripAlias : GoType → GoType
  | .alias t => stripAlias t
  | t => t

mutual
partial def pTerm (cs : List Char) : Option (GoType × List Char) :=
  let (idc, r) := takeIdent cs
  let id := String.ofList idc
  match basicOf id with
  | some b => some (.basic b, r)
  | none =>
    match id with
    | "F" => some (.func, r)
    | "F1" => some (.func, r)
    | "E" => some (.iface true, r)
    | "I" => some (.iface false, r)
    | "P" => do let r ← expectC '(' r; let (e, r) ← pTerm r; let r ← expectC ')' r; pure (.pointer e, r)
    | "S" => do let r ← expectC '(' r; let (e, r) ← pTerm r; let r ← expectC ')' r; pure (.slice e, r)
    | "C" => do let r ← expectC '(' r; let (e, r) ← pTerm r; let r ← expectC ')' r; pure (.chan e, r)
    | "N" => do
      let r ← expectC '(' r; let (e, r) ← pTerm r; let r ← expectC ')' r
      pure (.named (stripAlias e), r)      -- the underlying type of a defined type is never an alias
    | "L" => do let r ← expectC '(' r; let (e, r) ← pTerm r; let r ← expectC ')' r; pure (.alias e, r)
    | "B" => do let r ← expectC '(' r; let (e, r) ← pTerm r; let r ← expectC ')' r; pure (e, r)   -- blank `_` field: names play no role in the model
    | "A" => do
      let r ← expectC '(' r
      let (nc, r) := takeIdent r
      let n ← (String.ofList nc).toNat?
      let r ← expectC ',' r
      let (e, r) ← pTerm r
      let r ← expectC ')' r
      pure (.array n e, r)
    | "M" => do
      let r ← expectC '(' r
      let (k, r) ← pTerm r
      let r ← expectC ',' r
      let (v, r) ← pTerm r
      let r ← expectC ')' r
      pure (.map k v, r)
    | "T" => do
      let r ← expectC '(' r
      match r with
      | ')' :: r => pure (.struct .nil, r)
      | _ =>
        let (fs, r) ← pFields r
        pure (.struct fs, r)
    | _ => none
partial def pFields (cs : List Char) : Option (Fields × List Char) := do
  let (t, r) ← pTerm cs
  match r with
  | ',' :: r => let (fs, r) ← pFields r; pure (.cons t fs, r)
  | ')' :: r => pure (.cons t .nil, r)
  | _ => none
end

def parseTerm (s : String) : Option GoType :=
  match pTerm s.toList with
  | some (t, []) => some t
  | _ => none

/-- target record and the psABI's largest scalar alignment for the C layout -/
def parseTarget (s : String) : Option Target :=
  match s with
  | "amd64" => some amd64 | "arm64" => some arm64 | "386" => some i386 | "arm" => some arm | "wasm" => some wasm
  | _ =>
    if s.startsWith "custom:" then
      match ((s.drop 7).toString.splitOn ",").mapM String.toNat? with
      | some [p, gc, w, m, a8, a16, a32, a64, f32, f64, ap] => some ⟨p, gc != 0, w, m, a8, a16, a32, a64, f32, f64, ap⟩
      | _ => none
    else none

def cmaxOf (s : String) : Nat := if s = "386" then 4 else 8

def offsStr (isS : Bool) (o : List Nat) : String :=
  if !isS then "-" else if o.isEmpty then "." else ":".intercalate (o.map toString)

def layStr (isS : Bool) (l : Layout) : String := s!"{l.size},{l.align},{offsStr isS l.offsets}"

/-- which variant of the descriptor code the working tree has: `fixedAlign` = alignment table of fixes/C08-1.diff,
    `fw` = words recorded for a function type (1; 2 with fixes/C08-2.diff) -/
structure Variant where
  fixedAlign : Bool := false
  fw : Nat := 1
  fixedPtrBytes : Bool := false

def three (v : Variant) (tg : Target) (t : GoType) : String :=
  let s := isStruct t
  let c := if v.fixedAlign then abiTableFixed tg t else abiTable tg t
  let ba := if v.fixedAlign then abiBasicAlignFixed tg else abiBasicAlign tg
  let ea := abiAlignG tg ba (publicType (toRaw t))
  s!"a={layStr s (goSizes tg t)} b={layStr s (llvmLayout tg t)} c={c.size},{c.align},{c.align},{ptrBytesG tg v.fixedPtrBytes (toRaw t)},{offsStr s c.offsets} e={elemDescSize tg v.fw t},{ea}"

def showTarget (t : Target) : String :=
  s!"ptr={t.ptrSize} gc={t.gcStyle} word={t.wordSize} maxalign={t.maxAlign} i8={t.llI8} i16={t.llI16} i32={t.llI32} i64={t.llI64} f32={t.llF32} f64={t.llF64} p={t.llPtr} wf={wfTarget t} abiok={abiOK t}"

def handle (v : Variant) (line : String) : Variant × String :=
  match fields line with
  | ["set", "align-table", x] => ({ v with fixedAlign := x == "fixed" }, "ok")
  | ["set", "func-words", x] => ({ v with fw := x.toNat?.getD 1 }, "ok")
  | ["set", "ptrbytes", x] => ({ v with fixedPtrBytes := x == "fixed" }, "ok")
  | ["q", tgs, ts] =>
    match parseTarget tgs, parseTerm ts with
    | some tg, some t => (v, three v tg t)
    | _, _ => (v, "bad-op")
  | ["mb", tgs, ks, vs] =>
    match parseTarget tgs, parseTerm ks, parseTerm vs with
    | some tg, some k, some e =>
      let (a, b, c) := mapSizes tg k e
      let kb := llSA tg (toRaw k)
      let eb := llSA tg (toRaw e)
      (v, s!"md={a},{b},{c},{mapFlags tg k e} kb={kb.1},{kb.2} eb={eb.1},{eb.2} ks={abiSize tg (toRaw k)} es={abiSize tg (toRaw e)} bs={c} "
            ++ three v tg (mapBucket tg (toRaw k) (toRaw e)))
    | _, _, _ => (v, "bad-op")
  | ["cl", tgs, ts] =>
    match parseTarget tgs, parseTerm ts with
    | some tg, some t => (v, if isC t then "c=" ++ layStr (isStruct t) (cLayout tg (cmaxOf tgs) t) else "notc")
    | _, _ => (v, "bad-op")
  | ["pf", tgs, ts] =>
    match parseTarget tgs, parseTerm ts with
    | some tg, some t => (v, s!"{padFree tg t} {padFree tg (toRaw t)}")
    | _, _ => (v, "bad-op")
  | ["ch", tgs, ts, ps] =>
    -- per-instance unsafe.Offsetof: path = i1[e|i].i2[e|i]…  (field index, selector written / inserted for promotion)
    let step (x : String) : Option (Nat × Bool) :=
      let cs := x.toList
      match cs.getLast? with
      | some 'e' => (String.ofList cs.dropLast).toNat?.map (·, true)
      | some 'i' => (String.ofList cs.dropLast).toNat?.map (·, false)
      | _ => none
    match parseTarget tgs, parseTerm ts, (ps.splitOn ".").mapM step with
    | some tg, some t, some path =>
      match genericOffsetof tg t path with
      | some n => (v, s!"ch={n}")
      | none => (v, "bad-path")
    | _, _, _ => (v, "bad-op")
  | ["tg", tgs] =>
    match parseTarget tgs with
    | some tg => (v, showTarget tg)
    | none => (v, "bad-op")
  | _ => (v, "bad-op")

def main : IO Unit := lineLoopSt ({} : Variant) handle
