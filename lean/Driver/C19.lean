import LlgoVerif.Util
import LlgoVerif.Model.PyGuard
import LlgoVerif.Model.PySyms
import LlgoVerif.Model.PyCache
/-! Line-protocol driver for C19 (model: LlgoVerif/Model/PyGuard.lean). One request per line, one answer per line.

* `guard PROG IMP PRE ORDER CALLS` — run the guard state machine.
    PROG  = packages separated by `;`, each `imports|binds|initUses|uses|intrinsics|loads`
            (imports: `-` or `1,2`; binds: `-` or module number; uses: `-` or `c0.1,v2.0,e3`; intrinsics: 0/1;
             loads: `-` or `0.1,2.0` = the (module.name) pairs of llgoLoadPyModSyms in emission order)
    IMP   = `*` (every module importable) or `-` or `0,2`;  PRE = `-` or `0,1` (sys.modules at start-up)
    ORDER = `0,1,2` ; CALLS = `-` or `3:c0.1,4:e1`
  answer: `ok EVENTS` (`I` Py_Initialize, `i<p>.<m>` guarded import, `x<p>.<m>` user import, `B<m>` module body,
          `L<p>.<m>.<n>` symbol load, `C<p>.<m>.<n>` call, `V<p>.<m>.<n>` variable read) or `err …`
* `order PROG MAIN` — order of the `init` bodies for llgo's guarded depth-first initialiser
* `check PROG IMP ORDER CALLS` — the decidable hypotheses of `import_once_before_use`: `1`/`0`
* `loadsyms NAMES` — NAMES = `-` or comma-separated symbol-variable names (`__llgo_py.os.path.join,…`):
    the `llgoLoadPyModSyms` calls `Package.pyLoadModSyms` emits, in order: `ok MODVAR:attr=var,attr=var;MODVAR:…`
    (`ok .` = none), or `panic`
* `compile BODIES ROOTS` — BODIES = bodies separated by `;`, each `refs|spawns` (refs: `-` or names, spawns: `-` or
    body numbers); ROOTS = `-` or body numbers: the loads `NewPackageEx` leaves in `init` (same format), `nofuel`
* `cache HISTORY` — HISTORY = builds separated by `/`, each build = packages separated by `;`, each package
    `id,kind,isMain,fp,needRt,needPy,nlink` (kind `o` ordinary, `b` binding, `l` link:, `d` declarations only;
    nlink = number of link arguments): starting from an empty cache, per build
    `rt=<0/1> py=<0/1> hits=<id…> meta=<id:linkargs.rt.py | id:->…>` (meta: the metadata section stored for each
    non-main package of the build), builds joined by ` / `
* `call NPARAMS VARIADIC NARGS` — which C call `pyCall` emits for arguments 0…NARGS-1 and what the callee receives
* `seq N` — slots of `py.Tuple`/`py.List` built from arguments 0…N-1
* `val TOKENS…` — canonical dump of the Python object a Go value becomes
    value := `i D` int64 | `u D` uint64 | `I W D` intW (bit pattern D) | `U W D` uintW | `f BITS` | `s HEX` | `b HEX` bytes
           | `a HEX` bytearray | `T`/`F` | `l N v…` list | `t N v…` tuple | `d`=`f`, `S`=`Z`=`s`, `B`=`b` (the same
             objects reached through the compiler's PyVal / py.Str) | `L N v…` / `P N v…` (py.List / py.Tuple: `buildSeq`)
-/
open LlgoVerif LlgoVerif.Util LlgoVerif.PyGuard

def splitList (s : String) (sep : Char) : List String :=
  if s = "-" || s = "" then [] else s.splitOn (String.singleton sep)

def parseNats (s : String) : Option (List Nat) := (splitList s ',').mapM String.toNat?

def parseSym (s : String) : Option Sym :=
  match s.splitOn "." with
  | [a, b] => do pure ((← a.toNat?), (← b.toNat?))
  | _ => none

def parseUse (s : String) : Option Use :=
  match s.toList with
  | 'c' :: r => (parseSym (String.ofList r)).map Use.call
  | 'v' :: r => (parseSym (String.ofList r)).map Use.var
  | 'e' :: r => (String.ofList r).toNat?.map Use.explicitImport
  | _ => none

def parseUses (s : String) : Option (List Use) := (splitList s ',').mapM parseUse

def parsePkg (s : String) : Option Pkg :=
  match s.splitOn "|" with
  | [imps, b, iu, u, intr, lds] => do
    let imports ← parseNats imps
    let binds ← if b = "-" then some none else b.toNat?.map some
    let initUses ← parseUses iu
    let uses ← parseUses u
    let loads ← (splitList lds ',').mapM parseSym
    pure { imports, binds, initUses, uses, intrinsics := intr = "1", loads }
  | _ => none

def parseProg (s : String) : Option Prog := ((s.splitOn ";").mapM parsePkg).map ofList

def parseCalls (s : String) : Option (List (Nat × Use)) :=
  (splitList s ',').mapM fun c =>
    match c.splitOn ":" with
    | [p, u] => do pure ((← p.toNat?), (← parseUse u))
    | _ => none

def parseImp (s : String) : Option (Mod → Bool) :=
  if s = "*" then some (fun _ => true) else (parseNats s).map fun l m => l.contains m

def showSym (y : Sym) : String := s!"{y.1}.{y.2}"

def showEv : Ev → String
  | .pyInit => "I"
  | .importCall p m => s!"i{p}.{m}"
  | .explicitImport p m => s!"x{p}.{m}"
  | .modBody m => s!"B{m}"
  | .loadSym p y => s!"L{p}.{showSym y}"
  | .call p y => s!"C{p}.{showSym y}"
  | .getVar p y => s!"V{p}.{showSym y}"

def showErr : Err → String
  | .notInitialized => "err notinit"
  | .nilModule m => s!"err nilmod {m}"
  | .nilSym y => s!"err nilsym {showSym y}"

def joinSp (l : List String) : String := if l.isEmpty then "." else " ".intercalate l

/-! values -/

def hexOf (bs : List UInt8) : String := hex bs

partial def dump : PyObj → String
  | .long v => s!"i{v}"
  | .bool b => if b then "T" else "F"
  | .float bits => s!"f{bits.toNat}"
  | .str b => "s" ++ hexOf b
  | .bytes b => "b" ++ hexOf b
  | .bytearray b => "a" ++ hexOf b
  | .list l => "l[" ++ ",".intercalate (l.map dump) ++ "]"
  | .tuple l => "t(" ++ ",".intercalate (l.map dump) ++ ")"

/-- parse one value from the token list -/
def parseVal : Nat → List String → Option (PyObj × List String)
  | 0, _ => none
  | fuel+1, toks =>
    match toks with
    | "i" :: d :: r => d.toInt?.map fun v => (pyVal (.int 64 (BitVec.ofInt 64 v)), r)
    | "u" :: d :: r => d.toNat?.map fun v => (pyVal (.uint 64 (BitVec.ofNat 64 v)), r)
    | "I" :: w :: d :: r => do
      let w ← w.toNat?; let v ← d.toNat?
      pure (pyVal (.int w (BitVec.ofNat w v)), r)
    | "U" :: w :: d :: r => do
      let w ← w.toNat?; let v ← d.toNat?
      pure (pyVal (.uint w (BitVec.ofNat w v)), r)
    | "f" :: d :: r => d.toNat?.map fun v => (pyVal (.f64 (BitVec.ofNat 64 v)), r)
    | "d" :: d :: r => d.toNat?.map fun v => (pyVal (.f64 (BitVec.ofNat 64 v)), r)
    | "s" :: h :: r => (unhex h).map fun b => (pyVal (.str b), r)
    | "S" :: h :: r => (unhex h).map fun b => (pyVal (.str b), r)
    | "Z" :: h :: r => (unhex h).map fun b => (pyVal (.str b), r)
    | "b" :: h :: r => (unhex h).map fun b => (pyVal (.byteArray b), r)
    | "B" :: h :: r => (unhex h).map fun b => (pyVal (.byteArray b), r)
    | "a" :: h :: r => (unhex h).map fun b => (pyVal (.byteSlice b), r)
    | "T" :: r => some (pyVal (.bool true), r)
    | "F" :: r => some (pyVal (.bool false), r)
    | "l" :: n :: r => do
      let n ← n.toNat?
      let (items, r') ← parseSeq fuel n r
      pure (.list items, r')
    | "t" :: n :: r => do
      let n ← n.toNat?
      let (items, r') ← parseSeq fuel n r
      pure (.tuple items, r')
    | "L" :: n :: r => do
      let n ← n.toNat?
      let (items, r') ← parseSeq fuel n r
      pure (.list ((buildSeq id items).filterMap id), r')
    | "P" :: n :: r => do
      let n ← n.toNat?
      let (items, r') ← parseSeq fuel n r
      pure (.tuple ((buildSeq id items).filterMap id), r')
    | _ => none
where
  parseSeq (fuel : Nat) : Nat → List String → Option (List PyObj × List String)
    | 0, r => some ([], r)
    | n+1, r => do
      let (v, r1) ← parseVal fuel r
      let (vs, r2) ← parseSeq fuel n r1
      pure (v :: vs, r2)

/-! symbol loads, compile rounds, build cache -/

def showCalls (cs : List LoadCall) : String :=
  if cs.isEmpty then "." else
  ";".intercalate (cs.map fun c =>
    String.ofList c.modVar ++ ":" ++ ",".intercalate (c.pairs.map fun p => String.ofList p.1 ++ "=" ++ String.ofList p.2))

def parseNames (s : String) : List Name := (splitList s ',').map String.toList

def parseBody (s : String) : Option Body :=
  match s.splitOn "|" with
  | [r, sp] => (parseNats sp).map fun spawns => { pyRefs := parseNames r, spawns }
  | _ => none

def parseBKind (s : String) : Option BKind :=
  match s with
  | "o" => some .ordinary | "b" => some .binding | "l" => some .linkExtern | "d" => some .declOnly | _ => none

def parseBPkg (s : String) : Option BPkg :=
  match s.splitOn "," with
  | [id, k, m, fp, rt, py, nl] => do
    let id ← id.toNat?; let kind ← parseBKind k; let fp ← fp.toNat?; let nl ← nl.toNat?
    pure { id, kind, isMain := m = "1", fp, needRt := rt = "1", needPy := py = "1",
           extLinkArgs := (List.range nl).map (· + 1000 * id) }
  | _ => none

def b01 (b : Bool) : String := if b then "1" else "0"

def showMeta (c : Cache) (k : BPkg) : String :=
  match c.lookup (k.id, k.fp) with
  | none => s!"{k.id}:none"
  | some none => s!"{k.id}:-"
  | some (some m) => s!"{k.id}:{m.linkArgs.length}.{b01 m.needRt}.{b01 m.needPyInit}"

def runHistory (c : Cache) : List (List BPkg) → List String
  | [] => []
  | p :: ps =>
    let r := buildAll c p
    let e := linkMain r.2
    let hits := (p.zip r.2).filter (fun ka => ka.2.cacheHit) |>.map (fun ka => toString ka.1.id)
    let metas := (p.filter fun k => !k.isMain && k.kind != .declOnly).map (showMeta r.1)
    s!"rt={b01 e.rtInit} py={b01 e.pyInit} hits={",".intercalate hits} meta={",".intercalate metas}" :: runHistory r.1 ps

def handle (line : String) : String :=
  match fields line with
  | ["loadsyms", names] =>
    match afterInit (parseNames names) with
    | some cs => "ok " ++ showCalls cs
    | none => "panic"
  | ["compile", bodies, roots] =>
    match (bodies.splitOn ";").mapM parseBody, parseNats roots with
    | some bs, some roots =>
      match newPackageLoads (fun i => bs.getD i {}) roots (bs.length + 2) with
      | none => "nofuel"
      | some none => "panic"
      | some (some cs) => "ok " ++ showCalls cs
    | _, _ => "bad-op"
  | ["cache", hist] =>
    match (hist.splitOn "/").mapM (fun b => (b.splitOn ";").mapM parseBPkg) with
    | some h => "ok " ++ " / ".intercalate (runHistory [] h)
    | none => "bad-op"
  | ["guard", prog, imp, pre, order, calls] =>
    match parseProg prog, parseImp imp, parseNats pre, parseNats order, parseCalls calls with
    | some P, some imp, some pre, some order, some calls =>
      match run P imp pre order calls with
      | .ok s => "ok " ++ joinSp (s.trace.map showEv)
      | .error e => showErr e
    | _, _, _, _, _ => "bad-op"
  | ["order", prog, main] =>
    match parseProg prog, main.toNat? with
    | some P, some m => "ok " ++ joinSp ((initOrder P m).map toString)
    | _, _ => "bad-op"
  | ["check", prog, imp, order, calls] =>
    match parseProg prog, parseImp imp, parseNats order, parseCalls calls with
    | some P, some imp, some order, some calls =>
      let c := consistentB P [] order
      let k := order.all (fun p => scopedPkg P p && declOnlyPkg P p && boundImportable P imp p && loadsOkPkg P p)
      let n := needPyInit P order
      let a := callsOk P order calls
      s!"ok consistent={c} pkgs={k} pyinit={n} calls={a}"
    | _, _, _, _ => "bad-op"
  | ["call", np, va, na] =>
    match np.toNat?, va.toNat?, na.toNat? with
    | some np, some va, some na =>
      match pyCall np (va != 0) 1000000 (List.range na) with
      | none => "panic"
      | some c =>
        let api := match c with
          | .noArgs _ => "noargs"
          | .oneArg _ a => s!"onearg {a}"
          | .objArgs _ l => "objargs " ++ joinSp (l.map fun o => match o with | some a => toString a | none => "NULL")
        api ++ " | recv " ++ joinSp (c.received.map toString)
    | _, _, _ => "bad-op"
  | ["seq", n] =>
    match n.toNat? with
    | some n => "ok " ++ joinSp ((buildSeq id (List.range n)).map fun o => match o with | some a => toString a | none => "NULL")
    | none => "bad-op"
  | "val" :: toks =>
    match parseVal (toks.length + 1) toks with
    | some (v, []) => "ok " ++ dump v
    | _ => "bad-op"
  | _ => "bad-op"

def main : IO Unit := lineLoop handle
