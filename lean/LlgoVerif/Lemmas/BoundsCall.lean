import LlgoVerif.Model.BoundsCall
import LlgoVerif.Lemmas.Arith
import LlgoVerif.Lemmas.Slice
/-!
Lemmas for C03's bound operands: the value the compiler hands to a run-time check (`fit s a`, read as an `int`)
versus the value of the source operand at ITS type (`GoArith.val s a`), and the run-time routines
(`NewSlice3`, `StringSlice`, `MakeSlice` from C05's model; `NewChan`, `sliceToArray` from `Model/BoundsCall.lean`)
evaluated on handed values.
-/
namespace LlgoVerif.BoundsCall
open LlgoVerif LlgoVerif.LLVM LlgoVerif.Slice

/-- `h` (read as the `int` the runtime receives) stands for the source value `v`: it IS `v`, or `v` does not fit an `int`
    (only a `uint64`/`uint`/`uintptr` operand `≥ 2^63` can do that) and `h` is negative — out of range for every bound,
    since lengths and capacities are below `2^63`. -/
def Handed (h : BitVec 64) (v : Int) : Prop := h.toInt = v ∨ (h.toInt < 0 ∧ 2 ^ 63 ≤ v)

theorem fit_signed (a : BitVec w) (hw : w ≤ 64) : (fit true a).toInt = a.toInt := by
  simp only [fit]; exact BitVec.toInt_signExtend_of_le hw

theorem fit_unsigned_toNat (a : BitVec w) (hw : w ≤ 64) : (fit false a).toNat = a.toNat := by
  simp only [fit]; exact BitVec.toNat_setWidth_of_le hw

theorem fit_unsigned_narrow (a : BitVec w) (hw : w < 64) : (fit false a).toInt = (a.toNat : Int) := by
  have h1 := fit_unsigned_toNat a (Nat.le_of_lt hw)
  have h2 : a.toNat < 2 ^ w := a.isLt
  have h3 : 2 ^ w ≤ 2 ^ 63 := Nat.pow_le_pow_right (by decide) (by omega)
  rw [BitVec.toInt_eq_toNat_cond, h1]
  have : 2 * a.toNat < 2 ^ 64 := by omega
  simp [this]

/-- a 64-bit operand is handed over unchanged, whatever its signedness -/
@[simp] theorem fit_64 (s : Bool) (a : BitVec 64) : fit s a = a := by
  cases s <;> simp [fit]

theorem toInt_cases (h : BitVec 64) : (h.toNat < 2 ^ 63 ∧ h.toInt = (h.toNat : Int)) ∨
    (2 ^ 63 ≤ h.toNat ∧ h.toInt = (h.toNat : Int) - 2 ^ 64) := by
  rw [BitVec.toInt_eq_toNat_cond]
  by_cases hc : 2 * h.toNat < 2 ^ 64
  · left; simp [hc]; omega
  · right; simp [hc]; omega

/-- **no truncation, right extension**: the operand handed over stands for the source operand's value, for every integer
    type of at most 64 bits -/
theorem handed_fit (s : Bool) (a : BitVec w) (hw : w ≤ 64) : Handed (fit s a) (GoArith.val s a) := by
  cases s with
  | true => left; simp only [GoArith.val, if_true]; exact fit_signed a hw
  | false =>
    simp only [GoArith.val, Bool.false_eq_true, if_false]
    by_cases hlt : w < 64
    · left; exact fit_unsigned_narrow a hlt
    · have h1 := fit_unsigned_toNat a hw
      rcases toInt_cases (fit false a) with ⟨_, h3⟩ | ⟨h2, h3⟩
      · left; rw [h3, h1]
      · right; rw [h3]; rw [h1] at h2 h3 ⊢
        have := (fit false a).isLt
        constructor <;> omega

/-- a header field / constant that already is an `int` stands for itself -/
theorem handed_self (x : BitVec 64) : Handed x x.toInt := Or.inl rfl

/-- for every operand that does fit an `int` (all signed types, all unsigned types narrower than 64 bits, and 64-bit
    unsigned values below `2^63`) the handed value is EXACTLY the source value -/
theorem handed_exact (s : Bool) (a : BitVec w) (hw : w ≤ 64) (hfit : GoArith.val s a < 2 ^ 63) :
    (fit s a).toInt = GoArith.val s a := by
  rcases handed_fit s a hw with h | ⟨_, h⟩
  · exact h
  · omega

theorem toInt_lt (x : BitVec 64) : x.toInt < 2 ^ 63 := by
  have := @BitVec.toInt_lt 64 x; omega

/-! ## `NewSlice3` on handed operands -/

/-- `base[i:j:k]` through the compiler's operands: the runtime sees `hi hj hk`, the program wrote `vi vj vk` -/
theorem newSlice3_handed (base : Nat) (esz : Int) (cap hi hj hk : BitVec 64) (vi vj vk : Int)
    (hI : Handed hi vi) (hJ : Handed hj vj) (hK : Handed hk vk) :
    NewSlice3 base esz cap.toInt hi.toInt hj.toInt hk.toInt =
      if 0 ≤ vi ∧ vi ≤ vj ∧ vj ≤ vk ∧ vk ≤ cap.toInt then
        .ok { data := if vk - vi > 0 then advance base (vi * esz) else base, len := vj - vi, cap := vk - vi }
      else .error .panic := by
  have hc := toInt_lt cap
  by_cases hr : 0 ≤ vi ∧ vi ≤ vj ∧ vj ≤ vk ∧ vk ≤ cap.toInt
  · rw [if_pos hr]
    have e1 : hi.toInt = vi := by rcases hI with h | h <;> omega
    have e2 : hj.toInt = vj := by rcases hJ with h | h <;> omega
    have e3 : hk.toInt = vk := by rcases hK with h | h <;> omega
    rw [e1, e2, e3]
    exact slice3_ok base esz cap.toInt vi vj vk hr
  · rw [if_neg hr]
    apply slice3_panic
    intro hh
    apply hr
    rcases hI with h1 | h1 <;> rcases hJ with h2 | h2 <;> rcases hK with h3 | h3 <;> omega

/-! ## `StringSlice` on handed operands -/

theorem stringSlice_handed (base : List Nat) (len hi hj : BitVec 64) (vi vj : Int)
    (hlen : len.toInt = base.length) (hI : Handed hi vi) (hJ : Handed hj vj) :
    StringSlice base hi.toInt hj.toInt =
      if 0 ≤ vi ∧ vi ≤ vj ∧ vj ≤ base.length then .ok ((base.drop vi.toNat).take (vj - vi).toNat)
      else .error .panic := by
  have hc := toInt_lt len
  rw [stringSlice_spec']
  by_cases hr : 0 ≤ vi ∧ vi ≤ vj ∧ vj ≤ (base.length : Int)
  · have e1 : hi.toInt = vi := by rcases hI with h | h <;> omega
    have e2 : hj.toInt = vj := by rcases hJ with h | h <;> omega
    rw [e1, e2]
  · rw [if_neg hr, if_neg]
    intro hh
    apply hr
    rcases hI with h1 | h1 <;> rcases hJ with h2 | h2 <;> omega

/-! ## `MakeSlice` -/

theorem uintptr_nonneg (x : Int) (h0 : 0 ≤ x) (h1 : x < 2 ^ 64) : uintptr x = x.toNat := by
  unfold uintptr; omega

theorem uintptr_lt (x : Int) : uintptr x < 2 ^ 64 := by unfold uintptr; omega

theorem uintptr_neg (x : Int) (h0 : x < 0) (h1 : -2 ^ 63 ≤ x) : uintptr x = (x + 2 ^ 64).toNat := by
  unfold uintptr; omega

/-- the overflow flag of `math.MulUintptr` is exact -/
theorem mulUintptr_flag (a b : Nat) (ha : a < 2 ^ 64) (_hb : b < 2 ^ 64) :
    ((mulUintptr a b).2 = true ↔ 2 ^ 64 ≤ a * b) ∧ (mulUintptr a b).1 = a * b % 2 ^ 64 := by
  unfold mulUintptr
  by_cases hf : (a < 2 ^ 32 ∧ b < 2 ^ 32) ∨ a = 0
  · rw [if_pos hf]
    refine ⟨?_, rfl⟩
    simp only [Bool.false_eq_true, false_iff, Nat.not_le]
    rcases hf with ⟨h1, h2⟩ | h
    · calc a * b < 2 ^ 32 * 2 ^ 32 := Nat.mul_lt_mul'' h1 h2
        _ = 2 ^ 64 := by decide
    · subst h; simp
  · rw [if_neg hf]
    refine ⟨?_, rfl⟩
    have ha0 : 0 < a := by omega
    simp only [decide_eq_true_eq, gt_iff_lt]
    rw [Nat.div_lt_iff_lt_mul ha0]
    constructor
    · intro h; rw [Nat.mul_comm] at h; omega
    · intro h; rw [Nat.mul_comm]; omega

/-- the byte-size test shared by `MakeSlice` and the fixed `NewChan`: overflow flag or product above `maxAlloc` -/
def sizeBad (esz n : Int) : Prop :=
  (mulUintptr (uintptr esz) (uintptr n)).2 = true ∨ (mulUintptr (uintptr esz) (uintptr n)).1 > maxAlloc

instance (esz n : Int) : Decidable (sizeBad esz n) := by unfold sizeBad; infer_instance

theorem sizeBad_iff (esz n : Int) (hesz : 0 ≤ esz ∧ esz < 2 ^ 63) (hn : 0 ≤ n ∧ n < 2 ^ 63) :
    sizeBad esz n ↔ ¬ n * esz ≤ 2 ^ 48 := by
  have hu1 : uintptr esz = esz.toNat := uintptr_nonneg esz hesz.1 (by omega)
  have hu2 : uintptr n = n.toNat := uintptr_nonneg n hn.1 (by omega)
  have hfl := mulUintptr_flag (uintptr esz) (uintptr n) (uintptr_lt _) (uintptr_lt _)
  have hprod : ((esz.toNat * n.toNat : Nat) : Int) = n * esz := by
    rw [Int.natCast_mul, Int.toNat_of_nonneg hesz.1, Int.toNat_of_nonneg hn.1, Int.mul_comm]
  unfold sizeBad maxAlloc
  rw [hu1, hu2] at hfl ⊢
  rw [hfl.2, hfl.1]
  by_cases hov : 2 ^ 64 ≤ esz.toNat * n.toNat
  · constructor
    · intro _; omega
    · intro _; exact Or.inl hov
  · rw [Nat.mod_eq_of_lt (by omega)]
    constructor
    · intro h; rcases h with h | h <;> omega
    · intro h; right; omega

theorem ite_panic_iff {α : Type} {c : Prop} [Decidable c] {x : Except Err α} (hx : x ≠ .error .panic) :
    (if c then (.error .panic : Except Err α) else x) = .error .panic ↔ c := by
  by_cases h : c
  · simp [h]
  · simp [h, hx]

theorem makeSlice_eq (m : Mem) (len cap esz : Int) :
    MakeSlice m len cap esz =
      if sizeBad esz cap ∨ len < 0 ∨ len > cap then .error .panic
      else .ok ((allocZ m (mulUintptr (uintptr esz) (uintptr cap)).1).2,
                { data := (allocZ m (mulUintptr (uintptr esz) (uintptr cap)).1).1, len := len, cap := cap }) := by
  unfold MakeSlice sizeBad
  simp only [or_assoc]

/-- **`make([]T, len, cap)` at run time**, for every `int` pair and every element size: panics iff NOT
    `0 ≤ len ≤ cap ∧ cap * esz ≤ maxAlloc` -/
theorem makeSlice_panics_iff (m : Mem) (len cap esz : Int) (hesz : 0 ≤ esz ∧ esz < 2 ^ 63)
    (hcap : -2 ^ 63 ≤ cap ∧ cap < 2 ^ 63) :
    MakeSlice m len cap esz = .error .panic ↔ ¬ (0 ≤ len ∧ len ≤ cap ∧ cap * esz ≤ 2 ^ 48) := by
  rw [makeSlice_eq, ite_panic_iff (by intro h; cases h)]
  by_cases hneg : cap < 0
  · constructor
    · intro _ h; omega
    · intro _; right; omega
  · rw [sizeBad_iff esz cap hesz ⟨by omega, hcap.2⟩]
    constructor
    · intro h hh; rcases h with h | h | h <;> omega
    · intro hh
      by_cases h1 : cap * esz ≤ 2 ^ 48
      · right; omega
      · left; exact h1

/-- in range, `MakeSlice` returns exactly `{fresh zeroed block, len, cap}` (C05's `makeSlice_ok`) -/
theorem makeSlice_in_range (m : Mem) (len cap esz : Int) (hesz : 0 ≤ esz ∧ esz < 2 ^ 63)
    (hcap : cap < 2 ^ 63) (h : 0 ≤ len ∧ len ≤ cap ∧ cap * esz ≤ 2 ^ 48) :
    ∃ m', MakeSlice m len cap esz = .ok (m', ⟨m.next, len, cap⟩) ∧
      (∀ i, i < (cap * esz).toNat → m'.bytes (m.next + i) = 0) := by
  obtain ⟨m', h1, h2, _⟩ := makeSlice_ok m len cap esz ⟨h.1, h.2.1⟩ hesz.1 ⟨hcap, hesz.2⟩ h.2.2
  exact ⟨m', h1, h2⟩

/-- `make([]T, n, m)` through the compiler's operands: panics iff NOT `0 ≤ n ≤ m`, `m` an `int`, byte size within the limit -/
theorem makeSlice_handed (m : Mem) (esz : Int) (hl hc : BitVec 64) (vl vc : Int)
    (hesz : 0 ≤ esz ∧ esz < 2 ^ 63) (hL : Handed hl vl) (hC : Handed hc vc) :
    MakeSlice m hl.toInt hc.toInt esz = .error .panic ↔ ¬ (0 ≤ vl ∧ vl ≤ vc ∧ vc < 2 ^ 63 ∧ vc * esz ≤ 2 ^ 48) := by
  have b1 := toInt_lt hc
  have b2 : -2 ^ 63 ≤ hc.toInt := by have := @BitVec.le_toInt 64 hc; omega
  have b3 := toInt_lt hl
  rw [makeSlice_panics_iff m hl.toInt hc.toInt esz hesz ⟨b2, b1⟩]
  rcases hL with h1 | h1 <;> rcases hC with h2 | h2
  · rw [h1, h2]
    constructor
    · intro h hh; exact h ⟨hh.1, hh.2.1, hh.2.2.2⟩
    · intro h hh; exact h ⟨hh.1, hh.2.1, by omega, hh.2.2⟩
  · constructor
    · intro _ hh; omega
    · intro _ hh; omega
  · constructor
    · intro _ hh; omega
    · intro _ hh; omega
  · constructor
    · intro _ hh; omega
    · intro _ hh; omega

/-! ## `NewChan` -/

/-- what Go demands of `make(chan T, n)`: panic iff `n < 0` or the buffer's byte size exceeds the allocation limit -/
def chanOK (esz n : Int) : Prop := 0 ≤ n ∧ n * esz ≤ 2 ^ 48

instance (esz n : Int) : Decidable (chanOK esz n) := by unfold chanOK; infer_instance

theorem newChan_eq (cfg : BCfg) (esz n : Int) :
    NewChan cfg esz n =
      if (cfg.chanSizeFix = true ∧ sizeBad esz n) ∨ n < 0 then .error .panic
      else if n > 0 then .ok ⟨n, uintptr (n * esz)⟩ else .ok ⟨0, 0⟩ := by
  unfold NewChan sizeBad
  cases cfg.chanSizeFix with
  | false => simp
  | true => simp only [if_true, true_and, or_assoc]

theorem newChan_fixed_panics_iff (esz n : Int) (hesz : 0 ≤ esz ∧ esz < 2 ^ 63) (hn : -2 ^ 63 ≤ n ∧ n < 2 ^ 63) :
    NewChan BCfg.fixed esz n = .error .panic ↔ ¬ chanOK esz n := by
  rw [newChan_eq, ite_panic_iff (by split <;> (intro h; cases h))]
  unfold chanOK
  simp only [BCfg.fixed, true_and]
  by_cases hneg : n < 0
  · constructor
    · intro _ h; omega
    · intro _; right; exact hneg
  · rw [sizeBad_iff esz n hesz ⟨by omega, hn.2⟩]
    constructor
    · intro h hh; rcases h with h | h <;> omega
    · intro hh
      by_cases h1 : n * esz ≤ 2 ^ 48
      · exfalso; exact hh ⟨by omega, h1⟩
      · left; exact h1

/-- the unfixed `NewChan` panics exactly on negative sizes … -/
theorem newChan_current_panics_iff (esz n : Int) : NewChan BCfg.current esz n = .error .panic ↔ n < 0 := by
  rw [newChan_eq, ite_panic_iff (by split <;> (intro h; cases h))]
  simp [BCfg.current]

/-- … and in range both configurations build the same channel: capacity `n`, buffer of `n * esz` bytes -/
theorem newChan_in_range (cfg : BCfg) (esz n : Int) (hesz : 0 ≤ esz ∧ esz < 2 ^ 63) (h : chanOK esz n) :
    NewChan cfg esz n = .ok ⟨n, (n * esz).toNat⟩ := by
  obtain ⟨h0, h1⟩ := h
  have hne : 0 ≤ n * esz := Int.mul_nonneg h0 hesz.1
  have hbuf : uintptr (n * esz) = (n * esz).toNat := uintptr_nonneg _ hne (by omega)
  rw [newChan_eq, if_neg]
  · by_cases hz : n > 0
    · rw [if_pos hz, hbuf]
    · have : n = 0 := by omega
      subst this; simp
  · intro hc
    rcases hc with ⟨_, hb⟩ | hb
    · by_cases he : esz = 0
      · subst he
        unfold sizeBad at hb
        have hfl := mulUintptr_flag (uintptr 0) (uintptr n) (uintptr_lt _) (uintptr_lt _)
        have hz : uintptr 0 = 0 := by decide
        rw [hz] at hfl hb
        rw [hfl.2, hfl.1, maxAlloc] at hb
        simp at hb
      · have hn63 : n < 2 ^ 63 := by
          have : n * 1 ≤ n * esz := Int.mul_le_mul_of_nonneg_left (by omega) h0
          omega
        exact (sizeBad_iff esz n hesz ⟨h0, hn63⟩).1 hb h1
    · omega

/-! ## shapes of the emitted checks -/

theorem bassert_some (t : BTrap) (c : BitVec 1) : bassert t (some c) = if c = 1#1 then .error t else .ok () := rfl

/-- `SliceToArrayPointer`: `icmp slt len, N` guarding `PanicSliceConvert` -/
theorem s2a_core (len c : BitVec 64) (n : Int) (hc : c.toInt = n) :
    (do let v3 := icmp .slt (some len) (some c)
        bassert .sliceConvert v3
        pure (RtCall.arrayPtr .srcData) : BM RtCall) =
      if len.toInt < n then .error .sliceConvert else .ok (.arrayPtr .srcData) := by
  subst hc
  simp only [Arith.icmp_some, bassert_some, icmpB, Arith.ofBool_eq_one, BitVec.slt_eq_decide, decide_eq_true_eq]
  by_cases h : len.toInt < c.toInt
  · simp [h]; rfl
  · simp [h]; rfl

/-- `AssertNilDeref(p == nil)` in front of the rest `k` of the function -/
theorem nil_core (p z : BitVec 64) (k : BM RtCall) (hz : z = 0#64) :
    (do let v1 := icmp .eq (some p) (some z)
        bassert .nilDeref v1
        k : BM RtCall) =
      if p = 0#64 then .error .nilDeref else k := by
  subst hz
  simp only [Arith.icmp_some, bassert_some, icmpB, Arith.ofBool_eq_one, beq_iff_eq]
  by_cases h : p = 0#64
  · simp [h]; rfl
  · simp [h]; rfl

/-! ## slice → array (pointer) -/

theorem sliceToArray_spec (len n : Int) (data : Nat) :
    (sliceToArray len n data = .error .panic ↔ len < n) ∧ (n ≤ len → sliceToArray len n data = .ok data) := by
  unfold sliceToArray
  by_cases h : len < n
  · simp [h]
  · simp [h]

end LlgoVerif.BoundsCall
