#!/bin/sh
# `llc` stand-in: `llgo build -check-llfiles` prints every package's final IR (exactly the module it then compiles in
# memory) to a temporary .ll and runs `llc -filetype=null <file>` on it.  This script keeps a copy of that file for
# ./check C11 (tie A: the atomics table is parsed from it) and reports success.
# (-gen-llfiles cannot be used here: it forces the textual clang path, and LLVM 14 can neither print nor parse
#  pointer-typed cmpxchg / atomicrmw xchg in opaque-pointer mode - sync/atomic.Value then fails to assemble.)
for a in "$@"; do f="$a"; done
if [ -n "$VERIF_C11_IRDIR" ] && [ -f "$f" ]; then
  cp "$f" "$VERIF_C11_IRDIR/" 2>/dev/null
fi
exit 0
