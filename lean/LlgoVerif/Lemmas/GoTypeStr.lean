import LlgoVerif.Spec.TypeIdent
/-!
# Generic list and string lemmas for C07 (separators, decimal rendering, dot segments, bracket balance)

Used by `Lemmas/GoType.lean`.
-/
namespace LlgoVerif.Types

/-! ## generic list/string lemmas -/

theorem splitFirst {α} (c : α) : ∀ (a₁ a₂ b₁ b₂ : List α), c ∉ a₁ → c ∉ a₂ →
    a₁ ++ c :: b₁ = a₂ ++ c :: b₂ → a₁ = a₂ ∧ b₁ = b₂
  | [], [], _, _, _, _, h => by simpa using h
  | [], y :: ys, _, _, _, h2, h => by
    simp at h; simp at h2; exact absurd h.1 h2.1
  | x :: xs, [], _, _, h1, _, h => by
    simp at h; simp at h1; exact absurd h.1.symm h1.1
  | x :: xs, y :: ys, b₁, b₂, h1, h2, h => by
    simp at h h1 h2
    have := splitFirst c xs ys b₁ b₂ h1.2 h2.2 h.2
    simp [h.1, this.1, this.2]

/-! ## decimal rendering -/

theorem digitsRev_ne_nil (n : Nat) : digitsRev n ≠ [] := by
  rw [digitsRev]; split <;> simp

theorem digitsRev_lt (n : Nat) : ∀ d ∈ digitsRev n, d < 10 := by
  induction n using Nat.strongRecOn with
  | _ n ih =>
    rw [digitsRev]
    split
    · intro d hd; simp at hd; omega
    · intro d hd
      simp at hd
      rcases hd with rfl | hd
      · omega
      · exact ih (n / 10) (by omega) d hd

theorem digitsRev_inj : ∀ n m, digitsRev n = digitsRev m → n = m := by
  intro n
  induction n using Nat.strongRecOn with
  | _ n ih =>
    intro m h
    rw [digitsRev, digitsRev.eq_def m] at h
    split at h <;> split at h
    · simpa using h
    · simp at h
      exact absurd h.2 (digitsRev_ne_nil _)
    · simp at h
      exact absurd h.2 (digitsRev_ne_nil _)
    · simp at h
      have := ih (n / 10) (by omega) (m / 10) h.2
      omega

theorem digitChar_inj {a b : Nat} (ha : a < 10) (hb : b < 10) (h : digitChar a = digitChar b) : a = b := by
  have : ∀ a, a < 10 → (digitChar a).toNat = 48 + a := by
    intro a ha
    have : a = 0 ∨ a = 1 ∨ a = 2 ∨ a = 3 ∨ a = 4 ∨ a = 5 ∨ a = 6 ∨ a = 7 ∨ a = 8 ∨ a = 9 := by omega
    rcases this with h | h | h | h | h | h | h | h | h | h <;> subst h <;> decide
  have h1 := this a ha
  have h2 := this b hb
  rw [h] at h1
  omega

def isDigit (c : Char) : Bool := c.toNat ≥ 48 && c.toNat ≤ 57

theorem digitChar_isDigit {a : Nat} (ha : a < 10) : isDigit (digitChar a) = true := by
  have : a = 0 ∨ a = 1 ∨ a = 2 ∨ a = 3 ∨ a = 4 ∨ a = 5 ∨ a = 6 ∨ a = 7 ∨ a = 8 ∨ a = 9 := by omega
  rcases this with h | h | h | h | h | h | h | h | h | h <;> subst h <;> decide

theorem map_digitChar_inj : ∀ (l₁ l₂ : List Nat), (∀ d ∈ l₁, d < 10) → (∀ d ∈ l₂, d < 10) →
    l₁.map digitChar = l₂.map digitChar → l₁ = l₂
  | [], [], _, _, _ => rfl
  | [], _ :: _, _, _, h => by simp at h
  | _ :: _, [], _, _, h => by simp at h
  | a :: as, b :: bs, h1, h2, h => by
    simp at h
    have hab := digitChar_inj (h1 a (by simp)) (h2 b (by simp)) h.1
    have := map_digitChar_inj as bs (fun d hd => h1 d (by simp [hd])) (fun d hd => h2 d (by simp [hd])) h.2
    simp [hab, this]

theorem dec_inj {n m : Nat} (h : dec n = dec m) : n = m := by
  unfold dec at h
  have := map_digitChar_inj _ _ (by intro d hd; exact digitsRev_lt n d (by simpa using hd))
    (by intro d hd; exact digitsRev_lt m d (by simpa using hd)) h
  exact digitsRev_inj n m (by simpa using this)

theorem dec_ne_nil (n : Nat) : dec n ≠ [] := by
  unfold dec; simp [digitsRev_ne_nil]

theorem dec_isDigit (n : Nat) : ∀ c ∈ dec n, isDigit c = true := by
  intro c hc
  unfold dec at hc
  simp at hc
  obtain ⟨d, hd, rfl⟩ := hc
  exact digitChar_isDigit (digitsRev_lt n d hd)

/-! ## dot-separated segments -/

/-- split on `.` -/
def segs : Str → List Str
  | [] => [[]]
  | c :: s => if c = '.' then [] :: segs s else
    match segs s with
    | [] => [[c]]
    | x :: xs => (c :: x) :: xs

theorem segs_ne_nil : ∀ s, segs s ≠ []
  | [] => by simp [segs]
  | c :: s => by
    simp only [segs]
    split
    · simp
    · split <;> simp

theorem segs_append_dot : ∀ (a b : Str), segs (a ++ '.' :: b) = segs a ++ segs b
  | [], b => by simp [segs]
  | c :: a, b => by
    have ih := segs_append_dot a b
    simp only [List.cons_append, segs]
    split
    · simp [ih]
    · rw [ih]
      have hne := segs_ne_nil a
      cases h : segs a with
      | nil => exact absurd h hne
      | cons x xs => simp

theorem segs_nodot : ∀ (s : Str), '.' ∉ s → segs s = [s]
  | [], _ => by simp [segs]
  | c :: s, h => by
    simp at h
    have ih := segs_nodot s h.2
    simp only [segs]
    rw [if_neg (Ne.symm h.1), ih]

/-- join with `.` -/
def unsegs : List Str → Str
  | [] => []
  | [x] => x
  | x :: y :: r => x ++ '.' :: unsegs (y :: r)

theorem unsegs_segs : ∀ s, unsegs (segs s) = s
  | [] => by simp [segs, unsegs]
  | c :: s => by
    have ih := unsegs_segs s
    simp only [segs]
    split
    · next h =>
      subst h
      cases hs : segs s with
      | nil => exact absurd hs (segs_ne_nil s)
      | cons x xs => rw [hs] at ih; simp [unsegs, ih]
    · cases hs : segs s with
      | nil => exact absurd hs (segs_ne_nil s)
      | cons x xs =>
        rw [hs] at ih
        cases xs with
        | nil => simp [unsegs] at ih ⊢; exact ih
        | cons y ys => simp [unsegs] at ih ⊢; exact ih

theorem segs_inj {a b : Str} (h : segs a = segs b) : a = b := by
  rw [← unsegs_segs a, ← unsegs_segs b, h]

/-- the generic "last element that fails `q`" lemma -/
theorem split_at_last_nonq {α} (q : α → Prop) : ∀ (D D' : List α) (n n' : α) (A A' : List α),
    (∀ d ∈ D, q d) → (∀ d ∈ D', q d) → ¬ q n → ¬ q n' →
    D ++ n :: A = D' ++ n' :: A' → D = D' ∧ n = n' ∧ A = A'
  | [], [], _, _, _, _, _, _, _, _, h => by simpa using h
  | [], d' :: D', n, _, _, _, _, h2, hn, _, h => by
    simp at h; exact absurd (h.1 ▸ h2 d' (by simp)) hn
  | d :: D, [], _, n', _, _, h1, _, _, hn', h => by
    simp at h; exact absurd (h.1 ▸ h1 d (by simp)) hn'
  | d :: D, d' :: D', n, n', A, A', h1, h2, hn, hn', h => by
    simp at h
    have := split_at_last_nonq q D D' n n' A A' (fun x hx => h1 x (by simp [hx])) (fun x hx => h2 x (by simp [hx])) hn hn' h.2
    simp [h.1, this.1, this.2.1, this.2.2]

/-! ## bracket balance -/

/-- scan to the first unmatched `]`: `(before, after)` -/
def splitClose : Nat → Str → Option (Str × Str)
  | _, [] => none
  | d, c :: s =>
    if c = '[' then (splitClose (d+1) s).map fun p => (c :: p.1, p.2)
    else if c = ']' then
      match d with
      | 0 => some ([], s)
      | d+1 => (splitClose d s).map fun p => (c :: p.1, p.2)
    else (splitClose d s).map fun p => (c :: p.1, p.2)

/-- scanning through `s` leaves the depth unchanged and never closes an outer bracket -/
def Balanced (s : Str) : Prop :=
  ∀ d rest, splitClose d (s ++ rest) = (splitClose d rest).map fun p => (s ++ p.1, p.2)

theorem balanced_nil : Balanced [] := by
  intro d rest; cases h : splitClose d rest <;> simp [h]

theorem balanced_append {a b : Str} (ha : Balanced a) (hb : Balanced b) : Balanced (a ++ b) := by
  intro d rest
  rw [List.append_assoc, ha, hb]
  cases splitClose d rest <;> simp

theorem balanced_plain : ∀ (s : Str), '[' ∉ s → ']' ∉ s → Balanced s
  | [], _, _ => balanced_nil
  | c :: s, h1, h2 => by
    simp at h1 h2
    have ih := balanced_plain s h1.2 h2.2
    intro d rest
    simp only [List.cons_append, splitClose]
    rw [if_neg (Ne.symm h1.1), if_neg (Ne.symm h2.1), ih]
    cases splitClose d rest <;> simp

theorem balanced_bracket {s : Str} (hs : Balanced s) : Balanced ('[' :: s ++ [']']) := by
  intro d rest
  simp only [List.cons_append, List.append_assoc, splitClose, if_true]
  rw [hs]
  simp [splitClose]
  cases splitClose d rest <;> simp

theorem split_close_key {k₁ k₂ v₁ v₂ : Str} (h1 : Balanced k₁) (h2 : Balanced k₂)
    (h : k₁ ++ ']' :: v₁ = k₂ ++ ']' :: v₂) : k₁ = k₂ ∧ v₁ = v₂ := by
  have e1 := h1 0 (']' :: v₁)
  have e2 := h2 0 (']' :: v₂)
  rw [h] at e1
  rw [e1] at e2
  simp [splitClose] at e2
  exact e2

/-! ## lines -/

theorem lines_split {a₁ a₂ b₁ b₂ : Str} (h1 : '\n' ∉ a₁) (h2 : '\n' ∉ a₂)
    (h : a₁ ++ '\n' :: b₁ = a₂ ++ '\n' :: b₂) : a₁ = a₂ ∧ b₁ = b₂ := splitFirst '\n' _ _ _ _ h1 h2 h

end LlgoVerif.Types
