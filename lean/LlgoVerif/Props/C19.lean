import LlgoVerif.Lemmas.PyGuard
import LlgoVerif.Lemmas.PySyms
import LlgoVerif.Lemmas.PyCache
/-!
# C19 — Go and Python exchange values and calls without loss

Property theorems only.  Model: `LlgoVerif/Model/PyGuard.lean`; lemmas: `LlgoVerif/Lemmas/PyGuard.lean`.

What the theorems cover: the **import guard** (module variables, `PyImport_ImportModule` in the binding
package's `init`, symbol variables loaded in the using package's `init`, `Py_Initialize` first) for EVERY
program, EVERY initialisation order consistent with the import graph and EVERY sequence of later uses;
and the **argument order** of calls and of `py.List` / `py.Tuple` for EVERY arity.

What they do not cover: the *values*.  `PyLong_FromLongLong`, `PyFloat_FromDouble`,
`PyUnicode_FromStringAndSize`, … are CPython's; in any pure model a round trip through them is the
identity (section "Values" below says exactly that and nothing more).  Their substance is the
differential execution of compiled programs against libpython and `python3` (checks/c19.py).

Two hypotheses of `import_once_before_use` are NOT guaranteed by llgo; without either one the statement is
false on the current tree (`guard_full_without_pyinit_counterexample`,
`guard_full_without_declonly_counterexample`; both are replayed on the real code by the check).
-/
namespace LlgoVerif.PyGuard

/-- `p` is the first package of the initialisation order that binds the Python module `m` -/
def FirstBinder (P : Prog) (order : List Nat) (p : Nat) (m : Mod) : Prop :=
  ∃ l₁ l₂, order = l₁ ++ p :: l₂ ∧ (P p).binds = some m ∧ ∀ q ∈ l₁, (P q).binds ≠ some m

/-- What the guard guarantees about the trace `t` of a whole run. -/
structure GuardOk (P : Prog) (pre : List Mod) (order : List Nat) (t : List Ev) : Prop where
  /-- the guarded import of a bound module is executed by the first package (in initialisation order)
      that binds it — "in whichever package first needs it" … -/
  first_imports : ∀ p m, FirstBinder P order p m → Ev.importCall p m ∈ t
  /-- … by no other package … -/
  only_first : ∀ p m, Ev.importCall p m ∈ t → FirstBinder P order p m
  /-- … and exactly once per module for the whole program, however many packages bind or use it
      (the module variable `__llgo_py.<m>` is one `linkonce` variable per program). -/
  import_once : ∀ m, (∃ q ∈ order, (P q).binds = some m) → t.countP (isImport m) = 1
  /-- CPython executes a module body at most once (sys.modules), whatever mixture of guarded and
      user-written imports the program makes … -/
  body_at_most_once : ∀ m, t.count (.modBody m) ≤ 1
  /-- … and exactly once for a bound module that start-up had not imported already. -/
  body_once : ∀ m, (∃ q ∈ order, (P q).binds = some m) → t.count (.modBody m) = if m ∈ pre then 0 else 1
  /-- every event is preceded by what it needs (`Req`): `Py_Initialize` before any C-API call; the guarded
      import of `m` and the existence of the module object before any symbol load, call or variable read
      of `m`; the symbol load before a call through the symbol variable. -/
  before_use : Safe pre t
  /-- each symbol variable is stored at most once … -/
  load_at_most_once : ∀ y, t.countP (isLoad y) ≤ 1
  /-- … and exactly once if any initialised ordinary package calls the symbol. -/
  load_once : ∀ p ∈ order, (P p).binds = none → ∀ y ∈ (P p).pyobjs, t.countP (isLoad y) = 1

theorem guardOk_of_dinv {P : Prog} {pre : List Mod} {order : List Nat} {s : St} (hd : DInv P pre order s) :
    GuardOk P pre order s.trace := by
  have ha := hd.inv.a
  have hbound : ∀ m, (∃ q ∈ order, (P q).binds = some m) → m ∈ s.modVar := fun m h => (hd.modDone m).2 h
  refine ⟨?_, hd.impFirst, ?_, ?_, ?_, ha.safe, ?_, ?_⟩
  · rintro p m ⟨l₁, l₂, e, hb, hno⟩; exact hd.firstImp l₁ p l₂ m e hb hno
  · intro m hm
    have := hd.inv.impCount m
    simpa [hbound m hm] using this
  · intro m
    have := ha.bodyCount m
    rw [this]; split <;> omega
  · intro m hm
    have h1 := ha.bodyCount m
    have h2 := (ha.modImp m (hbound m hm)).2
    rw [h1]
    by_cases hp : m ∈ pre <;> simp [h2, hp]
  · intro y
    have := ha.loadCount y
    rw [this]; split <;> omega
  · intro p hp hb y hy
    have := ha.loadCount y
    simpa [hd.symDone p hp hb y hy] using this

/-- **Import guard.**  For every program `P`, every set `imp` of importable modules, every start-up content
    `pre` of `sys.modules`, every initialisation order consistent with the import graph and every later
    sequence of uses: the run does not fail and its trace satisfies `GuardOk`.

    Hypotheses (all decidable on a finite program, see `checkB`): Go's scoping (`scopedPkg`: a package
    names `q.F` only if it imports `q`), `pyLoadModSyms` loads what the package calls (`loadsOkPkg`), every
    bound module is importable, the uses come from packages of
    the program — and the two that llgo does NOT ensure: binding packages contain declarations only
    (`declOnlyPkg`), and some ordinary package needs the interpreter (`needPyInit`). -/
theorem import_once_before_use (P : Prog) (imp : Mod → Bool) (pre : List Mod) (order : List Nat)
    (calls : List (Nat × Use))
    (hc : Consistent P order) (hok : ∀ p ∈ order, PkgOk P imp p)
    (hpy : needPyInit P order = true) (hcalls : callsOk P order calls = true) :
    ∃ s, run P imp pre order calls = .ok s ∧ GuardOk P pre order s.trace := by
  obtain ⟨s, hs, hd⟩ := run_spec imp pre order calls hc hok hpy hcalls
  exact ⟨s, hs, guardOk_of_dinv hd⟩

/-- the same with all hypotheses as one executable check (used on the regenerated facts and in examples) -/
theorem import_once_before_use_checked (P : Prog) (imp : Mod → Bool) (pre : List Mod) (order : List Nat)
    (calls : List (Nat × Use)) (h : checkB P imp order calls = true) :
    ∃ s, run P imp pre order calls = .ok s ∧ GuardOk P pre order s.trace := by
  simp only [checkB, Bool.and_eq_true] at h
  obtain ⟨⟨⟨h1, h2⟩, h3⟩, h4⟩ := h
  exact import_once_before_use P imp pre order calls (consistent_of_B h1) (pkgOk_of_B h2) h3 h4

/-- **… for the order llgo's initialisers produce.**  go/ssa's guarded initialiser, as compiled by llgo
    (`initPkg`: test the guard, set it, call the imports' `init` in order, run the body), started from
    `main.init`, visits the packages in an order that is consistent with the import graph — for every
    acyclic import graph (numbered topologically) with any number of packages and importers. -/
theorem import_once_before_use_dfs (P : Prog) (hT : Topo P) (imp : Mod → Bool) (pre : List Mod) (main : Nat)
    (calls : List (Nat × Use))
    (hok : ∀ p ∈ initOrder P main, PkgOk P imp p)
    (hpy : needPyInit P (initOrder P main) = true) (hcalls : callsOk P (initOrder P main) calls = true) :
    ∃ s, run P imp pre (initOrder P main) calls = .ok s ∧ GuardOk P pre (initOrder P main) s.trace :=
  import_once_before_use P imp pre _ calls (initOrder_consistent P hT main).1 hok hpy hcalls

/-- the reading of `before_use` for a call: everything it needs happened strictly earlier -/
theorem call_after_import_and_load {pre : List Mod} {t : List Ev} (h : Safe pre t)
    {l₁ l₂ : List Ev} {p : Nat} {y : Sym} (e : t = l₁ ++ Ev.call p y :: l₂) :
    Ev.pyInit ∈ l₁ ∧ Imported y.1 l₁ ∧ Live pre y.1 l₁ ∧ Loaded y l₁ := h l₁ _ l₂ e

/-- … and for a Python variable read -/
theorem var_after_import {pre : List Mod} {t : List Ev} (h : Safe pre t)
    {l₁ l₂ : List Ev} {p : Nat} {y : Sym} (e : t = l₁ ++ Ev.getVar p y :: l₂) :
    Ev.pyInit ∈ l₁ ∧ Imported y.1 l₁ ∧ Live pre y.1 l₁ := h l₁ _ l₂ e

/-! ### The hypotheses are satisfiable (and not trivially) -/

/-- modules 0,1; packages: 0 and 1 both bind module 0, 2 binds module 1, 3 and 4 are users, 5 = main -/
def exProg : Prog := ofList [
  { binds := some 0 }, { binds := some 0 }, { binds := some 1 },
  { imports := [1, 2], initUses := [.call (0, 0)], uses := [.call (1, 0), .var (0, 1)], loads := [(0, 0), (1, 0)] },
  { imports := [0], uses := [.call (0, 0), .explicitImport 1], loads := [(0, 0)] },
  { imports := [3, 4, 2], initUses := [.explicitImport 0], uses := [.var (1, 7)], intrinsics := true }]

example : checkB exProg (fun _ => true) [1, 2, 3, 0, 4, 5]
    [(5, .var (1, 7)), (3, .call (1, 0)), (4, .explicitImport 1), (4, .call (0, 0)), (3, .var (0, 1))] = true := by
  decide

example : Topo exProg := by
  intro p q h
  unfold exProg ofList at h
  match p with
  | 0 | 1 | 2 => simp at h
  | 3 => simp at h; omega
  | 4 => simp at h; omega
  | 5 => simp at h; omega
  | n+6 => simp at h

example : initOrder exProg 5 = [1, 2, 3, 0, 4, 5] := by decide

/-! ### The two hypotheses llgo does not ensure -/

/-- the guard statement without the hypothesis that an ordinary package needs the interpreter -/
def GuardFullWithoutPyInit : Prop :=
  ∀ (P : Prog) (imp : Mod → Bool) (pre : List Mod) (order : List Nat) (calls : List (Nat × Use)),
    Consistent P order → (∀ p ∈ order, PkgOk P imp p) → callsOk P order calls = true →
    ∃ s, run P imp pre order calls = .ok s ∧ GuardOk P pre order s.trace

/-- the guard statement without the hypothesis that binding packages are declaration-only -/
def GuardFullWithoutDeclOnly : Prop :=
  ∀ (P : Prog) (imp : Mod → Bool) (pre : List Mod) (order : List Nat) (calls : List (Nat × Use)),
    Consistent P order →
    (∀ p ∈ order, scopedPkg P p = true ∧ boundImportable P imp p = true ∧ loadsOkPkg P p = true) →
    needPyInit P order = true → callsOk P order calls = true →
    ∃ s, run P imp pre order calls = .ok s ∧ GuardOk P pre order s.trace

/-- program: a binding package and a `main` that imports it but uses nothing of Python itself
    (`import _ "…/binding"`): build.go does not propagate `NeedPyInit` from the binding package, the entry
    function has no `Py_Initialize`, and the import in the binding package's `init` hits an
    uninitialised interpreter. -/
def cexNoPyInit : Prog := ofList [{ binds := some 0 }, { imports := [0] }]

theorem cexNoPyInit_fails : run cexNoPyInit (fun _ => true) [] [0, 1] [] = .error .notInitialized := by rfl

theorem guard_full_without_pyinit_counterexample : ¬ GuardFullWithoutPyInit := by
  intro h
  have hc : Consistent cexNoPyInit [0, 1] := consistent_of_B (by decide)
  have hok : ∀ p ∈ [0, 1], PkgOk cexNoPyInit (fun _ => true) p := pkgOk_of_B (by decide)
  obtain ⟨s, hs, _⟩ := h cexNoPyInit (fun _ => true) [] [0, 1] [] hc hok (by decide)
  rw [cexNoPyInit_fails] at hs
  cases hs

/-- program: a binding package with a Go helper that calls its own Python function (`func Helper(x) =
    F(x)`), a `main` that calls `Helper` and reads a Python variable of the module (so `Py_Initialize` is
    there): no package loads the symbol variable of `F` (`AfterInit` is skipped for binding packages),
    the call goes through NULL. -/
def cexHelper : Prog := ofList [
  { binds := some 0, uses := [.call (0, 0)] },
  { imports := [0], uses := [.var (0, 1)] }]

theorem cexHelper_fails :
    run cexHelper (fun _ => true) [] [0, 1] [(0, .call (0, 0))] = .error (.nilSym (0, 0)) := by rfl

theorem guard_full_without_declonly_counterexample : ¬ GuardFullWithoutDeclOnly := by
  intro h
  have hc : Consistent cexHelper [0, 1] := consistent_of_B (by decide)
  obtain ⟨s, hs, _⟩ := h cexHelper (fun _ => true) [] [0, 1] [(0, .call (0, 0))] hc
    (by intro p hp; simp at hp; rcases hp with h | h <;> subst h <;> decide) (by decide) (by decide)
  rw [cexHelper_fails] at hs
  cases hs

/-! ## Which symbols a package loads, and how (ssa/python.go `pyLoadModSyms`, cl/compile.go rounds)

`import_once_before_use` takes the list of `llgoLoadPyModSyms` pairs of a package as given (`Pkg.loads`) and
ASSUMES it covers the functions the package calls (`loadsOkPkg`).  The theorems below are about the compiler
code that produces that list — for arbitrary dotted module names (a module and its submodules used side by
side) and arbitrary compile rounds (bodies that exist only because another body mentions them). -/

/-- **Symbol loads are exact.**  For EVERY set of symbol names `pyLoadModSyms` accepts: each emitted pair
    `(attr, &var)` of a call on module variable `M` satisfies `var = M.attr` with a dot-free `attr` — the C helper's
    `PyObject_GetAttrString(M, attr)` is the plain attribute lookup CPython itself performs for `M.attr`, on the
    module the name says (never the parent of a submodule) — the variable is one of the package's symbols, and
    every symbol of the package is in some call. -/
theorem loadSyms_exact (pyobjs : List Name) (calls : List LoadCall) (h : pyLoadModSyms pyobjs = some calls) :
    (∀ c ∈ calls, ∀ p ∈ c.pairs, p.2 = c.modVar ++ '.' :: p.1 ∧ '.' ∉ p.1 ∧ p.2 ∈ pyobjs) ∧
    (∀ n ∈ pyobjs, ∃ c ∈ calls, ∃ attr, (attr, n) ∈ c.pairs) := by
  unfold pyLoadModSyms at h
  cases hf : (sortNames pyobjs).foldlM groupStep {} with
  | none => simp [hf] at h
  | some acc =>
    simp only [hf] at h
    injection h with h
    subst h
    have hi : GInvS (sortNames pyobjs) acc := by
      have := group_fold_inv (sortNames pyobjs) [] {} acc ginvS_init hf
      simpa using this
    constructor
    · intro c hc p hp
      simp only [List.mem_map] at hc
      obtain ⟨m, _, hcm⟩ := hc
      subst hcm
      simp only [pyLoadModSymsCall, List.mem_map] at hp
      obtain ⟨full, hfull, hpe⟩ := hp
      subst hpe
      obtain ⟨hseen, a, hsp⟩ := hi.sound m full hfull
      obtain ⟨he, hnd⟩ := splitLast_spec full m a hsp
      simp only [pyLoadModSymsCall]
      refine ⟨?_, ?_, mem_sortNames.1 hseen⟩
      · rw [he, drop_len_succ]
      · rw [he, drop_len_succ]; exact hnd
    · intro n hn
      obtain ⟨m, _, hmn, hg⟩ := hi.complete n (mem_sortNames.2 hn)
      refine ⟨pyLoadModSymsCall m (getOf acc.mods m), List.mem_map.2 ⟨m, hmn, rfl⟩, n.drop (m.length + 1), ?_⟩
      simp only [pyLoadModSymsCall, List.mem_map]
      exact ⟨n, hg, rfl⟩

/-- `pyLoadModSyms` does not panic on llgo's names: each is `__llgo_py.<module>.<attr>`, in particular
    `<non-empty prefix>.<rest>` -/
theorem loadSyms_total (pyobjs : List Name) (h : ∀ n ∈ pyobjs, ∃ p r, p ≠ [] ∧ n = p ++ '.' :: r) :
    (pyLoadModSyms pyobjs).isSome = true := by
  unfold pyLoadModSyms
  have := group_fold_total (sortNames pyobjs) {} (fun n hn => by
    obtain ⟨p, r, hp, e⟩ := h n (mem_sortNames.1 hn)
    rw [e]; exact modOf_isSome_of_dotted p r hp)
  cases hf : (sortNames pyobjs).foldlM groupStep {} with
  | none => simp [hf] at this
  | some acc => rfl

/-- a module, its submodule and a sibling with the same textual prefix, with symbols of the parent before AND
    after the submodule's in sorted order (`os.getcwd < os.path.join < os.uname < oss.f`) -/
def exNames : List Name :=
  ["__llgo_py.os.uname".toList, "__llgo_py.os.path.join".toList, "__llgo_py.oss.f".toList, "__llgo_py.os.getcwd".toList]

example : (pyLoadModSyms exNames).isSome = true :=
  loadSyms_total exNames (by
    intro n hn
    refine ⟨"__llgo_py".toList, n.drop 10, by decide, ?_⟩
    simp only [exNames, List.mem_cons, List.not_mem_nil, or_false] at hn
    rcases hn with h | h | h | h <;> subst h <;> decide)

example : pyLoadModSyms exNames = some [
    ⟨"__llgo_py.os".toList, [("getcwd".toList, "__llgo_py.os.getcwd".toList), ("uname".toList, "__llgo_py.os.uname".toList)]⟩,
    ⟨"__llgo_py.os.path".toList, [("join".toList, "__llgo_py.os.path.join".toList)]⟩,
    ⟨"__llgo_py.os".toList, [("getcwd".toList, "__llgo_py.os.getcwd".toList), ("uname".toList, "__llgo_py.os.uname".toList)]⟩,
    ⟨"__llgo_py.oss".toList, [("f".toList, "__llgo_py.oss.f".toList)]⟩] := by decide

/-- **Every round counts.**  For EVERY package (any bodies, any "this body makes that body exist" relation, any
    number of rounds): when `NewPackageEx` is done, the symbol loads emitted into `init` contain — as an exact
    pair, see `loadSyms_exact` — every Python function mentioned by ANY compiled body, whether the body was
    queued by `processPkg` or came into existence in a later round (generic instances, wrappers), and nothing
    that no compiled body mentions. -/
theorem package_loads_cover_every_round (B : Nat → Body) (roots : List Nat) (fuel : Nat) (calls : List LoadCall)
    (h : newPackageLoads B roots fuel = some (some calls)) :
    (∀ i, Reach B roots i → ∀ n ∈ (B i).pyRefs,
      ∃ c ∈ calls, ∃ attr, (attr, n) ∈ c.pairs ∧ n = c.modVar ++ '.' :: attr ∧ '.' ∉ attr) ∧
    (∀ c ∈ calls, ∀ p ∈ c.pairs, ∃ i, Reach B roots i ∧ p.2 ∈ (B i).pyRefs) := by
  unfold newPackageLoads at h
  cases hr : rounds B fuel (roots.foldl enqueue {}) with
  | none => simp [hr] at h
  | some st =>
    simp only [hr] at h
    injection h with h
    obtain ⟨hinv, hq⟩ := rounds_inv B roots fuel _ st (cinv_init B roots) hr
    have hall := reach_built hinv hq
    unfold afterInit at h
    by_cases he : st.pyobjs.isEmpty = true
    · simp only [he, if_true] at h
      injection h with h
      subst h
      constructor
      · intro i hi n hn
        have := (hall i hi).2.1 n hn
        rw [List.isEmpty_iff.1 he] at this
        cases this
      · intro c hc; cases hc
    · simp only [he, Bool.false_eq_true, if_false] at h
      obtain ⟨h1, h2⟩ := loadSyms_exact st.pyobjs calls h
      constructor
      · intro i hi n hn
        obtain ⟨c, hc, attr, hp⟩ := h2 n ((hall i hi).2.1 n hn)
        obtain ⟨e1, e2, _⟩ := h1 c hc (attr, n) hp
        exact ⟨c, hc, attr, hp, e1, e2⟩
      · intro c hc p hp
        exact hinv.objs p.2 (h1 c hc p hp).2.2

/-- a plain function (0) mentions `m.f` and instantiates a generic (1) that mentions `m.sub.g` and instantiates
    another generic (2, third round) that mentions `m.h`; body 3 is never referred to -/
def exBodies : Nat → Body
  | 0 => { pyRefs := ["__llgo_py.m.f".toList], spawns := [1] }
  | 1 => { pyRefs := ["__llgo_py.m.sub.g".toList], spawns := [2, 1] }
  | 2 => { pyRefs := ["__llgo_py.m.h".toList] }
  | _ => { pyRefs := ["__llgo_py.m.unused".toList] }

example : newPackageLoads exBodies [0] 4 = some (some [
    ⟨"__llgo_py.m".toList, [("f".toList, "__llgo_py.m.f".toList), ("h".toList, "__llgo_py.m.h".toList)]⟩,
    ⟨"__llgo_py.m.sub".toList, [("g".toList, "__llgo_py.m.sub.g".toList)]⟩]) := by decide

/-! ## `Py_Initialize` in the entry function, build after build over one cache (internal/build) -/

/-- **The interpreter is started whatever the cache holds.**  For EVERY content of the cache directory and every
    program: if some compiled (ordinary or binding) package needs the interpreter, `linkMainPkg` asks for
    `Py_Initialize` — `buildOne` takes the flag from the package compiled NOW, hit or miss. -/
theorem pyInit_whatever_the_cache (c : Cache) (pkgs : List BPkg) (h : progNeedsPy pkgs = true) :
    (build c pkgs).2.pyInit = true := by
  simp only [build, linkMain]
  exact buildAll_needPy pkgs c h

/-- **… in every build of every history.**  Successive builds (the same program rebuilt with a warm cache,
    edited, other programs sharing packages …) over one cache directory that starts in ANY state. -/
theorem pyInit_every_build_of_history : ∀ (hist : List (List BPkg)) (c : Cache),
    ∀ pe ∈ hist.zip (buildHistory c hist), progNeedsPy pe.1 = true → pe.2.pyInit = true := by
  intro hist
  induction hist with
  | nil => intro c pe h; simp [buildHistory] at h
  | cons p ps ih =>
    intro c pe h hn
    simp only [buildHistory, List.zip_cons_cons, List.mem_cons] at h
    rcases h with h | h
    · subst h; exact pyInit_whatever_the_cache c p hn
    · exact ih _ pe h hn

example : progNeedsPy [{ id := 0, needPy := true }, { id := 1, isMain := true }] = true := by decide

/-- a helper package that needs ONLY the interpreter (no runtime, no link arguments) and a `main` that does
    not: cold build, warm rebuild, rebuild after the helper's manifest lost its metadata section -/
example : buildHistory [((0, 7), none)]
    [[{ id := 0, fp := 5, needPy := true }, { id := 1, isMain := true }],
     [{ id := 0, fp := 5, needPy := true }, { id := 1, isMain := true }],
     [{ id := 0, fp := 7, needPy := true }, { id := 1, isMain := true }]] =
    [⟨false, true, []⟩, ⟨false, true, []⟩, ⟨false, true, []⟩] := by decide

/-- **What is stored comes back.**  `saveToCache` followed by `tryLoadFromCache` of the same (package,
    fingerprint) restores exactly the link arguments and both flags — in particular a package whose ONLY
    non-default property is `NeedPyInit` keeps it (the metadata section is dropped only when all three are
    default). -/
theorem cache_roundtrip (c : Cache) (k : BPkg) (a a0 : APkg) (hm : k.isMain = false) :
    tryLoadFromCache (saveToCache c k a) k a0 =
      { a0 with linkArgs := a.linkArgs, needRt := a.needRt, needPyInit := a.needPyInit, cacheHit := true } := by
  unfold tryLoadFromCache
  rw [lookup_saved c k a hm]
  obtain ⟨h1, h2, h3⟩ := metaOf_getD a
  simp only [h1, h2, h3]

example : tryLoadFromCache (saveToCache [] { id := 3, fp := 9 } { needPyInit := true }) { id := 3, fp := 9 } {} =
    { needPyInit := true, cacheHit := true } := by decide

/-- **The cache stays truthful.**  If every entry of the cache carries the flags compiling that (package,
    fingerprint) yields (`F`), a build of packages described by `F` leaves such a cache — so the flags a hit
    restores always equal the flags `buildOne` recomputes (`restored_flags_agree`), build after build. -/
theorem cache_stays_truthful (F : Nat × Nat → Bool × Bool) (c : Cache) (pkgs : List BPkg) (h : CacheOk F c)
    (hd : ∀ k ∈ pkgs, Describes F k) : CacheOk F (build c pkgs).1 :=
  buildAll_cacheOk pkgs c h hd

theorem restored_flags_agree (F : Nat × Nat → Bool × Bool) (c : Cache) (k : BPkg) (h : CacheOk F c)
    (hk : k.kind = .ordinary) (hd : Describes F k) (hit : (tryLoadFromCache c k {}).cacheHit = true) :
    (tryLoadFromCache c k {}).needRt = k.needRt ∧ (tryLoadFromCache c k {}).needPyInit = k.needPy := by
  unfold Describes at hd
  simp only [hk] at hd
  unfold tryLoadFromCache at hit ⊢
  cases hl : c.lookup (k.id, k.fp) with
  | none => simp [hl] at hit
  | some md =>
    obtain ⟨h1, h2⟩ := h (k.id, k.fp) md hl
    simp only [hd] at h1 h2
    exact ⟨h1, h2⟩

example : CacheOk (fun _ => (false, true)) [((0, 5), some { needPyInit := true })] := by
  intro key md h
  simp only [List.lookup_cons, List.lookup_nil] at h
  split at h
  · injection h with h; subst h; exact ⟨rfl, rfl⟩
  · cases h

example : Describes (fun _ => (false, true)) { id := 0, fp := 5, needPy := true } := rfl

example : (tryLoadFromCache [((0, 5), some { needPyInit := true })] { id := 0, fp := 5, needPy := true } {}).cacheHit = true := by
  decide

/-! ## Argument order -/

/-- **Calls.**  For every arity and every argument list: the callable that `pyCall`'s C call invokes is
    the loaded symbol, and the positional arguments CPython hands to it are exactly the Go arguments, in
    source order.  (`nparams` = declared parameters; a variadic Python function is declared with a final
    `__llgo_va_list ...any`, so `nparams ≥ 1` and the call site has any number of arguments.) -/
theorem args_in_order {α : Type} (nparams : Nat) (variadic : Bool) (fn : α) (args : List α)
    (hwt : if variadic then 1 ≤ nparams else args.length = nparams) :
    ∃ c, pyCall nparams variadic fn args = some c ∧ c.received = args ∧ c.callee = fn := by
  match nparams, variadic, hwt with
  | 0, false, h =>
    simp only [Bool.false_eq_true, if_false, List.length_eq_zero_iff] at h
    subst h
    exact ⟨_, rfl, rfl, rfl⟩
  | 0, true, h => simp at h
  | 1, false, h =>
    simp only [Bool.false_eq_true, if_false] at h
    match args, h with
    | [a], _ => exact ⟨_, rfl, rfl, rfl⟩
  | 1, true, _ => exact ⟨_, rfl, received_objArgs fn args, rfl⟩
  | n+2, _, _ => exact ⟨_, rfl, received_objArgs fn args, rfl⟩

example : (if true then 1 ≤ 1 else [10, 20, 30].length = 1) := by decide
example : pyCall 3 false "f" ["a", "b", "c"] = some (.objArgs "f" [some "a", some "b", some "c", none]) := rfl

/-- CPython's convention, for completeness: a NULL among the arguments ends the list (a nil `*py.Object`
    passed from Go silently drops itself and everything after it). -/
theorem null_arg_truncates {α : Type} (fn : α) (l : List α) (r : List (Option α)) :
    (CCall.objArgs fn (l.map some ++ none :: r)).received = l := by
  simp only [CCall.received, takeWhile_some_null, filterMap_id_map_some]

/-- **`py.Tuple` / `py.List`.**  `New(n)` followed by `SetItem(i, PyVal(argᵢ))` for `i = 0 … n-1` fills every
    slot, and slot `i` holds the converted `i`-th argument — for every `n`. -/
theorem seq_in_order {α β : Type} (conv : α → β) (args : List α) :
    buildSeq conv args = args.map (fun a => some (conv a)) := buildSeq_eq conv args

theorem seq_complete {α β : Type} (conv : α → β) (args : List α) :
    (buildSeq conv args).length = args.length ∧ none ∉ buildSeq conv args := by
  rw [seq_in_order]; simp

/-! ## Values

`PyVal`'s only own decisions are the extension of narrow integers (signed kinds are sign-extended, unsigned
kinds zero-extended to 64 bits) — these two are real statements about `ssa/python.go`.  The round trips
below are identities by construction of the model (CPython's conversion functions are modelled as exact);
they are stated so that the claim is explicit, and carry no information about CPython. -/

theorem pyVal_int_exact (w : Nat) (hw : w ≤ 64) (v : BitVec w) : pyVal (.int w v) = .long v.toInt := by
  simp only [pyVal, BitVec.toInt_signExtend_of_le hw]

theorem pyVal_uint_exact (w : Nat) (hw : w ≤ 64) (v : BitVec w) : pyVal (.uint w v) = .long v.toNat := by
  simp only [pyVal, BitVec.toNat_setWidth]
  have h1 : v.toNat < 2 ^ w := v.isLt
  have h2 : 2 ^ w ≤ 2 ^ 64 := Nat.pow_le_pow_right (by omega) hw
  rw [Nat.mod_eq_of_lt (by omega)]

/-- identity in the model -/
theorem roundtrip_int64_model (v : BitVec 64) : asInt64 (pyVal (.int 64 v)) = some v := by
  rw [pyVal_int_exact 64 (by omega)]
  have h1 := BitVec.le_toInt v
  have h2 := @BitVec.toInt_lt 64 v
  simp only [asInt64]
  rw [if_pos ⟨by simpa using h1, by simpa using h2⟩, BitVec.ofInt_toInt]

/-- identity in the model -/
theorem roundtrip_uint64_model (v : BitVec 64) : asUint64 (pyVal (.uint 64 v)) = some v := by
  rw [pyVal_uint_exact 64 (by omega)]
  have h1 : v.toNat < 2 ^ 64 := v.isLt
  simp only [asUint64]
  rw [if_pos ⟨by omega, by omega⟩]
  simp

/-- identity in the model -/
theorem roundtrip_float64_model (b : BitVec 64) : asFloat64 (pyVal (.f64 b)) = some b := rfl

end LlgoVerif.PyGuard
