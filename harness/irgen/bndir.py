"""IR -> Lean translator for C03's bound-operand functions (harness/irgen/bndgen.py), the ABI-lowered -O0 shape llgo
writes with -gen-llfiles.  Memory is abstracted: slice/string headers are Lean parameters (`len`, `cap`), pointers are
opaque tokens with a provenance (`srcData`, `srcPtr`, `arrCopy`), local aggregates (alloca cells, insertvalue chains) are
tracked symbolically.  The Lean definition computes, in the monad `BM`, the run-time routine the function reaches and the
integer operands it hands over (`RtCall`), after the assert calls / the PanicSliceConvert branch in program order.
The translation FAILS LOUDLY (Unsupported) on anything else — in particular when the value the function returns is not the
result of that routine (the check would not guard the use)."""
import re

from ir2lean import Unsupported, ity, split_params, CASTS

RT = "github.com/goplus/llgo/runtime/internal/runtime."
SLICE_T = '%"' + RT + 'Slice"'
STRING_T = '%"' + RT + 'String"'
AGG = "(?:" + re.escape(SLICE_T) + "|" + re.escape(STRING_T) + r"|\{ ptr, i64 \}|\{ i64, i64 \}|\[\d+ x i\d+\])"


DEFINE_RE = re.compile(r'^define\s+(?:linkonce\s+)?(?P<ret>\{[^}]*\}|\[[^\]]*\]|\S+)\s+@"?(?P<name>[^"(]+)"?\((?P<params>.*)\)\s*(#\d+\s*)?\{\s*$')


def parse_functions(text):
    """like ir2lean.parse_functions, but also accepts aggregate return types (`{ ptr, i64 }`, `{ i64, i64 }`)"""
    out = {}
    lines = text.split("\n")
    i = 0
    while i < len(lines):
        m = DEFINE_RE.match(lines[i])
        if m:
            body = []
            i += 1
            while i < len(lines) and lines[i].strip() != "}":
                body.append(lines[i])
                i += 1
            params = []
            ps = m.group("params").strip()
            if ps:
                for p in split_params(ps):
                    toks = p.strip().split()
                    params.append((" ".join(toks[:-1]), toks[-1]))
            out[m.group("name")] = (m.group("ret"), params, body)
        i += 1
    return out


def _args(s):
    """split a call's argument text into (type, value) pairs"""
    out = []
    for p in split_params(s):
        p = p.strip()
        m = re.fullmatch(r"ptr sret\([^)]*\) (%\d+)", p)
        if m:
            out.append(("sret", m.group(1)))
            continue
        m = re.fullmatch(r"(i\d+|ptr) (.+)", p)
        if not m:
            raise Unsupported("call argument " + p)
        out.append((m.group(1), m.group(2)))
    return out


def translate(name, lean_name, ret, params, body, o):
    """-> (lean def text, info)   o: the generator's descriptor (kind tells how to read the parameters)"""
    kind = o["kind"]
    env = {}          # reg -> value
    cells = {}        # alloca reg -> value | {"fields": {i: value}}
    fieldptr = {}     # reg -> (cell reg, field)
    info = {"uses_ptr": False, "nil_assert": False}
    out = []
    result = [None]   # value stored through the sret pointer
    calls = []        # runtime calls reaching a routine: (lean final expression)
    arrcopy = set()   # fresh pointers that received the whole array value
    niltests = set()  # registers holding `pointer operand == nil`

    # ---- parameters
    k = 0
    plist = list(params)
    i = 0
    first_ptr_done = False
    while i < len(plist):
        ty, reg = plist[i]
        if ty.startswith("ptr sret("):
            env[reg] = ("ptr", "sret")
        elif ty.startswith("ptr byval(" + SLICE_T):
            env[reg] = ("ptr", "byvalslice")
        elif ty.startswith("ptr byval(["):
            env[reg] = ("ptr", "byvalarr")
        elif ty == "ptr":
            if kind == "str" and not first_ptr_done:
                # a Go string parameter arrives as (ptr data, i64 len)
                if i + 1 >= len(plist) or plist[i + 1][0] != "i64":
                    raise Unsupported("string parameter is not (ptr, i64)")
                env[reg] = ("ptr", "srcData")
                env[plist[i + 1][1]] = ("int", "(some len)", 64)
                i += 1
            else:
                env[reg] = ("ptr", "srcPtr")
            first_ptr_done = True
        else:
            w = ity(ty)
            if k >= len(o["ints"]):
                raise Unsupported("more integer parameters than the source function has")
            env[reg] = ("int", "(some a%d)" % k, w)
            k += 1
        i += 1
    if k != len(o["ints"]):
        raise Unsupported("integer parameter count differs from the source function")

    def opnd(tok, w):
        tok = tok.rstrip(",")
        if tok in env:
            v = env[tok]
            if v[0] != "int":
                raise Unsupported("integer operand expected: " + tok)
            if v[2] != w:
                raise Unsupported("width mismatch on " + tok)
            return v[1]
        if re.fullmatch(r"-?\d+", tok):
            return "(some (BitVec.ofInt %d (%s)))" % (w, tok)
        if tok == "true":
            return "(some (BitVec.ofInt 1 1))"
        if tok == "false":
            return "(some (BitVec.ofInt 1 0))"
        raise Unsupported("operand " + tok)

    def ptr_of(tok):
        v = env.get(tok)
        if v is None or v[0] != "ptr":
            raise Unsupported("pointer operand expected: " + tok)
        return v[1]

    def base_of(tok):
        p = ptr_of(tok)
        if p == "srcData":
            return ".srcData"
        if p == "srcPtr":
            return ".srcPtr"
        if p.startswith("fresh:") and p in arrcopy:
            return ".arrCopy"
        return ".other"

    def load_agg(src):
        p = ptr_of(src)
        if p == "byvalslice":
            return ("hdr", {0: ("ptr", "srcData"), 1: ("int", "(some len)", 64), 2: ("int", "(some cap)", 64)})
        if p == "byvalarr":
            return ("opaque", "arrval")
        if p == "srcData":
            return ("opaque", "deref:srcData")
        if p.startswith("cell:"):
            c = cells.get(p[5:])
            if c is None:
                raise Unsupported("load from an unset local")
            if isinstance(c, dict):
                return ("hdr", dict(c["fields"]))
            return c
        raise Unsupported("aggregate load from " + p)

    # ---- blocks: straight line, or the one diamond of SliceToArrayPointer
    blocks, cur = [], None
    for line in body:
        s = line.split(";")[0].strip()
        if not s:
            continue
        if s.endswith(":"):
            cur = [s[:-1], []]
            blocks.append(cur)
            continue
        if cur is None:
            cur = ["entry", []]
            blocks.append(cur)
        cur[1].append(s)
    seq = []
    if len(blocks) == 1:
        seq = blocks[0][1]
    elif len(blocks) == 3:
        b0, b1, b2 = blocks
        m = re.fullmatch(r"br i1 (%\d+), label %(\S+), label %(\S+)", b0[1][-1])
        if not m or m.group(2) != b1[0] or m.group(3) != b2[0]:
            raise Unsupported("control flow other than `if failed { panic }`")
        if b1[1][-1] != "br label %" + b2[0]:
            raise Unsupported("panic block does not continue at the join block")
        pcall = [x for x in b1[1][:-1] if not re.fullmatch(r"%\d+ = extractvalue .*", x)]
        if len(pcall) != 1 or not re.fullmatch(r'call void @"' + re.escape(RT) + r'PanicSliceConvert"\(i64 \S+, i64 \d+\)', pcall[0]):
            raise Unsupported("panic block is not a single PanicSliceConvert call: %r" % pcall)
        seq = b0[1][:-1] + [("brpanic", m.group(1))] + b2[1]
    else:
        raise Unsupported("%d basic blocks" % len(blocks))

    returned = False
    final = None
    for s in seq:
        if returned:
            raise Unsupported("instruction after ret")
        if isinstance(s, tuple):
            out.append("  bassert .sliceConvert %s" % opnd(s[1], 1))
            continue
        m = re.fullmatch(r"(%\d+) = alloca " + AGG + r", align \d+", s)
        if m:
            env[m.group(1)] = ("ptr", "cell:" + m.group(1))
            cells[m.group(1)] = None
            continue
        m = re.fullmatch(r"(%\d+) = load " + AGG + r", ptr (%\d+), align \d+", s)
        if m:
            env[m.group(1)] = load_agg(m.group(2))
            continue
        m = re.fullmatch(r"(%\d+) = extractvalue " + AGG + r" (%\d+), (\d+)", s)
        if m:
            v = env.get(m.group(2))
            if v is None or v[0] != "hdr":
                raise Unsupported("extractvalue of an untracked aggregate: " + s)
            f = v[1].get(int(m.group(3)))
            if f is None:
                raise Unsupported("extractvalue of an unset field: " + s)
            env[m.group(1)] = f
            continue
        m = re.fullmatch(r"(%\d+) = insertvalue " + AGG + r" (undef|%\d+), (ptr|i64) (\S+), (\d+)", s)
        if m:
            prev = {} if m.group(2) == "undef" else dict(env[m.group(2)][1])
            if m.group(3) == "ptr":
                prev[int(m.group(5))] = ("ptr", ptr_of(m.group(4)))
            else:
                prev[int(m.group(5))] = ("int", opnd(m.group(4), 64), 64)
            env[m.group(1)] = ("hdr", prev)
            continue
        m = re.fullmatch(r"(%\d+) = getelementptr inbounds \{ ptr, i64 \}, ptr (%\d+), i32 0, i32 (\d+)", s)
        if m and ptr_of(m.group(2)).startswith("cell:"):
            fieldptr[m.group(1)] = (m.group(2), int(m.group(3)))
            continue
        m = re.fullmatch(r"store (ptr|i64) (%\d+), ptr (%\d+), align \d+", s)
        if m and m.group(3) in fieldptr:
            cell, f = fieldptr[m.group(3)]
            c = cells.get(cell)
            if not isinstance(c, dict):
                c = {"fields": dict(c[1]) if (c is not None and c[0] == "hdr") else {}}
            c["fields"][f] = env[m.group(2)]
            cells[cell] = c
            continue
        m = re.fullmatch(r"(%\d+) = load (ptr|i64), ptr (%\d+), align \d+", s)
        if m and m.group(3) in fieldptr:
            cell, f = fieldptr[m.group(3)]
            c = cells.get(cell)
            if isinstance(c, dict):
                v = c["fields"].get(f)
            elif c is not None and c[0] == "hdr":
                v = c[1].get(f)
            else:
                v = None
            if v is None:
                raise Unsupported("load of an unset header field: " + s)
            env[m.group(1)] = v
            continue
        m = re.fullmatch(r"store " + AGG + r" (%\d+), ptr (%\d+), align \d+", s)
        if m:
            v = env.get(m.group(1))
            if v is None:
                raise Unsupported("store of an untracked aggregate: " + s)
            p = ptr_of(m.group(2))
            if p == "sret":
                result[0] = v
            elif p.startswith("cell:"):
                cells[p[5:]] = v
            elif p.startswith("fresh:") and v == ("opaque", "arrval"):
                arrcopy.add(p)
            else:
                raise Unsupported("aggregate store to " + p)
            continue
        m = re.fullmatch(r"(%\d+) = (trunc|zext|sext) (i\d+) (\S+) to (i\d+)", s)
        if m:
            w1, w2 = ity(m.group(3)), ity(m.group(5))
            env[m.group(1)] = ("int", "v" + m.group(1)[1:], w2)
            out.append("  let v%s := %s %d %s" % (m.group(1)[1:], CASTS[m.group(2)], w2, opnd(m.group(4), w1)))
            continue
        m = re.fullmatch(r"(%\d+) = icmp (\w+) (i\d+) (\S+), (\S+)", s)
        if m:
            w = ity(m.group(3))
            env[m.group(1)] = ("int", "v" + m.group(1)[1:], 1)
            out.append("  let v%s := icmp .%s %s %s" % (m.group(1)[1:], m.group(2), opnd(m.group(4), w), opnd(m.group(5), w)))
            continue
        m = re.fullmatch(r"(%\d+) = icmp eq ptr (%\d+), null", s)
        if m:
            pv = ptr_of(m.group(2))
            if pv == "srcPtr":
                info["uses_ptr"] = True
                niltests.add(m.group(1))
                env[m.group(1)] = ("int", "v" + m.group(1)[1:], 1)
                out.append("  let v%s := icmp .eq (some p) (some (BitVec.ofInt 64 0))" % m.group(1)[1:])
            elif pv.startswith("fresh:"):
                # the result of runtime.AllocZ is never nil (it does not return on failure): the test is constant false
                env[m.group(1)] = ("int", "(some (BitVec.ofInt 1 0))", 1)
            else:
                raise Unsupported("nil test of something else than the pointer operand: " + s)
            continue
        m = re.fullmatch(r'call void @"' + re.escape(RT) + r'AssertNilDeref"\(i1 (\S+)\)', s)
        if m:
            if m.group(1) in niltests:
                info["nil_assert"] = True
            out.append("  bassert .nilDeref %s" % opnd(m.group(1), 1))
            continue
        m = re.fullmatch(r'(%\d+) = call ptr @"' + re.escape(RT) + r'AllocZ"\(i64 (\d+)\)', s)
        if m:
            env[m.group(1)] = ("ptr", "fresh:" + m.group(1))
            continue
        m = re.fullmatch(r'(?:(%\d+) = )?call (void|ptr|\{ ptr, i64 \}|' + re.escape(SLICE_T) + r') @"' + re.escape(RT) + r'(\w+)"\((.*)\)', s)
        if m:
            dst, rty, fn, argtext = m.group(1), m.group(2), m.group(3), m.group(4)
            if fn == "MakeMap":
                # first argument is the map type descriptor (a constant expression): keep the trailing integer operand only
                mm = re.fullmatch(r"ptr .*, i64 (\S+)", argtext)
                if not mm:
                    raise Unsupported("MakeMap arguments: " + argtext)
                args = [("i64", mm.group(1))]
            else:
                args = _args(argtext)
            sret = [a for a in args if a[0] == "sret"]
            rest = [a for a in args if a[0] != "sret"]
            if calls:
                raise Unsupported("more than one run-time routine in one function")
            if fn == "NewSlice3":
                if len(rest) != 6 or rest[0][0] != "ptr":
                    raise Unsupported("NewSlice3 arity")
                expr = "callNewSlice3 %s %s" % (base_of(rest[0][1]), " ".join(opnd(a[1], 64) for a in rest[1:]))
            elif fn == "StringSlice":
                if len(rest) != 4 or rest[0][0] != "ptr":
                    raise Unsupported("StringSlice arity")
                expr = "callStringSlice %s %s" % (base_of(rest[0][1]), " ".join(opnd(a[1], 64) for a in rest[1:]))
            elif fn == "MakeSlice":
                if len(rest) != 3:
                    raise Unsupported("MakeSlice arity")
                expr = "callMakeSlice %s" % " ".join(opnd(a[1], 64) for a in rest)
            elif fn == "NewChan":
                if len(rest) != 2:
                    raise Unsupported("NewChan arity")
                expr = "callNewChan %s" % " ".join(opnd(a[1], 64) for a in rest)
            elif fn == "MakeMap":
                expr = "callMakeMap %s" % opnd(rest[0][1], 64)
            else:
                raise Unsupported("call of " + fn)
            calls.append(expr)
            if sret:
                p = ptr_of(sret[0][1])
                if not p.startswith("cell:"):
                    raise Unsupported("sret of the routine is not a local")
                cells[p[5:]] = ("callres", 0)
            elif dst:
                env[dst] = ("callres", 0)
            else:
                raise Unsupported("result of the routine is dropped")
            continue
        m = re.fullmatch(r"ret void", s)
        if m:
            final = result[0] if any(v == ("ptr", "sret") for v in env.values()) else ("unit",)
            if final is None:
                raise Unsupported("nothing stored through the result pointer")
            returned = True
            continue
        m = re.fullmatch(r"ret (ptr|" + AGG + r") (%\d+)", s)
        if m:
            final = env.get(m.group(2))
            if final is None:
                raise Unsupported("ret of an untracked value")
            returned = True
            continue
        raise Unsupported("instruction: " + s)
    if not returned:
        raise Unsupported("no ret")

    # ---- the returned value must be the routine's result (or the inline header / the data pointer after the test)
    if final == ("callres", 0):
        last = "  " + calls[0]
    elif calls:
        raise Unsupported("the function does not return the run-time routine's result")
    elif final[0] == "hdr":
        f = final[1]
        if set(f) == {0, 1, 2} and f[0][0] == "ptr" and f[1][0] == "int" and f[2][0] == "int":
            b = {"srcData": ".srcData", "srcPtr": ".srcPtr"}.get(f[0][1], ".other")
            last = "  retSliceHeader %s %s %s" % (b, f[1][1], f[2][1])
        elif set(f) == {0, 1} and f[0][0] == "ptr" and f[1][0] == "int":
            b = {"srcData": ".srcData", "srcPtr": ".srcPtr"}.get(f[0][1], ".other")
            last = "  retStringHeader %s %s" % (b, f[1][1])
        else:
            raise Unsupported("returned header has unexpected fields")
    elif final == ("ptr", "srcData") or final == ("opaque", "deref:srcData"):
        last = "  pure (.arrayPtr .srcData)"
    elif final == ("unit",):
        last = "  pure .unit"
    else:
        raise Unsupported("returned value %r" % (final,))
    sig = []
    if kind in ("slice", "s2a"):
        sig.append("(len cap : BitVec 64)")
    elif kind == "str":
        sig.append("(len : BitVec 64)")
    if info["uses_ptr"]:
        sig.append("(p : BitVec 64)")
    for j, t in enumerate(o["ints"]):
        sig.append("(a%d : BitVec %d)" % (j, o["widths"][j]))
    text = "def %s %s : BM RtCall := do\n%s\n" % (lean_name, " ".join(sig), "\n".join(out + [last]))
    return text, info
