"""C10 - channels and select obey Go's channel semantics under every schedule.

Lean: LlgoVerif/Model/Chan.lean (z_chan.go as a transition system at lock/wait granularity),
Lemmas/Chan.lean, Props/C10.lean.  Tie: native-copy route - the verbatim z_chan.go of the working tree runs on
threads of the controllable scheduler stand-in `psync`; the same schedule lines drive `modeld_c10`; the observable
state after every step is diffed.  The real traces are judged independently against a reference implementation
of Go's channel semantics (atomic operations, all interleavings enumerated; `go_outcomes` below)."""
import concurrent.futures
import os

from vlib.common import *
from vlib import native

H = os.path.join(VERIF, "harness", "c10")
RT_FILES = ["z_chan.go", "z_slice.go", "z_string.go", "utf8.go", "errors.go", "z_error.go", "stubs.go", "type.go",
            "z_face.go", "z_type.go", "alg.go", "hash64.go", "map.go", "z_map.go", "mbarrier.go"]

KEY_STALL = "chan:unbuffered-two-receivers-stall"
KEY_CLOSE = "chan:unbuffered-close-after-handoff-recv-false"


# ------------------------------------------------------------------ configurations
# op encodings (shared with the Lean driver and the Go harness):
#   ("s", c, v)  ("r", c)  ("c", c)  ("S", blocking, ((c, send, v), ...))
def op_tok(op):
    if op[0] == "s":
        return "s%d:%d" % (op[1], op[2])
    if op[0] == "r":
        return "r%d" % op[1]
    if op[0] == "c":
        return "c%d" % op[1]
    ch = lambda c: "N" if c is None else str(c)      # None = nil channel
    cases = ",".join(("s%s=%d" % (ch(c), v)) if snd else ("r%s" % ch(c)) for (c, snd, v) in op[2]) or "-"
    return "S:%s:%s" % ("b" if op[1] else "n", cases)


# which variant of z_chan.go the Lean model mirrors in this run ("current": without the hand-off counter recvseq;
# "fixed": with fixes/C10-1.diff).  Detected from the real code's behaviour on the two witness schedules (run()).
VARIANT = ["current"]


def cfg_lines(cfg):
    caps, progs = cfg
    return ["reset", "variant " + VARIANT[0]] + ["chan %d" % c for c in caps] + [("thread " + " ".join(op_tok(o) for o in p)).strip() for p in progs]


def cfg_str(cfg):
    return " | ".join(cfg_lines(cfg)[2:])


# ------------------------------------------------------------------ Go reference semantics (the specification)
DEV_SELSEND = "chan:select-send-on-closed-no-panic"
DEV_FULLSEND = "chan:send-blocked-on-full-closed-no-panic"
DEV_TRYSEL = "select:nonblocking-polls-one-case-at-a-time-and-parks"
DEV_SELSEL = "select:recv-case-refuses-select-sender"
DEV_SELPARK = "select:recv-case-arms-and-parks-ignoring-other-cases"
ALL_DEVS = (DEV_SELSEND, DEV_FULLSEND, DEV_TRYSEL, DEV_SELSEL, DEV_SELPARK)


def select_send_first(cases):
    """selectSendFirst of z_chan.go (channel index = address order)"""
    snd = [c for (c, s_, _) in cases if s_ and c is not None]        # nil channels are skipped
    rcv = [c for (c, s_, _) in cases if not s_ and c is not None]
    if not snd:
        return False
    if not rcv:
        return True
    return min(snd) < min(rcv)


def select_accepts(cases, c):
    """does the receive case on channel c of a BLOCKING select accept a sender that is itself a select?
    (trySelect: no if the sends are probed first, no if the select also sends on c)"""
    return (not select_send_first(cases)) and not any(s_ and cc == c for (cc, s_, _) in cases)


def go_outcomes(cfg, dev=frozenset(), limit=300000):
    """All terminal outcomes AND all reachable states of the configuration under Go's channel semantics with atomic
    operations (unbuffered send/receive = rendezvous of two parked-or-arriving operations; select = one atomic choice
    among the ready cases, `default` iff none is ready; a non-blocking select can only meet a partner that is parked).
    Outcome / state = (per thread (finished, results), per channel (closed, buffered values)).
    `dev`: known deviations of the implementation switched on in the reference (used only to CLASSIFY a failure):
      DEV_SELSEND  - a select send case on a closed channel is never ready (Go: it is chosen and panics);
      DEV_FULLSEND - a plain send on a closed buffered channel whose buffer is full keeps blocking (Go: panics);
      DEV_SELSEL   - the receive case of a blocking select that probes its sends first, or that also sends on the
                     same channel, never meets a sender that is itself a select (unless a plain sender is parked
                     on the channel too);
      DEV_SELPARK  - the receive case of a BLOCKING select on an unbuffered channel on which a sender is (or, for a
                     select-sender that committed elsewhere and has not yet unregistered, still is) counted arms the
                     channel and waits in chanTryRecv's second phase: from then on the select ignores its other cases;
      DEV_TRYSEL   - a non-blocking select polls its cases one at a time (so `default` can be taken although at
                     every instant some case was ready), and its receive case on an unbuffered channel with a parked
                     sender PARKS as a receiver (any sender may then serve it; it can stay parked for ever).
    Returns (terminal set, reachable set), or None if the state space exceeds `limit`."""
    caps, progs = cfg
    n = len(progs)
    trysel = DEV_TRYSEL in dev
    # posted[i]: thread i has begun its current blocking operation and is parked (only then can a NON-blocking
    # select of another thread rendezvous with it); tracked only if the configuration has such a select.
    # sub[i] = (poll index, parked) of a non-blocking select under DEV_TRYSEL.
    track = any(op[0] == "S" and not op[1] for p in progs for op in p)
    zero = tuple((0, False) for _ in progs)
    init = (tuple(0 for _ in progs), tuple(((), False) for _ in caps), tuple(() for _ in progs),
            tuple(False for _ in progs), zero)
    seen = {init}
    stack = [init]
    outcomes = set()
    reach = set()

    def proj(st):
        pos, ch, rs = st[0], st[1], st[2]
        return (tuple((pos[i] >= len(progs[i]), rs[i]) for i in range(n)), tuple((closed, buf) for (buf, closed) in ch))

    def upd(tup, i, val):
        l = list(tup)
        l[i] = val
        return tuple(l)

    def adv(st, i, res, chans=None, end=False):
        pos, ch, rs, posted, sub = st
        return (upd(pos, i, len(progs[i]) if end else pos[i] + 1), ch if chans is None else chans,
                upd(rs, i, rs[i] + (res,)), upd(posted, i, False), upd(sub, i, (0, False)))

    def sel_res(idx, v, ok):
        return "L%d/%d/%d" % (idx, v, 1 if ok else 0)

    while stack:
        st = stack.pop()
        pos, ch, rs, posted, sub = st
        reach.add(proj(st))
        succ = []
        cur = [progs[i][pos[i]] if pos[i] < len(progs[i]) else None for i in range(n)]
        # roles on unbuffered channels.  sender: (thread, value, result token, blocking, parked)
        #                                receiver: (thread, case index or None, blocking, parked)
        senders, receivers = {}, {}
        for i, op in enumerate(cur):
            if op is None:
                continue
            if op[0] == "s":
                senders.setdefault(op[1], []).append((i, op[2], "S", True, posted[i]))
            elif op[0] == "r":
                receivers.setdefault(op[1], []).append((i, None, True, posted[i]))
            elif op[0] == "S":
                if trysel and not op[1]:
                    pi, parked = sub[i]
                    if pi < len(op[2]):
                        c, snd, v = op[2][pi]
                        if c is None:
                            pass
                        elif parked:
                            receivers.setdefault(c, []).append((i, pi, True, True))
                        elif snd:
                            senders.setdefault(c, []).append((i, v, pi, False, False))
                    continue
                if op[1] and sub[i][1]:
                    receivers.setdefault(op[2][sub[i][0]][0], []).append((i, sub[i][0], True, True))
                    continue
                for k, (c, snd, v) in enumerate(op[2]):
                    if c is None:
                        continue                     # nil channel: the case is permanently disabled
                    if snd:
                        senders.setdefault(c, []).append((i, v, k, op[1], posted[i]))
                    else:
                        receivers.setdefault(c, []).append((i, k, op[1], posted[i]))
        nb_enabled = {}   # thread -> a non-blocking select has some ready case
        for i, op in enumerate(cur):
            if op is None:
                continue
            if op[0] == "s":
                c, v = op[1], op[2]
                buf, closed = ch[c]
                if closed:
                    if not (DEV_FULLSEND in dev and caps[c] > 0 and len(buf) == caps[c]):
                        succ.append(adv(st, i, "P", end=True))
                elif caps[c] > 0 and len(buf) < caps[c]:
                    succ.append(adv(st, i, "S", upd(ch, c, (buf + (v,), closed))))
            elif op[0] == "r":
                c = op[1]
                buf, closed = ch[c]
                if buf:
                    succ.append(adv(st, i, "R%d/1" % buf[0], upd(ch, c, (buf[1:], closed))))
                elif closed:
                    succ.append(adv(st, i, "R0/0"))
            elif op[0] == "c":
                c = op[1]
                buf, closed = ch[c]
                if closed:
                    succ.append(adv(st, i, "P", end=True))
                else:
                    succ.append(adv(st, i, "C", upd(ch, c, (buf, True))))
            elif trysel and not op[1]:
                # the implementation's TrySelect, one atomic poll per transition
                pi, parked = sub[i]
                nxt = (pos, ch, rs, posted, upd(sub, i, (pi + 1, False)))
                if pi >= len(op[2]):
                    succ.append(adv(st, i, "D"))
                    continue
                c, snd, v = op[2][pi]
                if c is None:
                    succ.append(nxt)              # nil channel: skipped
                    continue
                buf, closed = ch[c]
                if parked:
                    if closed:
                        succ.append(nxt)          # woken by close: tryOK = false, go on polling
                    continue                      # otherwise served by the rendezvous loop below
                if snd:
                    if closed:
                        succ.append(nxt if DEV_SELSEND in dev else adv(st, i, "P", end=True))
                    elif caps[c] > 0:
                        if len(buf) < caps[c]:
                            succ.append(adv(st, i, sel_res(pi, 0, False), upd(ch, c, (buf + (v,), closed))))
                        else:
                            succ.append(nxt)
                    elif not any(j != i and pk for (j, _, _, pk) in receivers.get(c, [])):
                        succ.append(nxt)          # no parked receiver: ChanTrySend fails
                else:
                    if caps[c] > 0:
                        if buf:
                            succ.append(adv(st, i, sel_res(pi, buf[0], True), upd(ch, c, (buf[1:], closed))))
                        elif closed:
                            succ.append(adv(st, i, sel_res(pi, 0, False)))
                        else:
                            succ.append(nxt)
                    elif closed:
                        succ.append(adv(st, i, sel_res(pi, 0, False)))
                    else:
                        # (a committed blocking select stays registered as a sender until its endSelect ran)
                        parked_senders = any(j != i and blk and pk for (j, _, _, blk, pk) in senders.get(c, [])) or \
                            any(j != i and o[0] == "S" and o[1] and any(cc == c and sd for (cc, sd, _) in o[2])
                                for j in range(n) for o in progs[j])
                        other_recv = any(j != i and pk for (j, _, _, pk) in receivers.get(c, []))
                        if parked_senders:
                            succ.append((pos, ch, rs, posted, upd(sub, i, (pi, True))))
                        if not parked_senders or other_recv:
                            succ.append(nxt)
            else:
                if op[1] and sub[i][1]:
                    # parked on one receive case (DEV_SELPARK): only a rendezvous or close gets it out
                    if ch[op[2][sub[i][0]][0]][1]:
                        succ.append((pos, ch, rs, posted, upd(sub, i, (0, False))))
                    continue
                if op[1] and DEV_SELPARK in dev:
                    for k, (c, snd, v) in enumerate(op[2]):
                        if c is None or snd or caps[c] != 0 or ch[c][1]:
                            continue
                        # chanTryRecv arms only if a sender is counted in p.sends, and - when the receive pass does not
                        # accept select-senders (sends probed first / channel also sent on) - only if a PLAIN sender is
                        plain = any(j != i and h2 == "S" for (j, _, h2, _, _) in senders.get(c, []))
                        selsnd = any(j != i and o[0] == "S" and o[1] and any(cc == c and sd for (cc, sd, _) in o[2])
                                     for j in range(n) for o in progs[j])
                        if plain or (selsnd and select_accepts(op[2], c)):
                            succ.append((pos, ch, rs, upd(posted, i, True), upd(sub, i, (k, True))))
                any_enabled = False
                for k, (c, snd, v) in enumerate(op[2]):
                    if c is None:
                        continue
                    buf, closed = ch[c]
                    if snd:
                        if closed:
                            if DEV_SELSEND not in dev:
                                any_enabled = True
                                succ.append(adv(st, i, "P", end=True))
                        elif caps[c] > 0 and len(buf) < caps[c]:
                            any_enabled = True
                            succ.append(adv(st, i, sel_res(k, 0, False), upd(ch, c, (buf + (v,), closed))))
                    else:
                        if buf:
                            any_enabled = True
                            succ.append(adv(st, i, sel_res(k, buf[0], True), upd(ch, c, (buf[1:], closed))))
                        elif closed:
                            any_enabled = True
                            succ.append(adv(st, i, sel_res(k, 0, False)))
                nb_enabled[i] = any_enabled
        # rendezvous on unbuffered channels
        for c in range(len(caps)):
            if caps[c] != 0 or ch[c][1]:
                continue
            for (i, v, how, iblock, ipk) in senders.get(c, []):
                for (j, k, jblock, jpk) in receivers.get(c, []):
                    if i == j or not (iblock or jblock):
                        continue
                    if (not iblock and not jpk) or (not jblock and not ipk):
                        continue
                    if DEV_SELSEL in dev and how != "S" and k is not None and cur[j][0] == "S" and cur[j][1] \
                            and not select_accepts(cur[j][2], c) \
                            and not any(h2 == "S" for (_, _, h2, _, _) in senders.get(c, [])):
                        continue
                    s2 = adv(st, i, "S" if how == "S" else sel_res(how, 0, False))
                    s2 = adv(s2, j, ("R%d/1" % v) if k is None else sel_res(k, v, True))
                    succ.append(s2)
                    for t, blk in ((i, iblock), (j, jblock)):
                        if not blk:
                            nb_enabled[t] = True
        for i, op in enumerate(cur):
            if op is not None and op[0] == "S" and not op[1] and not trysel and not nb_enabled.get(i, False):
                succ.append(adv(st, i, "D"))
        terminal = not succ
        if track:
            for i, op in enumerate(cur):
                if op is not None and not posted[i] and (op[0] in "sr" or (op[0] == "S" and op[1])):
                    succ.append((pos, ch, rs, upd(posted, i, True), sub))
        if terminal:
            outcomes.add(proj(st))
        for s2 in succ:
            if s2 not in seen:
                seen.add(s2)
                stack.append(s2)
                if len(seen) > limit:
                    return None
    return outcomes, reach


# ------------------------------------------------------------------ parsing observable state lines
def parse_state(line):
    """'R=0,1 W=- C 1:0:5 T 0:S.R5/1' -> dict; None if the line is not a state line"""
    if line.startswith("t") or line.startswith("stuck"):
        line = line.split(" ", 1)[1] if " " in line else ""
    f = line.split(" ")
    if len(f) < 3 or not f[0].startswith("R=") or not f[1].startswith("W=") or f[2] != "C" or "T" not in f:
        return None
    ti = f.index("T")
    ids = lambda s: [] if s == "-" else [int(x) for x in s.split(",")]
    chans = []
    for tok in f[3:ti]:
        ln, cl, buf = tok.split(":")
        chans.append((int(ln), cl == "1", tuple() if buf == "-" else tuple(int(x) for x in buf.split("."))))
    threads, pend = [], []
    for tok in f[ti + 1:]:
        dn, rs, pd = tok.split(":")
        threads.append((dn == "1", tuple() if rs == "-" else tuple(rs.split("."))))
        pend.append([] if pd == "-" else [tuple(int(x) for x in e.split("/")) for e in pd.split(".")])
    return {"R": ids(f[0][2:]), "W": ids(f[1][2:]), "chans": chans, "threads": threads, "pend": pend}


def outcome_of(st):
    return (tuple((dn, rs) for (dn, rs) in st["threads"]), tuple((cl, buf) for (_, cl, buf) in st["chans"]))


# ------------------------------------------------------------------ running model and real code
def sched_lines(sched):
    """'s0,w1,s2' -> ['step 0', 'wake 1', 'step 2']"""
    if sched == "-" or not sched:
        return []
    return [("step " if x[0] == "s" else "wake ") + x[1:] for x in sched.split(",")]


def model_explore(modeld, cfgs, max_states, wakes):
    """[(stats dict, [schedule strings])] per configuration (model state graph, breadth first)"""
    lines = []
    for cfg in cfgs:
        lines += cfg_lines(cfg) + ["explore %d %d" % (max_states, 1 if wakes else 0)]
    out, rc, err = run_lines([modeld], lines)
    if len(out) != len(lines):
        raise RuntimeError("modeld_c10 died during explore: %d/%d lines\n%s" % (len(out), len(lines), err[-2000:]))
    res = []
    i = 0
    for cfg in cfgs:
        i += len(cfg_lines(cfg))
        f = out[i].split(" ")
        i += 1
        if f[0] != "explored":
            raise RuntimeError("unexpected explore answer: " + out[i - 1][:200])
        stats = dict(kv.split("=") for kv in f[1:5])
        scheds = f[5].split(";") if len(f) > 5 and f[5] else []
        res.append(({k: int(v) for k, v in stats.items()}, scheds))
    return res


def _run_chunk(args):
    cmd, lines = args
    out, rc, err = run_lines(cmd, lines)
    return out, rc, err


def run_scripts(cmd, scripts, chunk_lines=60000, workers=8):
    """scripts: list of line lists.  Returns list of output-line lists (same shape).  The real harness leaks the
    goroutines of blocked threads at every `reset`, so the work is cut into several processes."""
    chunks, cur, cur_n = [], [], 0
    for sc in scripts:
        cur.append(sc)
        cur_n += len(sc)
        if cur_n >= chunk_lines:
            chunks.append(cur)
            cur, cur_n = [], 0
    if cur:
        chunks.append(cur)
    jobs = [(cmd, [l for sc in ch for l in sc]) for ch in chunks]
    with concurrent.futures.ThreadPoolExecutor(max_workers=workers) as ex:
        results = list(ex.map(_run_chunk, jobs))
    outs = []
    for ch, (out, rc, err) in zip(chunks, results):
        i = 0
        for sc in ch:
            outs.append(out[i:i + len(sc)])       # short when the process died: visible as a mismatch
            i += len(sc)
        if len(out) != i:
            outs[-1] = outs[-1] + ["<process ended early rc=%s: %s>" % (rc, err.strip()[-300:])]
    return outs


# ------------------------------------------------------------------ judging the REAL traces against the specification
class Ref:
    """memo of the Go reference per configuration and deviation set"""

    def __init__(self):
        self.memo = {}

    def get(self, cfg, dev=frozenset()):
        k = (cfg_str(cfg), dev)
        if k not in self.memo:
            self.memo[k] = go_outcomes(cfg, dev)
        return self.memo[k]


def recv_capable(op, c):
    return op is not None and ((op[0] == "r" and op[1] == c) or (op[0] == "S" and any(cc == c and not snd for (cc, snd, _) in op[2])))


def judge_final(cfg, st, ref):
    """st: parsed QUIESCENT state (no runnable thread) of the real code.  None if Go's semantics allows this final
    state; otherwise (keys, why): keys = finding classes that explain it (empty list: unexplained)."""
    caps, progs = cfg
    base = ref.get(cfg)
    if base is None:
        return None            # reference too large: not judged (counted by the caller)
    if outcome_of(st) in base[0]:
        return None
    keys = []
    new_threads = []
    completed = False
    for t, (dn, rs) in enumerate(st["threads"]):
        nrs = []
        for idx, r in enumerate(rs):
            if "!" in r:
                # a select returned although ANOTHER of its receive cases had been handed a value
                k = int(r.split("!")[1].split("/")[0])
                op = progs[t][idx] if idx < len(progs[t]) else None
                if op is not None and op[0] == "S" and k < len(op[2]) and op[2][k][0] is not None and \
                        st["chans"][op[2][k][0]][1] and caps[op[2][k][0]] == 0:
                    return ([KEY_CLOSE], "value handed to case %d of thread %d's select, channel closed before the receiver looked: value lost" % (k, t))
                return ([], "stray delivery without close")
            if r[0] == "R" and r.endswith("/0") and r != "R0/0":
                keys.append(KEY_CLOSE)
                r = r[:-1] + "1"
            elif r[0] == "L" and r.endswith("/0") and r.split("/")[1] != "0":
                keys.append(KEY_CLOSE)
                r = r[:-1] + "1"
            nrs.append(r)
        pend = st["pend"][t]
        if not dn and pend and len(rs) < len(progs[t]):
            # a value sits in the variable of a receive that has not returned
            op = progs[t][len(rs)]
            k, v = pend[0]
            c = op[1] if op[0] == "r" else (op[2][k][0] if op[0] == "S" and k < len(op[2]) else None)
            if c is None or caps[c] != 0:
                return ([], "pending delivery on a buffered channel in a quiescent state")
            blocked = [u for u, (d2, r2) in enumerate(st["threads"])
                       if not d2 and len(r2) < len(progs[u]) and recv_capable(progs[u][len(r2)], c)]
            if len(blocked) < 2:
                return ([], "receiver of thread %d holds its value but never returns, no second receiver involved" % t)
            keys.append(KEY_STALL)
            nrs.append(("R%d/1" % v) if op[0] == "r" else ("L%d/%d/1" % (k, v)))
            completed = True
            dn = len(nrs) == len(progs[t])
        new_threads.append((dn, tuple(nrs)))
    repaired = (tuple(new_threads), outcome_of(st)[1])
    import itertools
    for dev in (frozenset(x) for r_ in range(len(ALL_DEVS) + 1) for x in itertools.combinations(ALL_DEVS, r_)):
        r = ref.get(cfg, dev)
        if r is None:
            return None
        if repaired in (r[1] if completed else r[0]):
            ks = sorted(set(keys) | set(dev))
            if ks:
                return (ks, "explained by: " + ", ".join(ks))
    return ([], "final state is not an outcome of Go's channel semantics")


def judge_steps(cfg, states):
    """safety facts that must hold in EVERY observed state of the real code; returns list of complaints"""
    caps, progs = cfg
    sent_vals = [set() for _ in caps]
    for p in progs:
        for op in p:
            if op[0] == "s":
                sent_vals[op[1]].add(op[2])
            elif op[0] == "S":
                for (c, snd, v) in op[2]:
                    if snd and c is not None:
                        sent_vals[c].add(v)
    bad = []
    prev = None
    for st in states:
        for c, (ln, cl, buf) in enumerate(st["chans"]):
            if ln > caps[c] or ln < 0:
                bad.append("len %d exceeds cap %d of channel %d" % (ln, caps[c], c))
            if len(buf) != ln and caps[c] > 0:
                bad.append("channel %d: len %d but %d buffered values" % (c, ln, len(buf)))
            if len(set(buf)) != len(buf) or any(v not in sent_vals[c] for v in buf):
                bad.append("channel %d buffers %s: duplicated or never-sent value" % (c, list(buf)))
            if prev is not None and prev["chans"][c][1] and not cl:
                bad.append("channel %d re-opened" % c)
        if prev is not None:
            for t, (dn, rs) in enumerate(st["threads"]):
                prs = prev["threads"][t][1]
                if rs[:len(prs)] != prs or (prev["threads"][t][0] and not dn):
                    bad.append("thread %d: results rewritten" % t)
        prev = st
    return bad


# ------------------------------------------------------------------ generators
def parse_tok(tok):
    f = tok.split(":")
    if f[0] == "S":
        cases = []
        if f[2] != "-":
            for cs in f[2].split(","):
                if cs[0] == "s":
                    c, v = cs[1:].split("=")
                    cases.append((None if c == "N" else int(c), True, int(v)))
                else:
                    cases.append((None if cs[1:] == "N" else int(cs[1:]), False, 0))
        return ("S", f[1] == "b", tuple(cases))
    if tok[0] == "s":
        return ("s", int(f[0][1:]), int(f[1]))
    return (tok[0], int(tok[1:]))


def rand_cfg(rng, nch, maxcap, nth, maxops, psel=0.3):
    caps = [rng.randint(0, maxcap) for _ in range(nch)]
    val = [1]

    def nv():
        val[0] += 1
        return val[0]
    progs = []
    for t in range(nth):
        ops = []
        for k in range(rng.randint(1, maxops)):
            r = rng.random()
            c = rng.randrange(nch)
            if r < 0.35 * (1 - psel) / 0.7:
                ops.append(("s", c, nv()))
            elif r < 0.62 * (1 - psel) / 0.7:
                ops.append(("r", c))
            elif r < 1 - psel:
                ops.append(("c", c))
            else:
                ncase = rng.choice([0, 1, 1, 2, 2, 2, 3])
                cases = []
                for _ in range(ncase):
                    snd = rng.random() < 0.5
                    cch = None if rng.random() < 0.12 else rng.randrange(nch)       # nil-channel case
                    cases.append((cch, snd, nv() if snd else 0))
                ops.append(("S", rng.random() < 0.6, tuple(cases)))
        progs.append(ops)
    return (caps, progs)


def systematic_cfgs():
    """the core of the property's quantifier: k senders, m receivers, optional closer, cap 0..2, one channel;
    plus select shapes on one and two channels"""
    out = []
    for cap in (0, 1, 2):
        for ns, nr, per in ((1, 1, 2), (2, 1, 1), (1, 2, 1), (2, 2, 1), (1, 1, 3)):
            v = [10]

            def nv():
                v[0] += 1
                return v[0]
            senders = [[("s", 0, nv()) for _ in range(per)] for _ in range(ns)]
            total = ns * per
            recvs = [[("r", 0)] * max(1, total // nr) for _ in range(nr)]
            out.append(([cap], senders + recvs))
            # the last sender closes, one receiver reads one more (drain + ok=false)
            s2 = [list(p) for p in senders]
            s2[-1].append(("c", 0))
            r2 = [list(p) for p in recvs]
            r2[0].append(("r", 0))
            if ns == 1:
                out.append(([cap], s2 + r2))
        out.append(([cap], [[("S", True, ((0, True, 5),))], [("S", True, ((0, False, 0),))]]))
        out.append(([cap], [[("S", False, ((0, True, 5),))], [("r", 0)]]))
        out.append(([cap], [[("S", False, ((0, False, 0),))], [("s", 0, 5)]]))
        out.append(([cap], [[("c", 0)], [("S", True, ((0, False, 0),))], [("r", 0)]]))
    out.append(([0, 1], [[("S", True, ((0, True, 4),))], [("r", 0), ("S", True, ((0, False, 0), (1, True, 5)))]]))
    # non-blocking select with a not-ready send case on a lower channel and a receive case served by a select-sender
    out.append(([0, 0, 0], [[("S", False, ((0, True, 1), (1, False, 0)))], [("S", True, ((1, True, 7), (2, False, 0)))]]))
    out.append(([0, 0], [[("S", False, ((0, True, 1), (1, False, 0)))], [("S", True, ((1, True, 7),))]]))
    out.append(([0, 0], [[("S", False, ((1, False, 0), (1, True, 1)))], [("S", True, ((1, True, 7),))]]))
    out.append(([0], [[("S", False, ((0, True, 1),))], [("S", True, ((0, False, 0),))]]))
    # nil-channel cases next to live ones, on both sides of a rendezvous
    out.append(([0, 0], [[("S", True, ((None, True, 5), (0, False, 0)))], [("S", True, ((0, True, 7), (1, False, 0)))]]))
    out.append(([0, 0], [[("S", True, ((None, True, 5), (0, False, 0)))], [("s", 0, 7)]]))
    out.append(([0, 0], [[("S", True, ((0, True, 1), (1, False, 0), (None, False, 0)))],
                        [("S", True, ((1, True, 2), (0, False, 0), (None, False, 0)))]]))
    out.append(([0], [[("S", True, ((None, False, 0), (0, True, 3)))], [("S", True, ((0, False, 0), (None, True, 9)))]]))
    out.append(([1], [[("S", False, ((None, True, 4), (0, False, 0), (None, False, 0)))], [("s", 0, 6)]]))
    out.append(([0], [[("S", False, ((None, False, 0),))], [("S", True, ((None, True, 1),)), ]]))
    for c0, c1 in ((0, 0), (0, 1), (1, 1), (2, 0)):
        out.append(([c0, c1], [[("S", True, ((0, False, 0), (1, False, 0)))], [("s", 0, 7)], [("s", 1, 8)]]))
        out.append(([c0, c1], [[("S", True, ((0, True, 5), (1, False, 0)))], [("S", True, ((0, False, 0), (1, True, 6)))]]))
        out.append(([c0, c1], [[("S", True, ((0, True, 5), (1, True, 6)))], [("r", 1)], [("r", 0)]]))
    return out


def prio_scripts(rng, cfg, limit=6):
    """run-to-block schedules: for several priority orders, always step the first runnable thread of the order.
    (The exhaustive part replays every TRANSITION of the model graph, but deduplicates states, so a particular
    history - e.g. "the peer is fully parked before the select starts" - need not be replayed as one script; these
    scripts add such histories for the real-time rules of the judge.)"""
    import itertools
    nth = len(cfg[1])
    perms = list(itertools.permutations(range(nth)))
    if len(perms) > limit:
        perms = rng.sample(perms, limit)
    nops = sum(len(p) for p in cfg[1])
    out = []
    for pm in perms:
        out.append(cfg_lines(cfg) + ["prio " + ",".join(map(str, pm))] + ["auto"] * (14 * nops + 8))
    return out


def random_script(rng, cfg, nsteps):
    """random-priority schedule: `auto` steps under a priority order that changes now and then, spurious wake-ups"""
    nth = len(cfg[1])
    lines = cfg_lines(cfg)
    order = list(range(nth))
    rng.shuffle(order)
    lines.append("prio " + ",".join(map(str, order)))
    for i in range(nsteps):
        r = rng.random()
        if r < 0.12:
            rng.shuffle(order)
            lines.append("prio " + ",".join(map(str, order)))
        elif r < 0.22:
            lines.append("wake %d" % rng.randrange(nth))
        lines.append("auto")
    # drain: let everything runnable run, so that the last state is quiescent (or the thread set is still busy)
    for i in range(6 * nth):
        lines.append("auto")
    return lines


# ------------------------------------------------------------------ the check
def build_real(ctx):
    extra = {"zz_support.go": native.RT_SUPPORT, "zz_c10.go": open(os.path.join(H, "rt_extra.go.txt")).read()}
    return native.make_native(ctx, RT_FILES, extra, {"main.go": open(os.path.join(H, "main.go.txt")).read()}, name="native-c10")


def detect_variant(ctx, real, corpus):
    """Replay the two witness schedules of Props/C10.lean (stall, loss) on the REAL code and decide which variant of
    z_chan.go the working tree holds: `current` (no_stuck_pair_counterexample / no_loss_counterexample reproduce) or
    `fixed` (stall_fixed_facts / loss_fixed_facts reproduce)."""
    jobs = []
    for e in corpus[:2]:
        cfg = (e["caps"], [[parse_tok(t) for t in th.split()] for th in e["threads"]])
        jobs.append(cfg_lines(cfg) + sched_lines(e["sched"]))
    ro = run_scripts([real], jobs)
    w_stall = parse_state(ro[0][-1]) if ro[0] else None
    w_loss = parse_state(ro[1][-1]) if ro[1] else None
    ctx.coverage["lean_witnesses_on_real_code"] = {"stall schedule": ro[0][-1:], "loss schedule": ro[1][-1:]}
    stall_cur = bool(w_stall and not w_stall["R"] and w_stall["W"] == [0, 1] and w_stall["threads"][2] == (True, ("S",))
                     and w_stall["pend"][0] == [(0, 42)])
    stall_fix = bool(w_stall and w_stall["threads"][0] == (True, ("R42/1",)) and w_stall["threads"][2] == (True, ("S",)))
    loss_cur = bool(w_loss and w_loss["threads"][0] == (True, ("R42/0",)))
    loss_fix = bool(w_loss and w_loss["threads"][0] == (True, ("R42/1",)))
    if stall_cur and loss_cur:
        v = "current"
    elif stall_fix and loss_fix:
        v = "fixed"
    else:
        v = "current"
        ctx.log("note: the witness schedules show neither the `current` nor the `fixed` behaviour (stall: %s, loss: %s); "
                "the model runs as `current`, the correspondence decides" % (ro[0][-1:], ro[1][-1:]))
    ctx.log("z_chan.go variant of the working tree: %s (stall witness: %s; loss witness: %s)" % (
        v, "reproduces" if stall_cur else "no stall", "reproduces" if loss_cur else "no loss"))
    return v


KEY_NBSEND = "select:nonblocking-send-misses-parked-select-receiver"


def judge_defaults(cfg, states):
    """Real-time rule for `select { ... default: }` (independent of the model, uses the ORDER of the observed states):
    a non-blocking select that returned `default` although one of its cases was ready during its WHOLE execution.
    states: [(line index, parsed state, acting thread or None)].  A case is ready throughout when, in every state from the one in which
    the select started to the one before it returned:
      buffered channel  - receive: the buffer is non-empty (or the channel closed); send: open and len < cap;
      unbuffered channel - closed (receive), or: open and some other thread is ASLEEP in Cond.Wait the whole time
                           (and still pending when the select returns) in a plain operation or a blocking select
                           with the complementary case on that channel.
    Returns [(key or None, why, index of the state in which the select returned)]."""
    caps, progs = cfg
    out = []
    for m, prog in enumerate(progs):
        for k, op in enumerate(prog):
            if op[0] != "S" or op[1]:
                continue
            i_end = next((i for i, (_, st, _) in enumerate(states) if len(st["threads"][m][1]) > k), None)
            if i_end is None or not states[i_end][1]["threads"][m][1][k].startswith("D"):
                continue
            # the select starts in the step of thread m that finished its previous operation (k = 0: m's first step)
            i_start = next((i for i, (_, st, actor) in enumerate(states)
                            if len(st["threads"][m][1]) == k and (k > 0 or actor == m)), None)
            if i_start is None or i_start >= i_end:
                continue
            win = [st for (_, st, _) in states[i_start:i_end]]
            st_end = states[i_end][1]
            for j, (c, snd, v) in enumerate(op[2]):
                if c is None:
                    continue
                key, why = None, None
                if all(w["chans"][c][1] for w in win):
                    if snd:
                        key, why = DEV_SELSEND, "send case %d on a channel that is closed the whole time" % j
                    else:
                        why = "receive case %d on a channel that is closed the whole time" % j
                elif caps[c] > 0:
                    if snd and all((not w["chans"][c][1]) and w["chans"][c][0] < caps[c] for w in win):
                        why = "send case %d: the buffer has room the whole time" % j
                    elif not snd and all(w["chans"][c][0] > 0 for w in win):
                        why = "receive case %d: the buffer is non-empty the whole time" % j
                elif all(not w["chans"][c][1] for w in win + [st_end]):
                    for pth, pprog in enumerate(progs):
                        if pth == m:
                            continue
                        nres = len(win[0]["threads"][pth][1])
                        if nres >= len(pprog) or any(len(w["threads"][pth][1]) != nres or pth not in w["W"] for w in win) \
                                or len(st_end["threads"][pth][1]) != nres:
                            continue
                        pop = pprog[nres]
                        comp = (pop[0] == ("r" if snd else "s") and pop[1] == c) or \
                            (pop[0] == "S" and pop[1] and any(cc == c and sd != snd for (cc, sd, _) in pop[2]))
                        if comp:
                            why = "%s case %d on unbuffered channel %d while thread %d sleeps the whole time in %s" % (
                                "send" if snd else "receive", j, c, pth, op_tok(pop))
                            if snd and pop[0] == "S":
                                key = KEY_NBSEND
                            break
                if why:
                    out.append((key, "thread %d: `%s` returned default although a case was ready throughout: %s" % (m, op_tok(op), why), i_end))
                    break
    return out


class Judge:
    def __init__(self, ctx):
        self.ctx = ctx
        self.ref = Ref()
        self.judged = set()
        self.stats = {"final_states_judged": 0, "final_states_unjudged_reference_too_large": 0, "step_states_checked": 0,
                      "spec_failures": 0, "by_class": {}}

    def script(self, cfg, sched_lines_, out_lines):
        """judge the REAL output of one script (config lines already stripped)"""
        ctx = self.ctx
        states = []
        indexed = []
        for k, line in enumerate(out_lines):
            if line in ("ok", "bad-step"):
                continue
            st = parse_state(line)
            if st is None:
                continue            # a malformed line shows up as a correspondence mismatch
            states.append(st)
            actor = None
            if line[0] == "t" and line[1:].split(" ", 1)[0].isdigit():
                actor = int(line[1:].split(" ", 1)[0])
            elif k < len(sched_lines_) and sched_lines_[k].startswith("step "):
                actor = int(sched_lines_[k].split()[1])
            indexed.append((k, st, actor))
            if not st["R"]:
                key = (cfg_str(cfg), line.split(" ", 1)[1] if line[0] in "ts" else line)
                if key in self.judged:
                    continue
                self.judged.add(key)
                v = judge_final(cfg, st, self.ref)
                if self.ref.get(cfg) is None:
                    self.stats["final_states_unjudged_reference_too_large"] += 1
                    continue
                self.stats["final_states_judged"] += 1
                if v is not None:
                    self.stats["spec_failures"] += 1
                    keys, why = v
                    replay = {"config": cfg_lines(cfg)[2:], "schedule": sched_lines_[:k + 1], "real_final_state": line, "why": why}
                    if keys:
                        for kk in keys:
                            self.stats["by_class"][kk] = self.stats["by_class"].get(kk, 0) + 1
                            ctx.report(kk, why, replay)
                    else:
                        self.stats["by_class"]["UNEXPLAINED"] = self.stats["by_class"].get("UNEXPLAINED", 0) + 1
                        if len(ctx.violations) < 25:
                            ctx.report("final-state-not-allowed-by-go: " + cfg_str(cfg) + " => " + key[1], why, replay)
        self.stats["step_states_checked"] += len(states)
        if any(op[0] == "S" and not op[1] for p_ in cfg[1] for op in p_):
            for (kk, why, i_end) in judge_defaults(cfg, indexed):
                dkey = (cfg_str(cfg), kk, why)
                if dkey in self.judged:
                    continue
                self.judged.add(dkey)
                self.stats["spec_failures"] += 1
                replay = {"config": cfg_lines(cfg)[2:], "schedule": sched_lines_[:indexed[i_end][0] + 1],
                          "real_state": out_lines[indexed[i_end][0]], "why": why}
                if kk:
                    self.stats["by_class"][kk] = self.stats["by_class"].get(kk, 0) + 1
                    ctx.report(kk, why, replay)
                else:
                    self.stats["by_class"]["DEFAULT-ALTHOUGH-READY"] = self.stats["by_class"].get("DEFAULT-ALTHOUGH-READY", 0) + 1
                    if len(ctx.violations) < 25:
                        ctx.report("default-although-ready: " + cfg_str(cfg) + " => " + why, why, replay)
        for b in judge_steps(cfg, states):
            self.stats["spec_failures"] += 1
            if len(ctx.violations) >= 25:
                continue
            ctx.report("safety: " + b + " in " + cfg_str(cfg), b,
                       {"config": cfg_lines(cfg)[2:], "schedule": sched_lines_, "real": out_lines})


def run_batch(ctx, real, modeld, jobs, judge, label):
    """jobs: [(cfg, script lines incl. config lines)].  Runs real + model, diffs, judges the real output.
    Returns list of mismatching jobs."""
    scripts = [j[1] for j in jobs]
    ro = run_scripts([real], scripts)
    mo = run_scripts([modeld], scripts)
    mism = []
    for (cfg, sc), r, m in zip(jobs, ro, mo):
        nb = len(cfg_lines(cfg))
        if r != m:
            mism.append((cfg, sc[nb:], r[nb:], m[nb:]))
        judge.script(cfg, sc[nb:], r[nb:])
    ctx.log("%s: %d scripts, %d lines, %d real/model mismatches" % (label, len(scripts), sum(map(len, scripts)), len(mism)))
    return mism


def run(ctx, args):
    rng = ctx.rng
    quick = ctx.tier == "quick"
    st = lean_check(ctx, ["LlgoVerif.Props.C10"], ["LlgoVerif/Props/C10.lean"],
                    extra_files=["LlgoVerif/Model/Chan.lean", "LlgoVerif/Lemmas/Chan.lean", "LlgoVerif/Lemmas/ChanThreads.lean",
                                 "LlgoVerif/Lemmas/ChanLive.lean", "LlgoVerif/Lemmas/ChanPlain.lean",
                                 "LlgoVerif/Lemmas/ChanHist.lean", "LlgoVerif/Lemmas/ChanResults.lean"],
                    leanchecker=(ctx.tier == "thorough"))
    modeld = build_driver(ctx, "modeld_c10")
    real = build_real(ctx)
    ctx.log("built: Lean modules, modeld_c10, native copy of z_chan.go under the psync scheduler")
    corpus = json.load(open(os.path.join(VERIF, "corpus", "C10", "schedules.json")))
    VARIANT[0] = detect_variant(ctx, real, corpus)
    ctx.coverage["z_chan_variant"] = VARIANT[0]
    judge = Judge(ctx)
    mismatches = []
    dist = {"configs_exhaustive": 0, "configs_random_schedules": 0, "model_states": 0, "model_transitions": 0,
            "truncated_explorations": 0, "threads": {}, "caps": {}, "ops": {}}

    def count_cfg(cfg):
        caps, progs = cfg
        dist["threads"][len(progs)] = dist["threads"].get(len(progs), 0) + 1
        for c in caps:
            dist["caps"][c] = dist["caps"].get(c, 0) + 1
        for p in progs:
            for op in p:
                k = op[0] if op[0] != "S" else ("S-blocking" if op[1] else "S-default")
                dist["ops"][k] = dist["ops"].get(k, 0) + 1

    if getattr(args, "replay", None):
        rp = json.load(open(args.replay))["replay"]
        cfg = ([int(l.split()[1]) for l in rp["config"] if l.startswith("chan")],
               [[parse_tok(t) for t in l.split()[1:]] for l in rp["config"] if l.startswith("thread")])
        jobs = [(cfg, cfg_lines(cfg) + rp["schedule"])]
        mismatches += run_batch(ctx, real, modeld, jobs, judge, "replay")
        for l in run_scripts([real], [jobs[0][1]])[0]:
            print("  real:", l)
        return ctx.finish("proof", {"evaluations": len(jobs[0][1]), "distinct_nontrivial": 1, "rule": "replay of one stored schedule",
                                   "input_distribution": {}, "samples": [rp]})

    # 1. corpus (includes the witnesses of the Lean counterexample theorems)
    jobs = []
    for e in corpus:
        cfg = (e["caps"], [[parse_tok(t) for t in th.split()] for th in e["threads"]])
        jobs.append((cfg, cfg_lines(cfg) + sched_lines(e["sched"])))
        count_cfg(cfg)
    mismatches += run_batch(ctx, real, modeld, jobs, judge, "corpus")

    # 2. exhaustive exploration of small configurations: every transition of the model's state graph is replayed
    cfgs = systematic_cfgs()
    n_rand = 32 if quick else 300
    for i in range(n_rand):
        k = i % 4
        if k == 0:
            cfgs.append(rand_cfg(rng, 1, 2, rng.randint(2, 3), 2))
        elif k == 1:
            cfgs.append(rand_cfg(rng, rng.randint(1, 2), 2, rng.randint(2, 3), 2))
        elif k == 2:
            cfgs.append(rand_cfg(rng, rng.randint(1, 2), 2, 2, 3))
        else:
            cfgs.append(rand_cfg(rng, rng.randint(1, 3), 2, rng.randint(2, 4) if not quick else 3, 2 if quick else 3))
    max_states = 1200 if quick else 6000
    ex = model_explore(modeld, cfgs, max_states, True)
    jobs = []
    budget = 300000 if quick else 6000000      # script lines
    used = 0
    for cfg, (stats, scheds) in zip(cfgs, ex):
        base = cfg_lines(cfg)
        cost = sum(len(base) + s.count(",") + 1 for s in scheds)
        if used + cost > budget:
            continue
        used += cost
        count_cfg(cfg)
        dist["configs_exhaustive"] += 1
        dist["model_states"] += stats["states"]
        dist["model_transitions"] += stats["trans"]
        dist["truncated_explorations"] += stats["trunc"]
        for s in scheds:
            jobs.append((cfg, base + sched_lines(s)))
        for sc in prio_scripts(rng, cfg):
            jobs.append((cfg, sc))
    mismatches += run_batch(ctx, real, modeld, jobs, judge, "exhaustive small configurations")
    n_scripts = len(jobs)
    n_lines = sum(len(j[1]) for j in jobs)
    sample_job = jobs[len(jobs) // 2] if jobs else None

    # 3. random-priority schedules on larger configurations
    jobs = []
    n_big = 100 if quick else 1500
    for i in range(n_big):
        cfg = rand_cfg(rng, rng.randint(1, 3), 2, rng.randint(3, 4), 4, psel=0.25)
        count_cfg(cfg)
        dist["configs_random_schedules"] += 1
        for rep in range(3):
            jobs.append((cfg, random_script(rng, cfg, 60)))
    mismatches += run_batch(ctx, real, modeld, jobs, judge, "random-priority schedules")
    n_scripts += len(jobs)
    n_lines += sum(len(j[1]) for j in jobs)

    # 4. end-to-end route: quick tier -O0 only (the stall / loss classes are fixed and must stay fixed),
    #    thorough tier -O0 and -O2; VERIF_C10_E2E=0 switches it off, =1 forces both levels, =O0 forces -O0 only
    e2e_env = os.environ.get("VERIF_C10_E2E")
    load1, ncpu = os.getloadavg()[0], (os.cpu_count() or 1)
    if e2e_env == "0":
        ctx.coverage["e2e"] = "switched off (VERIF_C10_E2E=0)"
    else:
        # idle cost of the e2e section is ~20-40 s (llgo build ~9 s warm, one program ~10 s).  It used to be skipped in the quick
        # tier on a heavily shared machine; a seeded change to the LOWERING of receives (round 3) showed that this leaves the
        # compiler half of the property unexercised exactly when the machine is busy.  It now always runs; the run-time limit of
        # the compiled program scales with the load instead (a hang is still a hang, a slow machine is not).
        e2e_part(ctx, ("-O0",) if ((quick and e2e_env != "1") or e2e_env == "O0") else ("-O0", "-O2"))

    # verdict on the correspondence
    if mismatches:
        cfg, sc, r, m = mismatches[0]
        first = next(((a, b) for a, b in zip(r, m) if a != b), (r[-1:] , m[-1:]))
        ctx.log("correspondence: %d scripts differ; first: %s | %s\n  real : %s\n  model: %s" % (len(mismatches), cfg_str(cfg), " ".join(sc)[:300], first[0], first[1]))
        ctx.broken.append("correspondence real z_chan.go vs Lean model: %d scripts differ" % len(mismatches))
        if not ctx.violations:
            ctx.report_broken("correspondence C10 real-vs-model",
                              {"config": cfg_lines(cfg)[2:], "schedule": sc, "real": r[-3:], "model": m[-3:], "count": len(mismatches)})
    for name, s in st.items():
        if s != "ok":
            ctx.log("theorem", name, s)
    if any(s != "ok" for s in st.values()) and not ctx.violations:
        ctx.report_broken("Props/C10: " + ", ".join(n for n, s in st.items() if s != "ok"), st)

    ctx.coverage["samples"] = [corpus[0], {"config": cfg_lines(sample_job[0])[2:], "schedule": sample_job[1][len(cfg_lines(sample_job[0])):]} if sample_job else None]
    ctx.coverage["judge"] = judge.stats
    ctx.coverage["trusted_base"] += [
        "hand-written Lean model of z_chan.go tied by differential run: same schedule lines through the real code (native copy, psync scheduler stand-in) and modeld_c10, observable state diffed after every step",
        "model variant `%s` selected by replaying the two witness schedules on the real code (detect_variant)" % VARIANT[0],
        "psync scheduler stand-in (mutex / condition variable semantics with spurious wake-ups), harness/c10/main.go.txt, the Python reference of Go's channel semantics (go_outcomes) that judges the real final states",
        "exhaustive part = every transition of the MODEL's reachable state graph (deduplicated by model state) replayed on the real code; not every interleaving is replayed separately",
    ]
    ctx.assumptions += ["sends/selsends counters do not overflow uint16 (fewer than 65536 blocked senders)",
                        "no nil channels; element type int64 (eltSize 8)"]
    return ctx.finish("proof", {
        "evaluations": n_lines, "distinct_nontrivial": n_scripts,
        "rule": "evaluations = protocol lines (scheduler choices incl. configuration lines) executed by the REAL code and the model; distinct_nontrivial = distinct schedules (scripts); exhaustive scripts cover every transition of the model state graph of each small configuration",
        "input_distribution": dist, "correspondence_mismatches": len(mismatches)})


# ------------------------------------------------------------------ end-to-end route (llgo-compiled programs)
def run_capture_stderr(path, timeout, tmpdir):
    """println of llgo programs goes to stderr; keep what was printed before a timeout (a hang is an observation)"""
    import subprocess
    import tempfile
    with tempfile.TemporaryFile(dir=tmpdir) as f:
        try:
            rc = subprocess.run([path], stderr=f, stdout=subprocess.DEVNULL, timeout=timeout).returncode
        except subprocess.TimeoutExpired:
            rc = "timeout"
        f.seek(0)
        return f.read().decode("utf-8", "replace"), rc


def e2e_part(ctx, opts=("-O0", "-O2")):
    """llgo-compiled multi-goroutine programs with schedule-independent results, at -O0 and -O2, every run under a
    timeout (a hang is an observation); expected output = the reference Go toolchain's output of the same program."""
    from vlib import e2e
    src = open(os.path.join(H, "e2e", "main.go.txt")).read()
    d = os.path.join(ctx.scratch, "e2e-c10")
    e2e.write_module(d, {"main.go": src})
    t_start = time.time()
    stored = [l for l in open(os.path.join(H, "e2e", "expected.txt")).read().split("\n") if l]
    if len(opts) > 1:
        # thorough: the stored expectation is re-derived from the reference Go toolchain
        refbin = os.path.join(d, "ref.bin")
        p = e2e.go_run_reference(ctx, d, refbin)
        if p.returncode != 0:
            raise HarnessBuildError("reference build of the C10 e2e program failed: " + (p.stdout + p.stderr)[-2000:])
        _, referr, rc = e2e.run_prog(refbin, timeout=60)
        expected = [l for l in referr.split("\n") if l]
        if expected != stored:
            ctx.log("note: harness/c10/e2e/expected.txt differs from the reference Go toolchain's output; using the latter")
    else:
        expected = stored
    cut = expected.index("begin sendThenClose")
    e2e.build_llgo(ctx)
    t_llgo = time.time()
    obs = {}
    for opt in opts:
        out = os.path.join(d, "prog%s.bin" % opt)
        p = e2e.llgo_build(ctx, d, out, opt=opt)
        if p.returncode != 0:
            raise HarnessBuildError("llgo build %s of the C10 e2e program failed: %s" % (opt, (p.stdout + p.stderr)[-3000:]))
        load1, ncpu = os.getloadavg()[0], (os.cpu_count() or 1)
        err, rc = run_capture_stderr(out, 40 if load1 <= 1.5 * ncpu else 300, d)
        got = [l for l in err.split("\n") if l]
        obs[opt] = {"rc": rc, "lines": len(got), "tail": got[-3:]}
        # schedule-independent part
        if got[:cut] != expected[:cut]:
            k = next((i for i in range(min(len(got), cut)) if got[i] != expected[i]), min(len(got), cut))
            section = next((l.split()[1] for l in reversed(expected[:k + 1]) if l.startswith("begin ")), "?")
            ctx.report("e2e:%s:%s" % (section, opt), "llgo-compiled program deviates from Go in section %s at %s (rc=%s)" % (section, opt, rc),
                       {"opt": opt, "section": section, "expected": expected[max(0, k - 2):k + 3], "got": got[max(0, k - 2):k + 3], "rc": rc})
            continue
        rest = got[cut:]
        bad = next((l for l in rest if l.startswith("sendThenClose bad")), None)
        if bad is None:
            ctx.report(KEY_STALL if rc == "timeout" else "e2e:sendThenClose:" + opt, "sendThenClose did not finish (rc=%s)" % rc, {"opt": opt, "got": rest})
        elif bad != "sendThenClose bad 0":
            ctx.report(KEY_CLOSE, "e2e: `c <- 42; close(c)` against `v, ok := <-c`: " + bad, {"opt": opt, "line": bad})
        if bad is not None and "end" not in rest:
            if rc == "timeout":
                ctx.report(KEY_STALL, "e2e: ping-pong on one unbuffered channel hangs (timeout)", {"opt": opt, "got": rest})
            else:
                ctx.report("e2e:pingPongOneChannel:" + opt, "wrong output / crash rc=%s" % rc, {"opt": opt, "got": rest})
        elif bad is not None and rest[-2:] != expected[-2:]:
            ctx.report("e2e:pingPongOneChannel:" + opt, "wrong output", {"opt": opt, "got": rest[-3:], "expected": expected[-3:]})
    ctx.coverage["e2e"] = {"program": "harness/c10/e2e/main.go.txt", "sections": [l.split()[1] for l in expected if l.startswith("begin ")],
                           "observations": obs}
    ctx.log("e2e (llgo build %.0fs, programs %.0fs):" % (t_llgo - t_start, time.time() - t_llgo), obs)
