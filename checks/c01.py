"""C01 — compiled programs behave as the Go language specifies (core language).

A. Translation validation.  harness/c01/gen2.py draws programs from a typed grammar of the core language; each program is
   printed as Go source and as an s-expression for the Lean reference evaluator (lean/LlgoVerif/Model/CoreGo.lean).
   Batches are emitted as one Go module in 1–4 packages, compiled by the llgo built from the working tree at -O0 and -O2, by
   the reference Go toolchain (`-tags goref`), and evaluated by `modeld_c01`; every program runs in its own process.
     llgo != reference          -> the real code violates the property on that program (minimised, reported)
     Lean evaluator != reference -> MODEL/GENERATOR bug: counted as model_disagreements, never a violation
B. Proved component.  Model/OrderFix.lean mirrors internal/build/ssa_order_fix.go fixSSAOrderBlock; Props/C01.lean proves
   fixOrder_safe for all blocks; harness/c01/main.go runs the REAL pass (overlay accessor) on go/ssa built in-process from
   generated functions and the instruction orders are compared with the model; the real output is also judged against the
   specification (permutation / only designated loads move / crossing rule) here in Python.
D. Proved component: the Go-type -> raw-type lowering (ssa/type_cvt.go).  Model/TypeCvt.lean mirrors goTypes.cvtType;
   Props/C01.lean proves that it is lossless and keeps method sets; harness/c01/cvt.go runs the REAL cvtType (overlay accessor)
   on generated type declarations (harness/c01/tcgen.py); the results are compared with the model and judged against the
   specification (reads back as the source type; go/types' own method sets of source and lowered type agree).
E. Proved components of the runtime, driven natively (vlib/native.py): EfaceEqual / nilinterequal / interequal (model
   Model/EfaceEq.lean, oracle: the host toolchain's == on the same boxed values) and StringIterNext / StringToRunes (model
   CoreGo.runesOf = C05's enumeration, oracle: the host toolchain's range / []rune) over boundary byte strings."""
import glob
import hashlib
import os
import random
import resource
import subprocess
import sys
import time
from concurrent.futures import ThreadPoolExecutor

from vlib.common import *
from vlib.e2e import *
from vlib.common import run as sh

sys.path.insert(0, os.path.join(VERIF, "harness", "c01"))
import gen2  # noqa: E402
import tcgen  # noqa: E402
from vlib import native  # noqa: E402
import minimize  # noqa: E402
import ofgen  # noqa: E402
from goast import *  # noqa: E402,F401

FUEL = 20000


# --------------------------------------------------------------------------------------------- normalisation
def norm_panic(msg):
    """what the property fixes of an uncaught panic's text: the value for strings/ints, the CLASS for run-time errors"""
    if msg.startswith("runtime error: index out of range"):
        return "runtime error: index out of range"
    if msg.startswith("runtime error: slice bounds out of range"):
        return "runtime error: slice bounds out of range"
    if "interface conversion" in msg or "type assertion" in msg:
        return "runtime error: type assertion"
    return msg


def norm_real(stderr, rc):
    """(output text, termination) of a real run; println/print write to stderr, an uncaught panic ends it with `panic: …`"""
    if rc == "timeout":
        return ("", "timeout")
    lines = stderr.split("\n")
    if rc == 2:
        for i, l in enumerate(lines):
            if l.startswith("panic: "):
                return ("\n".join(lines[:i] + [""]), "panic:" + norm_panic(l[7:].rstrip()))
    if isinstance(rc, int) and rc < 0:
        return (stderr, "signal:%d" % -rc)
    return (stderr, "normal" if rc == 0 else "exit:%s" % rc)


def norm_model(line):
    if line.startswith("ok "):
        _, h, term = line.split(" ", 2)
        # run_prog reads the real output in text mode (universal newlines): apply the same translation here
        text = bytes.fromhex("" if h == "-" else h).decode("utf-8", "replace").replace("\r\n", "\n").replace("\r", "\n")
        if term.startswith("panic:"):
            m = term[6:]
            term = "panic:" + norm_panic(bytes.fromhex("" if m == "-" else m).decode("utf-8", "replace"))
        if term == "exit:0":          # exit(0) and falling off main are the same observable termination
            term = "normal"
        return (text, term)
    return ("", line[:200])


def first_diff(a, b):
    x, y = a[0].split("\n"), b[0].split("\n")
    for j in range(max(len(x), len(y))):
        p = x[j] if j < len(x) else "<end>"
        q = y[j] if j < len(y) else "<end>"
        if p != q:
            return "line %d: %r vs %r" % (j, p[:160], q[:160])
    return "termination: %s vs %s" % (a[1], b[1])


def classify(got, want):
    """known defect classes a llgo-vs-reference disagreement may fall into (other properties' subjects that a core program
    can observe); None = unknown"""
    x, y = got[0].split("\n"), want[0].split("\n")
    for p, q in zip(x, y):
        if p != q:
            if p.startswith("recovered string type assertion") and q == "recovered runtime error":
                return "recover:type-assertion-panic-value-is-string"
            if p.startswith("recovered string ") and q == "recovered runtime error":
                return "recover:runtime-error-value-is-string"
            return None
    return None


# --------------------------------------------------------------------------------------------- corpus
def corpus_programs(start_idx):
    """hand-built programs that always run first.
    c0: the value of a run-time panic raised by a runtime helper (division by zero) must not be a string;
    c1: the same for a failed type assertion to a concrete type (the panic is emitted by the compiler: ssa/interface.go)"""
    out = []
    for n, kind in enumerate(["divide", "assert"]):
        idx = start_idx + n
        P = Program(idx)
        pfx = "P%d" % idx
        f = Func(pfx + "F", 1)
        a = Var(P.slot(), "a", INT)
        r = Var(P.slot(), "r", INT)
        f.params, f.results, f.named_results = [a], [r], True
        lit = Func("lit", 1)
        lit.is_lit = True
        e = Var(P.slot(), "e", "any")
        slot = P.slot()
        xs = [Var(slot, "es", STR), Var(slot, "ei", INT), Var(slot, "ee", "any")]
        lit.body = [Decl([e], [Recover()]),
                    TypeSwitch("", xs, VarRef(e), [TCase([STR], [Print(True, [StrLit(b"recovered string"), VarRef(xs[0])])]),
                                                   TCase([INT], [Print(True, [StrLit(b"recovered int"), VarRef(xs[1])])]),
                                                   TCase([], [Print(True, [StrLit(b"recovered runtime error")])], default=True)]),
                    Assign([VarRef(r)], [IntLit(INT, 7)])]
        P.add_func(lit, printed=False)
        if kind == "divide":
            z = Var(P.slot(), "z", INT)
            point = [Decl([z], [Bin("sub", VarRef(a), VarRef(a))]), Assign([VarRef(r)], [Bin("quo", VarRef(a), VarRef(z))])]
        else:
            y = Var(P.slot(), "y", "any")
            point = [Decl([y], [ToIface("any", VarRef(a))]), Print(True, [Assert(VarRef(y), STR)])]
        f.body = [Defer(FuncLit(lit, P.sig([], [])), [])] + point + [Return([VarRef(r)])]
        P.add_func(f)
        m = Func(pfx + "Main", 4)
        m.body = [Print(True, [Call(f, [IntLit(INT, 5)])])]
        P.add_func(m)
        P.main = m
        P.features.add("corpus:recover-runtime-error-type")
        P.seed = "corpus-c%d" % n
        P.known_key = ["recover:runtime-error-value-is-string", "recover:type-assertion-panic-value-is-string"][n]
        out.append(P)
    # c2: `for i, v := range arr` over an ARRAY VALUE iterates over a copy made before the loop
    idx = start_idx + 2
    P = Program(idx)
    m = Func("P%dMain" % idx, 4)
    AT = ("arr", 3, INT)
    arr, i, v = Var(P.slot(), "arr", AT), Var(P.slot(), "i", INT), Var(P.slot(), "v", INT)
    m.body = [Decl([arr], [SeqLit(AT, [IntLit(INT, 1), IntLit(INT, 2), IntLit(INT, 3)])]),
              RangeSeq("", i, v, VarRef(arr), [Assign([Index(VarRef(arr), IntLit(INT, 2))], [Bin("add", IntLit(INT, 100), VarRef(i))]),
                                               Assign([Index(VarRef(arr), IntLit(INT, 1))], [IntLit(INT, 50)]),
                                               Print(False, [VarRef(i), StrLit(b":"), VarRef(v), StrLit(b" ")])]),
              Print(True, [Index(VarRef(arr), IntLit(INT, 1)), Index(VarRef(arr), IntLit(INT, 2))])]
    P.add_func(m)
    P.main = m
    P.features.add("corpus:range-array-copy")
    P.seed, P.known_key = "corpus-c2", "range:array-value-aliased-by-value-loop"
    out.append(P)
    # c3: a named func type and its underlying func type are different dynamic types
    idx = start_idx + 3
    P = Program(idx)
    fty = P.sig([], [INT])
    d = TypeDecl("P%dFn" % idx, "basic", 4)
    d.under = fty
    P.add_type(d)
    one = Func("P%dOne" % idx, 4)
    one.results = [Var(P.slot(), "r", INT)]
    one.body = [Return([IntLit(INT, 1)])]
    P.add_func(one)
    m = Func("P%dMain" % idx, 4)
    x, y = Var(P.slot(), "x", "any"), Var(P.slot(), "y", "any")

    def sw(e):
        return TypeSwitch("", None, VarRef(e), [TCase([fty], [Print(True, [StrLit(b"func() int")])]),
                                                  TCase([("named", d)], [Print(True, [StrLit(b"named Fn")])]),
                                                  TCase([], [Print(True, [StrLit(b"other")])], default=True)])
    ok1, ok2 = Var(P.slot(), "ok1", BOOL), Var(P.slot(), "ok2", BOOL)
    t1, t2 = Var(P.slot(), "t1", fty), Var(P.slot(), "t2", ("named", d))
    m.body = [Decl([x], [ToIface("any", ConvNamed(("named", d), FuncRef(one, fty)))]), Decl([y], [ToIface("any", FuncRef(one, fty))]),
              sw(x), sw(y),
              Decl([t1, ok1], [Assert(VarRef(x), fty, True)]), Decl([t2, ok2], [Assert(VarRef(y), ("named", d), True)]),
              Print(True, [VarRef(ok1), VarRef(ok2)])]
    P.add_func(m)
    P.main = m
    P.features.add("corpus:named-func-type-identity")
    P.seed, P.known_key = "corpus-c3", "typeswitch:named-func-type-identified-with-underlying"
    out.append(P)
    # c4 (Go text only): a local array declared in a loop body must not take new stack space on every iteration
    out.append(gen2.RawProgram(start_idx + 4, '''
func @P@Loop(n int) int {
	sum := 0
	for i := 0; i < n; i++ {
		var buf [64]int
		buf[i%64] = i
		sum += buf[i%64] + buf[(i+1)%64]
	}
	return sum
}

func @P@Main() {
	println(@P@Loop(1000))
	println(@P@Loop(3000000))
}

''', "corpus-c4", "stack:local-in-loop-body-allocates-per-iteration", "corpus:stack-growth-in-loop"))
    # c5 (Go text only): a local type of a generic function is a different type per instantiation, also inside its closures
    out.append(gen2.RawProgram(start_idx + 5, '''
func @P@Mk[X any]() (func(X) any, func(any) bool) {
	type box struct{ v X }
	return func(x X) any { return box{x} }, func(a any) bool { _, ok := a.(box); return ok }
}

func @P@Main() {
	mkI, isI := @P@Mk[int]()
	mkS, isS := @P@Mk[string]()
	println(isI(mkI(1)), isI(mkS("x")), isS(mkS("x")), isS(mkI(1)))
}

''', "corpus-c5", "generic:local-type-in-closure-shared-across-instantiations", "corpus:generic-local-type"))
    # c6 (Go text only): methods promoted from an EMBEDDED struct that carries a func-typed field, reached dynamically
    # (conversion, assertion, type switch): the run-time method table is computed from the LOWERED struct type (ssa/type_cvt.go)
    out.append(gen2.RawProgram(start_idx + 6, """
type @P@Base struct {
	n  int
	cb func(int) int
}

func (b @P@Base) Get() int   { return b.n }
func (b *@P@Base) Set(n int) { b.n = n }

type @P@Outer struct {
	@P@Base
	tag int
}
type @P@OuterP struct {
	*@P@Base
	tag int
}
type @P@Deep struct {
	@P@Outer
	fs []func() int
}
type @P@Plain struct{ n int }

func (p @P@Plain) Get() int { return p.n }

type @P@OuterPlain struct{ @P@Plain }
type @P@Getter interface{ Get() int }
type @P@GS interface {
	Get() int
	Set(int)
}

func @P@Kind(a any) string {
	switch a.(type) {
	case @P@GS:
		return "Get+Set"
	case @P@Getter:
		return "Get"
	}
	return "none"
}

func @P@Main() {
	o := @P@Outer{@P@Base{42, func(x int) int { return x + 1 }}, 1}
	println("static:", o.Get(), o.cb(1))
	println("kinds:", @P@Kind(o), @P@Kind(&o), @P@Kind(@P@OuterP{&o.@P@Base, 2}), @P@Kind(@P@Deep{o, nil}), @P@Kind(&@P@Deep{o, nil}),
		@P@Kind(@P@OuterPlain{@P@Plain{3}}), @P@Kind(struct {
			@P@Base
			x int
		}{o.@P@Base, 1}))
	var g @P@Getter = o
	println("dynamic:", g.Get())
	var gs @P@GS = &o
	gs.Set(7)
	println("dynamic:", gs.Get(), o.n)
	var gp @P@GS = @P@OuterP{&o.@P@Base, 2}
	gp.Set(9)
	println("dynamic:", gp.Get(), o.n)
	var gd @P@Getter = @P@Deep{o, []func() int{func() int { return 5 }}}
	println("dynamic:", gd.Get(), gd.(@P@Deep).fs[0]())
}

""", "corpus-c6", None, "corpus:promoted-methods-through-func-carrying-embedded-struct"))
    # c7 (Go text only): `for i, r := range s` over strings that are not well-formed UTF-8, every kind of malformed lead byte
    out.append(gen2.RawProgram(start_idx + 7, """
func @P@Show(name string, s string) {
	n, sum := 0, 0
	for i, r := range s {
		print(i, ":", r, " ")
		n++
		sum += int(r)
	}
	println(name, n, sum, len(s))
}

func @P@Main() {
	@P@Show("ascii", "a~\\x7f")
	@P@Show("valid", "a\\u00e9\\u4e16\\U0001F600")
	@P@Show("stray-80", "a\\x80b")
	@P@Show("stray-bf", "\\xbf")
	@P@Show("overlong", "\\xc0\\x80\\xc1\\xbf")
	@P@Show("truncated", "\\xe2\\x82")
	@P@Show("after", "\\xe4\\x80\\x80\\x80")
	@P@Show("surrogate", "\\xed\\xa0\\x80")
	@P@Show("too-big", "\\xf4\\x90\\x80\\x80\\xf5\\x80")
	@P@Show("ff", "a\\xffb")
	s := "x\\x80"
	@P@Show("concat", s+s+"\\x80")
}

""", "corpus-c7", None, "corpus:range-over-malformed-utf8"))
    # c8 (Go text only): an interface value compared with ITSELF / a copy: NaN inside is not equal to itself, a value of an
    # uncomparable dynamic type panics - also when both operands are one box
    out.append(gen2.RawProgram(start_idx + 8, """
type @P@Pt struct {
	x float64
	y int
}

func @P@Eq(a, b any) (r string) {
	defer func() {
		if recover() != nil {
			r = "panic"
		}
	}()
	if a == b {
		return "true"
	}
	return "false"
}

func @P@Main() {
	z := 0.0
	nan := z / z
	var f any = nan
	g := f
	println("nan:", @P@Eq(f, f), @P@Eq(f, g), @P@Eq(any(nan), any(nan)), f == f, f != g)
	var p any = @P@Pt{nan, 1}
	q := p
	println("struct with nan:", @P@Eq(p, p), @P@Eq(p, q))
	var arr any = [2]float64{1, nan}
	println("array with nan:", @P@Eq(arr, arr))
	var ok any = @P@Pt{1, 2}
	println("comparable:", @P@Eq(ok, ok), @P@Eq(ok, any(@P@Pt{1, 2})), @P@Eq(ok, p))
	var s any = []int{1}
	var fn any = func() {}
	var b any = struct {
		a int
		s []int
	}{1, nil}
	var in any = struct{ v any }{nan}
	var in2 any = struct{ v any }{[]int{1}}
	println("uncomparable:", @P@Eq(s, s), @P@Eq(fn, fn), @P@Eq(b, b), @P@Eq(in, in), @P@Eq(in2, in2), @P@Eq(s, fn))
	vals := []any{nan, 1, "x", nan}
	cnt := 0
	for i := range vals {
		for j := range vals {
			if @P@Eq(vals[i], vals[j]) == "true" {
				cnt++
			}
		}
	}
	println("equal pairs:", cnt)
}

""", "corpus-c8", None, "corpus:interface-compared-with-itself"))
    return out


def aux_modules(ctx, bench):
    """corpus programs that need a module of their own.  m1: with `go 1.21` in go.mod the three-clause loop variable is shared
    by all iterations (per-iteration variables start with go 1.22)"""
    src = '''package main

func main() {
	var fs []func() int
	for i := 0; i < 3; i++ {
		fs = append(fs, func() int { return i })
	}
	for _, f := range fs {
		println(f())
	}
}
'''
    n = 0
    for name, gover, key in [("loopvar-go121", "1.21", "loopvar:go-directive-of-go.mod-ignored")]:
        d = os.path.join(ctx.scratch, "aux-" + name)
        write_module(d, {"main.go": src}, gover=gover)
        if sh(["go", "build", "-o", os.path.join(d, "ref"), "."], cwd=d, env=go_env(), timeout=600).returncode != 0:
            raise RuntimeError("reference build of the auxiliary module %s failed" % name)
        o, e, rc = run_prog(os.path.join(d, "ref"), timeout=20)
        want = norm_real(e, rc)
        bench.n_llgo_builds += 1
        p = llgo_build(ctx, d, os.path.join(d, "prog"), "-O0", timeout=1800)
        if p.returncode != 0:
            ctx.report("build-failure:aux-" + name, "llgo cannot build the auxiliary module " + name, {"log": (p.stdout + p.stderr)[-2000:], "main.go": src, "go": gover})
            continue
        o, e, rc = run_prog(os.path.join(d, "prog"), timeout=20)
        got = norm_real(e, rc)
        n += 1
        if got != want:
            ctx.report(key, "module with `go %s`: llgo prints %r, the reference toolchain %r" % (gover, got[0], want[0]),
                       {"go.mod": "module verifprog\n\ngo %s\n" % gover, "main.go": src, "llgo": got, "reference": want})
    return n


# --------------------------------------------------------------------------------------------- building and running
class Bench:
    def __init__(self, ctx, modeld):
        self.ctx, self.modeld = ctx, modeld
        self.n_llgo_builds = 0
        self.toolchain_crashes = []
        self.build_failures = []
        self.reported_seeds = set()
        self.ir_since = {}
        self.crash_seeds = {}             # opt -> seeds of the programs of a group that crashed LLVM 14: not rebuilt in other layouts
        self.min_budget = 12 if ctx.tier == "quick" else 150      # minimiser tests for the whole run

    def write(self, progs, npk, tag):
        d = os.path.join(self.ctx.scratch, "mod-%s" % tag)
        shutil.rmtree(d, ignore_errors=True)
        for P in progs:
            gen2.relayout(P, npk)
        write_module(d, gen2.emit_module(progs, npk))
        return d

    def ref_build(self, d):
        return sh(["go", "build", "-tags", "goref", "-o", os.path.join(d, "ref"), "."], cwd=d, env=go_env(), timeout=1800)

    def llgo_parts(self, progs, npk, opt, tag, depth=0):
        """-> [(binary, [programs])]; a failing batch is split until the culprits are single programs"""
        if not progs:
            return []
        d = self.write(progs, npk, "%s-%s-%d-%d" % (tag, opt, depth, progs[0].idx))
        out = os.path.join(d, "prog")
        self.n_llgo_builds += 1
        t0 = time.time()
        # the -O0 build also leaves every package's IR in the (private) cache: used to locate LLVM 14 -O2 crashes cheaply
        p = llgo_build(self.ctx, d, out, opt, timeout=3600, extra_args=["-gen-llfiles"] if opt == "-O0" else [])
        if opt == "-O0":
            self.ir_since[npk] = min(self.ir_since.get(npk, t0), t0)
        if p.returncode == 0 and os.path.exists(out):
            return [(out, progs)]
        log = (p.stdout + p.stderr)
        if depth == 0 and not self.trivial_ok(opt):
            raise HarnessBuildError("llgo %s cannot build even `func main() { println(1) }`; output of the batch build:\n%s" % (opt, log[-3000:]))
        crash = "LLVMRunPasses" in log and "SIGSEGV" in log
        if len(progs) == 1:
            (self.toolchain_crashes if crash else self.build_failures).append((progs[0], npk, opt, log[-3000:] if not crash else log[:600]))
            if crash:
                self.crash_seeds.setdefault(opt, set()).add(progs[0].seed)
            return []
        if crash and depth == 0:
            # LLVM 14's optimiser died (sandbox toolchain).  Find the programs whose IR crashes `opt-14 default<O2>` on its own
            # and build the rest in one go; fall back to splitting when that does not explain the crash.
            bad = self.opt_probe(progs, npk)
            if bad and len(bad) < len(progs):
                for P in progs:
                    if P.idx in bad:
                        self.toolchain_crashes.append((P, npk, opt, "its IR crashes opt-14 -passes=default<O2> (LoopAccessAnalysis / opaque pointers)"))
                        self.crash_seeds.setdefault(opt, set()).add(P.seed)
                return self.llgo_parts([P for P in progs if P.idx not in bad], npk, opt, tag, depth + 1)
        if crash and self.ctx.tier == "quick" and depth >= 3:
            # quick tier: bounded splitting; the programs of the remaining group are recorded as not judged here
            for P in progs:
                self.toolchain_crashes.append((P, npk, opt, "one of %d programs built together crashes LLVMRunPasses (not bisected further in the quick tier)" % len(progs)))
                self.crash_seeds.setdefault(opt, set()).add(P.seed)
            return []
        h = len(progs) // 2
        return self.llgo_parts(progs[:h], npk, opt, tag, depth + 1) + self.llgo_parts(progs[h:], npk, opt, tag, depth + 1)

    def opt_probe(self, progs, npk):
        """indices of the programs whose -O0 IR (taken from this run's private cache) makes `opt-14 default<O2>` crash"""
        if not (shutil.which("opt-14") and shutil.which("llvm-extract-14")) or npk not in self.ir_since:
            return set()
        since = self.ir_since[npk] - 2
        lls = []
        for f in glob.glob(os.path.join(self.ctx.llgo_dir, "xdg", "**", "*.ll"), recursive=True):
            try:
                if os.path.getmtime(f) >= since and "ModuleID = 'verifprog" in open(f, errors="replace").readline():
                    lls.append(f)
            except OSError:
                pass
        work = os.path.join(self.ctx.scratch, "optprobe")
        shutil.rmtree(work, ignore_errors=True)
        os.makedirs(work)

        def one(job):
            f, P = job
            bc = os.path.join(work, "m%d-p%d.bc" % (lls.index(f), P.idx))
            e = subprocess.run(["llvm-extract-14", "-opaque-pointers", "-rfunc=(^|[^A-Za-z0-9])P%d[A-Z]" % P.idx, f, "-o", bc], capture_output=True)
            if e.returncode != 0 or not os.path.exists(bc):
                return None
            try:
                o = subprocess.run(["opt-14", "-opaque-pointers", "-passes=default<O2>", bc, "-o", os.devnull], capture_output=True, timeout=300)
            except subprocess.TimeoutExpired:
                return None
            return P.idx if o.returncode < 0 or o.returncode >= 128 else None
        t0 = time.time()
        with ThreadPoolExecutor(max_workers=8) as ex:
            res = set(x for x in ex.map(one, [(f, P) for f in lls for P in progs]) if x is not None)
        self.ctx.log("LLVM 14 crashed at -O2; probed %d IR modules x %d programs with opt-14 in %.0fs: crashing programs %s"
                     % (len(lls), len(progs), time.time() - t0, sorted(res)))
        return res

    def trivial_ok(self, opt):
        d = os.path.join(self.ctx.scratch, "mod-trivial")
        shutil.rmtree(d, ignore_errors=True)
        write_module(d, {"main.go": "package main\n\nfunc main() { println(1) }\n"})
        p = llgo_build(self.ctx, d, os.path.join(d, "prog"), opt, timeout=1800)
        return p.returncode == 0

    def run_all(self, binary, progs):
        def one(P):
            o, e, rc = run_prog(binary, input="%d\n" % P.idx, timeout=20)
            if rc == "timeout":        # a loaded machine must not turn into a verdict: once more, alone, with a long limit
                o, e, rc = run_prog(binary, input="%d\n" % P.idx, timeout=180)
            return norm_real(e, rc)
        with ThreadPoolExecutor(max_workers=8) as ex:
            return dict(zip([P.idx for P in progs], ex.map(one, progs)))

    def model(self, progs):
        raw = [P for P in progs if getattr(P, "raw", False)]
        progs = [P for P in progs if not getattr(P, "raw", False)]
        lines = ["run %d %s" % (FUEL, P.lean()) for P in progs]

        def limits():
            try:
                resource.setrlimit(resource.RLIMIT_STACK, (resource.RLIM_INFINITY, resource.RLIM_INFINITY))
            except (ValueError, OSError):
                pass
        p = subprocess.run([self.modeld], input="\n".join(lines) + "\n", capture_output=True, text=True, timeout=3600, preexec_fn=limits)
        out = p.stdout.split("\n")
        res = {}
        for i, P in enumerate(progs):
            res[P.idx] = norm_model(out[i]) if i < len(out) and out[i] else ("", "model-crashed")
        for P in raw:
            res[P.idx] = None            # Go text only: no Lean evaluation
        return res


def program_text(P, npk):
    if getattr(P, "raw", False):
        return P.text
    gen2.relayout(P, npk)
    files = gen2.emit_module([P], npk)
    return "".join("// ---- %s\n%s" % (k, v) for k, v in sorted(files.items()) if not k.startswith("input_"))


# --------------------------------------------------------------------------------------------- part B: order fix-up
def of_spec(before, after):
    """the specification of fixSSAOrderBlock, judged on the REAL pass's output; -> None or the reason it fails"""
    items = {}
    order = []
    for it in before:
        i, k, u = it.split(":")
        items[i] = (k, u.split(".") if u else [])
        order.append(i)
    if sorted(after) != sorted(order):
        return "not a permutation"
    rets = [i for i in order if items[i][0] == "R"]
    results = items[rets[-1]][1] if rets else []
    des = set(i for i in order if items[i][0].startswith("L") and i in results)
    if [i for i in after if i not in des] != [i for i in order if i not in des]:
        return "an instruction other than a designated load moved"
    pb = {i: n for n, i in enumerate(order)}
    pa = {i: n for n, i in enumerate(after)}
    for l in des:
        a = items[l][0][1:]
        for x in order:
            if x == l or (pb[x] < pb[l]) == (pa[x] < pa[l]):
                continue
            k, uses = items[x]
            if k.startswith("S") and a in k[1:].split("."):
                return "load %s of alloc %s crossed the store %s" % (l, a, x)
            if l in uses and pa[x] < pa[l]:
                return "load %s moved after its use %s" % (l, x)
            if x in items[l][1] and pa[l] < pa[x]:
                return "load %s moved before the definition of its operand %s" % (l, x)
    # the documented purpose (gc's order for `return o, o.mutate()`): unless a store to the alloc or a use of the loaded
    # value between the load and the Return forbids it, the load ends up after the LAST call that takes the alloc's address
    if rets:
        r = rets[-1]
        for l in des:
            a = items[l][0][1:]
            if pb[l] > pb[r]:
                continue
            between = [x for x in order if pb[l] < pb[x] < pb[r]]
            blocked = any((items[x][0].startswith("S") and a in items[x][0][1:].split(".")) or l in items[x][1] for x in between)
            if blocked:
                continue
            late = [x for x in after if pa[l] < pa[x] < pa[r] and items[x][0].startswith("C") and a in items[x][0][1:].split(".")]
            if late:
                return "load %s of alloc %s still precedes the call %s that takes the alloc's address" % (l, a, late[-1])
    return None


def build_harness(ctx):
    if getattr(ctx, "c01_harness", None) is None:
        ctx.c01_harness = build_go_harness(ctx, "c01", overlay={
            "internal/build/zz_verif_c01_export.go": "overlay/zz_verif_c01_export.go.txt",
            "ssa/zz_verif_c01_cvt.go": "overlay/zz_verif_c01_cvt.go.txt",
            "ssa/zz_verif_opaque.go": os.path.join(VERIF, "harness", "e2e", "overlay", "zz_verif_opaque.go.txt")}, tags="llvm14,verif")
    return ctx.c01_harness


def part_b(ctx, modeld, extra_sources):
    quick = ctx.tier == "quick"
    harness = build_harness(ctx)
    d = os.path.join(ctx.scratch, "orderfix")
    os.makedirs(d, exist_ok=True)
    srcs = []
    with open(os.path.join(d, "corpus.go"), "w") as f:
        f.write(ofgen.CORPUS)
    srcs.append([os.path.join(d, "corpus.go")])
    for k in range(2 if quick else 40):
        fn = os.path.join(d, "gen%d.go" % k)
        with open(fn, "w") as f:
            f.write(ofgen.source(ctx.rng, 300))
        srcs.append([fn])
    srcs += extra_sources
    rows = []
    for files in srcs:
        p = sh([harness] + files, timeout=600)
        if p.returncode != 0:
            raise HarnessBuildError("order-fix harness failed on %s:\n%s" % (files, p.stderr[-2000:]))
        rows += [l.split(" | ") for l in p.stdout.strip().split("\n") if l]
    lines = ["fix " + r[1] for r in rows]
    model, rc, err = run_lines([modeld], lines)
    if len(model) != len(lines):
        raise RuntimeError("modeld_c01 died on the order-fix lines: %s" % err[-1000:])
    moved = mism = spec_fail = 0
    first = None
    for r, m in zip(rows, model):
        before = r[1].split(" ")
        real = r[2].strip().split(" ") if len(r) > 2 and r[2].strip() else []
        if real != [x.split(":")[0] for x in before]:
            moved += 1
        why = of_spec(before, real)
        if why:
            spec_fail += 1
            ctx.report("orderfix:" + hashlib.sha256(r[1].encode()).hexdigest()[:16],
                       "fixSSAOrderBlock on %s: %s" % (r[0], why), {"function#block": r[0], "before": r[1], "after_real": r[2], "model": m, "why": why})
        if m.split(" ") != real:
            mism += 1
            first = first or {"function#block": r[0], "before": r[1], "after_real": r[2], "model": m}
    if mism:
        ctx.broken.append("correspondence fixSSAOrderBlock real vs Lean model: %d blocks differ" % mism)
        if not ctx.violations:
            ctx.report_broken("correspondence C01 fixSSAOrderBlock real-vs-model", first)
    return {"orderfix_blocks": len(rows), "orderfix_blocks_with_moves": moved, "orderfix_mismatches": mism, "orderfix_spec_failures": spec_fail,
            "orderfix_sample": rows[3][:3] if len(rows) > 3 else None}


# --------------------------------------------------------------------------------------------- part C: cl/blocks
def blocks_spec_py(succs, preds, infos):
    """independent re-statement of the specification in Python (the verdict on the real output does not rest on the Lean
    validator alone): -> None or the reason"""
    n = len(succs)
    if len(infos) != n:
        return "length"
    order, cur = [], 0
    while cur is not None and len(order) <= n:
        order.append(cur)
        cur = infos[cur][1]
    if sorted(order) != list(range(n)):
        return "order %s is not a permutation of the blocks" % order
    for b in range(n):
        seen, todo = set(), list(succs[b])
        while todo:
            x = todo.pop()
            if x not in seen:
                seen.add(x)
                todo += succs[x]
        cyc = b in seen
        if (infos[b][0] == "L") != cyc:
            return "block %d %s a cycle but its kind is %s" % (b, "lies on" if cyc else "is not on", infos[b][0])
    ends = [i for i in range(n) if not succs[i] and (preds[i] > 0 or i == 0)]
    for b in range(n):
        if infos[b][0] == "A" and not ((b == 0 and preds[0] == 0) or ends == [b]):
            return "block %d is called always but is neither the entry nothing jumps to nor the unique exit" % b
    return None


def part_c(ctx, modeld, harness, sources):
    rows = []
    for files in sources:
        p = sh([harness, "-blocks"] + files, timeout=600)
        if p.returncode != 0:
            raise HarnessBuildError("blocks harness failed on %s:\n%s" % (files, p.stderr[-2000:]))
        rows += [l.split(" | ") for l in p.stdout.strip().split("\n") if l]
    rows = [r for r in rows if len(r) == 4]
    lines = ["blocks %s %s %s" % (r[1] if r[1] else "-", r[2], r[3]) for r in rows]
    ans, rc, err = run_lines([modeld], lines)
    if len(ans) != len(lines):
        raise RuntimeError("modeld_c01 died on the blocks lines: %s" % err[-1000:])
    bad = loops = multi = 0
    for r, a in zip(rows, ans):
        succs = [[int(x) for x in s.split(".")] if s else [] for s in r[1].split(";")]
        preds = [int(x) for x in r[2].split(".")]
        if len(succs) > 1:
            multi += 1
        if r[3].startswith("panic"):
            why = "blocks.Infos panicked: " + r[3]
        else:
            infos = [(x.split(":")[0], None if x.split(":")[1] == "-" else int(x.split(":")[1])) for x in r[3].split(",")]
            if any(k == "L" for k, _ in infos):
                loops += 1
            why = blocks_spec_py(succs, preds, infos)
            if why is None and a != "ok":
                why = "the Lean validator rejects it: " + a
        if why:
            bad += 1
            ctx.report("blocks:" + hashlib.sha256((r[1] + "|" + r[3]).encode()).hexdigest()[:16],
                       "blocks.Infos on the control-flow graph of %s: %s" % (r[0], why),
                       {"function": r[0], "succs": r[1], "preds": r[2], "infos_real": r[3], "lean_validator": a, "why": why})
    return {"blocks_functions": len(rows), "blocks_functions_with_branches": multi, "blocks_functions_with_loops": loops, "blocks_rejected": bad,
            "blocks_sample": rows[5] if len(rows) > 5 else None}



# --------------------------------------------------------------------------------------------- part D: Go type -> raw type
TC_CORPUS = """package tc

import "unsafe"

var _ unsafe.Pointer

// the shape of seeded change C01-4: an embedded struct that carries a func-typed field, promoted methods
type Base struct { N int; Fn func(int) int }
func (b Base) Get() int { return b.N }
func (b *Base) Set(n int) { b.N = n }

type Outer struct { Base; Tag int `json:"tag"` }
type OuterP struct { *Base; Tag int }
type Deep struct { Outer; X []func() }
type Plain struct { N int }
func (p Plain) Get() int { return p.N }
type OuterPlain struct { Plain; F func() }

type I interface { Get() int }
type Carrier struct { I; cb map[string][]func(I) Carrier }
type Fn func(Outer) (*Deep, error2)
type error2 interface { Error() string; Unwrap() func() error2 }
type Rec struct { next *Rec; f func(*Rec) Rec2 }
type Rec2 struct { r Rec; _ func() `k:"v"` }
type Alias2 Rec2
type Arr [2]struct { Base; g chan func() }

var V0 struct { Outer; Y int }
var V1 struct { *Deep }
var V2 []map[int]*Outer
var V3 func(...Base) (Outer, func())
var V4 interface { M(func(Base)) Outer }
"""


def sx_parse(text):
    import re
    toks = re.findall(r"\(|\)|[^\s()]+", text)
    pos = 0

    def p():
        nonlocal pos
        t = toks[pos]
        pos += 1
        if t == "(":
            l = []
            while toks[pos] != ")":
                l.append(p())
            pos += 1
            return l
        return t
    out = []
    while pos < len(toks):
        out.append(p())
    return out


def tc_unlower(t):
    """SPECIFICATION side, written independently of the Lean model: a raw type read back as a Go type (closure structs are
    func types, raw twins their declarations).  The lowering may lose nothing else."""
    h = t[0]
    if h == "b":
        return t
    if h in ("p", "sl"):
        return [h, tc_unlower(t[1])]
    if h in ("ar", "ch"):
        return [h, t[1], tc_unlower(t[2])]
    if h == "m":
        return ["m", tc_unlower(t[1]), tc_unlower(t[2])]
    if h == "n":
        return ["n", t[1], "0"]
    if h == "f":
        return ["f", [tc_unlower(x) for x in t[1]], [tc_unlower(x) for x in t[2]], t[3]]
    if h == "st":
        fs = t[1:]
        if len(fs) == 2 and fs[0][0] == "$f" and fs[0][1][0] == "f" and fs[1][0] == "$data" and fs[1][1] == ["b", "Pointer"]:
            return tc_unlower(fs[0][1])
        return ["st"] + [[f[0], tc_unlower(f[1]), f[2], f[3]] for f in fs]
    if h == "if":
        return ["if"] + [[f[0], tc_unlower(f[1]), f[2], f[3]] for f in t[1:]]
    raise ValueError(t)


def tc_first_loss(src, back, path="T"):
    """where a lowered type, read back, differs from the source type"""
    if src == back:
        return None
    if isinstance(src, str) or isinstance(back, str):
        return "%s: %r became %r" % (path, src, back)
    if src and back and isinstance(src[0], str) and isinstance(back[0], str):
        if src[0] != back[0] or len(src) != len(back):
            return "%s: %s with %d parts became %s with %d parts" % (path, src[0], len(src) - 1, back[0], len(back) - 1)
        if src[0] in ("st", "if"):
            for x, y in zip(src[1:], back[1:]):
                if x[0] != y[0]:
                    return "%s: field %s renamed %s" % (path, x[0], y[0])
                if x[2] != y[2]:
                    return "%s: field %s: embedded flag %s became %s" % (path, x[0], x[2], y[2])
                if x[3] != y[3]:
                    return "%s: field %s: tag changed" % (path, x[0])
                r = tc_first_loss(x[1], y[1], path + "." + x[0])
                if r:
                    return r
            return None
        for x, y in zip(src[1:], back[1:]):
            r = tc_first_loss(x, y, path)
            if r:
                return r
        return None
    if len(src) != len(back):
        return "%s: arity %d became %d" % (path, len(src), len(back))
    for x, y in zip(src, back):
        r = tc_first_loss(x, y, path)
        if r:
            return r
    return None


def tc_rebuilt_embedded(t):
    """does the lowered type contain an EMBEDDED field whose type was rebuilt (raw twin or closure inside)?"""
    if isinstance(t, str) or not t:
        return False
    if t[0] == "st":
        for f in t[1:]:
            if f[2] == "1" and ("$f" in str(f[1]) or (f[1][0] == "n" and f[1][2] == "1") or (f[1][0] == "p" and f[1][1][0] == "n" and f[1][1][2] == "1")):
                return True
    return any(tc_rebuilt_embedded(x) for x in t[1:] if isinstance(x, list))


def part_d(ctx, modeld, harness):
    import re
    quick = ctx.tier == "quick"
    d = os.path.join(ctx.scratch, "typecvt")
    os.makedirs(d, exist_ok=True)
    texts = {}
    fn = os.path.join(d, "corpus.go")
    texts[fn] = TC_CORPUS
    for k in range(60 if quick else 1500):
        fn = os.path.join(d, "p%d.go" % k)
        texts[fn] = tcgen.source(ctx.rng_de)
    for fn, t in texts.items():
        with open(fn, "w") as f:
            f.write(t)
    files = list(texts)
    out = []
    for i in range(0, len(files), 200):
        p = sh([harness, "-cvt"] + files[i:i + 200], timeout=600)
        if p.returncode != 0:
            raise HarnessBuildError("type-lowering harness failed (generator or harness bug):\n%s" % p.stderr[-2000:])
        out += p.stdout.split("\n")
    reqs = [l for l in out if l.startswith("REQ ")]
    skipped = [l for l in out if l.startswith("SKIP ")]
    if len(skipped) * 4 > len(files):          # the generator, not llgo, is wrong: a machinery error, never a verdict
        raise RuntimeError("harness/c01/tcgen.py: %d of %d generated files do not type-check, e.g. %s" % (len(skipped), len(files), skipped[0][:300]))
    for l in skipped:
        ctx.log("part D: generated file skipped (does not type-check: generator bug):", l[:200])
    res, twins = {}, {}
    for l in out:
        if l.startswith("RES "):
            f = l.split(" | ")
            res.setdefault(f[0].split(" ")[1], []).append(f)
        elif l.startswith("TWIN "):
            f = l.split(" | ")
            twins.setdefault(f[0].split(" ")[1], []).append(f[1])
    model, rc, err = run_lines([modeld], ["cvt " + r.split(" | ", 1)[1] for r in reqs])
    if len(model) != len(reqs):
        raise RuntimeError("modeld_c01 died on the cvt lines: %s" % err[-1000:])
    norm = lambda x: re.sub(r"\(n (\d+) [01]\)", r"(n \1)", x)     # which named references are raw twins depends on the memo order
    ntypes = changed = emb_rebuilt = spec_fail = mism = 0
    first_mism = None
    failures = []
    for rq, m in zip(reqs, model):
        fn = rq.split(" ")[1]
        mres = [x.rsplit(" ", 1)[0] for x in m.split(" || ")[0].split(" | ")] if " || " in m or " | " in m or m.startswith("(") else []
        for j, r in enumerate(res.get(fn, [])):
            ntypes += 1
            gotype, src, raw, ch = r[1], r[2], r[3], r[4]
            if ch == "1":
                changed += 1
            why = None
            try:
                s_src, s_raw = sx_parse(src)[0], sx_parse(raw)[0]
                if ch == "1" and tc_rebuilt_embedded(s_raw):
                    emb_rebuilt += 1
                back = tc_unlower(s_raw)
                if back != s_src:
                    why = "the lowered type does not read back as the source type: " + (tc_first_loss(s_src, back) or "structure differs")
                elif ch == "0" and s_raw != s_src:
                    why = "cvtType reports no change but returns a different type"
            except (ValueError, IndexError) as e:
                why = "unreadable type rendering: %r" % (e,)
            if why is None and (r[5] != r[6] or r[7] != r[8]):
                why = "method sets differ: go/types gives {%s} for T and {%s} for *T on the source type, {%s} and {%s} on the lowered type" % (r[5], r[7], r[6], r[8])
            if why:
                spec_fail += 1
                failures.append((len(texts[fn]) + len(src), fn, gotype, src, raw, ch, why, r[5:9]))
            if j >= len(mres) or norm(mres[j]) != norm(raw):
                mism += 1
                first_mism = first_mism or {"file": texts[fn], "type": gotype, "src": src, "real": raw, "model": mres[j] if j < len(mres) else m[:300]}
    failures.sort()
    for (_, fn, gotype, src, raw, ch, why, ms) in failures[:3]:
        ctx.report("typecvt:" + hashlib.sha256((gotype + "|" + raw).encode()).hexdigest()[:16],
                   "ssa/type_cvt.go cvtType on `%s`: %s" % (gotype[:200], why),
                   {"go_source": texts[fn], "type": gotype, "source_type": src, "lowered_type": raw, "changed": ch,
                    "method_sets": {"T source": ms[0], "T lowered": ms[1], "*T source": ms[2], "*T lowered": ms[3]}, "why": why,
                    "how": "type-check go_source, call goTypes.cvtType on the types in source order (harness/c01/cvt.go: harness.bin -cvt file.go)"})
    if mism:
        ctx.broken.append("correspondence cvtType real vs Lean model: %d types differ" % mism)
        if not ctx.violations:
            ctx.report_broken("correspondence C01 cvtType real-vs-model", first_mism)
    return {"typecvt_packages": len(reqs), "typecvt_files_skipped": len(skipped), "typecvt_types": ntypes, "typecvt_types_changed": changed, "typecvt_changed_with_embedded_field": emb_rebuilt,
            "typecvt_spec_failures": spec_fail, "typecvt_mismatches": mism,
            "typecvt_sample": (res.get(files[0], [[None] * 5])[1][1:5] if len(res.get(files[0], [])) > 1 else None)}


# --------------------------------------------------------------------------------------------- part E: runtime routines, natively
RT_FILES = ["map.go", "alg.go", "hash64.go", "z_map.go", "type.go", "errors.go", "z_face.go", "z_type.go",
            "mbarrier.go", "z_error.go", "z_slice.go", "z_string.go", "utf8.go", "stubs.go"]
# bytes around every boundary of the UTF-8 decoder: ASCII edge, continuation range, overlong leads, 2/3/4-byte leads and
# their special second bytes (E0 A0, ED 9F/A0, F0 90, F4 8F/90), first invalid leads
ITER_ALPHABET = [0x00, 0x41, 0x7f, 0x80, 0x81, 0x8f, 0x90, 0x9f, 0xa0, 0xbf, 0xc0, 0xc1, 0xc2, 0xdf, 0xe0, 0xe1, 0xec, 0xed, 0xee, 0xef,
                 0xf0, 0xf1, 0xf3, 0xf4, 0xf5, 0xf7, 0xf8, 0xff]


def iter_inputs(ctx):
    import itertools
    quick = ctx.tier == "quick"
    out = [b""]
    for n in (1, 2, 3) if quick else (1, 2, 3, 4):
        out += [bytes(t) for t in itertools.product(ITER_ALPHABET, repeat=n)]
    pieces = [bytes([b]) for b in ITER_ALPHABET] + ["é".encode(), "世".encode(), "\U0001F600".encode(), b"\xed\xa0\x80", b"\xf4\x90\x80\x80", b"\xe0\x9f\xbf",
                                                    b"\xc0\x80", b"\xef\xbf\xbd", b"\xf0\x90\x80\x80", b"\xf4\x8f\xbf\xbf", b"ab"]
    for _ in range(3000 if quick else 60000):
        out.append(b"".join(ctx.rng_de.choice(pieces) for _ in range(ctx.rng_de.randint(2, 6))))
    return out


def part_e(ctx, modeld):
    H = os.path.join(VERIF, "harness", "c01", "native")
    nat = native.make_native(ctx, RT_FILES, {"zz_support.go": native.RT_SUPPORT, "zz_c01.go": open(os.path.join(H, "rt_c01.go.txt")).read()},
                             {"main.go": open(os.path.join(H, "main.go.txt")).read()}, name="native-c01")
    # ---- interface equality
    p = sh([nat, "eq"], timeout=600)
    if p.returncode != 0:
        raise HarnessBuildError("native interface-equality harness failed:\n%s" % p.stderr[-2000:])
    rows = [l.split(" | ") for l in p.stdout.split("\n") if l.startswith("eq ")]
    model, rc, err = run_lines([modeld], ["efeq " + r[3] for r in rows])
    if len(model) != len(rows):
        raise RuntimeError("modeld_c01 died on the efeq lines: %s" % err[-1000:])
    routines = ["EfaceEqual", "nilinterequal", "interequal"]
    eq_fail, eq_mism, reported, first_mism = 0, 0, {}, None
    classes = set()
    for r, m in zip(rows, model):
        i, j = r[0].split(" ")[1:3]
        real, host = r[4].split(" "), r[5]
        same = r[3].split(" ")[4] == "1"
        classes.add((r[1], r[2], same))
        mm = m.split(" ")
        mm = [mm[0], mm[1], mm[1]] if len(mm) == 2 else ["?", "?", "?"]
        for k, name in enumerate(routines):
            if real[k] != host:
                eq_fail += 1
                if reported.get((name, host), 0) < 1:          # one report per routine and expected answer (false: NaN inside; panic: uncomparable)
                    reported[(name, host)] = 1
                    words = {"t": "true", "f": "false", "p": "a run-time panic"}
                    ctx.report("ifaceeq:%s:%s==%s:%s" % (name, r[1], r[2], "same-box" if same else "other-box"),
                               "runtime %s on two interface values holding %s and %s (%s): the runtime answers %s, Go (reference toolchain) %s"
                               % (name, r[1], r[2], "the SAME data word: x == x or a copy y := x" if same else "different data words", words.get(real[k], real[k]), words.get(host, host)),
                               {"routine": name, "left": r[1], "right": r[2], "same_data_word": same, "abstract (tidL tidR hasEqual direct sameWord Equal())": r[3],
                                "runtime": real[k], "reference": host, "catalogue_indices": [int(i), int(j)],
                                "how": "harness/c01/native: native.bin eq (catalogue in rt_c01.go.txt)"})
            elif mm[k] != real[k]:
                eq_mism += 1
                first_mism = first_mism or {"routine": name, "left": r[1], "right": r[2], "abstract": r[3], "real": real[k], "model": mm[k]}
    # ---- string iteration
    strs = iter_inputs(ctx)
    lines = [(s.hex() or "-") for s in strs]
    p = subprocess.run([nat, "iter"], input="\n".join(lines) + "\n", capture_output=True, text=True, timeout=1200)
    if p.returncode != 0:
        raise HarnessBuildError("native string-iteration harness failed:\n%s" % p.stderr[-2000:])
    rows2 = [l.split(" | ") for l in p.stdout.split("\n") if l.startswith("iter ")]
    model2, rc, err = run_lines([modeld], ["iter " + h for h in lines])
    if len(model2) != len(lines) or len(rows2) != len(lines):
        raise RuntimeError("string-iteration lines lost: %d inputs, %d real, %d model: %s" % (len(lines), len(rows2), len(model2), err[-500:]))
    it_fail, it_mism, bad, first_mism2, invalid = 0, 0, [], None, 0
    for h, r, m in zip(lines, rows2, model2):
        real_it, real_conv, host_it, host_conv = r[1], r[2], r[3], r[4]
        if "65533" in host_it:
            invalid += 1
        if real_it != host_it or real_conv != host_conv:
            it_fail += 1
            bad.append((len(h), h, real_it, real_conv, host_it, host_conv))
        elif m != real_it:
            it_mism += 1
            first_mism2 = first_mism2 or {"string_hex": h, "real": real_it, "model": m}
    bad.sort()
    for (_, h, real_it, real_conv, host_it, host_conv) in bad[:3]:
        which = "for i, r := range s (StringIterNext)" if real_it != host_it else "[]rune(s) (StringToRunes)"
        ctx.report("striter:" + h, "%s on the string with bytes %s: the runtime gives %s, Go (reference toolchain) %s"
                   % (which, h, real_it if real_it != host_it else real_conv, host_it if real_it != host_it else host_conv),
                   {"string_hex": h, "runtime index:rune": real_it, "reference index:rune": host_it, "runtime []rune": real_conv, "reference []rune": host_conv,
                    "how": "harness/c01/native: echo %s | native.bin iter" % h})
    if eq_mism or it_mism:
        ctx.broken.append("correspondence runtime routines real vs Lean model: %d interface comparisons, %d strings differ" % (eq_mism, it_mism))
        if not ctx.violations:
            ctx.report_broken("correspondence C01 runtime-routines real-vs-model", first_mism or first_mism2)
    return {"ifaceeq_pairs": len(rows), "ifaceeq_classes": len(classes), "ifaceeq_spec_failures": eq_fail, "ifaceeq_mismatches": eq_mism,
            "ifaceeq_sample": rows[150][1:] if len(rows) > 150 else None,
            "striter_strings": len(lines), "striter_strings_with_invalid_utf8": invalid, "striter_spec_failures": it_fail, "striter_mismatches": it_mism,
            "striter_sample": rows2[4000][:4] if len(rows2) > 4000 else None}


# --------------------------------------------------------------------------------------------- the check
def run_check(ctx, args):
    quick = ctx.tier == "quick"
    st = lean_check(ctx, ["LlgoVerif.Props.C01"], ["LlgoVerif/Props/C01.lean"],
                    extra_files=["LlgoVerif/Model/CoreGo.lean", "LlgoVerif/Model/OrderFix.lean", "LlgoVerif/Model/Blocks.lean",
                                 "LlgoVerif/Model/TypeCvt.lean", "LlgoVerif/Model/EfaceEq.lean",
                                 "LlgoVerif/Lemmas/CoreGo.lean", "LlgoVerif/Lemmas/OrderFix.lean", "LlgoVerif/Lemmas/Blocks.lean",
                                 "LlgoVerif/Lemmas/TypeCvt.lean", "LlgoVerif/Lemmas/IfaceEq.lean", "LlgoVerif/Lemmas/StrRange.lean"],
                    leanchecker=(ctx.tier == "thorough"))
    modeld = build_driver(ctx, "modeld_c01")
    # the cheap, direct ties first (parts D and E): a concrete small failing input is on the screen within two minutes.
    # They draw from a stream of their own, derived from the run's seed, so that part A generates the same programs whether
    # or not D/E ran (VERIF_C01_ONLY, later additions)
    ctx.rng_de = random.Random("C01/DE/%d" % ctx.seed)
    t0 = time.time()
    covd = part_d(ctx, modeld, build_harness(ctx))
    ctx.log("part D (type lowering): %d types of %d packages, %d changed, %d spec failures, %d model mismatches, %.0fs"
            % (covd["typecvt_types"], covd["typecvt_packages"], covd["typecvt_types_changed"], covd["typecvt_spec_failures"], covd["typecvt_mismatches"], time.time() - t0))
    t0 = time.time()
    cove = part_e(ctx, modeld)
    ctx.log("part E (runtime routines, native): %d interface comparisons (%d spec failures), %d strings (%d spec failures), %.0fs"
            % (cove["ifaceeq_pairs"], cove["ifaceeq_spec_failures"], cove["striter_strings"], cove["striter_spec_failures"], time.time() - t0))
    if os.environ.get("VERIF_C01_ONLY") == "DE":          # development aid: the direct ties only (the evidence is then partial)
        ctx.coverage["samples"] = [covd.get("typecvt_sample"), cove.get("ifaceeq_sample"), cove.get("striter_sample")]
        return ctx.finish("translation_validation", dict(covd, **cove, partial_run="parts D and E only (VERIF_C01_ONLY=DE)"))
    build_llgo(ctx)
    bench = Bench(ctx, modeld)

    # the SAME programs are emitted in every layout of a round: the reference toolchain and the Lean evaluator see each
    # program once (layout 1), llgo sees it once per layout and optimisation level
    layouts = [1, 3] if quick else [1, 2, 3, 4]
    if os.environ.get("VERIF_C01_LAYOUTS"):          # development aid: restrict the layouts, e.g. "1,3"
        layouts = [int(x) for x in os.environ["VERIF_C01_LAYOUTS"].split(",")]
    per_batch = int(os.environ.get("VERIF_C01_BATCH", "40"))
    rounds = 1 if quick else 8
    stats = {"programs": 0, "comparisons": 0, "model_disagreements": 0, "llgo_disagreements": 0, "skipped_reference_timeout": 0,
             "skipped_model_out_of_fuel": 0}
    feats, samples, model_dis = {}, [], []
    extra_sources = []
    nontrivial = 0
    for rnd in range(rounds):
        progs = corpus_programs(0) if rnd == 0 else []
        # two programs per round carry the large-value group (values of 4 KB … 64 KB copied through pointers, into interfaces,
        # by value, under closures): one straddling 4 KB, one from the larger sizes.  LLVM 14 needs minutes for them at -O2,
        # so the quick tier builds them at -O0 only (the copy semantics are decided in cl/ssa, before the optimiser).
        big_plan = {len(progs): [ctx.rng.choice([500, 520, 520])], len(progs) + 1: [ctx.rng.choice([1024, 2000, 5000, 8190, 8200])]}
        while len(progs) < per_batch:
            seed = ctx.rng.getrandbits(48)
            P = gen2.generate(seed, len(progs), big_plan.get(len(progs)))
            P.seed = seed
            progs.append(P)
        tag = "r%d" % rnd
        d = bench.write(progs, 1, tag + "-ref")
        t0 = time.time()
        pr = bench.ref_build(d)
        if pr.returncode != 0:
            raise RuntimeError("the reference toolchain rejects a generated program (generator bug, seeds %s):\n%s"
                               % ([P.seed for P in progs][:5], (pr.stdout + pr.stderr)[-3000:]))
        ref = bench.run_all(os.path.join(d, "ref"), progs)
        mod = bench.model(progs)
        if rnd == 0:
            extra_sources.append([os.path.join(d, "main.go"), os.path.join(d, "input_llgo.go")])
        ctx.log("round %d: %d programs, reference build+run and Lean evaluation %.0fs" % (rnd, len(progs), time.time() - t0))
        live = []
        for P in progs:
            stats["programs"] += 1
            for f in P.features:
                feats[f] = feats.get(f, 0) + 1
            want = ref[P.idx]
            if want[1] == "timeout":
                stats["skipped_reference_timeout"] += 1
                continue
            live.append(P)
            if want[0].count("\n") >= 5:
                nontrivial += 1
            got = mod[P.idx]
            if got is None:
                continue
            if got[1] == "timeout":
                stats["skipped_model_out_of_fuel"] += 1
            elif got != want:
                stats["model_disagreements"] += 1
                model_dis.append({"seed": P.seed, "diff": first_diff(got, want)})
                ctx.log("MODEL disagreement (not a violation) seed", P.seed, first_diff(got, want))
            if len(samples) < 4 and P.idx % 13 == 1:
                samples.append({"seed": P.seed, "features": sorted(P.features), "reference_output_head": want[0][:200], "termination": want[1],
                                "lean_evaluator_agrees": got == want})
        for npk in layouts:
            for opt in ("-O0", "-O2"):
                t0 = time.time()
                skip = set(bench.crash_seeds.get(opt, set()))
                if opt == "-O2" and (quick or rnd > 0 or npk != layouts[0]):      # thorough: once, in the first round and layout
                    for P in live:
                        if getattr(P, "big", False):
                            skip.add(P.seed)
                            stats["large_value_programs_O0_only"] = stats.get("large_value_programs_O0_only", 0) + 1
                todo = [P for P in live if P.seed not in skip]
                for P in live:
                    if P.seed in skip and not getattr(P, "big", False):
                        bench.toolchain_crashes.append((P, npk, opt, "skipped: its group crashed LLVMRunPasses in another layout at this level"))
                parts = bench.llgo_parts(todo, npk, opt, "%s-l%d" % (tag, npk))
                for binary, sub in parts:
                    res = bench.run_all(binary, sub)
                    for P in sub:
                        stats["comparisons"] += 1
                        got, want = res[P.idx], ref[P.idx]
                        if got == want:
                            continue
                        stats["llgo_disagreements"] += 1
                        report_disagreement(ctx, bench, P, npk, opt, got, want)
                ctx.log("round %d, %d package(s), %s: llgo build+run %.0fs" % (rnd, npk, opt, time.time() - t0))
    for (P, npk, opt, log) in bench.build_failures:
        text = program_text(P, npk)
        ctx.report("build-failure:" + hashlib.sha256(text.encode()).hexdigest()[:16],
                   "llgo %s cannot compile a program the reference toolchain accepts (seed %s, %d packages)" % (opt, P.seed, npk),
                   {"seed": P.seed, "packages": npk, "opt": opt, "llgo_output_tail": log, "program": text})
    stats["aux_modules"] = aux_modules(ctx, bench)
    covb = part_b(ctx, modeld, extra_sources)
    ofsrc = [[os.path.join(ctx.scratch, "orderfix", "corpus.go")], [os.path.join(ctx.scratch, "orderfix", "gen0.go")]]
    covb.update(part_c(ctx, modeld, ctx.c01_harness, extra_sources + ofsrc))

    for name, s in st.items():
        if s != "ok":
            ctx.log("theorem", name, s)
    if any(s != "ok" for s in st.values()) and not ctx.violations:
        ctx.report_broken("Props/C01: " + ", ".join(n for n, s in st.items() if s != "ok"), st)
    ctx.coverage["samples"] = samples + [{"model_disagreements": model_dis[:5]}]
    ctx.coverage["trusted_base"] += [
        "oracle of the translation validation: the SAME generated Go source built by the reference Go toolchain (go1.24, -tags goref); the Lean "
        "evaluator CoreGo.run is a second, independent oracle whose disagreements with the reference are reported as model bugs, not violations",
        "generator + the two printers (Go text / s-expression) in harness/c01 (goast.py, gen.py, gen2.py): a printing inconsistency shows up as a "
        "model disagreement",
        "only `-tags nogc` is available in the sandbox: the gc/nogc dimension of the property is NOT exercised; only amd64 executes",
        "order fix-up tie: the abstraction of go/ssa instructions (id:kind:uses) is computed by harness/c01/main.go",
        "type-lowering tie (part D): the rendering of go/types values as s-expressions (harness/c01/cvt.go) and go/types.NewMethodSet as the "
        "reference for method sets; which named references are raw twins depends on the memo order and is not compared",
        "runtime-routine tie (part E): hand-built type descriptors of the shape ssa/abitype.go emits (harness/c01/native/rt_c01.go.txt); the host "
        "toolchain's == / range / []rune as the reference",
        "an LLVM 14 crash inside LLVMRunPasses (experimental opaque-pointer mode, sandbox-only toolchain) is recorded as toolchain_crash, not judged",
    ]
    ctx.assumptions += [
        "NOT a theorem: 'for every program of the fragment llgo's executable behaves as the reference semantics says' is checked on the generated "
        "programs only (translation validation); the theorems are about the oracle (determinism, fuel monotonicity) and about fixSSAOrderBlock",
    ]
    cov = {"programs": stats["programs"], "disagreements_checked": stats["comparisons"], "evaluations": stats["comparisons"] + stats["programs"],
           "distinct_nontrivial": nontrivial,
           "rule": "one evaluation = one generated program run under one configuration (layout x {-O0,-O2}) compared with the reference toolchain's run "
                   "of the same source (built once, single-package layout), plus one Lean evaluation per program; non-trivial = the reference prints at least 5 lines; programs are distinct by seed",
           "input_distribution": dict(sorted(feats.items())), "layouts_packages": layouts, "opt_levels": ["-O0", "-O2"], "runtime_config": "nogc only",
           "model_disagreements": stats["model_disagreements"], "llgo_disagreements": stats["llgo_disagreements"],
           "skipped_reference_timeout": stats["skipped_reference_timeout"], "skipped_model_out_of_fuel": stats["skipped_model_out_of_fuel"],
           "llgo_builds": bench.n_llgo_builds,
           "toolchain_crashes": [{"seed": P.seed, "packages": npk, "opt": opt, "log": log[:200]} for (P, npk, opt, log) in bench.toolchain_crashes],
           "build_failures": len(bench.build_failures), "large_value_programs_O0_only": stats.get("large_value_programs_O0_only", 0),
           "aux_modules": stats.get("aux_modules", 0)}
    cov.update(covb)
    cov.update(covd)
    cov.update(cove)
    cov["evaluations"] += covd["typecvt_types"] + cove["ifaceeq_pairs"] * 3 + cove["striter_strings"]
    cov["rule"] += "; plus one evaluation per lowered type (part D), per interface comparison and routine (part E) and per iterated string (part E)"
    return ctx.finish("translation_validation", cov)


def report_disagreement(ctx, bench, P, npk, opt, got, want):
    cls = getattr(P, "known_key", None) or classify(got, want)
    diff = first_diff(got, want)
    if cls and ctx.match_known(cls):
        ctx.report(cls, diff, {})
        return
    if P.seed in bench.reported_seeds:          # the same program already reported under another configuration
        ctx.log("llgo %s also disagrees on seed %s (%d packages): %s" % (opt, P.seed, npk, diff))
        return
    bench.reported_seeds.add(P.seed)
    ctx.log("llgo %s disagrees with the reference on seed %s (%d packages): %s" % (opt, P.seed, npk, diff))
    # minimise: delete statements while the disagreement (llgo at this level vs reference) persists
    d = os.path.join(ctx.scratch, "min")

    def pred(Q):
        shutil.rmtree(d, ignore_errors=True)
        gen2.relayout(Q, npk)
        write_module(d, gen2.emit_module([Q], npk))
        if bench.ref_build(d).returncode != 0:
            return False
        o, e, rc = run_prog(os.path.join(d, "ref"), input="%d\n" % Q.idx, timeout=20)
        w = norm_real(e, rc)
        if w[1] == "timeout":
            return False
        p = llgo_build(ctx, d, os.path.join(d, "prog"), opt, timeout=1800)
        if p.returncode != 0:
            return False
        o, e, rc = run_prog(os.path.join(d, "prog"), input="%d\n" % Q.idx, timeout=20)
        return norm_real(e, rc) != w
    tests = 0
    try:
        if bench.min_budget > 0 and pred(P):
            _, tests = minimize.minimize(P, pred, max_tests=min(bench.min_budget, 10 if ctx.tier == "quick" else 60), log=ctx.log)
            bench.min_budget -= tests
    except Exception as e:      # the minimiser must never hide the finding
        ctx.log("minimiser stopped:", repr(e)[:200])
    text = program_text(P, npk)
    key = cls or ("program:" + hashlib.sha256(text.encode()).hexdigest()[:20])
    ctx.report(key, "llgo %s (%d packages) and the reference toolchain disagree: %s" % (opt, npk, diff),
               {"seed": P.seed, "packages": npk, "opt": opt, "llgo": {"output": got[0][-2000:], "termination": got[1]},
                "reference": {"output": want[0][-2000:], "termination": want[1]}, "minimiser_tests": tests,
                "program": text, "lean_program": None if getattr(P, "raw", False) else P.lean(),
                "how": "write the files of `program` into a module `verifprog` (+ harness/c01/gen2.py INPUT_LLGO/INPUT_GO), build with "
                       "`llgo build -tags nogc %s` and with `go build -tags goref`, feed the program index `%d` on stdin" % (opt, P.idx)})


def run(ctx, args):
    return run_check(ctx, args)
