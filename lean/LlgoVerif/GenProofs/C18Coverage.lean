import LlgoVerif.Model.Targets
import LlgoVerif.Gen.C18Fields
/-!
# C18 — coverage of the Go struct by the Lean model (over the regenerated `Gen/C18Fields.lean`)

Kept apart from `Props/C18.lean`: when `type Config struct` gains a field that the hand-written model does not have yet,
this obligation is open, but no statement of the property is falsified by that alone.  `./check C18` then judges the
new field on the real code with its field-generic specification judge (same law: last setter wins / concatenation)
and reports the gap in the evidence; `Props/C18` `mergeConfig_complete` (hard) still demands that the field is merged.
-/
namespace LlgoVerif.Targets

/-- every field of the Go struct, with its Go type, is a field of the model -/
theorem config_fields_modelled : ∀ f ∈ Gen.C18.configFields, (f.1, f.2.1) ∈ modelFields := by decide

end LlgoVerif.Targets
