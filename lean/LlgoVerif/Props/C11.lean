import LlgoVerif.Lemmas.Sema
import LlgoVerif.Lemmas.AtomicValue
import LlgoVerif.Lemmas.Mutex
import LlgoVerif.Spec.Atomics
import LlgoVerif.Gen.C11Atomics
/-!
# C11 — goroutines, sync primitives and atomics keep their guarantees under contention

Property theorems only.  Model: `Model/Sema.lean` (llgo's semaphore and notify list, `runtime/internal/lib/runtime/
sema_llgo.go`, as a transition system over ANY number of threads, any programs, any interleaving at lock / atomic /
wait granularity, spurious wake-ups and the environment's choice of the thread a `Signal` wakes included).
`Reachable cfg (init v progs) s` (`init v progs = initAt v 0 progs`) = "`s` is reached by some schedule from the initial state with count `v` and thread
programs `progs`"; every theorem below quantifies over all of them (induction over the step sequence).

`Cfg.current` is the pinned tree; `Cfg.fixed` the tree after `/verif/fixes/C11-1.diff` (ticket comparison in
`notifyListWait`, broadcast in `NotifyOne`) and `C11-2.diff` (retry after a failed CAS in `semaAcquire`).  Statements
that are false for `Cfg.current` stay visible as `def … : Prop` with a `…_counterexample` (a concrete schedule,
replayed on the real code by `checks/c11.py`) and a `…_partial`.

Atomics: `Gen/C11Atomics.lean` is regenerated on every run from the IR llgo emits; `atomics_lowering` /
`atomics_complete` are `decide` over that whole table.  Indivisibility and the single total order of `seq_cst`
instructions are LLVM's and the hardware's: trusted, not proved.
-/
namespace LlgoVerif.C11
open LlgoVerif.Sema LlgoVerif.Atomics

/-! ## helpers for concrete witnesses -/

/-- a state reached by running a concrete schedule, with a decidable property read off it -/
theorem of_run {cfg : Cfg} {s0 : State} (as : List Action) (p : State → Bool)
    (h : (run cfg s0 as).map p = some true) : ∃ s, Reachable cfg s0 s ∧ p s = true := by
  cases hr : run cfg s0 as with
  | none => simp [hr] at h
  | some s =>
    simp only [hr, Option.map_some, Option.some.injEq] at h
    exact ⟨s, run_reachable as s0 s .refl hr, h⟩

/-! ## 1. Semaphore -/

/-- **permits are conserved**: under every interleaving, `count + completed acquires = initial + releases`. -/
theorem permits_conserved (cfg : Cfg) (v : Nat) (progs : List (List Op)) (s : State)
    (h : Reachable cfg (init v progs) s) : s.sh.val + s.sh.acquired = v + s.sh.released :=
  (baseInv_reachable h).cons

/-- hence never more acquires complete than the initial count plus the releases issued so far -/
theorem acquires_bounded (cfg : Cfg) (v : Nat) (progs : List (List Op)) (s : State)
    (h : Reachable cfg (init v progs) s) : s.sh.acquired ≤ v + s.sh.released := by
  have := permits_conserved cfg v progs s h; omega

/-- **an acquire completes only on a positive count**: the history holds one entry per completed acquire, and every
    entry (the count the successful CAS replaced) is positive. -/
theorem acquire_needs_release (cfg : Cfg) (v : Nat) (progs : List (List Op)) (s : State)
    (h : Reachable cfg (init v progs) s) :
    s.sh.acqSaw.length = s.sh.acquired ∧ ∀ c ∈ s.sh.acqSaw, 0 < c :=
  (baseInv_reachable h).saw

example : ∃ s, Reachable Cfg.current (init 1 [[.acquire, .release], [.acquire, .release]]) s ∧
    (s.sh.acquired == 2 && s.sh.released == 2 && s.sh.val == 1) = true :=
  of_run [.step 0 0, .step 0 0, .step 0 0, .step 1 0, .step 0 0, .step 0 0, .step 1 0, .step 1 0, .step 1 0, .step 1 0]
    _ (by decide)

/-- a thread is asleep in the semaphore's `Cond.Wait` -/
def SomeoneAsleep (s : State) : Prop := ∃ (i : Nat) (t : Thread), s.threads[i]? = some t ∧ t.pc = .aWait

/-- a wake-up or re-check is pending: a releaser between its `Add` and its `Signal`, a woken sleeper, or the holder of
    the semaphore's mutex about to (re-)read the count -/
def WakePending (s : State) : Prop :=
  ∃ (j : Nat) (t : Thread), s.threads[j]? = some t ∧
    (t.pc = .rGet ∨ t.pc = .rLock ∨ t.pc = .aWoken ∨ t.pc = .aLoad2 ∨ ∃ v, t.pc = .aCas2 v)

/-- `st.waiters` counts exactly the threads between `waiters++` and `waiters--`, so `semaRelease`'s test
    `if st.waiters != 0` never skips a sleeper. -/
theorem waiters_counted (cfg : Cfg) (v : Nat) (progs : List (List Op)) (s : State)
    (h : Reachable cfg (init v progs) s) (hc : cfg.casRetry = true ∨ s.sh.maxVal ≤ 1) :
    s.sh.waiters = total mW s.threads :=
  (semInv_reachable h hc).wc

/-- **Full statement (no lost wake-up)**: whenever the count is positive while a thread sleeps in the semaphore, a
    wake-up or a re-check of the count is pending — a sleeper is never left behind with a permit available. -/
def NoLostWakeup (cfg : Cfg) : Prop :=
  ∀ (v : Nat) (progs : List (List Op)) (s : State), Reachable cfg (init v progs) s →
    0 < s.sh.val → SomeoneAsleep s → WakePending s

theorem wakePending_of_total {s : State} (h : 0 < total mP s.threads) : WakePending s := by
  obtain ⟨j, t, hj, ht⟩ := total_pos mP s.threads h
  refine ⟨j, t, hj, ?_⟩
  unfold mP at ht
  split at ht <;> simp_all

theorem asleep_total {s : State} (h : SomeoneAsleep s) : 0 < total mWt s.threads := by
  obtain ⟨i, t, hi, ht⟩ := h
  exact total_pos_of_mem mWt s.threads i t hi (by simp [mWt, ht])

/-- … it holds for the repaired loop (`fixes/C11-2.diff`), for all interleavings and thread counts -/
theorem no_lost_wakeup_fixed (cfg : Cfg) (hc : cfg.casRetry = true) : NoLostWakeup cfg := by
  intro v progs s hr hv hs
  have := (semInv_reachable hr (Or.inl hc)).lw (asleep_total hs)
  exact wakePending_of_total (by omega)

/-- … and for the pinned code in every run in which the count never exceeded 1 (a binary semaphore, the way
    `sync.Mutex` uses it): `maxVal` is the largest count seen so far. -/
theorem no_lost_wakeup_partial (cfg : Cfg) (v : Nat) (progs : List (List Op)) (s : State)
    (hr : Reachable cfg (init v progs) s) (hmax : s.sh.maxVal ≤ 1) :
    0 < s.sh.val → SomeoneAsleep s → WakePending s := by
  intro hv hs
  have := (semInv_reachable hr (Or.inr hmax)).lw (asleep_total hs)
  exact wakePending_of_total (by omega)

/-- the hypothesis is satisfiable on a non-trivial run: two threads contend for a binary semaphore, one sleeps -/
example : ∃ s, Reachable Cfg.current (init 0 [[.acquire], [.release]]) s ∧
    (decide (s.sh.maxVal ≤ 1) && decide (0 < s.sh.val) && s.threads.any (fun t => t.pc == .aWait)) = true :=
  of_run [.step 0 0, .step 0 0, .step 0 0, .step 0 0, .step 1 0] _ (by decide)

/-- … but it is FALSE for the pinned code: `if v != 0 && CAS(addr, v, v-1)` falls through to `waiters++; Wait` also
    when the CAS merely lost a race.  Count 3, three acquirers: thread 1 reaches the locked loop, reads 2, thread 2
    takes a permit, thread 1's CAS fails and it goes to sleep with count 1 — every other thread is finished. -/
theorem no_lost_wakeup_counterexample : ¬ NoLostWakeup Cfg.current := by
  intro h
  obtain ⟨s, hr, hp⟩ := of_run (cfg := Cfg.current) (s0 := init 3 [[.acquire], [.acquire], [.acquire]])
    [.step 0 0, .step 1 0, .step 0 0, .step 1 0, .step 1 0, .step 1 0, .step 1 0, .step 2 0, .step 2 0, .step 1 0]
    (fun s => decide (s.sh.val = 1) && decide (s.threads.map (·.pc) = [.done, .aWait, .done])) (by decide)
  simp only [Bool.and_eq_true, decide_eq_true_eq] at hp
  obtain ⟨hv, hpcs⟩ := hp
  have hlen : s.threads.length = 3 := by
    have := congrArg List.length hpcs; simpa using this
  obtain ⟨j, t, hj, ht⟩ := h 3 _ s hr (by omega) ⟨1, s.threads[1], by simp [hlen], by
    have := congrArg (fun l => l[1]?) hpcs
    simp [hlen] at this
    exact this⟩
  have hjl : j < 3 := by
    have := (List.getElem?_eq_some_iff.mp hj).1; omega
  have hpc : (s.threads.map (·.pc))[j]? = some t.pc := by simp [hj]
  rw [hpcs] at hpc
  have : j = 0 ∨ j = 1 ∨ j = 2 := by omega
  rcases this with rfl | rfl | rfl <;> simp at hpc <;> rw [← hpc] at ht <;> simp at ht

/-! ## 2. Notify list

`wait` / `notify` are the TRUE numbers of tickets drawn / notified; the code only sees their 32-bit images and compares
them with `!=` and `notifyLess(a, b) = int32(a-b) < 0`.  `initAt v c0 progs` starts both counters at an arbitrary `c0`
(e.g. `2^32 - 2`: the list has already served that many waiters), so every statement below covers histories in which
the 32-bit counters wrap.  `s.sh.wait < c0 + 2^31` = "fewer than 2^31 tickets were drawn in this history". -/

/-- the true counters stay in order, and the list's mutex has one holder -/
theorem notify_counters_ordered (cfg : Cfg) (v c0 : Nat) (progs : List (List Op)) (s : State)
    (h : Reachable cfg (initAt v c0 progs) s) : c0 ≤ s.sh.notify ∧ s.sh.notify ≤ s.sh.wait :=
  (nlInv_reachable h).ord

/-- **the guard of `NotifyOne` is exact across the wrap**: `notify32 != wait32` holds exactly when a ticket is
    outstanding (`notify < wait`), as long as fewer than 2^32 tickets are outstanding. -/
theorem notify_one_guard_exact (cfg : Cfg) (v c0 : Nat) (progs : List (List Op)) (s : State)
    (h : Reachable cfg (initAt v c0 progs) s) (j : Nat) (u : Thread) (n : Nat) (hu : s.threads[j]? = some u)
    (hpc : u.pc = .n1LoadWait n) (hb : s.sh.wait < s.sh.notify + W32) :
    (n % W32 ≠ s.sh.wait % W32) ↔ n < s.sh.wait := by
  have I := nlInv_reachable h
  have hl := I.loc j u hu
  have ho := I.ord
  simp only [NlLocal, hpc] at hl
  subst hl
  unfold W32 at *
  omega

/-- an ordinary unsigned `<` on the 32-bit images is NOT the ticket order: with `notify = 2^32 - 2` and `wait = 2^32 + 1`
    (three tickets outstanding, `wait` has wrapped) it says "nothing to notify" -/
theorem unsigned_less_is_not_ticket_order :
    ∃ n w : Nat, n < w ∧ w < n + 2147483648 ∧ ¬ (n % W32 < w % W32) ∧ n % W32 ≠ w % W32 ∧ less32 n w = true :=
  ⟨4294967294, 4294967297, by decide⟩

/-- **the loop of `notifyListWait` is exact across the wrap**: while fewer than 2^31 tickets have been drawn, the
    repaired loop condition `!notifyLess(t, notify)` is `notify ≤ t` on the true counters -/
theorem wait_loop_exact (cfg : Cfg) (hc : cfg.ticketLess = true) (v c0 : Nat) (progs : List (List Op)) (s : State)
    (h : Reachable cfg (initAt v c0 progs) s) (hb : s.sh.wait < c0 + 2147483648) (j : Nat) (u : Thread) (tk : Nat)
    (hu : s.threads[j]? = some u) (hpc : u.pc = .wLoad tk) :
    keepWaiting cfg s.sh.notify tk = decide (s.sh.notify ≤ tk) := by
  have I := nlInv_reachable h
  have hl := I.loc j u hu
  have ho := I.ord
  simp only [NlLocal, hpc] at hl
  by_cases hle : s.sh.notify ≤ tk
  · have hx : ¬ (2147483648 ≤ (tk % 4294967296 + 4294967296 - s.sh.notify % 4294967296) % 4294967296) := by omega
    simp [keepWaiting, hc, less32, W32, hx, hle]
  · have hx : 2147483648 ≤ (tk % 4294967296 + 4294967296 - s.sh.notify % 4294967296) % 4294967296 := by omega
    simp [keepWaiting, hc, less32, W32, hx, hle]

/-- **Full statement**: `notifyListWait(t)` returns only when `notify > t` at that moment, i.e. only after a
    `NotifyOne`/`NotifyAll` that covers ticket `t` (`rets` = the history of returns: thread, ticket, `notify` read). -/
def WaitReturnsOnlyAfterNotify (cfg : Cfg) : Prop :=
  ∀ (v c0 : Nat) (progs : List (List Op)) (s : State), Reachable cfg (initAt v c0 progs) s →
    s.sh.wait < c0 + 2147483648 → ∀ r ∈ s.sh.rets, r.2.1 < r.2.2

/-- FALSE for the code before `fixes/C11-1.diff` (`for notify == t`): two waiters, nobody ever notifies, the second
    waiter (ticket 1, `notify` 0) returns. -/
theorem wait_returns_only_after_notify_counterexample : ¬ WaitReturnsOnlyAfterNotify Cfg.current := by
  intro h
  obtain ⟨s, hr, hp⟩ := of_run (cfg := Cfg.current) (s0 := initAt 0 0 [[.wait], [.wait]])
    [.step 0 0, .step 1 0, .step 1 0, .step 1 0, .step 1 0]
    (fun s => decide ((1, 1, 0) ∈ s.sh.rets) && decide (s.sh.wait < 2147483648)) (by decide)
  simp only [Bool.and_eq_true, decide_eq_true_eq] at hp
  have := h 0 0 _ s hr (by omega) (1, 1, 0) hp.1
  simp at this

/-- what that code does guarantee: a return happens only when `notify ≠ ticket` … -/
theorem wait_returns_only_if_notify_differs (cfg : Cfg) (hc : cfg.ticketLess = false) (v c0 : Nat)
    (progs : List (List Op)) (s : State) (h : Reachable cfg (initAt v c0 progs) s) :
    ∀ r ∈ s.sh.rets, r.2.2 ≠ r.2.1 := by
  intro r hr
  have := ((baseInv_reachable h).rets r hr).1
  simp only [keepWaiting, hc, Bool.false_eq_true, if_false, beq_eq_false_iff_ne] at this
  intro he
  rw [he] at this
  exact this rfl

/-- … which is the full statement as long as at most one ticket has been drawn (a single waiter): for every
    interleaving with any number of notifiers, wherever the counters start. -/
theorem wait_returns_only_after_notify_partial (cfg : Cfg) (hc : cfg.ticketLess = false) (v c0 : Nat)
    (progs : List (List Op)) (s : State) (h : Reachable cfg (initAt v c0 progs) s) (h1 : s.sh.wait ≤ c0 + 1) :
    ∀ r ∈ s.sh.rets, r.2.1 < r.2.2 := by
  intro r hr
  have hd := wait_returns_only_if_notify_differs cfg hc v c0 progs s h r hr
  have := (nlInv_reachable h).rng r hr
  omega

example : ∃ s, Reachable Cfg.current (initAt 0 4294967295 [[.wait], [.notifyAll]]) s ∧
    (decide (s.sh.wait ≤ 4294967295 + 1) && decide (s.sh.rets = [(0, 4294967295, 4294967296)])) = true :=
  of_run [.step 0 0, .step 0 0, .step 0 0, .step 0 0, .step 1 0, .step 1 0, .step 1 0, .step 1 0, .step 0 0, .step 0 0] _
    (by decide)

/-- the full statement holds for the repaired loop (`fixes/C11-1.diff`: wait while `!notifyLess(t, notify)`), wherever
    the counters start — across the 2^32 wrap. -/
theorem wait_returns_only_after_notify_fixed (cfg : Cfg) (hc : cfg.ticketLess = true) :
    WaitReturnsOnlyAfterNotify cfg := by
  intro v c0 progs s h hb r hr
  have hk := ((baseInv_reachable h).rets r hr).1
  have hg := (nlInv_reachable h).rng r hr
  have hx : 2147483648 ≤ (r.2.1 % 4294967296 + 4294967296 - r.2.2 % 4294967296) % 4294967296 := by
    simp only [keepWaiting, hc, if_true, less32, W32, Bool.not_eq_false'] at hk
    exact of_decide_eq_true hk
  omega

/-- a history that crosses the wrap: the counters start at `2^32 - 1`, the waiter draws ticket `2^32 - 1` (`wait` becomes
    `0` in the code), `NotifyOne` sees `notify32 = 0xFFFFFFFF != wait32 = 0`, notifies, and the waiter returns -/
example : ∃ s, Reachable Cfg.fixed (initAt 0 4294967295 [[.wait], [.notifyOne]]) s ∧
    (decide (s.sh.rets = [(0, 4294967295, 4294967296)]) && decide (s.sh.wait % W32 = 0) &&
     s.threads.all (fun t => t.pc == .done)) = true :=
  of_run [.step 0 0, .step 0 0, .step 0 0, .step 0 0, .step 1 0, .step 1 0, .step 1 0, .step 1 0, .step 1 0,
          .step 0 0, .step 0 0] _ (by decide)

/-- **Full statement (notifications reach their tickets)**: nobody stays asleep on the notify list with a ticket that
    has been notified. -/
def NotifyReachesTicket (cfg : Cfg) : Prop :=
  ∀ (v c0 : Nat) (progs : List (List Op)) (s : State), Reachable cfg (initAt v c0 progs) s →
    s.sh.wait < c0 + 2147483648 → ∀ t ∈ s.threads, ∀ tk, t.pc = .wWait tk → s.sh.notify ≤ tk

/-- with the ticket comparison repaired but `NotifyOne` still doing `Signal`, pthreads may wake the waiter with
    ticket 1 (which goes back to sleep) and leave ticket 0 asleep although `notify = 1`: this is why the repair also
    turns the `Signal` into a `Broadcast`. -/
theorem notify_reaches_ticket_counterexample : ¬ NotifyReachesTicket ⟨true, false, true⟩ := by
  intro h
  obtain ⟨s, hr, hp⟩ := of_run (cfg := ⟨true, false, true⟩) (s0 := initAt 0 0 [[.wait], [.wait], [.notifyOne]])
    [.step 0 0, .step 0 0, .step 0 0, .step 0 0, .step 1 0, .step 1 0, .step 1 0, .step 1 0,
     .step 2 0, .step 2 0, .step 2 0, .step 2 0, .step 2 1]
    (fun s => decide (s.sh.notify = 1) && decide (s.sh.wait < 2147483648) &&
      decide (s.threads[0]?.map (fun (t : Thread) => t.pc) = some (Pc.wWait 0)))
    (by decide)
  simp only [Bool.and_eq_true, decide_eq_true_eq] at hp
  obtain ⟨⟨hn, hw⟩, hpc⟩ := hp
  cases ht : s.threads[0]? with
  | none => simp [ht] at hpc
  | some t =>
    simp [ht] at hpc
    have := h 0 0 _ s hr (by omega) t (List.mem_of_getElem? ht) 0 hpc
    omega

/-- the repaired notify list: every interleaving, any number of waiters and notifiers, wherever the counters start. -/
theorem notify_reaches_ticket_fixed (cfg : Cfg) (h1 : cfg.ticketLess = true) (h2 : cfg.oneBroadcast = true) :
    NotifyReachesTicket cfg := by
  intro v c0 progs s hr hb
  exact noStale_reachable h1 h2 hr hb

/-! ## 3. Atomics: the regenerated lowering table -/

/-- `Fn.all` lists every entry point -/
theorem fn_all_complete : ∀ f : Fn, f ∈ Fn.all := by
  intro f; cases f <;> decide

/-- **every `sync/atomic` entry point lowers to a single atomic instruction of the right operation and width with
    `seq_cst` ordering** (strong `cmpxchg`, default scope, natural alignment, no other memory access) — over the WHOLE
    table regenerated from the IR of the llgo built from the working tree. -/
theorem atomics_lowering : ∀ e ∈ Gen.C11.table, e.ok = true := by decide

/-- … and the table has a row for every entry point -/
theorem atomics_complete : ∀ f ∈ Fn.all, (Gen.C11.table.any fun e => e.fn == f) = true := by decide

/-! ## 4. `atomic.Value` (`runtime/internal/lib/sync/atomic/value.go`): the first-store protocol

Model: `Model/AtomicValue.lean` — `Store`, `Load`, `Swap`, `CompareAndSwap` at atomic-access granularity (type word
`nil → firstStoreInProgress → real type`, data word), any number of threads, any programs, every interleaving. -/

/-- **A `Load` (or the old value of a `Swap`) never yields a (type, data) pair that nobody stored**: it observes either
    nothing (`nil`, not recorded) or a value that some `Store`/`Swap`/`CompareAndSwap` call of the programs passed in,
    completely — in particular never a real type word next to the initial `nil` data word. -/
theorem value_load_observes_stored (progs : List (List AValue.Op)) (s : AValue.State)
    (h : AValue.Reachable (AValue.init progs) s) : ∀ v ∈ s.sh.observed, v ∈ AValue.offered progs :=
  fun v hv => (AValue.written_offered h).2 v ((AValue.inv_reachable h).i5 v hv)

/-- the published type word always comes with a data word stored under that type, and it never changes again -/
theorem value_published_complete (progs : List (List AValue.Op)) (s : AValue.State)
    (h : AValue.Reachable (AValue.init progs) s) (τ : Nat) (hτ : s.sh.typ = .real τ) :
    (τ, s.sh.data) ∈ AValue.offered progs :=
  (AValue.written_offered h).2 _ ((AValue.inv_reachable h).i1 τ hτ)

/-- only the thread whose CAS won is inside the first store -/
theorem value_first_store_exclusive (progs : List (List AValue.Op)) (s : AValue.State)
    (h : AValue.Reachable (AValue.init progs) s) (j k : Nat) (u w : AValue.Thread)
    (hu : s.threads[j]? = some u) (hw : s.threads[k]? = some w)
    (fu : AValue.inFirstStore u = true) (fw : AValue.inFirstStore w = true) : j = k := by
  have a := ((AValue.inv_reachable h).i6 j u hu fu).2
  have b := ((AValue.inv_reachable h).i6 k w hw fw).2
  rw [a] at b
  simpa using b

/-- a concrete contended run: the first `Store` is interrupted after the data word, a `Load` sees nothing, a second
    `Store` spins, the `Load` after publication sees the complete value -/
example : ∃ s, AValue.Reachable (AValue.init [[.store (1, 5)], [.load, .load], [.store (1, 7)]]) s ∧
    s.sh.observed = [(1, 5)] ∧ s.sh.typ = .real 1 := by
  have hr : AValue.run (AValue.init [[.store (1, 5)], [.load, .load], [.store (1, 7)]]) [0, 0, 0, 1, 2, 0, 1, 1] =
      some ⟨⟨.real 1, 5, [(1, 5)], [(1, 5)], some 0⟩,
        [⟨.done, [], 1⟩, ⟨.done, [], 2⟩, ⟨.sLoad (1, 7), [], 0⟩]⟩ := by decide
  exact ⟨_, AValue.run_reachable _ _ _ .refl hr, rfl, rfl⟩

/-! ## llgo's own Mutex (`runtime/_patch/internal/sync/mutex.go`): `Model/Mutex.lean`

For any number of threads, any sequence of `Lock`/`TryLock`/`Unlock` calls, every interleaving of the accesses to the
state word, any clock readings (normal and starvation mode, hand-off included) and any answers of `runtime_canSpin`. -/

/-- the number of threads between the return of `Lock`/`TryLock` and `Unlock`'s `Add` equals the locked bit -/
theorem mutex_owners_eq_locked_bit (n : Nat) (s : Mutex.St) (h : Mutex.Reachable (Mutex.init n) s) :
    Mutex.total Mutex.own s.ths = s.w.locked.toNat :=
  (Mutex.inv0_reachable h).own

/-- mutual exclusion: at most one thread holds the mutex -/
theorem mutex_mutual_exclusion (n : Nat) (s : Mutex.St) (h : Mutex.Reachable (Mutex.init n) s) :
    Mutex.total Mutex.own s.ths ≤ 1 := by
  rw [mutex_owners_eq_locked_bit n s h]; cases s.w.locked <;> simp

/-- two distinct threads are never both inside -/
theorem mutex_no_two_owners (n : Nat) (s : Mutex.St) (h : Mutex.Reachable (Mutex.init n) s) (i j : Nat) (t u : Mutex.Th)
    (hij : i ≠ j) (hi : s.ths[i]? = some t) (hj : s.ths[j]? = some u) : ¬ (t.pc = .owner ∧ u.pc = .owner) := by
  intro ⟨h1, h2⟩
  have := Mutex.total_ge2 Mutex.own s.ths i j t u hij hi hj
  have := mutex_mutual_exclusion n s h
  simp [Mutex.own, h1, h2] at *
  omega

/-- the hypotheses are satisfiable by a non-trivial run: three threads, thread 0 locks, thread 1 registers as a waiter -/
example : ∃ s, Mutex.Reachable (Mutex.init 3) s ∧ s.w.locked = true ∧ s.w.waiters = 1 := by
  let e : Mutex.Env := ⟨false, 5, false⟩
  refine ⟨_, .step 1 e (.step 1 e (.step 1 e (.step 0 e .refl (by rfl)) (by rfl)) (by rfl)) (by rfl), ?_, ?_⟩ <;> rfl

/-- what one step does to the counted quantities (owners, wake-up tokens), the step lemma of the token invariant
    `Mutex.Inv`: tokens (permits + threads carrying one) = woken bit + (starving ∧ ¬locked), starving excludes woken,
    and the hand-off `Add` finds `starving ∧ ¬locked ∧ waiters ≠ 0` -/
theorem mutex_step_accounting {w : Mutex.Word} {sema : Nat} {e : Mutex.Env} {t : Mutex.Th} {w' : Mutex.Word} {sm' : Nat}
    {t' : Mutex.Th} {l : Mutex.Lbl} (h : Mutex.stepTh w sema e t = .ok w' sm' t' l)
    (hsw : w.starving = true → w.woken = false) (hloc : Mutex.LocOk w t)
    (hown : Mutex.own t ≤ w.locked.toNat) (htok : sema + Mutex.tok t ≤ Mutex.rhs w) :
    Mutex.own t' + w.locked.toNat = Mutex.own t + w'.locked.toNat ∧
    sm' + Mutex.tok t' + Mutex.rhs w = sema + Mutex.tok t + Mutex.rhs w' ∧
    (w'.starving = true → w'.woken = false) ∧ Mutex.LocOk w' t' :=
  Mutex.stepTh_delta h hsw hloc hown htok

/-- non-trivial instance: the hand-off `Add` of a woken waiter in starvation mode (word `starving, 2 waiters`) -/
example : Mutex.stepTh ⟨false, false, true, 2⟩ 0 ⟨false, 0, false⟩ ⟨.handoffAdd false, ⟨false, false, true, 2⟩, false, true, 1⟩ =
    .ok ⟨true, false, true, 1⟩ 0 ⟨.owner, ⟨false, false, true, 2⟩, false, true, 1⟩ (.add 20 13) := by rfl

end LlgoVerif.C11
