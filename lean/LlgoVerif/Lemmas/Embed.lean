import LlgoVerif.Model.Embed
import LlgoVerif.Spec.Embed
/-! Helper lemmas for C16 (`Props/C16.lean`). -/
namespace LlgoVerif.Embed
open LlgoVerif.Embed.Spec

deriving instance DecidableEq for Except

/-! ## byte-wise order -/

theorem strLt_irrefl (a : Str) : strLt a a = false := by
  induction a with
  | nil => rfl
  | cons x xs ih => simp [strLt, ih]

theorem strLt_trichotomy : ∀ (a b : Str), strLt a b = false → strLt b a = false → a = b
  | [], [], _, _ => rfl
  | [], _ :: _, h, _ => by simp [strLt] at h
  | _ :: _, [], _, h => by simp [strLt] at h
  | x :: xs, y :: ys, h1, h2 => by
    simp only [strLt] at h1 h2
    by_cases hxy : x < y
    · simp [hxy] at h1
    · by_cases hyx : y < x
      · simp [hyx] at h2
      · simp [hxy, hyx] at h1 h2
        have : x = y := by omega
        rw [this, strLt_trichotomy xs ys h1 h2]

theorem strLt_asymm : ∀ (a b : Str), strLt a b = true → strLt b a = false
  | [], [], h => by simp [strLt] at h
  | [], _ :: _, _ => by simp [strLt]
  | _ :: _, [], h => by simp [strLt] at h
  | x :: xs, y :: ys, h => by
    simp only [strLt] at h ⊢
    by_cases hxy : x < y
    · have : ¬ y < x := by omega
      simp [this, hxy]
    · by_cases hyx : y < x
      · simp [hxy, hyx] at h
      · simp [hxy, hyx] at h ⊢
        exact strLt_asymm xs ys h

theorem strLt_trans : ∀ (a b c : Str), strLt a b = true → strLt b c = true → strLt a c = true
  | [], [], _, h, _ => by simp [strLt] at h
  | [], _ :: _, [], _, h => by simp [strLt] at h
  | [], _ :: _, _ :: _, _, _ => by simp [strLt]
  | _ :: _, [], _, h, _ => by simp [strLt] at h
  | _ :: _, _ :: _, [], _, h => by simp [strLt] at h
  | x :: xs, y :: ys, z :: zs, h1, h2 => by
    simp only [strLt] at h1 h2 ⊢
    by_cases hxy : x < y
    · by_cases hyz : y < z
      · have : x < z := by omega
        simp [this]
      · by_cases hzy : z < y
        · simp [hyz, hzy] at h2
        · have : x < z := by omega
          simp [this]
    · by_cases hyx : y < x
      · simp [hxy, hyx] at h1
      · simp [hxy, hyx] at h1
        have hxy' : x = y := by omega
        subst hxy'
        by_cases hxz : x < z
        · simp [hxz]
        · by_cases hzx : z < x
          · simp [hxz, hzx] at h2
          · simp [hxz, hzx] at h2 ⊢
            exact strLt_trans xs ys zs h1 h2

theorem strLe_total (a b : Str) : (strLe a b || strLe b a) = true := by
  unfold strLe
  cases h : strLt b a with
  | false => simp
  | true => simp [strLt_asymm b a h]

theorem strLe_trans (a b c : Str) (h1 : strLe a b = true) (h2 : strLe b c = true) : strLe a c = true := by
  unfold strLe at *
  simp only [Bool.not_eq_true'] at *
  -- ¬ b < a, ¬ c < b ⊢ ¬ c < a
  cases hca : strLt c a with
  | false => rfl
  | true =>
    -- c < a; if a = b contradiction with h2; else a < b then c < b
    cases hab : strLt a b with
    | false =>
      have := strLt_trichotomy a b hab h1
      subst this
      rw [hca] at h2; exact h2
    | true =>
      have := strLt_trans c a b hca hab
      rw [this] at h2; exact h2

theorem strLt_of_le_ne (a b : Str) (h : strLe a b = true) (hne : a ≠ b) : strLt a b = true := by
  unfold strLe at h
  simp only [Bool.not_eq_true'] at h
  cases hab : strLt a b with
  | true => rfl
  | false => exact absurd (strLt_trichotomy a b hab h) hne

/-! ## `splitOn` -/

theorem splitOn_ne_nil (sep : Nat) (s : Str) : splitOn sep s ≠ [] := by
  induction s with
  | nil => simp [splitOn]
  | cons c rest ih =>
    unfold splitOn
    split
    · simp
    · split <;> simp

/-! ## glob ↔ `Reach` + element-wise match -/

theorem mem_globTrail (n : Node) (cs : List Str) (t : Trail) :
    t ∈ globTrail n cs ↔ Reach n t ∧ AllMatch cs t := by
  induction cs generalizing n t with
  | nil =>
    simp only [globTrail, List.mem_singleton]
    constructor
    · intro h; subst h; exact ⟨Reach.nil n, AllMatch.nil⟩
    · intro ⟨_, h⟩; cases h; rfl
  | cons c cs ih =>
    simp only [globTrail]
    constructor
    · intro h
      split at h
      · rename_i es hes
        simp only [List.mem_flatMap] at h
        obtain ⟨e, he, hm⟩ := h
        split at hm
        · rename_i hmatch
          simp only [List.mem_map] at hm
          obtain ⟨m, hm1, hm2⟩ := hm
          subst hm2
          have := (ih e.2 m).1 hm1
          exact ⟨Reach.cons hes he this.1, AllMatch.cons hmatch this.2⟩
        · simp at hm
      · simp at h
    · intro ⟨hr, hf⟩
      cases hf with
      | cons hmatch hrest =>
        rename_i e t'
        cases hr with
        | cons hes he hr' =>
          rw [hes]
          simp only [List.mem_flatMap]
          refine ⟨_, he, ?_⟩
          simp only [hmatch, if_true, List.mem_map]
          exact ⟨t', (ih _ t').2 ⟨hr', hrest⟩, rfl⟩

/-! ## walk ↔ `Under` -/

theorem skipName_false_iff (all : Bool) (nm : Str) : skipName all nm = false ↔ Visible all nm := by
  unfold skipName Visible Hidden
  cases all <;> cases isBadName nm <;> simp

theorem entsHaveGoMod_cons (nm : Str) (n : Node) (rest : Ents) :
    entsHaveGoMod (.cons nm n rest) = ((nm = sGoMod && n.resolve.isSome) || entsHaveGoMod rest) := by
  simp [entsHaveGoMod, Ents.toList]

mutual
  theorem mem_walkNode (all : Bool) (n : Node) (p : List Str) (d : Str) :
      (p, d) ∈ walkNode all n ↔
        (n = .file d ∧ p = []) ∨ (∃ es, n = .dir es ∧ entsHaveGoMod es = false ∧ Under all es p d) := by
    cases n with
    | file d' =>
      simp only [walkNode, List.mem_singleton, Prod.mk.injEq]
      constructor
      · rintro ⟨rfl, rfl⟩; exact Or.inl ⟨rfl, rfl⟩
      · rintro (⟨h, rfl⟩ | ⟨es, h, _⟩)
        · cases h; exact ⟨rfl, rfl⟩
        · cases h
    | dir es =>
      simp only [walkNode]
      constructor
      · intro h
        split at h
        · simp at h
        · rename_i hg
          exact Or.inr ⟨es, rfl, by simpa using hg, (mem_walkEnts all es p d).1 h⟩
      · rintro (⟨h, _⟩ | ⟨es', h, hg, hu⟩)
        · cases h
        · cases h
          simp only [hg]
          exact (mem_walkEnts all es p d).2 hu
    | link t => simp [walkNode]
    | dangling => simp [walkNode]
    | irregular => simp [walkNode]
  theorem mem_walkEnts (all : Bool) (es : Ents) (p : List Str) (d : Str) :
      (p, d) ∈ walkEnts all es ↔ Under all es p d := by
    cases es with
    | nil =>
      simp only [walkEnts, List.not_mem_nil, false_iff]
      intro h
      cases h with
      | file hm _ => simp [Ents.toList] at hm
      | dir hm _ _ _ => simp [Ents.toList] at hm
    | cons nm n rest =>
      simp only [walkEnts, List.mem_append]
      constructor
      · rintro (h | h)
        · split at h
          · simp at h
          · rename_i hs
            have hv : Visible all nm := (skipName_false_iff all nm).1 (by simpa using hs)
            simp only [List.mem_map] at h
            obtain ⟨f, hf, hfe⟩ := h
            cases hfe
            rcases (mem_walkNode all n f.1 f.2).1 hf with ⟨hn, hp⟩ | ⟨es', hn, hg, hu⟩
            · rw [hp]; subst hn
              exact Under.file (by simp [Ents.toList]) hv
            · subst hn
              exact Under.dir (by simp [Ents.toList]) hv hg hu
        · have := (mem_walkEnts all rest p d).1 h
          cases this with
          | file hm hv => exact Under.file (by simp [Ents.toList, hm]) hv
          | dir hm hv hg hu => exact Under.dir (by simp [Ents.toList, hm]) hv hg hu
      · intro h
        cases h with
        | file hm hv =>
          rename_i nm'
          simp only [Ents.toList, List.mem_cons, Prod.mk.injEq] at hm
          rcases hm with ⟨rfl, rfl⟩ | hm
          · left
            have hs : skipName all nm' = false := (skipName_false_iff all nm').2 hv
            simp only [hs]
            simp only [Bool.false_eq_true, if_false, List.mem_map]
            exact ⟨([], d), (mem_walkNode all _ [] d).2 (Or.inl ⟨rfl, rfl⟩), rfl⟩
          · right
            exact (mem_walkEnts all rest _ d).2 (Under.file hm hv)
        | dir hm hv hg hu =>
          rename_i es' nm' p'
          simp only [Ents.toList, List.mem_cons, Prod.mk.injEq] at hm
          rcases hm with ⟨rfl, rfl⟩ | hm
          · left
            have hs : skipName all nm' = false := (skipName_false_iff all nm').2 hv
            simp only [hs]
            simp only [Bool.false_eq_true, if_false, List.mem_map]
            exact ⟨(p', d), (mem_walkNode all _ p' d).2 (Or.inr ⟨es', rfl, hg, hu⟩), rfl⟩
          · right
            exact (mem_walkEnts all rest _ d).2 (Under.dir hm hv hg hu)
end

/-! ## `CheckPath` -/

/-- the tests `CheckPath` applies to one path element (`post` = the elements below it) -/
def elemOK (cfg : Cfg) (e : Str × Node) (post : Trail) : Bool :=
  !e.2.hasGoMod && !(cfg.nonDirCheck && !post.isEmpty && !e.2.isDir) && !isBadName e.1

def TrailOK (cfg : Cfg) (t : Trail) : Prop :=
  ∀ pre e post, t = pre ++ e :: post → elemOK cfg e post = true

theorem trailOK_cons (cfg : Cfg) (e : Str × Node) (rest : Trail) :
    TrailOK cfg (e :: rest) ↔ elemOK cfg e rest = true ∧ TrailOK cfg rest := by
  constructor
  · intro h
    refine ⟨h [] e rest rfl, ?_⟩
    intro pre e' post heq
    exact h (e :: pre) e' post (by simp [heq])
  · intro ⟨h1, h2⟩ pre e' post heq
    cases pre with
    | nil => simp at heq; obtain ⟨rfl, rfl⟩ := heq; exact h1
    | cons x pre' =>
      simp at heq
      exact h2 pre' e' post heq.2

theorem checkTrail_ok_iff (cfg : Cfg) (t : Trail) : checkTrail cfg t = .ok () ↔ TrailOK cfg t := by
  induction t with
  | nil =>
    simp only [checkTrail, true_iff]
    intro pre e post h
    simp at h
  | cons e rest ih =>
    obtain ⟨nm, n⟩ := e
    rw [trailOK_cons, ← ih]
    simp only [checkTrail]
    cases hr : checkTrail cfg rest with
    | error e => simp
    | ok u =>
      simp only [elemOK]
      cases n.hasGoMod <;> cases cfg.nonDirCheck <;> cases rest.isEmpty <;> cases n.isDir <;>
        cases isBadName nm <;> simp

theorem trailOK_true_iff (t : Trail) : TrailOK ⟨true⟩ t ↔ CleanTrail t := by
  unfold TrailOK CleanTrail
  constructor
  · intro h pre e post heq
    have := h pre e post heq
    simp only [elemOK, Bool.and_eq_true, Bool.not_eq_true', Bool.true_and] at this
    obtain ⟨⟨h1, h2⟩, h3⟩ := this
    refine ⟨h1, h3, ?_⟩
    intro hp
    cases post with
    | nil => exact absurd rfl hp
    | cons x xs => simpa using h2
  · intro h pre e post heq
    obtain ⟨h1, h2, h3⟩ := h pre e post heq
    simp only [elemOK, h1, h2, Bool.not_false, Bool.true_and, Bool.and_true, Bool.not_eq_true']
    cases post with
    | nil => simp
    | cons x xs => simp [h3 (by simp)]

/-! ## one match -/

theorem matchFiles_ok_iff (cfg : Cfg) (all : Bool) (t : Trail) :
    (∃ fs, matchFiles cfg all t = .ok fs) ↔ TrailOK cfg t ∧ ∃ f d, Delivers all t f d := by
  rw [← checkTrail_ok_iff]
  unfold matchFiles Delivers
  cases hc : checkTrail cfg t with
  | error e => simp
  | ok u =>
    cases hl : t.getLast? with
    | none => simp
    | some e =>
      obtain ⟨nm, n⟩ := e
      cases n with
      | file d =>
        simp only [true_and]
        constructor
        · intro _; exact ⟨_, d, _, rfl, Or.inl ⟨rfl, rfl⟩⟩
        · intro _; exact ⟨_, rfl⟩
      | dir es =>
        simp only [true_and]
        constructor
        · rintro ⟨fs, h⟩
          cases hg : entsHaveGoMod es with
          | true => simp [hg] at h
          | false =>
            cases hw : walkEnts all es with
            | nil => simp [hg, hw] at h
            | cons x xs =>
              have hx : (x.1, x.2) ∈ walkEnts all es := by rw [hw]; simp
              have hu := (mem_walkEnts all es x.1 x.2).1 hx
              exact ⟨_, x.2, _, rfl, Or.inr ⟨es, x.1, rfl, hg, hu, rfl⟩⟩
        · rintro ⟨f, d, e, he, h⟩
          cases he
          rcases h with ⟨h, _⟩ | ⟨es', p, h, hg, hu, _⟩
          · cases h
          · cases h
            have := (mem_walkEnts all es p d).2 hu
            simp only [hg, Bool.false_eq_true, if_false]
            split
            · rename_i hemp
              simp only [List.isEmpty_iff] at hemp
              rw [hemp] at this; simp at this
            · exact ⟨_, rfl⟩
      | link t' =>
        simp only [true_and, reduceCtorEq, exists_false, false_iff, not_exists]
        rintro f d e ⟨he, (⟨h, _⟩ | ⟨es, p, h, _⟩)⟩
        · cases he; cases h
        · cases he; cases h
      | dangling =>
        simp only [true_and, reduceCtorEq, exists_false, false_iff, not_exists]
        rintro f d e ⟨he, (⟨h, _⟩ | ⟨es, p, h, _⟩)⟩
        · cases he; cases h
        · cases he; cases h
      | irregular =>
        simp only [true_and, reduceCtorEq, exists_false, false_iff, not_exists]
        rintro f d e ⟨he, (⟨h, _⟩ | ⟨es, p, h, _⟩)⟩
        · cases he; cases h
        · cases he; cases h

theorem mem_matchFiles (cfg : Cfg) (all : Bool) (t : Trail) (fs : List (Str × Str))
    (h : matchFiles cfg all t = .ok fs) (name d : Str) :
    (name, d) ∈ fs ↔ ∃ f, Delivers all t f d ∧ name = joinSlash f := by
  unfold matchFiles at h
  unfold Delivers
  cases hc : checkTrail cfg t with
  | error e => simp [hc] at h
  | ok u =>
    simp only [hc] at h
    cases hl : t.getLast? with
    | none => simp [hl] at h
    | some e =>
      obtain ⟨nm, n⟩ := e
      simp only [hl] at h
      cases n with
      | file d' =>
        simp only [Except.ok.injEq] at h
        subst h
        simp only [List.mem_singleton, Prod.mk.injEq]
        constructor
        · rintro ⟨rfl, rfl⟩
          exact ⟨_, ⟨_, rfl, Or.inl ⟨rfl, rfl⟩⟩, rfl⟩
        · rintro ⟨f, ⟨e, he, h⟩, rfl⟩
          cases he
          rcases h with ⟨h, rfl⟩ | ⟨es, p, h, _⟩
          · cases h; exact ⟨rfl, rfl⟩
          · cases h
      | dir es =>
        simp only at h
        cases hg : entsHaveGoMod es with
        | true => simp [hg] at h
        | false =>
          simp only [hg, Bool.false_eq_true, if_false] at h
          split at h
          · cases h
          · simp only [Except.ok.injEq] at h
            subst h
            simp only [List.mem_map, Prod.mk.injEq]
            constructor
            · rintro ⟨x, hx, rfl, rfl⟩
              have hu := (mem_walkEnts all es x.1 x.2).1 hx
              exact ⟨_, ⟨_, rfl, Or.inr ⟨es, x.1, rfl, hg, hu, rfl⟩⟩, rfl⟩
            · rintro ⟨f, ⟨e, he, h⟩, rfl⟩
              cases he
              rcases h with ⟨h, _⟩ | ⟨es', p, h, hg', hu, rfl⟩
              · cases h
              · cases h
                exact ⟨(p, d), (mem_walkEnts all es p d).2 hu, rfl, rfl⟩
      | link t' => cases h
      | dangling => cases h
      | irregular => cases h

theorem matchFiles_ne_nil (cfg : Cfg) (all : Bool) (t : Trail) (fs : List (Str × Str))
    (h : matchFiles cfg all t = .ok fs) : fs ≠ [] := by
  unfold matchFiles at h
  cases hc : checkTrail cfg t with
  | error e => simp [hc] at h
  | ok u =>
    simp only [hc] at h
    cases hl : t.getLast? with
    | none => simp [hl] at h
    | some e =>
      obtain ⟨nm, n⟩ := e
      simp only [hl] at h
      cases n with
      | file d' => simp only [Except.ok.injEq] at h; subst h; simp
      | dir es =>
        simp only at h
        cases hg : entsHaveGoMod es with
        | true => simp [hg] at h
        | false =>
          simp only [hg, Bool.false_eq_true, if_false] at h
          split at h
          · cases h
          · rename_i hne
            simp only [Except.ok.injEq] at h
            subst h
            intro hm
            simp only [List.map_eq_nil_iff] at hm
            simp [hm] at hne
      | link t' => cases h
      | dangling => cases h
      | irregular => cases h

/-! ## all matches of one pattern -/

theorem matchesFiles_ok_iff (cfg : Cfg) (all : Bool) (ts : List Trail) :
    (∃ fs, matchesFiles cfg all ts = .ok fs) ↔ ∀ t ∈ ts, ∃ g, matchFiles cfg all t = .ok g := by
  induction ts with
  | nil => simp [matchesFiles]
  | cons t rest ih =>
    simp only [matchesFiles, List.mem_cons, forall_eq_or_imp]
    rw [← ih]
    cases h1 : matchFiles cfg all t with
    | error e => simp
    | ok g =>
      cases h2 : matchesFiles cfg all rest with
      | error e => simp
      | ok gs => simp

theorem mem_matchesFiles (cfg : Cfg) (all : Bool) (ts : List Trail) (fs : List (Str × Str))
    (h : matchesFiles cfg all ts = .ok fs) (x : Str × Str) :
    x ∈ fs ↔ ∃ t ∈ ts, ∃ g, matchFiles cfg all t = .ok g ∧ x ∈ g := by
  induction ts generalizing fs with
  | nil => simp [matchesFiles] at h; subst h; simp
  | cons t rest ih =>
    simp only [matchesFiles] at h
    cases h1 : matchFiles cfg all t with
    | error e => simp [h1] at h
    | ok g =>
      cases h2 : matchesFiles cfg all rest with
      | error e => simp [h1, h2] at h
      | ok gs =>
        simp only [h1, h2, Except.ok.injEq] at h
        subst h
        simp only [List.mem_append, List.mem_cons, exists_eq_or_imp, ih gs h2]
        simp [h1]

theorem matchesFiles_nil_iff (cfg : Cfg) (all : Bool) (ts : List Trail) (fs : List (Str × Str))
    (h : matchesFiles cfg all ts = .ok fs) : fs = [] ↔ ts = [] := by
  cases ts with
  | nil => simp [matchesFiles] at h; simp [h]
  | cons t rest =>
    simp only [matchesFiles] at h
    cases h1 : matchFiles cfg all t with
    | error e => simp [h1] at h
    | ok g =>
      cases h2 : matchesFiles cfg all rest with
      | error e => simp [h1, h2] at h
      | ok gs =>
        simp only [h1, h2, Except.ok.injEq] at h
        subst h
        have := matchFiles_ne_nil cfg all t g h1
        simp [this]

/-! ## pattern validity -/

theorem validElems_iff (l : List Str) :
    validElems l = true ↔ ∀ c ∈ l, c ≠ [] ∧ c ≠ sDot ∧ c ≠ sDotDot := by
  induction l with
  | nil => simp [validElems]
  | cons e rest ih =>
    simp only [validElems, Bool.and_eq_true, Bool.not_eq_true', Bool.or_eq_false_iff, ih,
      List.mem_cons, forall_eq_or_imp, decide_eq_false_iff_not]
    cases e with
    | nil => simp
    | cons x xs => simp [and_assoc]

theorem valid_iff (glob : Str) :
    (!globSyntaxOK glob || !validPattern glob) = false ↔ ValidPat glob := by
  unfold ValidPat validPattern validPath comps
  rw [← validElems_iff]
  by_cases hd : glob = sDot
  · simp [hd]
  · cases hu : validUtf8 glob <;> cases hs : globSyntaxOK glob <;>
      cases hv : validElems (splitOn 47 glob) <;> simp [hd]

/-! ## one pattern -/

theorem patternFiles_ok_iff (cfg : Cfg) (root : Node) (pat : Str) :
    (∃ fs, patternFiles cfg root pat = .ok fs) ↔
      ValidPat (splitAll pat).2 ∧ (∃ t, Matches root (splitAll pat).2 t) ∧
      ∀ t, Matches root (splitAll pat).2 t → TrailOK cfg t ∧ ∃ f d, Delivers (splitAll pat).1 t f d := by
  unfold patternFiles
  simp only
  rw [← valid_iff]
  cases hv : (!globSyntaxOK (splitAll pat).2 || !validPattern (splitAll pat).2) with
  | true => simp
  | false =>
    simp only [Bool.false_eq_true, if_false, true_and]
    have key : ∀ t, t ∈ globTrail root (splitOn 47 (splitAll pat).2) ↔ Matches root (splitAll pat).2 t := by
      intro t; rw [mem_globTrail]; rfl
    cases hm : matchesFiles cfg (splitAll pat).1 (globTrail root (splitOn 47 (splitAll pat).2)) with
    | error e =>
      simp only [reduceCtorEq, exists_false, false_iff, not_and]
      intro _ hall
      have : ∃ fs, matchesFiles cfg (splitAll pat).1 (globTrail root (splitOn 47 (splitAll pat).2)) = .ok fs := by
        rw [matchesFiles_ok_iff]
        intro t ht
        exact (matchFiles_ok_iff cfg _ t).2 (hall t ((key t).1 ht))
      rw [hm] at this
      simp at this
    | ok fs =>
      have hall : ∀ t, Matches root (splitAll pat).2 t → TrailOK cfg t ∧ ∃ f d, Delivers (splitAll pat).1 t f d := by
        intro t ht
        have := (matchesFiles_ok_iff cfg (splitAll pat).1 _).1 ⟨fs, hm⟩ t ((key t).2 ht)
        exact (matchFiles_ok_iff cfg _ t).1 this
      have hnil := matchesFiles_nil_iff cfg _ _ fs hm
      dsimp only
      constructor
      · intro ⟨fs', h⟩
        split at h
        · cases h
        · rename_i hne
          refine ⟨?_, hall⟩
          cases hg : globTrail root (splitOn 47 (splitAll pat).2) with
          | nil => simp [hnil.2 hg] at hne
          | cons t rest => exact ⟨t, (key t).1 (by rw [hg]; simp)⟩
      · intro ⟨⟨t, ht⟩, _⟩
        have hmem := (key t).2 ht
        have : fs ≠ [] := by
          intro hfs
          rw [hnil.1 hfs] at hmem
          simp at hmem
        cases fs with
        | nil => exact absurd rfl this
        | cons x xs => simp

theorem mem_patternFiles (cfg : Cfg) (root : Node) (pat : Str) (fs : List (Str × Str))
    (h : patternFiles cfg root pat = .ok fs) (name d : Str) :
    (name, d) ∈ fs ↔
      ∃ t f, Matches root (splitAll pat).2 t ∧ Delivers (splitAll pat).1 t f d ∧ name = joinSlash f := by
  unfold patternFiles at h
  simp only at h
  split at h
  · cases h
  · cases hm : matchesFiles cfg (splitAll pat).1 (globTrail root (splitOn 47 (splitAll pat).2)) with
    | error e => simp [hm] at h
    | ok gs =>
      simp only [hm] at h
      split at h
      · cases h
      · simp only [Except.ok.injEq] at h
        subst h
        rw [mem_matchesFiles cfg _ _ gs hm]
        constructor
        · rintro ⟨t, ht, g, hg, hx⟩
          obtain ⟨f, hf, hn⟩ := (mem_matchFiles cfg _ t g hg name d).1 hx
          exact ⟨t, f, (mem_globTrail root _ t).1 ht, hf, hn⟩
        · rintro ⟨t, f, ht, hf, hn⟩
          have htm : t ∈ globTrail root (splitOn 47 (splitAll pat).2) := (mem_globTrail root _ t).2 ht
          obtain ⟨g, hg⟩ := (matchesFiles_ok_iff cfg (splitAll pat).1 _).1 ⟨gs, hm⟩ t htm
          exact ⟨t, htm, g, hg, (mem_matchFiles cfg _ t g hg name d).2 ⟨f, hf, hn⟩⟩

/-! ## the `seen` table -/

def keys (s : Seen) : List Str := s.map (·.1)

theorem keys_addFile (seen : Seen) (rel data k : Str) :
    k ∈ keys (addFile seen rel data) ↔ k ∈ keys seen ∨ k = rel := by
  unfold addFile keys
  split
  · rename_i h
    simp only [List.any_eq_true, decide_eq_true_eq] at h
    obtain ⟨x, hx, hxe⟩ := h
    constructor
    · intro hk; exact Or.inl hk
    · rintro (hk | rfl)
      · exact hk
      · simp only [List.mem_map]; exact ⟨x, hx, hxe⟩
  · simp

theorem mem_addFile (seen : Seen) (rel data : Str) (x : Str × Str) :
    x ∈ addFile seen rel data → x ∈ seen ∨ x = (rel, data) := by
  unfold addFile
  split
  · intro h; exact Or.inl h
  · simp

theorem nodup_addFile (seen : Seen) (rel data : Str) (h : (keys seen).Nodup) :
    (keys (addFile seen rel data)).Nodup := by
  unfold addFile
  split
  · exact h
  · rename_i hn
    simp only [List.any_eq_true, decide_eq_true_eq, not_exists, not_and] at hn
    unfold keys at *
    simp only [List.map_append, List.map_cons, List.map_nil]
    rw [List.nodup_append]
    refine ⟨h, by simp, ?_⟩
    intro a ha b hb
    simp only [List.mem_singleton] at hb
    subst hb
    simp only [List.mem_map] at ha
    obtain ⟨x, hx, rfl⟩ := ha
    exact hn x hx

theorem keys_addFiles (seen : Seen) (fs : List (Str × Str)) (k : Str) :
    k ∈ keys (addFiles seen fs) ↔ k ∈ keys seen ∨ k ∈ keys fs := by
  induction fs generalizing seen with
  | nil => simp [addFiles, keys]
  | cons f rest ih =>
    simp only [addFiles]
    rw [ih, keys_addFile]
    simp only [keys, List.map_cons, List.mem_cons]
    constructor
    · rintro ((h | h) | h)
      · exact Or.inl h
      · exact Or.inr (Or.inl h)
      · exact Or.inr (Or.inr h)
    · rintro (h | h | h)
      · exact Or.inl (Or.inl h)
      · exact Or.inl (Or.inr h)
      · exact Or.inr h

theorem mem_addFiles (seen : Seen) (fs : List (Str × Str)) (x : Str × Str) :
    x ∈ addFiles seen fs → x ∈ seen ∨ x ∈ fs := by
  induction fs generalizing seen with
  | nil => simp [addFiles]
  | cons f rest ih =>
    simp only [addFiles]
    intro h
    rcases ih _ h with h | h
    · rcases mem_addFile _ _ _ _ h with h | h
      · exact Or.inl h
      · exact Or.inr (by simp [h])
    · exact Or.inr (by simp [h])

theorem nodup_addFiles (seen : Seen) (fs : List (Str × Str)) (h : (keys seen).Nodup) :
    (keys (addFiles seen fs)).Nodup := by
  induction fs generalizing seen with
  | nil => simpa [addFiles] using h
  | cons f rest ih => exact ih _ (nodup_addFile seen f.1 f.2 h)

/-! ## the pattern loop -/

theorem resolveLoop_ok_iff (cfg : Cfg) (root : Node) (seen : Seen) (pats : List Str) :
    (∃ out, resolveLoop cfg root seen pats = .ok out) ↔ ∀ p ∈ pats, ∃ fs, patternFiles cfg root p = .ok fs := by
  induction pats generalizing seen with
  | nil => simp [resolveLoop]
  | cons p rest ih =>
    simp only [resolveLoop, List.mem_cons, forall_eq_or_imp]
    cases hp : patternFiles cfg root p with
    | error e => simp
    | ok fs => simp [ih]

theorem keys_resolveLoop (cfg : Cfg) (root : Node) (seen out : Seen) (pats : List Str)
    (h : resolveLoop cfg root seen pats = .ok out) (k : Str) :
    k ∈ keys out ↔ k ∈ keys seen ∨ ∃ p ∈ pats, ∃ fs, patternFiles cfg root p = .ok fs ∧ k ∈ keys fs := by
  induction pats generalizing seen with
  | nil => simp [resolveLoop] at h; subst h; simp
  | cons p rest ih =>
    simp only [resolveLoop] at h
    cases hp : patternFiles cfg root p with
    | error e => simp [hp] at h
    | ok fs =>
      simp only [hp] at h
      rw [ih _ h, keys_addFiles]
      simp only [List.mem_cons, exists_eq_or_imp, hp, Except.ok.injEq, exists_eq_left']
      constructor
      · rintro ((h | h) | h)
        · exact Or.inl h
        · exact Or.inr (Or.inl h)
        · exact Or.inr (Or.inr h)
      · rintro (h | h | h)
        · exact Or.inl (Or.inl h)
        · exact Or.inl (Or.inr h)
        · exact Or.inr h

theorem mem_resolveLoop (cfg : Cfg) (root : Node) (seen out : Seen) (pats : List Str)
    (h : resolveLoop cfg root seen pats = .ok out) (x : Str × Str) (hx : x ∈ out) :
    x ∈ seen ∨ ∃ p ∈ pats, ∃ fs, patternFiles cfg root p = .ok fs ∧ x ∈ fs := by
  induction pats generalizing seen with
  | nil => simp [resolveLoop] at h; subst h; exact Or.inl hx
  | cons p rest ih =>
    simp only [resolveLoop] at h
    cases hp : patternFiles cfg root p with
    | error e => simp [hp] at h
    | ok fs =>
      simp only [hp] at h
      rcases ih _ h with h' | ⟨q, hq, gs, hgs, hxg⟩
      · rcases mem_addFiles _ _ _ h' with h'' | h''
        · exact Or.inl h''
        · exact Or.inr ⟨p, by simp, fs, hp, h''⟩
      · exact Or.inr ⟨q, by simp [hq], gs, hgs, hxg⟩

theorem nodup_resolveLoop (cfg : Cfg) (root : Node) (seen out : Seen) (pats : List Str)
    (h : resolveLoop cfg root seen pats = .ok out) (hn : (keys seen).Nodup) : (keys out).Nodup := by
  induction pats generalizing seen with
  | nil => simp [resolveLoop] at h; subst h; exact hn
  | cons p rest ih =>
    simp only [resolveLoop] at h
    cases hp : patternFiles cfg root p with
    | error e => simp [hp] at h
    | ok fs =>
      simp only [hp] at h
      exact ih _ h (nodup_addFiles seen fs hn)

/-! ## the final sort -/

theorem sortSeen_perm (seen : Seen) : (sortSeen seen).Perm seen := List.mergeSort_perm _ _

theorem mem_sortSeen (seen : Seen) (x : Str × Str) : x ∈ sortSeen seen ↔ x ∈ seen :=
  (sortSeen_perm seen).mem_iff

theorem keys_sortSeen_perm (seen : Seen) : (keys (sortSeen seen)).Perm (keys seen) :=
  (sortSeen_perm seen).map _

theorem sortSeen_sorted (seen : Seen) (hn : (keys seen).Nodup) :
    (keys (sortSeen seen)).Pairwise (fun a b => strLt a b = true) := by
  have h1 : (sortSeen seen).Pairwise (fun a b => strLe a.1 b.1 = true) := by
    unfold sortSeen
    apply List.pairwise_mergeSort
    · intro a b c hab hbc
      exact strLe_trans _ _ _ hab hbc
    · intro a b
      simpa using strLe_total a.1 b.1
  have h2 : (keys (sortSeen seen)).Nodup := (keys_sortSeen_perm seen).nodup_iff.2 hn
  have h3 : (keys (sortSeen seen)).Pairwise (fun a b => strLe a b = true) := by
    unfold keys
    rw [List.pairwise_map]
    exact h1
  have h4 := h3.and h2
  exact h4.imp (fun ⟨hle, hne⟩ => strLt_of_le_ne _ _ hle hne)

/-! ## `SplitArgs` on written arguments -/

theorem splitRun_append (out : List Str) (m : Mode) (a b : Str) :
    splitRun out m (a ++ b) = splitRun (splitRun out m a).1 (splitRun out m a).2 b := by
  induction a generalizing out m with
  | nil => simp [splitRun]
  | cons c rest ih => simp only [List.cons_append, splitRun]; rw [ih]

theorem splitRun_dq (out : List Str) (cur a rest : Str) :
    splitRun out (.quoted 34 cur) (escD a ++ 34 :: rest) =
      splitRun (out ++ [cur.reverse ++ escD a ++ [34]]) .between rest := by
  induction a generalizing cur with
  | nil => simp [escD, splitRun, splitStep]
  | cons c cs ih =>
    by_cases hc : c = 34 ∨ c = 92
    · have : escD (c :: cs) = 92 :: c :: escD cs := by
        simp only [escD]; rcases hc with h | h <;> simp [h]
      rw [this]
      simp only [List.cons_append, splitRun, splitStep]
      simp only [show (92 : Nat) ≠ 34 by decide, if_false, decide_true, Bool.and_self, if_true]
      rw [ih]
      simp
    · have h1 : c ≠ 34 := fun h => hc (Or.inl h)
      have h2 : c ≠ 92 := fun h => hc (Or.inr h)
      have : escD (c :: cs) = c :: escD cs := by simp [escD, h1, h2]
      rw [this]
      simp only [List.cons_append, splitRun, splitStep, h1, h2, if_false, decide_false, Bool.and_false]
      simp only [Bool.false_eq_true, if_false]
      rw [ih]
      simp

theorem splitRun_bq (out : List Str) (cur a rest : Str) (h : a.contains 96 = false) :
    splitRun out (.quoted 96 cur) (a ++ 96 :: rest) =
      splitRun (out ++ [cur.reverse ++ a ++ [96]]) .between rest := by
  induction a generalizing cur with
  | nil => simp [splitRun, splitStep]
  | cons c cs ih =>
    simp only [List.contains_cons, Bool.or_eq_false_iff, beq_eq_false_iff_ne, ne_eq] at h
    have h1 : c ≠ 96 := fun hh => h.1 hh.symm
    simp only [List.cons_append, splitRun, splitStep, h1, if_false, show (96 : Nat) ≠ 34 by decide,
      decide_false, Bool.false_and, Bool.false_eq_true]
    rw [ih _ h.2]
    simp

theorem splitRun_plain (out : List Str) (cur a : Str) (h : a.any isBlank = false) :
    splitRun out (.plain cur) a = (out, .plain (a.reverse ++ cur)) := by
  induction a generalizing cur with
  | nil => simp [splitRun]
  | cons c cs ih =>
    simp only [List.any_cons, Bool.or_eq_false_iff] at h
    simp only [splitRun, splitStep, h.1, Bool.false_eq_true, if_false]
    rw [ih _ h.2]
    simp

theorem step_between_dq (out : List Str) : splitStep out .between 34 = (out, .quoted 34 [34]) := by
  simp [splitStep, isBlank]

theorem step_between_bq (out : List Str) : splitStep out .between 96 = (out, .quoted 96 [96]) := by
  simp [splitStep, isBlank]

theorem step_between_plain (out : List Str) (c : Nat) (h1 : isBlank c = false) (h2 : c ≠ 34) (h3 : c ≠ 96) :
    splitStep out .between c = (out, .plain [c]) := by
  simp [splitStep, h1, h2, h3]

theorem run_between_blank (out : List Str) (rest : Str) :
    splitRun out .between (32 :: rest) = splitRun out .between rest := by
  rw [splitRun]; simp [splitStep, isBlank]

theorem run_plain_blank (out : List Str) (cur rest : Str) :
    splitRun out (.plain cur) (32 :: rest) = splitRun (out ++ [cur.reverse]) .between rest := by
  rw [splitRun]; simp [splitStep, isBlank]

/-- a written argument followed by a blank -/
theorem splitRun_arg_blank (out : List Str) (x : QArg) (hx : x.ok = true) (rest : Str) :
    splitRun out .between (x.render ++ 32 :: rest) = splitRun (out ++ [x.render]) .between rest := by
  cases x with
  | dq a =>
    simp only [QArg.render, List.cons_append, List.append_assoc]
    rw [splitRun, step_between_dq]
    dsimp only
    rw [splitRun_dq]
    simp only [List.nil_append]
    rw [run_between_blank]
    simp
  | bq a =>
    simp only [QArg.ok, Bool.not_eq_true'] at hx
    simp only [QArg.render, List.cons_append, List.append_assoc]
    rw [splitRun, step_between_bq]
    dsimp only
    rw [splitRun_bq _ _ _ _ hx]
    simp only [List.nil_append]
    rw [run_between_blank]
    simp
  | plain a =>
    simp only [QArg.ok, Bool.and_eq_true, Bool.not_eq_true', bne_iff_ne, ne_eq] at hx
    obtain ⟨⟨⟨h1, h2⟩, h3⟩, h4⟩ := hx
    cases a with
    | nil => simp at h1
    | cons c cs =>
      simp only [List.any_cons, Bool.or_eq_false_iff] at h2
      simp only [List.head?_cons, Option.some.injEq] at h3 h4
      simp only [QArg.render, List.cons_append]
      rw [splitRun, step_between_plain out c h2.1 h3 h4]
      dsimp only
      rw [splitRun_append, splitRun_plain _ _ _ h2.2]
      dsimp only
      rw [run_plain_blank]
      simp

/-- a written argument at the end of the line -/
theorem splitRun_arg_end (out : List Str) (x : QArg) (hx : x.ok = true) :
    splitFinish (splitRun out .between x.render) = .ok (out ++ [x.render]) := by
  cases x with
  | dq a =>
    simp only [QArg.render]
    rw [splitRun, step_between_dq]
    dsimp only
    rw [splitRun_dq]
    simp [splitRun, splitFinish]
  | bq a =>
    simp only [QArg.ok, Bool.not_eq_true'] at hx
    simp only [QArg.render]
    rw [splitRun, step_between_bq]
    dsimp only
    rw [splitRun_bq _ _ _ _ hx]
    simp [splitRun, splitFinish]
  | plain a =>
    simp only [QArg.ok, Bool.and_eq_true, Bool.not_eq_true', bne_iff_ne, ne_eq] at hx
    obtain ⟨⟨⟨h1, h2⟩, h3⟩, h4⟩ := hx
    cases a with
    | nil => simp at h1
    | cons c cs =>
      simp only [List.any_cons, Bool.or_eq_false_iff] at h2
      simp only [List.head?_cons, Option.some.injEq] at h3 h4
      simp only [QArg.render]
      rw [splitRun, step_between_plain out c h2.1 h3 h4]
      dsimp only
      rw [splitRun_plain _ _ _ h2.2]
      simp [splitFinish]

theorem splitRun_join (out : List Str) (l : List QArg) (h : ∀ x ∈ l, x.ok = true) :
    splitFinish (splitRun out .between (joinSp (l.map QArg.render))) = .ok (out ++ l.map QArg.render) := by
  induction l generalizing out with
  | nil => simp [joinSp, splitRun, splitFinish]
  | cons x rest ih =>
    cases rest with
    | nil =>
      simp only [List.map_cons, List.map_nil, joinSp]
      exact splitRun_arg_end out x (h x (by simp))
    | cons y rest' =>
      simp only [List.map_cons, joinSp]
      rw [splitRun_arg_blank out x (h x (by simp))]
      have := ih (out ++ [x.render]) (fun z hz => h z (by simp [hz]))
      simp only [List.map_cons] at this
      rw [this]
      simp

/-! ## `strconv.Unquote` on written arguments -/

theorem escD_ne_nil_or (a : Str) : (escD a ++ [34]) ≠ [] := by simp

theorem mem_escD_10 (a : Str) : 10 ∈ escD a ↔ 10 ∈ a := by
  induction a with
  | nil => simp [escD]
  | cons c cs ih =>
    simp only [escD]
    split
    · rename_i hc
      have : c ≠ 10 := by
        intro h; subst h; simp at hc
      simp [ih, Ne.symm this]
    · simp [ih]

theorem contains_escD_10 (a : Str) : (escD a).contains 10 = a.contains 10 := by
  rw [Bool.eq_iff_iff]
  simp [mem_escD_10]

theorem escD_eq_self (a : Str) (h1 : (escD a).contains 92 = false) : escD a = a := by
  induction a with
  | nil => rfl
  | cons c cs ih =>
    by_cases hc : c = 34 ∨ c = 92
    · have : escD (c :: cs) = 92 :: c :: escD cs := by
        simp only [escD]; rcases hc with h | h <;> simp [h]
      rw [this] at h1
      simp at h1
    · have hc1 : c ≠ 34 := fun h => hc (Or.inl h)
      have hc2 : c ≠ 92 := fun h => hc (Or.inr h)
      have : escD (c :: cs) = c :: escD cs := by simp [escD, hc1, hc2]
      rw [this] at h1 ⊢
      simp only [List.contains_cons, Bool.or_eq_false_iff] at h1
      rw [ih h1.2]

theorem unquoteBody_escD (a : Str) (h : a.all (fun b => b < 0x80 && b != 10) = true) (fuel : Nat)
    (hf : (escD a).length < fuel) : unquoteBody fuel (escD a) = .ok a := by
  induction a generalizing fuel with
  | nil =>
    cases fuel with
    | zero => simp at hf
    | succ f => simp [escD, unquoteBody]
  | cons c cs ih =>
    simp only [List.all_cons, Bool.and_eq_true, decide_eq_true_eq, bne_iff_ne, ne_eq] at h
    obtain ⟨⟨hlt, _⟩, hcs⟩ := h
    by_cases hc : c = 34 ∨ c = 92
    · have : escD (c :: cs) = 92 :: c :: escD cs := by
        simp only [escD]; rcases hc with h | h <;> simp [h]
      rw [this] at hf ⊢
      cases fuel with
      | zero => simp at hf
      | succ f =>
        have hlen : (escD cs).length < f := by simp at hf; omega
        rcases hc with h | h <;> subst h <;> simp [unquoteBody, ih hcs f hlen]
    · have hc1 : c ≠ 34 := fun h => hc (Or.inl h)
      have hc2 : c ≠ 92 := fun h => hc (Or.inr h)
      have : escD (c :: cs) = c :: escD cs := by simp [escD, hc1, hc2]
      rw [this] at hf ⊢
      cases fuel with
      | zero => simp at hf
      | succ f =>
        simp only [unquoteBody, hc1, hc2, if_false, hlt, if_true]
        rw [ih hcs f (by simp at hf; omega)]

theorem unquote_dq (a : Str) (hu : a.all (fun b => b < 0x80 && b != 10) = true) :
    unquote (34 :: (escD a ++ [34])) = .ok a := by
  have h10 : (escD a).contains 10 = false := by
    rw [contains_escD_10]
    cases hh : a.contains 10 with
    | false => rfl
    | true =>
      simp only [List.contains_iff_mem] at hh
      have := (List.all_eq_true.1 hu) 10 hh
      simp at this
  unfold unquote
  cases hr : escD a ++ [34] with
  | nil => simp at hr
  | cons r rs =>
    dsimp only
    rw [← hr]
    simp only [List.getLast?_concat, List.dropLast_concat, bne_self_eq_false, Bool.false_eq_true, if_false,
      show ¬ ((34 : Nat) = 96) by decide, if_true, h10]
    split
    · rename_i hfast
      simp only [Bool.and_eq_true, Bool.not_eq_true'] at hfast
      rw [escD_eq_self a hfast.1.1]
    · rw [unquoteBody_escD a hu _ (Nat.lt_succ_self _)]

theorem unquote_bq (a : Str) (hx : a.contains 96 = false) (hu : a.contains 13 = false) :
    unquote (96 :: (a ++ [96])) = .ok a := by
  unfold unquote
  cases hr : a ++ [96] with
  | nil => simp at hr
  | cons r rs =>
    dsimp only
    rw [← hr]
    simp only [List.getLast?_concat, List.dropLast_concat, bne_self_eq_false, Bool.false_eq_true, if_false,
      if_true, hx]
    congr 1
    rw [List.filter_eq_self]
    intro b hb
    simp only [bne_iff_ne, ne_eq]
    intro hb13
    subst hb13
    have : a.contains 13 = true := by simp [hb]
    rw [hu] at this
    cases this

theorem unquote_plain (c : Nat) (cs : Str) (h3 : c ≠ 34) (h4 : c ≠ 96) (h5 : c ≠ 39) :
    unquote (c :: cs) = .bad := by
  unfold unquote
  cases cs with
  | nil => rfl
  | cons d ds =>
    dsimp only
    split
    · rfl
    · simp

theorem unquote_render (x : QArg) (hx : x.ok = true) (hu : x.uqOk = true) :
    unquoteField x.render = Parsed.pats [x.value] := by
  unfold unquoteField
  cases x with
  | dq a =>
    simp only [QArg.uqOk] at hu
    simp only [QArg.render, QArg.value]
    rw [unquote_dq a hu]
  | bq a =>
    simp only [QArg.ok, Bool.not_eq_true'] at hx
    simp only [QArg.uqOk, Bool.not_eq_true'] at hu
    simp only [QArg.render, QArg.value]
    rw [unquote_bq a hx hu]
  | plain a =>
    simp only [QArg.ok, Bool.and_eq_true, Bool.not_eq_true', bne_iff_ne, ne_eq] at hx
    obtain ⟨⟨⟨h1, h2⟩, h3⟩, h4⟩ := hx
    simp only [QArg.uqOk, bne_iff_ne, ne_eq] at hu
    simp only [QArg.render, QArg.value]
    cases a with
    | nil => simp at h1
    | cons c cs =>
      simp only [List.head?_cons, Option.some.injEq] at h3 h4 hu
      rw [unquote_plain c cs h3 h4 hu]
      simp [h3, h4]

theorem unquoteFields_render (l : List QArg) (h : ∀ x ∈ l, x.ok = true ∧ x.uqOk = true) :
    unquoteFields (l.map QArg.render) = .pats (l.map QArg.value) := by
  induction l with
  | nil => simp [unquoteFields]
  | cons x rest ih =>
    simp only [List.map_cons, unquoteFields]
    rw [unquote_render x (h x (by simp)).1 (h x (by simp)).2, ih (fun z hz => h z (by simp [hz]))]
    simp

/-! ## `BuildFSEntries`: order -/

/-- `(dir, elem)` compared the way `BuildFSEntries`' `less` does -/
def pairLt (x y : Str × Str) : Bool := if x.1 != y.1 then strLt x.1 y.1 else strLt x.2 y.2

theorem entryLt_eq (a b : Str) : entryLt a b = pairLt (embedSplit a) (embedSplit b) := rfl

theorem pairLt_negtrans (x y z : Str × Str) (h1 : pairLt y x = false) (h2 : pairLt z y = false) :
    pairLt z x = false := by
  obtain ⟨x1, x2⟩ := x
  obtain ⟨y1, y2⟩ := y
  obtain ⟨z1, z2⟩ := z
  unfold pairLt at *
  simp only at *
  by_cases hxy : x1 = y1
  · by_cases hyz : y1 = z1
    · subst hxy; subst hyz
      simp only [bne_self_eq_false, Bool.false_eq_true, if_false] at *
      have a1 : strLe x2 y2 = true := by simp [strLe, h1]
      have a2 : strLe y2 z2 = true := by simp [strLe, h2]
      have := strLe_trans _ _ _ a1 a2
      simpa [strLe] using this
    · subst hxy
      have hzy : (z1 != x1) = true := by simp [bne_iff_ne, Ne.symm hyz]
      simp only [hzy, if_true] at h2 ⊢
      exact h2
  · have hyx : (y1 != x1) = true := by simp [bne_iff_ne, Ne.symm hxy]
    simp only [hyx, if_true] at h1
    have lxy : strLt x1 y1 = true := strLt_of_le_ne _ _ (by simp [strLe, h1]) hxy
    by_cases hyz : y1 = z1
    · subst hyz
      simp only [hyx, if_true]
      exact h1
    · have hzy : (z1 != y1) = true := by simp [bne_iff_ne, Ne.symm hyz]
      simp only [hzy, if_true] at h2
      have lyz : strLt y1 z1 = true := strLt_of_le_ne _ _ (by simp [strLe, h2]) hyz
      have lxz := strLt_trans _ _ _ lxy lyz
      have hne : z1 ≠ x1 := by
        intro h; rw [h, strLt_irrefl] at lxz; cases lxz
      have hzx : (z1 != x1) = true := by simp [bne_iff_ne, hne]
      simp only [hzx, if_true]
      exact strLt_asymm _ _ lxz

theorem pairLt_asymm (x y : Str × Str) (h : pairLt x y = true) : pairLt y x = false := by
  unfold pairLt at *
  by_cases hxy : x.1 = y.1
  · simp only [hxy, bne_self_eq_false, Bool.false_eq_true, if_false] at *
    exact strLt_asymm _ _ h
  · have h1 : (x.1 != y.1) = true := by simp [bne_iff_ne, hxy]
    have h2 : (y.1 != x.1) = true := by simp [bne_iff_ne, Ne.symm hxy]
    simp only [h1, h2, if_true] at *
    exact strLt_asymm _ _ h

theorem buildFSEntries_pairwise (files : Seen) :
    (buildFSEntries files).Pairwise (fun a b => entryLt b.1 a.1 = false) := by
  unfold buildFSEntries
  have := List.pairwise_mergeSort (le := fun (a b : Str × Str) => !entryLt b.1 a.1)
    (by
      intro a b c hab hbc
      simp only [Bool.not_eq_true', entryLt_eq] at *
      exact pairLt_negtrans _ _ _ hab hbc)
    (by
      intro a b
      simp only [entryLt_eq]
      cases h : pairLt (embedSplit b.1) (embedSplit a.1) with
      | false => simp
      | true => simp [pairLt_asymm _ _ h])
    (files.foldl addEntry [])
  exact this.imp (by intro a b h; simpa using h)

/-! ## `BuildFSEntries`: keys -/

theorem keys_mapSet (m : Seen) (k v x : Str) : x ∈ keys (mapSet m k v) ↔ x ∈ keys m ∨ x = k := by
  unfold mapSet keys
  split
  · rename_i h
    simp only [List.any_eq_true, decide_eq_true_eq] at h
    obtain ⟨e, he, hek⟩ := h
    simp only [List.map_map, List.mem_map, Function.comp]
    constructor
    · rintro ⟨e', he', rfl⟩
      split
      · rename_i h'; exact Or.inr rfl
      · exact Or.inl ⟨e', he', rfl⟩
    · rintro (⟨e', he', rfl⟩ | rfl)
      · refine ⟨e', he', ?_⟩
        split
        · rename_i h'; exact h'.symm
        · rfl
      · exact ⟨e, he, by simp [hek]⟩
  · simp

theorem nodup_mapSet (m : Seen) (k v : Str) (h : (keys m).Nodup) : (keys (mapSet m k v)).Nodup := by
  unfold mapSet
  split
  · have : keys (m.map fun e => if e.1 = k then (k, v) else e) = keys m := by
      unfold keys
      simp only [List.map_map]
      apply List.map_congr_left
      intro e _
      simp only [Function.comp]
      split
      · rename_i h'; exact h'.symm
      · rfl
    rw [this]; exact h
  · rename_i hn
    simp only [List.any_eq_true, decide_eq_true_eq, not_exists, not_and] at hn
    unfold keys at *
    simp only [List.map_append, List.map_cons, List.map_nil]
    rw [List.nodup_append]
    refine ⟨h, by simp, ?_⟩
    intro a ha b hb
    simp only [List.mem_singleton] at hb
    subst hb
    simp only [List.mem_map] at ha
    obtain ⟨x, hx, rfl⟩ := ha
    exact hn x hx

theorem keys_foldl_mapSet (m : Seen) (ds : List Str) (x : Str) :
    x ∈ keys (ds.foldl (fun m d => mapSet m d []) m) ↔ x ∈ keys m ∨ x ∈ ds := by
  induction ds generalizing m with
  | nil => simp
  | cons d rest ih =>
    simp only [List.foldl_cons, ih, keys_mapSet, List.mem_cons]
    constructor
    · rintro ((h | h) | h)
      · exact Or.inl h
      · exact Or.inr (Or.inl h)
      · exact Or.inr (Or.inr h)
    · rintro (h | h | h)
      · exact Or.inl (Or.inl h)
      · exact Or.inl (Or.inr h)
      · exact Or.inr h

theorem nodup_foldl_mapSet (m : Seen) (ds : List Str) (h : (keys m).Nodup) :
    (keys (ds.foldl (fun m d => mapSet m d []) m)).Nodup := by
  induction ds generalizing m with
  | nil => simpa using h
  | cons d rest ih => exact ih _ (nodup_mapSet m d [] h)

theorem keys_addEntry (m : Seen) (f : Str × Str) (x : Str) :
    x ∈ keys (addEntry m f) ↔ x ∈ keys m ∨ x = f.1 ∨ x ∈ parentDirs f.1 := by
  unfold addEntry
  rw [keys_foldl_mapSet, keys_mapSet, or_assoc]

theorem keys_foldl_addEntry (m : Seen) (files : Seen) (x : Str) :
    x ∈ keys (files.foldl addEntry m) ↔ x ∈ keys m ∨ ∃ f ∈ files, x = f.1 ∨ x ∈ parentDirs f.1 := by
  induction files generalizing m with
  | nil => simp
  | cons f rest ih =>
    simp only [List.foldl_cons, ih, keys_addEntry, List.mem_cons, exists_eq_or_imp]
    constructor
    · rintro ((h | h) | h)
      · exact Or.inl h
      · exact Or.inr (Or.inl h)
      · exact Or.inr (Or.inr h)
    · rintro (h | h | h)
      · exact Or.inl (Or.inl h)
      · exact Or.inl (Or.inr h)
      · exact Or.inr h

theorem nodup_foldl_addEntry (m : Seen) (files : Seen) (h : (keys m).Nodup) :
    (keys (files.foldl addEntry m)).Nodup := by
  induction files generalizing m with
  | nil => simpa using h
  | cons f rest ih =>
    exact ih _ (by unfold addEntry; exact nodup_foldl_mapSet _ _ (nodup_mapSet m f.1 f.2 h))

theorem keys_buildFSEntries (files : Seen) (x : Str) :
    x ∈ keys (buildFSEntries files) ↔ ∃ f ∈ files, x = f.1 ∨ x ∈ parentDirs f.1 := by
  have hp : (buildFSEntries files).Perm (files.foldl addEntry []) := List.mergeSort_perm _ _
  have : x ∈ keys (buildFSEntries files) ↔ x ∈ keys (files.foldl addEntry []) := (hp.map _).mem_iff
  rw [this, keys_foldl_addEntry]
  simp [keys]

theorem nodup_buildFSEntries (files : Seen) : (keys (buildFSEntries files)).Nodup := by
  have hp : (buildFSEntries files).Perm (files.foldl addEntry []) := List.mergeSort_perm _ _
  exact (hp.map _).nodup_iff.2 (nodup_foldl_addEntry [] files (by simp [keys]))

/-! ## `splitOn` / `joinSlash` -/

theorem splitOn_noSep (a : Str) (h : 47 ∉ a) : splitOn 47 a = [a] := by
  induction a with
  | nil => rfl
  | cons c cs ih =>
    simp only [List.mem_cons, not_or] at h
    have hc : c ≠ 47 := fun hh => h.1 hh.symm
    simp [splitOn, hc, ih h.2]

theorem splitOn_append (a r : Str) (h : 47 ∉ a) : splitOn 47 (a ++ 47 :: r) = a :: splitOn 47 r := by
  induction a with
  | nil => simp [splitOn]
  | cons c cs ih =>
    simp only [List.mem_cons, not_or] at h
    have hc : c ≠ 47 := fun hh => h.1 hh.symm
    simp [splitOn, hc, ih h.2]

theorem splitOn_joinSlash (cs : List Str) (hne : cs ≠ []) (h : ∀ c ∈ cs, 47 ∉ c) :
    splitOn 47 (joinSlash cs) = cs := by
  induction cs with
  | nil => exact absurd rfl hne
  | cons a rest ih =>
    cases rest with
    | nil => simp only [joinSlash]; exact splitOn_noSep a (h a (by simp))
    | cons b rest' =>
      simp only [joinSlash]
      rw [splitOn_append _ _ (h a (by simp)), ih (by simp) (fun c hc => h c (by simp [hc]))]

theorem splitOn_joinSlash_slash (cs : List Str) (hne : cs ≠ []) (h : ∀ c ∈ cs, 47 ∉ c) :
    splitOn 47 (joinSlash cs ++ [47]) = cs ++ [[]] := by
  induction cs with
  | nil => exact absurd rfl hne
  | cons a rest ih =>
    cases rest with
    | nil =>
      simp only [joinSlash]
      rw [splitOn_append _ _ (h a (by simp))]
      simp [splitOn]
    | cons b rest' =>
      simp only [joinSlash, List.append_assoc, List.cons_append]
      rw [splitOn_append _ _ (h a (by simp))]
      have := ih (by simp) (fun c hc => h c (by simp [hc]))
      rw [this]
      simp

theorem mem_dirPrefixes (cs p : List Str) :
    p ∈ dirPrefixes cs ↔ ∃ j, j < cs.length - 1 ∧ p = cs.take (j + 1) := by
  unfold dirPrefixes
  simp only [List.mem_map, List.mem_reverse, List.mem_range]
  constructor
  · rintro ⟨j, hj, rfl⟩; exact ⟨j, hj, rfl⟩
  · rintro ⟨j, hj, rfl⟩; exact ⟨j, hj, rfl⟩

/-! ## `BuildFSEntries`: every ancestor directory is there -/

theorem cleanElems_noSlash {cs : List Str} (h : CleanElems cs) : ∀ c ∈ cs, 47 ∉ c :=
  fun c hc => (h.2 c hc).2.2.2

theorem cleanElems_noEmpty {cs : List Str} (h : CleanElems cs) : [] ∉ cs :=
  fun hm => (h.2 [] hm).1 rfl

theorem buildFS_closed_aux (files : Seen)
    (hclean : ∀ f ∈ files, ∃ fs, CleanElems fs ∧ f.1 = joinSlash fs)
    (cs : List Str) (hcs : CleanElems cs)
    (hin : joinSlash cs ∈ keys (buildFSEntries files) ∨ joinSlash cs ++ [47] ∈ keys (buildFSEntries files))
    (k : Nat) (hk0 : 0 < k) (hk : k < cs.length) :
    joinSlash (cs.take k) ++ [47] ∈ keys (buildFSEntries files) := by
  have hcsS := splitOn_joinSlash cs hcs.1 (cleanElems_noSlash hcs)
  have hcsS' := splitOn_joinSlash_slash cs hcs.1 (cleanElems_noSlash hcs)
  -- whichever key it is, it belongs to some file `f` with elements `fs`, and `cs` is a prefix of `fs`
  have key : ∃ f ∈ files, ∃ fs, CleanElems fs ∧ f.1 = joinSlash fs ∧ cs = fs.take cs.length := by
    rcases hin with hin | hin
    · rw [keys_buildFSEntries] at hin
      obtain ⟨f, hf, hx⟩ := hin
      obtain ⟨fs, hfs, hfe⟩ := hclean f hf
      refine ⟨f, hf, fs, hfs, hfe, ?_⟩
      have hfsS := splitOn_joinSlash fs hfs.1 (cleanElems_noSlash hfs)
      rcases hx with hx | hx
      · rw [hfe] at hx
        have : cs = fs := by rw [← hcsS, hx, hfsS]
        subst this; simp
      · exfalso
        unfold parentDirs at hx
        rw [hfe, hfsS] at hx
        simp only [List.mem_map] at hx
        obtain ⟨p, hp, hpe⟩ := hx
        obtain ⟨j, hj, rfl⟩ := (mem_dirPrefixes fs p).1 hp
        have hpne : fs.take (j + 1) ≠ [] := by
          intro h; have h' := congrArg List.length h
          rw [List.length_take] at h'; simp only [List.length_nil] at h'; omega
        have h2 := splitOn_joinSlash_slash (fs.take (j + 1)) hpne
          (fun c hc => cleanElems_noSlash hfs c (List.mem_of_mem_take hc))
        rw [hpe, hcsS] at h2
        have : [] ∈ cs := by rw [h2]; simp
        exact cleanElems_noEmpty hcs this
    · rw [keys_buildFSEntries] at hin
      obtain ⟨f, hf, hx⟩ := hin
      obtain ⟨fs, hfs, hfe⟩ := hclean f hf
      refine ⟨f, hf, fs, hfs, hfe, ?_⟩
      have hfsS := splitOn_joinSlash fs hfs.1 (cleanElems_noSlash hfs)
      rcases hx with hx | hx
      · exfalso
        rw [hfe] at hx
        have : cs ++ [[]] = fs := by rw [← hcsS', hx, hfsS]
        have : [] ∈ fs := by rw [← this]; simp
        exact cleanElems_noEmpty hfs this
      · unfold parentDirs at hx
        rw [hfe, hfsS] at hx
        simp only [List.mem_map] at hx
        obtain ⟨p, hp, hpe⟩ := hx
        obtain ⟨j, hj, rfl⟩ := (mem_dirPrefixes fs p).1 hp
        have hpne : fs.take (j + 1) ≠ [] := by
          intro h; have h' := congrArg List.length h
          rw [List.length_take] at h'; simp only [List.length_nil] at h'; omega
        have h2 := splitOn_joinSlash_slash (fs.take (j + 1)) hpne
          (fun c hc => cleanElems_noSlash hfs c (List.mem_of_mem_take hc))
        rw [hpe, hcsS'] at h2
        have h3 : cs = fs.take (j + 1) := List.append_cancel_right h2
        rw [h3]
        simp only [List.length_take]
        congr 1
        omega
  obtain ⟨f, hf, fs, hfs, hfe, hpre⟩ := key
  rw [keys_buildFSEntries]
  refine ⟨f, hf, Or.inr ?_⟩
  unfold parentDirs
  rw [hfe, splitOn_joinSlash fs hfs.1 (cleanElems_noSlash hfs)]
  simp only [List.mem_map]
  have hlen : cs.length ≤ fs.length := by
    have := congrArg List.length hpre
    simp at this; omega
  refine ⟨fs.take k, (mem_dirPrefixes fs _).2 ⟨k - 1, by omega, by congr 1; omega⟩, ?_⟩
  have h1 : cs.take k = (fs.take cs.length).take k := by rw [← hpre]
  rw [List.take_take, show min k cs.length = k by omega] at h1
  rw [h1]

/-! ## trees without links to directories: the missing test of `CheckPath` cannot fire -/

theorem noDirLinks_mem : ∀ (es : Ents), es.noDirLinks = true → ∀ e ∈ es.toList, e.2.noDirLinks = true
  | .nil, _, e, he => by simp [Ents.toList] at he
  | .cons nm n rest, h, e, he => by
    simp only [Ents.noDirLinks, Bool.and_eq_true] at h
    simp only [Ents.toList, List.mem_cons] at he
    rcases he with rfl | he
    · exact h.1
    · exact noDirLinks_mem rest h.2 e he

theorem noDirLinks_dirEnts (n : Node) (h : n.noDirLinks = true) (es : Ents) (hd : n.dirEnts = some es) :
    n = .dir es := by
  cases n with
  | file d => simp [Node.dirEnts, Node.resolve] at hd
  | dir es' => simp [Node.dirEnts, Node.resolve] at hd; rw [hd]
  | link t =>
    simp only [Node.noDirLinks] at h
    have : (Node.link t).dirEnts = t.dirEnts := by simp [Node.dirEnts, Node.resolve]
    rw [this] at hd
    rw [hd] at h
    simp at h
  | dangling => simp [Node.dirEnts, Node.resolve] at hd
  | irregular => simp [Node.dirEnts, Node.resolve] at hd

theorem checkTrail_cfg_eq (n : Node) (t : Trail) (hr : Reach n t) (hn : n.noDirLinks = true) :
    checkTrail ⟨false⟩ t = checkTrail ⟨true⟩ t := by
  induction hr with
  | nil n => rfl
  | cons hes hmem hrest ih =>
    rename_i n es nm ch rest
    have hnd := noDirLinks_dirEnts n hn es hes
    subst hnd
    have hch : ch.noDirLinks = true := noDirLinks_mem es (by simpa [Node.noDirLinks] using hn) _ hmem
    simp only [checkTrail]
    rw [ih hch]
    cases hc : checkTrail ⟨true⟩ rest with
    | error e => rfl
    | ok u =>
      simp only []
      cases hrest with
      | nil => simp
      | cons hes' _ _ =>
        have := noDirLinks_dirEnts ch hch _ hes'
        subst this
        simp [Node.isDir]

theorem matchesFiles_cfg_eq (all : Bool) (ts : List Trail)
    (h : ∀ t ∈ ts, checkTrail ⟨false⟩ t = checkTrail ⟨true⟩ t) :
    matchesFiles ⟨false⟩ all ts = matchesFiles ⟨true⟩ all ts := by
  induction ts with
  | nil => rfl
  | cons t rest ih =>
    simp only [matchesFiles]
    have h1 : matchFiles ⟨false⟩ all t = matchFiles ⟨true⟩ all t := by
      unfold matchFiles
      rw [h t (by simp)]
    rw [h1, ih (fun t' ht' => h t' (by simp [ht']))]

theorem patternFiles_cfg_eq (root : Node) (hn : root.noDirLinks = true) (pat : Str) :
    patternFiles ⟨false⟩ root pat = patternFiles ⟨true⟩ root pat := by
  unfold patternFiles
  simp only
  rw [matchesFiles_cfg_eq]
  intro t ht
  exact checkTrail_cfg_eq root t ((mem_globTrail root _ t).1 ht).1 hn

theorem resolveLoop_cfg_eq (root : Node) (hn : root.noDirLinks = true) (seen : Seen) (pats : List Str) :
    resolveLoop ⟨false⟩ root seen pats = resolveLoop ⟨true⟩ root seen pats := by
  induction pats generalizing seen with
  | nil => rfl
  | cons p rest ih =>
    simp only [resolveLoop, patternFiles_cfg_eq root hn p]
    cases patternFiles ⟨true⟩ root p with
    | error e => rfl
    | ok fs => exact ih _

theorem resolve_ok_iff_loop (cfg : Cfg) (root : Node) (pats : List Str) :
    (∃ fs, resolve cfg root pats = .ok fs) ↔ ∃ s, resolveLoop cfg root [] pats = .ok s := by
  unfold resolve
  cases resolveLoop cfg root [] pats with
  | error e => simp
  | ok s => simp

/-! ## strict order of the `embed.FS` table -/

theorem pairLt_trichotomy (x y : Str × Str) (h1 : pairLt x y = false) (h2 : pairLt y x = false) : x = y := by
  obtain ⟨x1, x2⟩ := x
  obtain ⟨y1, y2⟩ := y
  unfold pairLt at *
  simp only at *
  by_cases hxy : x1 = y1
  · subst hxy
    simp only [bne_self_eq_false, Bool.false_eq_true, if_false] at *
    rw [strLt_trichotomy x2 y2 h1 h2]
  · have a : (x1 != y1) = true := by simp [bne_iff_ne, hxy]
    have b : (y1 != x1) = true := by simp [bne_iff_ne, Ne.symm hxy]
    simp only [a, b, if_true] at *
    exact absurd (strLt_trichotomy x1 y1 h1 h2) hxy

end LlgoVerif.Embed
