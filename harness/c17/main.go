// Correspondence harness for C17: runs the real split/parse/expand functions on protocol lines.
package main

import (
	"bytes"
	"github.com/goplus/llgo/internal/clang"
	"bufio"
	"encoding/hex"
	"fmt"
	"os"
	"strings"

	"github.com/goplus/llgo/internal/buildtags"
	ienv "github.com/goplus/llgo/internal/env"
	"github.com/goplus/llgo/internal/shellparse"
	xenv "github.com/goplus/llgo/xtool/env"
	"github.com/goplus/llgo/xtool/safesplit"
)

func unhex(h string) (string, bool) {
	if h == "-" {
		return "", true
	}
	b, err := hex.DecodeString(h)
	return string(b), err == nil
}

func hx(s string) string {
	if s == "" {
		return "-"
	}
	return hex.EncodeToString([]byte(s))
}

func hexList(l []string) string {
	if len(l) == 0 {
		return "."
	}
	o := make([]string, len(l))
	for i, s := range l {
		o[i] = hx(s)
	}
	return strings.Join(o, " ")
}

func handle(line string) (out string) {
	defer func() {
		if e := recover(); e != nil {
			_ = e
			out = "panic"
		}
	}()
	f := strings.Fields(line)
	if len(f) == 0 {
		return "bad-op"
	}
	switch {
	case f[0] == "parse" && len(f) == 2:
		s, ok := unhex(f[1])
		if !ok {
			return "bad-op"
		}
		args, err := shellparse.Parse(s)
		if err != nil {
			return "err"
		}
		return "ok " + hexList(args)
	case f[0] == "split" && len(f) == 2:
		s, ok := unhex(f[1])
		if !ok {
			return "bad-op"
		}
		return "ok " + hexList(safesplit.SplitPkgConfigFlags(s))
	case f[0] == "tags" && len(f) == 2:
		var fl []string
		for _, h := range strings.Split(f[1], ",") {
			s, ok := unhex(h)
			if !ok {
				return "bad-op"
			}
			fl = append(fl, s)
		}
		return "ok " + hexList(buildtags.VerifParseBuildTags(fl))
	case f[0] == "check" && len(f) == 3:
		var fl []string
		if f[1] != "." {
			for _, h := range strings.Split(f[1], ",") {
				s, ok := unhex(h)
				if !ok {
					return "bad-op"
				}
				fl = append(fl, s)
			}
		}
		var exprs []string
		m := map[string]bool{}
		for _, h := range strings.Split(f[2], ",") {
			s, ok := unhex(h)
			if !ok {
				return "bad-op"
			}
			exprs = append(exprs, s)
			m[s] = false
		}
		buildtags.CheckTags(fl, m)
		var sb strings.Builder
		for _, e := range exprs {
			if m[e] {
				sb.WriteByte('1')
			} else {
				sb.WriteByte('0')
			}
		}
		return "ok " + sb.String()
	case f[0] == "cc" && len(f) == 9:
		// cc <printargs> <envCCFLAGS> <envCFLAGS> <envLDFLAGS> <cfgCCFLAGS,..> <cfgCFLAGS,..> <cfgLDFLAGS,..> <args,..>
		app, ok0 := unhex(f[1])
		if !ok0 {
			return "bad-op"
		}
		for i, n := range []string{"CCFLAGS", "CFLAGS", "LDFLAGS"} {
			v, ok := unhex(f[2+i])
			if !ok {
				return "bad-op"
			}
			if v == "" {
				os.Unsetenv(n)
			} else {
				os.Setenv(n, v)
			}
		}
		lists := make([][]string, 4)
		for i := 0; i < 4; i++ {
			if f[5+i] == "." {
				continue
			}
			for _, h := range strings.Split(f[5+i], ",") {
				v, ok := unhex(h)
				if !ok {
					return "bad-op"
				}
				lists[i] = append(lists[i], v)
			}
		}
		cfg := clang.NewConfig(app, lists[0], lists[1], lists[2], app)
		run := func(link bool) string {
			var buf bytes.Buffer
			var c *clang.Cmd
			if link {
				c = clang.NewLinker(cfg)
			} else {
				c = clang.NewCompiler(cfg)
			}
			c.Stdout = &buf
			var err error
			if link {
				err = c.Link(lists[3]...)
			} else {
				err = c.Compile(lists[3]...)
			}
			if err != nil {
				return "err"
			}
			parts := strings.Split(buf.String(), "\x00")
			if len(parts) > 0 && parts[len(parts)-1] == "" {
				parts = parts[:len(parts)-1]
			}
			return hexList(parts)
		}
		out := "ok " + run(false) + " | " + run(true)
		for _, n := range []string{"CCFLAGS", "CFLAGS", "LDFLAGS"} {
			os.Unsetenv(n)
		}
		return out
	case f[0] == "expand" && len(f) == 4:
		t, ok1 := unhex(f[1])
		d, ok2 := unhex(f[2])
		if !ok1 || !ok2 {
			return "bad-op"
		}
		envs := map[string]string{}
		if f[3] != "." {
			for _, kv := range strings.Split(f[3], ",") {
				p := strings.Split(kv, "=")
				if len(p) != 2 {
					return "bad-op"
				}
				k, ok1 := unhex(p[0])
				v, ok2 := unhex(p[1])
				if !ok1 || !ok2 {
					return "bad-op"
				}
				envs[k] = v
			}
		}
		return "ok " + hx(ienv.ExpandEnvWithDefault(t, envs, d))
	case f[0] == "xenv" && len(f) == 3:
		t, ok := unhex(f[1])
		if !ok {
			return "bad-op"
		}
		for _, n := range envNames {
			os.Unsetenv(n)
		}
		envNames = envNames[:0]
		if f[2] != "." {
			for _, kv := range strings.Split(f[2], ",") {
				p := strings.Split(kv, "=")
				if len(p) != 2 {
					return "bad-op"
				}
				k, ok1 := unhex(p[0])
				v, ok2 := unhex(p[1])
				if !ok1 || !ok2 {
					return "bad-op"
				}
				os.Setenv(k, v)
				envNames = append(envNames, k)
			}
		}
		r := xenv.ExpandEnv(t)
		return "ok " + hx(r) + " | " + hexList(xenv.ExpandEnvToArgs(t))
	}
	return "bad-op"
}

var envNames []string

func main() {
	sc := bufio.NewScanner(os.Stdin)
	sc.Buffer(make([]byte, 1<<20), 1<<26)
	w := bufio.NewWriter(os.Stdout)
	defer w.Flush()
	for sc.Scan() {
		fmt.Fprintln(w, handle(sc.Text()))
	}
}
