"""C05, end-to-end route (B-E): an interpreter program (harness/c05/e2e_main.go.txt, the script embedded as a constant)
is compiled by llgo — built from the working tree — at -O0 and -O2, and by the Go toolchain as the reference.
The llgo binaries' outputs are (1) compared line by line with the Lean model, (2) judged against Go's slice semantics
(GoRef, capacity growth read from the output), (3) compared with the Go-built binary on everything Go fixes
(all string operations; slice lines of the Go-built binary must themselves pass GoRef — a validation of the spec)."""
import os
import re

from vlib.common import *
from vlib import e2e
from checks import c05 as C

H = os.path.join(VERIF, "harness", "c05")


def instantiate_template():
    src = open(os.path.join(H, "e2e_main.go.txt")).read()
    a, rest = src.split("//@TYPE-BEGIN\n", 1)
    body, b = rest.split("//@TYPE-END\n", 1)
    out = a
    for n in C.ESIZES:
        out += body.replace("@N@", str(n))
    out += b
    out = out.replace("//@RESET-ALL", "\n\t\t".join("reset%d()" % n for n in C.ESIZES))
    out = out.replace("//@DISPATCH", "\n\t\t".join("case %d:\n\t\t\treturn handle%d(f)" % (n, n) for n in C.ESIZES))
    return out


def go_quote(s):
    return '"' + s.replace("\\", "\\\\").replace('"', '\\"').replace("\n", "\\n") + '"'


def parse_out(stderr, n):
    got = {}
    done = None
    for line in stderr.split("\n"):
        m = re.match(r"^@(\d+) (.*)$", line)
        if m:
            got[int(m.group(1))] = m.group(2)
        elif line.startswith("@done "):
            done = int(line[6:])
    if done != n or len(got) != n:
        return None, "program printed %d of %d answers (done=%s); tail: %s" % (len(got), n, done, stderr[-600:])
    return [got[i] for i in range(n)], None


def gen_e2e_only(rng):
    a, b = C.rbytes(rng, 4), C.rbytes(rng, 4)
    if rng.random() < 0.5:
        return "apps %s %s" % (hexs(a), hexs(b)), "ok " + hexs(a + b)
    n = min(len(a), len(b))
    return "cps %s %s" % (hexs(a), hexs(b)), "ok n=%d %s" % (n, hexs(b[:n] + a[n:]))


def run_e2e(ctx, rng, quick):
    e2e.build_llgo(ctx)
    ctx.log("e2e: llgo built from the working tree")
    # ---- one script for everything
    scripts = [("e2e-witness-zero", ["reset", "nil r0 0", "mk r1 1 1 0 0", "app r2 r0 r1 -"]),
               ("e2e-witness-overlap", ["reset", "mk r0 4 4 1 7", "appself r1 r0 1 2 -"])]
    target = 3000 if quick else 40000
    total, i = 0, 0
    while total < target:
        s = C.gen_slice_script(rng, esz=C.ESIZES[i % len(C.ESIZES)])
        # the e2e program allocates for real: keep impossible sizes out (llgo's nogc allocator would be asked for them
        # only if MakeSlice's own check failed, which the native route already covers)
        s = [l for l in s if not (l.startswith("mk ") and (int(l.split()[3]) > (1 << 20)))]
        scripts.append(("e2e-%d" % i, s))
        total += len(s)
        i += 1
    string_lines = [C.gen_string_line(rng) for _ in range(1500 if quick else 20000)]
    string_lines = [l for l in string_lines if not l.startswith("dec ")]     # decoderune is not callable from Go
    only = [gen_e2e_only(rng) for _ in range(200 if quick else 2000)]
    flat = [l for _, ls in scripts for l in ls] + ["reset"] + string_lines
    all_lines = flat + [l for l, _ in only]
    d = os.path.join(ctx.scratch, "e2e-c05")
    e2e.write_module(d, {"main.go": instantiate_template(),
                         "script.go": "package main\n\nconst script = " + go_quote("\n".join(all_lines)) + "\n"})
    # ---- reference: the Go toolchain
    refbin = os.path.join(d, "ref.bin")
    p = e2e.go_run_reference(ctx, d, refbin)
    if p.returncode != 0:
        raise RuntimeError("the e2e interpreter does not build with the Go toolchain: " + (p.stdout + p.stderr)[-1500:])
    _, rerr, rrc = e2e.run_prog(refbin, timeout=600)
    ref_out, why = parse_out(rerr, len(all_lines))
    if ref_out is None:
        raise RuntimeError("Go-built reference interpreter: " + why)
    # spec validation: Go's own slices must satisfy GoRef (otherwise the reference in checks/c05.py is wrong)
    ref = C.GoRef()
    bad_ref = 0
    for l, out in zip(flat, ref_out):
        if l.split()[0] in ("reset", "mk", "nil", "set", "app", "appself", "cp", "cpself", "re", "clr", "dump") and out != "bad-op":
            v, dd = C.judge_slice(ref, l, out)
            if v:
                bad_ref += 1
                if bad_ref == 1:
                    ctx.log("SPEC VALIDATION: Go-built program disagrees with GoRef at `%s`: %s (%s)" % (l, v, dd))
                ref = C.GoRef()   # resynchronise at the next reset
    if bad_ref:
        ctx.broken.append("spec validation failed: the Go toolchain's own slices do not satisfy checks/c05.py GoRef (%d lines)" % bad_ref)
        ctx.report_broken("C05 spec validation (GoRef vs Go toolchain)", {"lines": bad_ref})

    modeld = os.path.join(LEAN, ".lake", "build", "bin", "modeld_c05")
    cov = {"e2e_lines": len(all_lines), "e2e_builds": 0, "e2e_opt_levels": [], "e2e_spec_validation_failures": bad_ref}
    for opt in ("-O0", "-O2"):
        out_bin = os.path.join(d, "prog%s.bin" % opt)
        p = e2e.llgo_build(ctx, d, out_bin, opt=opt)
        if p.returncode != 0 or not os.path.exists(out_bin):
            raise HarnessBuildError("llgo build %s of the C05 interpreter failed:\n%s" % (opt, (p.stdout + p.stderr)[-3000:]))
        so, se, rc = e2e.run_prog(out_bin, timeout=900)
        outs, why = parse_out(se, len(all_lines))
        label = "e2e%s:" % opt
        if outs is None:
            # the program died: the last answered line + 1 is the culprit
            answered = len(re.findall(r"^@\d+ ", se, flags=re.M))
            culprit = all_lines[answered] if answered < len(all_lines) else "?"
            ctx.report(label + "crash:" + culprit, "llgo-compiled interpreter (%s) died (rc=%s) while executing `%s`" % (opt, rc, culprit),
                       {"line": culprit, "answered": answered, "stderr_tail": se[-800:], "script_tail": all_lines[max(0, answered - 12):answered + 1]})
            continue
        cov["e2e_builds"] += 1
        cov["e2e_opt_levels"].append(opt)
        # which repair does the compiled runtime contain? (zero-size witness; memcpy overlap is not observable end to end)
        zfix = outs[3].startswith("ok len=1 ")
        cfg_line = "cfg %d 1" % int(zfix)
        n_flat = len(flat)
        fixed = {"outs": outs}

        def run_real(lines, fixed=fixed, n_flat=n_flat):
            assert len(lines) == n_flat
            return fixed["outs"][:n_flat]
        mism, spec_fail, stats, nontriv, samples, _ = C.process(ctx, None, modeld, cfg_line, scripts, string_lines, [], zfix, True,
                                                                run_real=run_real, label=label)
        # everything Go fixes completely: string operations must equal the Go toolchain's answers
        sfail = {}
        base = len(flat) - len(string_lines)
        for j, l in enumerate(string_lines):
            a, b = outs[base + j], ref_out[base + j]
            if a != b:
                sfail.setdefault(l.split()[0], []).append((l, a, b))
        for j, (l, want) in enumerate(only):
            a, b = outs[n_flat + j], ref_out[n_flat + j]
            if b != want:
                ctx.broken.append("spec validation: Go toolchain gives %s for `%s`, expected %s" % (b, l, want))
            if a != b:
                sfail.setdefault(l.split()[0], []).append((l, a, b))
        for op in sorted(sfail):
            lst = sorted(sfail[op], key=lambda x: len(x[0]))
            l, a, b = lst[0]
            ctx.report(label + "string:%s:%s" % (op, l), "llgo %s: `%s` gives %s, Go toolchain: %s (%d lines of this operation differ)" % (opt, l, a, b, len(lst)),
                       {"line": l, "llgo": a, "go": b, "opt": opt})
        if mism:
            ctx.log("e2e %s: %d lines differ from the Lean model, first: %s" % (opt, len(mism), str(mism[0])[:500]))
            ctx.broken.append("e2e %s correspondence llgo-compiled vs Lean model (%d lines differ)" % (opt, len(mism)))
            if not ctx.violations:
                ctx.report_broken("correspondence C05 e2e%s llgo-vs-model" % opt, {"first": [str(x)[:800] for x in mism[:5]]})
        cov["e2e%s" % opt] = {"lines": len(all_lines), "model_mismatches": len(mism), "spec_failures": spec_fail + sum(len(v) for v in sfail.values()),
                              "zero_size_append_repaired": zfix, "ops": stats}
        ctx.log("e2e %s: %d lines, %d model mismatches, %d spec failures" % (opt, len(all_lines), len(mism), spec_fail + sum(len(v) for v in sfail.values())))
    return cov
