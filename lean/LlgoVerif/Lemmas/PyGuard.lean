import LlgoVerif.Model.PyGuard
/-!
# Lemmas for C19

Part 1: the guarded depth-first initialiser (`initPkg`) produces a `Consistent` order.
Part 2: invariants of the Python guard state machine along any consistent order.
Part 3: argument marshalling.
-/
namespace LlgoVerif.PyGuard

/-! ## Part 1: the depth-first order is consistent -/

/-- every import of a listed package occurs earlier in the list -/
def DepsFirst (P : Prog) (t : List Nat) : Prop :=
  ∀ l₁ p l₂, t = l₁ ++ p :: l₂ → ∀ q ∈ (P p).imports, q ∈ l₁

structure GInv (P : Prog) (s : GSt) : Prop where
  sub : ∀ p ∈ s.trace, p ∈ s.guard
  nodup : s.trace.Nodup
  deps : DepsFirst P s.trace

/-- every guarded package below `bound` has finished -/
def Done (s : GSt) (bound : Nat) : Prop := ∀ q ∈ s.guard, q < bound → q ∈ s.trace

structure Ext (s s' : GSt) : Prop where
  pre : s.trace <+: s'.trace
  gmono : ∀ g ∈ s.guard, g ∈ s'.guard
  gnew : ∀ g ∈ s'.guard, g ∈ s.guard ∨ g ∈ s'.trace
  tnew : ∀ t ∈ s'.trace, t ∈ s.trace ∨ t ∉ s.guard

theorem Ext.refl (s : GSt) : Ext s s :=
  ⟨List.prefix_refl _, fun _ h => h, fun _ h => .inl h, fun _ h => .inl h⟩

theorem Ext.trans {a b c : GSt} (h1 : Ext a b) (h2 : Ext b c) : Ext a c where
  pre := h1.pre.trans h2.pre
  gmono := fun g h => h2.gmono g (h1.gmono g h)
  gnew := fun g h => by
    rcases h2.gnew g h with h | h
    · rcases h1.gnew g h with h | h
      · exact .inl h
      · exact .inr (h2.pre.subset h)
    · exact .inr h
  tnew := fun t h => by
    rcases h2.tnew t h with h | h
    · exact h1.tnew t h
    · exact .inr (fun hg => h (h1.gmono t hg))

theorem Done.ext {s s' : GSt} {b : Nat} (hd : Done s b) (he : Ext s s') : Done s' b := by
  intro g hg hb
  rcases he.gnew g hg with h | h
  · exact he.pre.subset (hd g h hb)
  · exact h

theorem Done.mono {s : GSt} {a b : Nat} (hd : Done s b) (h : a ≤ b) : Done s a :=
  fun g hg hlt => hd g hg (Nat.lt_of_lt_of_le hlt h)

theorem depsFirst_snoc {P : Prog} {t : List Nat} {p : Nat} (hd : DepsFirst P t)
    (hp : ∀ q ∈ (P p).imports, q ∈ t) : DepsFirst P (t ++ [p]) := by
  intro l₁ x l₂ heq q hq
  rcases List.append_eq_append_iff.1 heq with ⟨a', h1, h2⟩ | ⟨c', h1, h2⟩
  · -- l₁ = t ++ a', [p] = a' ++ x :: l₂
    cases a' with
    | nil =>
      simp at h2
      obtain ⟨hx, _⟩ := h2
      subst hx; simp at h1; subst h1; exact hp q hq
    | cons y ys =>
      simp at h2
  · -- t = l₁ ++ c', x :: l₂ = c' ++ [p]
    cases c' with
    | nil =>
      simp at h2
      obtain ⟨hx, _⟩ := h2
      subst hx; simp at h1; subst h1; exact hp q hq
    | cons y ys =>
      simp at h2
      obtain ⟨hy, h3⟩ := h2
      subst hy
      exact hd l₁ x ys h1 q hq

theorem fold_spec (P : Prog) (fuel bound : Nat)
    (ih : ∀ q s, q < fuel → GInv P s → Done s (q+1) →
      GInv P (initPkg P fuel q s) ∧ Ext s (initPkg P fuel q s) ∧ q ∈ (initPkg P fuel q s).trace) :
    ∀ (l : List Nat) (s : GSt), (∀ q ∈ l, q < fuel ∧ q < bound) → GInv P s → Done s bound →
      let s' := l.foldl (fun st q => initPkg P fuel q st) s
      GInv P s' ∧ Ext s s' ∧ (∀ q ∈ l, q ∈ s'.trace) := by
  intro l
  induction l with
  | nil => intro s _ hi _; exact ⟨hi, Ext.refl s, by simp⟩
  | cons q qs ihl =>
    intro s hl hi hd
    have hq := hl q (by simp)
    obtain ⟨i1, e1, m1⟩ := ih q s hq.1 hi (hd.mono (by omega))
    have hd1 : Done (initPkg P fuel q s) bound := hd.ext e1
    obtain ⟨i2, e2, m2⟩ := ihl (initPkg P fuel q s) (fun x hx => hl x (by simp [hx])) i1 hd1
    refine ⟨i2, e1.trans e2, ?_⟩
    intro x hx
    rcases List.mem_cons.1 hx with h | h
    · subst h; exact e2.pre.subset m1
    · exact m2 x h

theorem initPkg_spec (P : Prog) (hT : Topo P) : ∀ fuel p s, p < fuel → GInv P s → Done s (p+1) →
    GInv P (initPkg P fuel p s) ∧ Ext s (initPkg P fuel p s) ∧ p ∈ (initPkg P fuel p s).trace := by
  intro fuel
  induction fuel with
  | zero => intro p s h; omega
  | succ n ih =>
    intro p s hp hi hd
    unfold initPkg
    by_cases hg : p ∈ s.guard
    · simp only [hg, if_true]
      exact ⟨hi, Ext.refl s, hd p hg (by omega)⟩
    · simp only [hg, if_false]
      let s1 : GSt := { s with guard := p :: s.guard }
      have hi1 : GInv P s1 := ⟨fun x hx => List.mem_cons_of_mem _ (hi.sub x hx), hi.nodup, hi.deps⟩
      have hd1 : Done s1 p := by
        intro g hgm hlt
        rcases List.mem_cons.1 hgm with h | h
        · omega
        · exact hd g h (by omega)
      have hl : ∀ q ∈ (P p).imports, q < n ∧ q < p := fun q hq => by
        have := hT p q hq; omega
      obtain ⟨i2, e2, m2⟩ := fold_spec P n p ih (P p).imports s1 hl hi1 hd1
      have hpg : p ∈ ((P p).imports.foldl (fun st q => initPkg P n q st) s1).guard :=
        e2.gmono p (by simp [s1])
      have hpt : p ∉ ((P p).imports.foldl (fun st q => initPkg P n q st) s1).trace := by
        intro h
        rcases e2.tnew p h with h | h
        · exact hg (hi.sub p h)
        · exact h (by simp [s1])
      refine ⟨⟨?_, ?_, ?_⟩, ⟨?_, ?_, ?_, ?_⟩, by simp⟩
      · intro x hx
        simp only [List.mem_append, List.mem_singleton] at hx
        rcases hx with h | h
        · exact i2.sub x h
        · subst h; exact hpg
      · exact List.nodup_append.2 ⟨i2.nodup, by simp, by
          intro a ha b hb; simp at hb; subst hb; intro hab; subst hab; exact hpt ha⟩
      · exact depsFirst_snoc i2.deps m2
      · exact e2.pre.trans (List.prefix_append _ _)
      · intro g hgm; exact e2.gmono g (List.mem_cons_of_mem _ hgm)
      · intro g hgm
        rcases e2.gnew g hgm with h | h
        · rcases List.mem_cons.1 h with h | h
          · subst h; right; simp
          · exact .inl h
        · right; simp only [List.mem_append]; exact .inl h
      · intro t ht
        simp only [List.mem_append, List.mem_singleton] at ht
        rcases ht with h | h
        · rcases e2.tnew t h with h | h
          · exact .inl h
          · right; intro hc; exact h (List.mem_cons_of_mem _ hc)
        · subst h; exact .inr hg

theorem initOrder_consistent (P : Prog) (hT : Topo P) (main : Nat) :
    Consistent P (initOrder P main) ∧ main ∈ initOrder P main := by
  have hi0 : GInv P {} := ⟨by simp, by simp, by intro l₁ p l₂ h; simp at h⟩
  obtain ⟨i, _, m⟩ := initPkg_spec P hT (main + 1) main {} (by omega) hi0 (by intro q hq; simp at hq)
  exact ⟨⟨i.nodup, i.deps⟩, m⟩


/-! ## Part 2: the guard state machine -/

def isImport (m : Mod) : Ev → Bool
  | .importCall _ n => n == m
  | _ => false

def isLoad (y : Sym) : Ev → Bool
  | .loadSym _ z => z == y
  | _ => false

/-- `PyImport_ImportModule(m)` was executed by some binding package's `init` -/
def Imported (m : Mod) (t : List Ev) : Prop := ∃ p, Ev.importCall p m ∈ t
/-- the symbol variable of `y` was stored by some package's `init` -/
def Loaded (y : Sym) (t : List Ev) : Prop := ∃ p, Ev.loadSym p y ∈ t
/-- the module object exists: it was in `sys.modules` at start-up or its body has run -/
def Live (pre : List Mod) (m : Mod) (t : List Ev) : Prop := m ∈ pre ∨ Ev.modBody m ∈ t

/-- what must have happened before an event -/
def Req (pre : List Mod) (t : List Ev) : Ev → Prop
  | .pyInit => True
  | .importCall _ _ => Ev.pyInit ∈ t
  | .explicitImport _ _ => Ev.pyInit ∈ t
  | .modBody _ => Ev.pyInit ∈ t
  | .loadSym _ y => Ev.pyInit ∈ t ∧ Imported y.1 t ∧ Live pre y.1 t
  | .call _ y => Ev.pyInit ∈ t ∧ Imported y.1 t ∧ Live pre y.1 t ∧ Loaded y t
  | .getVar _ y => Ev.pyInit ∈ t ∧ Imported y.1 t ∧ Live pre y.1 t

/-- every event of the trace is preceded by what it needs -/
def Safe (pre : List Mod) (t : List Ev) : Prop := ∀ l₁ e l₂, t = l₁ ++ e :: l₂ → Req pre l₁ e

theorem split_snoc {α : Type} {t : List α} {e : α} {l₁ : List α} {x : α} {l₂ : List α}
    (h : t ++ [e] = l₁ ++ x :: l₂) :
    (l₁ = t ∧ x = e ∧ l₂ = []) ∨ (∃ l₂', t = l₁ ++ x :: l₂' ∧ l₂ = l₂' ++ [e]) := by
  rcases List.append_eq_append_iff.1 h with ⟨a', h1, h2⟩ | ⟨c', h1, h2⟩
  · cases a' with
    | nil => simp at h2; simp at h1; left; exact ⟨h1, h2.1.symm, h2.2⟩
    | cons y ys => simp at h2
  · cases c' with
    | nil => simp at h2; simp at h1; left; exact ⟨h1.symm, h2.1, h2.2⟩
    | cons y ys =>
      simp at h2
      obtain ⟨hy, h3⟩ := h2
      subst hy
      right; exact ⟨ys, h1, h3⟩

theorem Safe.snoc {pre : List Mod} {t : List Ev} {e : Ev} (hs : Safe pre t) (hr : Req pre t e) :
    Safe pre (t ++ [e]) := by
  intro l₁ x l₂ h
  rcases split_snoc h with ⟨h1, h2, _⟩ | ⟨l₂', h1, _⟩
  · subst h1; subst h2; exact hr
  · exact hs l₁ x l₂' h1

theorem count_isImport_snoc (m : Mod) (t : List Ev) (e : Ev) :
    (t ++ [e]).countP (isImport m) = t.countP (isImport m) + (if isImport m e then 1 else 0) := by
  simp [List.countP_append, List.countP_cons]

theorem count_isLoad_snoc (y : Sym) (t : List Ev) (e : Ev) :
    (t ++ [e]).countP (isLoad y) = t.countP (isLoad y) + (if isLoad y e then 1 else 0) := by
  simp [List.countP_append, List.countP_cons]

theorem count_body_snoc (m : Mod) (t : List Ev) (e : Ev) :
    (t ++ [e]).count (.modBody m) = t.count (.modBody m) + (if e = .modBody m then 1 else 0) := by
  simp [List.count_append, List.count_cons]

/-- the invariant, except for the import counter (which is broken in the middle of a guarded import) -/
structure InvA (pre : List Mod) (s : St) : Prop where
  inited : s.inited = true
  pyinit : Ev.pyInit ∈ s.trace
  preSub : ∀ m ∈ pre, m ∈ s.sysModules
  modImp : ∀ m ∈ s.modVar, Imported m s.trace ∧ m ∈ s.sysModules
  sysBody : ∀ m ∈ s.sysModules, Live pre m s.trace
  symLoad : ∀ y ∈ s.symVar, Loaded y s.trace ∧ y.1 ∈ s.modVar
  bodyCount : ∀ m, s.trace.count (.modBody m) = if m ∈ s.sysModules ∧ m ∉ pre then 1 else 0
  loadCount : ∀ y, s.trace.countP (isLoad y) = if y ∈ s.symVar then 1 else 0
  safe : Safe pre s.trace

structure Inv (pre : List Mod) (s : St) : Prop where
  a : InvA pre s
  impCount : ∀ m, s.trace.countP (isImport m) = if m ∈ s.modVar then 1 else 0

/-- the step did not touch the module variables nor add guarded-import events -/
structure Frame (s s' : St) : Prop where
  modVar : s'.modVar = s.modVar
  impEq : ∀ m, s'.trace.countP (isImport m) = s.trace.countP (isImport m)
  imports : ∀ p m, Ev.importCall p m ∈ s'.trace → Ev.importCall p m ∈ s.trace
  sub : ∀ e ∈ s.trace, e ∈ s'.trace
  symMono : ∀ y ∈ s.symVar, y ∈ s'.symVar

theorem Frame.refl (s : St) : Frame s s := ⟨rfl, fun _ => rfl, fun _ _ h => h, fun _ h => h, fun _ h => h⟩

theorem Frame.trans {a b c : St} (h1 : Frame a b) (h2 : Frame b c) : Frame a c :=
  ⟨h2.modVar.trans h1.modVar, fun m => (h2.impEq m).trans (h1.impEq m),
   fun p m h => h1.imports p m (h2.imports p m h),
   fun e h => h2.sub e (h1.sub e h), fun y h => h2.symMono y (h1.symMono y h)⟩

theorem Inv.frame {pre : List Mod} {s s' : St} (hi : Inv pre s) (ha : InvA pre s') (hf : Frame s s') :
    Inv pre s' :=
  ⟨ha, fun m => by rw [hf.impEq m, hf.modVar]; exact hi.impCount m⟩

theorem Imported.mono {m : Mod} {t t' : List Ev} (h : Imported m t) (hs : ∀ e ∈ t, e ∈ t') : Imported m t' :=
  let ⟨p, hp⟩ := h; ⟨p, hs _ hp⟩
theorem Loaded.mono {y : Sym} {t t' : List Ev} (h : Loaded y t) (hs : ∀ e ∈ t, e ∈ t') : Loaded y t' :=
  let ⟨p, hp⟩ := h; ⟨p, hs _ hp⟩
theorem Live.mono {pre : List Mod} {m : Mod} {t t' : List Ev} (h : Live pre m t) (hs : ∀ e ∈ t, e ∈ t') :
    Live pre m t' := h.imp id (hs _)

/-- appending an event that is neither a symbol load nor a module body -/
theorem InvA.emit {pre : List Mod} {s : St} (hi : InvA pre s) (e : Ev)
    (hL : ∀ y, isLoad y e = false) (hB : ∀ m, e ≠ .modBody m)
    (hr : Req pre s.trace e) : InvA pre (s.emit e) := by
  have hsub : ∀ x ∈ s.trace, x ∈ (s.emit e).trace := fun x hx => by simp [St.emit, hx]
  refine ⟨hi.inited, hsub _ hi.pyinit, hi.preSub, ?_, ?_, ?_, ?_, ?_, hi.safe.snoc hr⟩
  · intro m hm
    exact ⟨(hi.modImp m hm).1.mono hsub, (hi.modImp m hm).2⟩
  · intro m hm
    exact (hi.sysBody m hm).mono hsub
  · intro y hy
    exact ⟨(hi.symLoad y hy).1.mono hsub, (hi.symLoad y hy).2⟩
  · intro m
    have := hi.bodyCount m
    simp only [St.emit, count_body_snoc, hB m, if_false, Nat.add_zero]
    exact this
  · intro y
    have := hi.loadCount y
    simp only [St.emit, count_isLoad_snoc, hL y, Bool.false_eq_true, if_false, Nat.add_zero]
    exact this

theorem Frame.emit (s : St) (e : Ev) (hI : ∀ m, isImport m e = false) : Frame s (s.emit e) := by
  refine ⟨rfl, ?_, ?_, fun x hx => by simp [St.emit, hx], fun _ h => h⟩
  · intro m
    simp only [St.emit, count_isImport_snoc, hI m, Bool.false_eq_true, if_false, Nat.add_zero]
  · intro p m h
    simp only [St.emit, List.mem_append, List.mem_singleton] at h
    rcases h with h | h
    · exact h
    · subst h; simp [isImport] at hI

/-- CPython runs the body of a module that is not in `sys.modules` yet -/
theorem InvA.body {pre : List Mod} {s : St} (hi : InvA pre s) (m : Mod) (hm : m ∉ s.sysModules) :
    InvA pre { (s.emit (.modBody m)) with sysModules := m :: s.sysModules } := by
  have hmp : m ∉ pre := fun h => hm (hi.preSub m h)
  have hsub : ∀ x ∈ s.trace, x ∈ (s.emit (.modBody m)).trace := fun x hx => by simp [St.emit, hx]
  refine ⟨hi.inited, hsub _ hi.pyinit, ?_, ?_, ?_, ?_, ?_, ?_, hi.safe.snoc (by exact hi.pyinit)⟩
  · intro n hn; exact List.mem_cons_of_mem _ (hi.preSub n hn)
  · intro n hn
    exact ⟨(hi.modImp n hn).1.mono hsub, List.mem_cons_of_mem _ (hi.modImp n hn).2⟩
  · intro n hn
    rcases List.mem_cons.1 hn with h | h
    · subst h; right; simp [St.emit]
    · exact (hi.sysBody n h).mono hsub
  · intro y hy
    exact ⟨(hi.symLoad y hy).1.mono hsub, (hi.symLoad y hy).2⟩
  · intro n
    have := hi.bodyCount n
    simp only [St.emit, count_body_snoc, List.mem_cons]
    by_cases hnm : n = m
    · subst hnm
      simp only [hm, false_and, if_false] at this
      simp [this, hmp]
    · have h1 : ¬ (Ev.modBody m = Ev.modBody n) := by intro h; injection h with h; exact hnm h.symm
      simp only [h1, if_false, Nat.add_zero, hnm, false_or]
      exact this
  · intro y
    have := hi.loadCount y
    simp only [St.emit, count_isLoad_snoc, isLoad, Bool.false_eq_true, if_false, Nat.add_zero]
    exact this

theorem Frame.body (s : St) (m : Mod) :
    Frame s { (s.emit (.modBody m)) with sysModules := m :: s.sysModules } := by
  refine ⟨rfl, ?_, ?_, fun x hx => by simp [St.emit, hx], fun _ h => h⟩
  · intro n
    simp only [St.emit, count_isImport_snoc, isImport, Bool.false_eq_true, if_false, Nat.add_zero]
  · intro p n h
    simp only [St.emit, List.mem_append, List.mem_singleton] at h
    rcases h with h | h
    · exact h
    · simp at h

/-- `PyImport_ImportModule` on an initialised interpreter -/
theorem cpyImport_spec {pre : List Mod} (imp : Mod → Bool) (m : Mod) {s : St} (hi : InvA pre s) :
    ∃ s' b, cpyImport imp m s = .ok (s', b) ∧ InvA pre s' ∧ Frame s s' ∧ s'.symVar = s.symVar ∧
      (b = true → m ∈ s'.sysModules) ∧ (imp m = true → b = true) := by
  unfold cpyImport
  simp only [hi.inited, Bool.not_true, Bool.false_eq_true, if_false]
  by_cases hm : m ∈ s.sysModules
  · simp only [hm, if_true]
    exact ⟨s, true, rfl, hi, Frame.refl s, rfl, fun _ => hm, fun _ => rfl⟩
  · simp only [hm, if_false]
    by_cases hp : imp m = true
    · simp only [hp, if_true]
      exact ⟨_, true, rfl, hi.body m hm, Frame.body s m, rfl, fun _ => by simp, fun _ => rfl⟩
    · simp only [hp]
      exact ⟨s, false, rfl, hi, Frame.refl s, rfl, fun h => by simp at h, fun h => by simp_all⟩


theorem loadSym_spec {pre : List Mod} (p : Nat) {s : St} (y : Sym) (hi : Inv pre s) (hm : y.1 ∈ s.modVar) :
    ∃ s', loadSym p s y = .ok s' ∧ Inv pre s' ∧ Frame s s' ∧ y ∈ s'.symVar := by
  unfold loadSym
  by_cases hy : y ∈ s.symVar
  · simp only [hy, if_true]
    exact ⟨s, rfl, hi, Frame.refl s, hy⟩
  · simp only [hy, if_false, hm, if_true]
    have hsub : ∀ x ∈ s.trace, x ∈ (s.emit (.loadSym p y)).trace := fun x hx => by simp [St.emit, hx]
    have hfr : Frame s { (s.emit (.loadSym p y)) with symVar := y :: s.symVar } := by
      refine ⟨rfl, ?_, ?_, hsub, fun _ h => List.mem_cons_of_mem _ h⟩
      · intro n
        simp only [St.emit, count_isImport_snoc, isImport, Bool.false_eq_true, if_false, Nat.add_zero]
      · intro q n h
        simp only [St.emit, List.mem_append, List.mem_singleton] at h
        rcases h with h | h
        · exact h
        · simp at h
    have ha := hi.a
    have hreq : Req pre s.trace (.loadSym p y) :=
      ⟨ha.pyinit, (ha.modImp _ hm).1, ha.sysBody _ (ha.modImp _ hm).2⟩
    refine ⟨_, rfl, hi.frame ⟨ha.inited, hsub _ ha.pyinit, ha.preSub, ?_, ?_, ?_, ?_, ?_, ha.safe.snoc hreq⟩ hfr,
      hfr, by simp⟩
    · intro n hn
      exact ⟨(ha.modImp n hn).1.mono hsub, (ha.modImp n hn).2⟩
    · intro n hn
      exact (ha.sysBody n hn).mono hsub
    · intro z hz
      rcases List.mem_cons.1 hz with h | h
      · subst h; exact ⟨⟨p, by simp [St.emit]⟩, hm⟩
      · exact ⟨(ha.symLoad z h).1.mono hsub, (ha.symLoad z h).2⟩
    · intro n
      have := ha.bodyCount n
      simp only [St.emit, count_body_snoc]
      have h1 : ¬ (Ev.loadSym p y = Ev.modBody n) := by intro h; cases h
      simp only [h1, if_false, Nat.add_zero]
      exact this
    · intro z
      have := ha.loadCount z
      simp only [St.emit, count_isLoad_snoc, isLoad, List.mem_cons]
      by_cases hzy : z = y
      · subst hzy
        simp only [hy, if_false] at this
        simp [this]
      · have h2 : (y == z) = false := by simp; exact fun h => hzy h.symm
        simp only [h2, Bool.false_eq_true, if_false, Nat.add_zero, hzy, false_or]
        exact this

theorem doUse_spec {pre : List Mod} (imp : Mod → Bool) (p : Nat) {s : St} (u : Use) (hi : Inv pre s)
    (hu : match u with
      | .call y => y ∈ s.symVar
      | .var y => y.1 ∈ s.modVar
      | .explicitImport _ => True) :
    ∃ s', doUse imp p s u = .ok s' ∧ Inv pre s' ∧ Frame s s' := by
  have ha := hi.a
  cases u with
  | call y =>
    simp only at hu
    simp only [doUse, hu, if_true]
    have hm := (ha.symLoad y hu).2
    have hreq : Req pre s.trace (.call p y) :=
      ⟨ha.pyinit, (ha.modImp _ hm).1, ha.sysBody _ (ha.modImp _ hm).2, (ha.symLoad y hu).1⟩
    have hf := Frame.emit s (.call p y) (by intro m; rfl)
    exact ⟨_, rfl, hi.frame (ha.emit _ (by intro z; rfl) (by intro n h; cases h) hreq) hf, hf⟩
  | var y =>
    simp only at hu
    simp only [doUse, hu, if_true]
    have hreq : Req pre s.trace (.getVar p y) :=
      ⟨ha.pyinit, (ha.modImp _ hu).1, ha.sysBody _ (ha.modImp _ hu).2⟩
    have hf := Frame.emit s (.getVar p y) (by intro m; rfl)
    exact ⟨_, rfl, hi.frame (ha.emit _ (by intro z; rfl) (by intro n h; cases h) hreq) hf, hf⟩
  | explicitImport m =>
    have hf := Frame.emit s (.explicitImport p m) (by intro m; rfl)
    have ha1 := ha.emit (.explicitImport p m) (by intro z; rfl) (by intro n h; cases h) (by exact ha.pyinit)
    obtain ⟨s', b, he, ha2, hf2, _, _, _⟩ := cpyImport_spec imp m ha1
    simp only [doUse, he]
    exact ⟨s', rfl, hi.frame ha2 (hf.trans hf2), hf.trans hf2⟩


theorem guardedImport_spec {pre : List Mod} (imp : Mod → Bool) (p : Nat) (m : Mod) {s : St}
    (hi : Inv pre s) (himp : imp m = true) :
    ∃ s', guardedImport imp p m s = .ok s' ∧ Inv pre s' ∧
      (∀ n, n ∈ s'.modVar ↔ n = m ∨ n ∈ s.modVar) ∧
      (∀ q n, Ev.importCall q n ∈ s'.trace → Ev.importCall q n ∈ s.trace ∨ (q = p ∧ n = m ∧ m ∉ s.modVar)) ∧
      (m ∉ s.modVar → Ev.importCall p m ∈ s'.trace) ∧
      (∀ e ∈ s.trace, e ∈ s'.trace) ∧ (∀ y ∈ s.symVar, y ∈ s'.symVar) := by
  unfold guardedImport
  by_cases hm : m ∈ s.modVar
  · simp only [hm, if_true]
    exact ⟨s, rfl, hi, fun n => ⟨fun h => .inr h, fun h => h.elim (fun h => h ▸ hm) id⟩,
      fun q n h => .inl h, fun h => absurd trivial h, fun _ h => h, fun _ h => h⟩
  · simp only [hm, if_false]
    have ha := hi.a
    have ha1 := ha.emit (.importCall p m) (by intro z; rfl) (by intro n h; cases h) (by exact ha.pyinit)
    obtain ⟨s2, b, he, ha2, hf2, hsym, hb1, hb2⟩ := cpyImport_spec imp m ha1
    have hb : b = true := hb2 himp
    subst hb
    simp only [he]
    have hmv : s2.modVar = s.modVar := hf2.modVar
    have hin : Ev.importCall p m ∈ s2.trace := hf2.sub _ (by simp [St.emit])
    have hsub : ∀ e ∈ s.trace, e ∈ s2.trace := fun e h => hf2.sub e (by simp [St.emit, h])
    refine ⟨_, rfl, ⟨⟨ha2.inited, ha2.pyinit, ha2.preSub, ?_, ha2.sysBody, ?_, ha2.bodyCount, ha2.loadCount, ha2.safe⟩, ?_⟩,
      ?_, ?_, fun _ => hin, hsub, fun y h => by rw [hsym]; exact h⟩
    · intro n hn
      rcases List.mem_cons.1 hn with h | h
      · subst h; exact ⟨⟨p, hin⟩, hb1 rfl⟩
      · exact ha2.modImp n h
    · intro y hy
      exact ⟨(ha2.symLoad y hy).1, List.mem_cons_of_mem _ (ha2.symLoad y hy).2⟩
    · intro n
      have h0 := hi.impCount n
      have h1 := hf2.impEq n
      simp only [St.emit, count_isImport_snoc, isImport] at h1
      simp only [h1, h0, hmv, List.mem_cons]
      by_cases hnm : n = m
      · subst hnm; simp [hm]
      · have : (m == n) = false := by simp; exact fun h => hnm h.symm
        simp [this, hnm]
    · intro n
      simp only [List.mem_cons, hmv]
    · intro q n h
      have := hf2.imports q n h
      simp only [St.emit, List.mem_append, List.mem_singleton] at this
      rcases this with h | h
      · exact .inl h
      · injection h with h1 h2
        exact .inr ⟨h1, h2, not_false⟩


/-- the requirement `doUse` checks -/
def Usable (s : St) : Use → Prop
  | .call y => y ∈ s.symVar
  | .var y => y.1 ∈ s.modVar
  | .explicitImport _ => True

theorem Usable.frame {s s' : St} {u : Use} (h : Usable s u) (hf : Frame s s') : Usable s' u := by
  cases u with
  | call y => exact hf.symMono y h
  | var y => simp only [Usable] at *; rw [hf.modVar]; exact h
  | explicitImport m => trivial

theorem loadSyms_spec {pre : List Mod} (p : Nat) : ∀ (l : List Sym) {s : St}, Inv pre s →
    (∀ y ∈ l, y.1 ∈ s.modVar) →
    ∃ s', l.foldlM (loadSym p) s = .ok s' ∧ Inv pre s' ∧ Frame s s' ∧ ∀ y ∈ l, y ∈ s'.symVar := by
  intro l
  induction l with
  | nil => intro s hi _; exact ⟨s, rfl, hi, Frame.refl s, by simp⟩
  | cons y ys ih =>
    intro s hi hm
    obtain ⟨s1, h1, i1, f1, m1⟩ := loadSym_spec p y hi (hm y (by simp))
    obtain ⟨s2, h2, i2, f2, m2⟩ := ih i1 (fun z hz => by rw [f1.modVar]; exact hm z (by simp [hz]))
    refine ⟨s2, ?_, i2, f1.trans f2, ?_⟩
    · simp only [List.foldlM_cons, h1]; exact h2
    · intro z hz
      rcases List.mem_cons.1 hz with h | h
      · subst h; exact f2.symMono _ m1
      · exact m2 z h

theorem uses_spec {pre : List Mod} (imp : Mod → Bool) (p : Nat) : ∀ (l : List Use) {s : St}, Inv pre s →
    (∀ u ∈ l, Usable s u) →
    ∃ s', l.foldlM (doUse imp p) s = .ok s' ∧ Inv pre s' ∧ Frame s s' := by
  intro l
  induction l with
  | nil => intro s hi _; exact ⟨s, rfl, hi, Frame.refl s⟩
  | cons u us ih =>
    intro s hi hu
    have hu0 := hu u (by simp)
    obtain ⟨s1, h1, i1, f1⟩ := doUse_spec imp p u hi (by cases u <;> exact hu0)
    obtain ⟨s2, h2, i2, f2⟩ := ih i1 (fun v hv => (hu v (by simp [hv])).frame f1)
    refine ⟨s2, ?_, i2, f1.trans f2⟩
    simp only [List.foldlM_cons, h1]; exact h2

/-- invariant relative to the list of packages whose `init` body has finished -/
structure DInv (P : Prog) (pre : List Mod) (done : List Nat) (s : St) : Prop where
  inv : Inv pre s
  modDone : ∀ m, m ∈ s.modVar ↔ ∃ q ∈ done, (P q).binds = some m
  impFirst : ∀ p m, Ev.importCall p m ∈ s.trace →
    ∃ l₁ l₂, done = l₁ ++ p :: l₂ ∧ (P p).binds = some m ∧ ∀ q ∈ l₁, (P q).binds ≠ some m
  firstImp : ∀ l₁ p l₂ m, done = l₁ ++ p :: l₂ → (P p).binds = some m →
    (∀ q ∈ l₁, (P q).binds ≠ some m) → Ev.importCall p m ∈ s.trace
  symDone : ∀ q ∈ done, (P q).binds = none → ∀ y ∈ (P q).pyobjs, y ∈ s.symVar

theorem DInv.frame {P : Prog} {pre : List Mod} {done : List Nat} {s s' : St}
    (hd : DInv P pre done s) (hi : Inv pre s') (hf : Frame s s') : DInv P pre done s' :=
  ⟨hi, fun m => by rw [hf.modVar]; exact hd.modDone m,
   fun p m h => hd.impFirst p m (hf.imports p m h),
   fun l₁ p l₂ m h1 h2 h3 => hf.sub _ (hd.firstImp l₁ p l₂ m h1 h2 h3),
   fun q hq hb y hy => hf.symMono y (hd.symDone q hq hb y hy)⟩

theorem scoped_mod {P : Prog} {p : Nat} (h : scopedPkg P p = true) {u : Use} (hu : u ∈ (P p).allUses)
    {m : Mod} (hm : u.mod? = some m) (hb : (P p).binds = none) :
    ∃ q ∈ (P p).imports, (P q).binds = some m := by
  unfold scopedPkg at h
  have := List.all_eq_true.1 h u hu
  simp only [hm, hb, Bool.or_eq_true] at this
  rcases this with h | h
  · simp at h
  · obtain ⟨q, hq, hb⟩ := List.any_eq_true.1 h
    exact ⟨q, hq, by simpa using hb⟩

theorem mem_pyobjs {k : Pkg} {y : Sym} : y ∈ k.pyobjs ↔ Use.call y ∈ k.allUses := by
  unfold Pkg.pyobjs
  simp only [List.mem_filterMap]
  constructor
  · rintro ⟨u, hu, h⟩
    cases u <;> simp [Use.callSym] at h
    subst h; exact hu
  · intro h; exact ⟨_, h, rfl⟩

/-- what is known about a package that is already initialised -/
theorem usable_of_done {P : Prog} {pre : List Mod} {done : List Nat} {s : St} (hd : DInv P pre done s)
    {p : Nat} (hs : scopedPkg P p = true) (hnb : (P p).binds = none) (himp : ∀ q ∈ (P p).imports, q ∈ done)
    (hsym : ∀ y ∈ (P p).pyobjs, y ∈ s.symVar) {u : Use} (hu : u ∈ (P p).allUses) : Usable s u := by
  cases u with
  | call y => exact hsym y (mem_pyobjs.2 hu)
  | var y =>
    obtain ⟨q, hq, hb⟩ := scoped_mod hs hu (m := y.1) rfl hnb
    exact (hd.modDone y.1).2 ⟨q, himp q hq, hb⟩
  | explicitImport m => trivial

theorem initBody_spec {P : Prog} {pre : List Mod} (imp : Mod → Bool) {done : List Nat} {s : St} (p : Nat)
    (hd : DInv P pre done s) (himp : ∀ q ∈ (P p).imports, q ∈ done)
    (hs : scopedPkg P p = true) (hdo : declOnlyPkg P p = true) (hbi : boundImportable P imp p = true)
    (hlo : loadsOkPkg P p = true) :
    ∃ s', initBody P imp s p = .ok s' ∧ DInv P pre (done ++ [p]) s' := by

  unfold initBody
  cases hb : (P p).binds with
  | none =>
    simp only
    have hlo' : (∀ y ∈ (P p).loads, y ∈ (P p).pyobjs) ∧ (∀ y ∈ (P p).pyobjs, y ∈ (P p).loads) := by
      unfold loadsOkPkg at hlo
      simp only [hb, Option.isSome_none, Bool.false_eq_true, if_false, Bool.and_eq_true, List.all_eq_true,
        List.contains_iff_mem] at hlo
      exact hlo
    have hl1 := hlo'.1
    have hl2 := hlo'.2
    have hm : ∀ y ∈ (P p).loads, y.1 ∈ s.modVar := fun y hy => by
      obtain ⟨q, hq, hbq⟩ := scoped_mod hs (mem_pyobjs.1 (hl1 y hy)) (m := y.1) rfl hb
      exact (hd.modDone y.1).2 ⟨q, himp q hq, hbq⟩
    obtain ⟨s1, h1, i1, f1, m0⟩ := loadSyms_spec p (P p).loads hd.inv hm
    have m1 : ∀ y ∈ (P p).pyobjs, y ∈ s1.symVar := fun y hy => m0 y (hl2 y hy)
    have hd1 := hd.frame i1 f1
    obtain ⟨s2, h2, i2, f2⟩ := uses_spec imp p (P p).initUses i1
      (fun u hu => usable_of_done hd1 hs hb himp m1 (by simp [Pkg.allUses, hu]))
    have hd2 := hd1.frame i2 f2
    simp only [h1, h2]
    refine ⟨s2, rfl, i2, ?_, ?_, ?_, ?_⟩
    · intro m
      rw [hd2.modDone m]
      constructor
      · rintro ⟨q, hq, h⟩; exact ⟨q, by simp [hq], h⟩
      · rintro ⟨q, hq, h⟩
        simp only [List.mem_append, List.mem_singleton] at hq
        rcases hq with hq | hq
        · exact ⟨q, hq, h⟩
        · subst hq; rw [hb] at h; cases h
    · intro q m h
      obtain ⟨l₁, l₂, e, h1, h2⟩ := hd2.impFirst q m h
      exact ⟨l₁, l₂ ++ [p], by simp [e], h1, h2⟩
    · intro l₁ x l₂ m e hx hno
      rcases split_snoc e with ⟨_, h2, _⟩ | ⟨l₂', h1, _⟩
      · subst h2; rw [hb] at hx; cases hx
      · exact hd2.firstImp l₁ x l₂' m h1 hx hno
    · intro q hq hbq y hy
      simp only [List.mem_append, List.mem_singleton] at hq
      rcases hq with hq | hq
      · exact hd2.symDone q hq hbq y hy
      · subst hq; exact f2.symMono y (m1 y hy)
  | some m =>
    simp only
    have hemp : (P p).initUses = [] := by
      unfold declOnlyPkg at hdo
      simp only [hb, Option.isNone_some, Bool.false_or, Bool.and_eq_true, List.isEmpty_iff] at hdo
      have := hdo.1
      simp only [Pkg.allUses, List.append_eq_nil_iff] at this
      exact this.1
    have himpm : imp m = true := by
      unfold boundImportable at hbi; simpa [hb] using hbi
    simp only [hemp, List.foldlM_nil, pure, Except.pure]
    obtain ⟨s1, h1, i1, hmv, hev, hfi, hsub, hsym⟩ := guardedImport_spec imp p m hd.inv himpm
    refine ⟨s1, h1, i1, ?_, ?_, ?_, ?_⟩
    · intro n
      rw [hmv n, hd.modDone n]
      constructor
      · rintro (h | ⟨q, hq, h⟩)
        · subst h; exact ⟨p, by simp, hb⟩
        · exact ⟨q, by simp [hq], h⟩
      · rintro ⟨q, hq, h⟩
        simp only [List.mem_append, List.mem_singleton] at hq
        rcases hq with hq | hq
        · exact .inr ⟨q, hq, h⟩
        · subst hq; rw [hb] at h; injection h with h; exact .inl h.symm
    · intro q n h
      rcases hev q n h with h | ⟨hq, hn, hnm⟩
      · obtain ⟨l₁, l₂, e, h1, h2⟩ := hd.impFirst q n h
        exact ⟨l₁, l₂ ++ [p], by simp [e], h1, h2⟩
      · subst hq; subst hn
        refine ⟨done, [], rfl, hb, ?_⟩
        intro x hx hbx
        exact hnm ((hd.modDone n).2 ⟨x, hx, hbx⟩)
    · intro l₁ x l₂ n e hx hno
      rcases split_snoc e with ⟨h1, h2, _⟩ | ⟨l₂', h1, _⟩
      · subst h1; subst h2
        rw [hb] at hx; injection hx with hx; subst hx
        apply hfi
        intro hmem
        obtain ⟨q, hq, hbq⟩ := (hd.modDone m).1 hmem
        exact hno q hq hbq
      · exact hsub _ (hd.firstImp l₁ x l₂' n h1 hx hno)
    · intro q hq hbq y hy
      simp only [List.mem_append, List.mem_singleton] at hq
      rcases hq with hq | hq
      · exact hsym y (hd.symDone q hq hbq y hy)
      · subst hq; rw [hb] at hbq; cases hbq


/-- hypotheses on the packages of a program, in Prop form -/
structure PkgOk (P : Prog) (imp : Mod → Bool) (p : Nat) : Prop where
  isScoped : scopedPkg P p = true
  isDeclOnly : declOnlyPkg P p = true
  isImportable : boundImportable P imp p = true
  isLoadsOk : loadsOkPkg P p = true

theorem inits_spec {P : Prog} {pre : List Mod} (imp : Mod → Bool) : ∀ (l₂ done : List Nat) (s : St),
    DInv P pre done s → DepsFirst P (done ++ l₂) → (∀ p ∈ l₂, PkgOk P imp p) →
    ∃ s', l₂.foldlM (initBody P imp) s = .ok s' ∧ DInv P pre (done ++ l₂) s' := by
  intro l₂
  induction l₂ with
  | nil => intro done s hd _ _; exact ⟨s, rfl, by simpa using hd⟩
  | cons p rest ih =>
    intro done s hd hdf hok
    have hp := hok p (by simp)
    obtain ⟨s1, h1, d1⟩ := initBody_spec imp p hd (hdf done p rest rfl) hp.isScoped hp.isDeclOnly hp.isImportable hp.isLoadsOk
    obtain ⟨s2, h2, d2⟩ := ih (done ++ [p]) s1 d1 (by simpa using hdf) (fun q hq => hok q (by simp [hq]))
    refine ⟨s2, ?_, by simpa using d2⟩
    simp only [List.foldlM_cons, h1]; exact h2

theorem imports_in_order {P : Prog} {order : List Nat} (hdf : DepsFirst P order) {p : Nat} (hp : p ∈ order) :
    ∀ q ∈ (P p).imports, q ∈ order := by
  intro q hq
  obtain ⟨l₁, l₂, e⟩ := List.append_of_mem hp
  have := hdf l₁ p l₂ e q hq
  rw [e]; simp [this]

theorem calls_spec {P : Prog} {pre : List Mod} (imp : Mod → Bool) {order : List Nat}
    (hdf : DepsFirst P order) (hok : ∀ p ∈ order, PkgOk P imp p) :
    ∀ (calls : List (Nat × Use)) (s : St), DInv P pre order s → callsOk P order calls = true →
    ∃ s', calls.foldlM (fun s c => doUse imp c.1 s c.2) s = .ok s' ∧ DInv P pre order s' := by
  intro calls
  induction calls with
  | nil => intro s hd _; exact ⟨s, rfl, hd⟩
  | cons c cs ih =>
    intro s hd hc
    simp only [callsOk, List.all_cons, Bool.and_eq_true, List.contains_iff_mem] at hc
    obtain ⟨⟨hc1, hc2⟩, hrest⟩ := hc
    have hpk := hok c.1 hc1
    have hnb : (P c.1).binds = none := by
      cases hb : (P c.1).binds with
      | none => rfl
      | some m =>
        have hdo := hpk.isDeclOnly
        unfold declOnlyPkg at hdo
        simp only [hb, Option.isNone_some, Bool.false_or, Bool.and_eq_true, List.isEmpty_iff] at hdo
        have h0 := hdo.1
        simp only [Pkg.allUses, List.append_eq_nil_iff] at h0
        rw [h0.2] at hc2; cases hc2
    have hsym : ∀ y ∈ (P c.1).pyobjs, y ∈ s.symVar := fun y hy => hd.symDone c.1 hc1 hnb y hy
    have hu : Usable s c.2 :=
      usable_of_done hd hpk.isScoped hnb (imports_in_order hdf hc1) hsym (by simp [Pkg.allUses, hc2])
    obtain ⟨s1, h1, i1, f1⟩ := doUse_spec imp c.1 c.2 hd.inv (by cases h : c.2 <;> simp only [h, Usable] at hu ⊢ <;> exact hu)
    obtain ⟨s2, h2, d2⟩ := ih s1 (hd.frame i1 f1) (by simpa [callsOk] using hrest)
    refine ⟨s2, ?_, d2⟩
    simp only [List.foldlM_cons, h1]; exact h2

/-- Everything the guard guarantees, in one statement about the final state. -/
theorem run_spec {P : Prog} (imp : Mod → Bool) (pre : List Mod) (order : List Nat) (calls : List (Nat × Use))
    (hc : Consistent P order) (hok : ∀ p ∈ order, PkgOk P imp p) (hpy : needPyInit P order = true)
    (hcalls : callsOk P order calls = true) :
    ∃ s, run P imp pre order calls = .ok s ∧ DInv P pre order s := by
  unfold run
  simp only [hpy, if_true]
  have h0 : DInv P pre [] { inited := true, sysModules := pre, trace := [Ev.pyInit] } := by
    refine ⟨⟨⟨rfl, by simp, fun m h => h, by simp, fun m h => .inl h, by simp, ?_, by simp [isLoad], ?_⟩, by simp [isImport]⟩,
      by simp, ?_, ?_, by simp⟩
    · intro m
      by_cases h : m ∈ pre <;> simp [h]
    · intro l₁ e l₂ h
      cases l₁ with
      | nil => simp at h; obtain ⟨h, _⟩ := h; subst h; trivial
      | cons a l => simp at h
    · intro p m h; simp at h
    · intro l₁ p l₂ m h; simp at h
  obtain ⟨s1, h1, d1⟩ := inits_spec imp order [] _ h0 (by rw [List.nil_append]; exact hc.2) hok
  simp only [h1]
  simp only [List.nil_append] at d1
  exact calls_spec imp hc.2 hok calls s1 d1 hcalls


/-! ### decidable forms of the hypotheses -/

theorem consistentB_sound (P : Prog) : ∀ (l done : List Nat), consistentB P done l = true → done.Nodup →
    (done ++ l).Nodup ∧ ∀ l₁ p l₂, l = l₁ ++ p :: l₂ → ∀ q ∈ (P p).imports, q ∈ done ++ l₁ := by
  intro l
  induction l with
  | nil => intro done _ hn; exact ⟨by simpa using hn, by intro l₁ p l₂ h; simp at h⟩
  | cons a t ih =>
    intro done h hn
    simp only [consistentB, Bool.and_eq_true, Bool.not_eq_true', List.all_eq_true, List.contains_iff_mem] at h
    obtain ⟨⟨h1, h2⟩, h3⟩ := h
    have h1' : a ∉ done := by
      intro hc
      have : done.contains a = true := List.contains_iff_mem.2 hc
      rw [this] at h1; cases h1
    have hn' : (done ++ [a]).Nodup := List.nodup_append.2 ⟨hn, by simp, by
      intro x hx y hy; simp at hy; subst hy; intro hxy; subst hxy; exact h1' hx⟩
    obtain ⟨n2, d2⟩ := ih (done ++ [a]) h3 hn'
    refine ⟨by simpa using n2, ?_⟩
    intro l₁ p l₂ e q hq
    cases l₁ with
    | nil =>
      simp at e
      obtain ⟨e1, _⟩ := e
      subst e1
      simpa using h2 q hq
    | cons b l₁' =>
      simp at e
      obtain ⟨e1, e2⟩ := e
      subst e1
      have := d2 l₁' p l₂ e2 q hq
      simpa using this

theorem consistent_of_B {P : Prog} {order : List Nat} (h : consistentB P [] order = true) : Consistent P order := by
  obtain ⟨h1, h2⟩ := consistentB_sound P order [] h (by simp)
  exact ⟨by simpa using h1, fun l₁ p l₂ e q hq => by simpa using h2 l₁ p l₂ e q hq⟩

/-- all hypotheses of the guard theorem as one decidable check -/
def checkB (P : Prog) (imp : Mod → Bool) (order : List Nat) (calls : List (Nat × Use)) : Bool :=
  consistentB P [] order &&
  order.all (fun p => scopedPkg P p && declOnlyPkg P p && boundImportable P imp p && loadsOkPkg P p) &&
  needPyInit P order && callsOk P order calls

theorem pkgOk_of_B {P : Prog} {imp : Mod → Bool} {order : List Nat}
    (h : order.all (fun p => scopedPkg P p && declOnlyPkg P p && boundImportable P imp p && loadsOkPkg P p) = true) :
    ∀ p ∈ order, PkgOk P imp p := by
  intro p hp
  have := List.all_eq_true.1 h p hp
  simp only [Bool.and_eq_true] at this
  exact ⟨this.1.1.1, this.1.1.2, this.1.2, this.2⟩

/-! ## Part 3: argument marshalling and values -/

theorem takeWhile_some_null {α : Type} (l : List α) (r : List (Option α)) :
    (l.map some ++ none :: r).takeWhile Option.isSome = l.map some := by
  induction l with
  | nil => simp [List.takeWhile]
  | cons a t ih => simp [List.takeWhile, ih]

theorem filterMap_id_map_some {α : Type} (l : List α) : (l.map some).filterMap id = l := by
  induction l with
  | nil => rfl
  | cons a t ih => simp [List.filterMap, ih]

theorem received_objArgs {α : Type} (fn : α) (args : List α) :
    (CCall.objArgs fn (args.map some ++ [none])).received = args := by
  simp only [CCall.received, takeWhile_some_null, filterMap_id_map_some]

theorem set_mid {γ : Type} (l : List γ) (x y : γ) (r : List γ) : (l ++ y :: r).set l.length x = l ++ x :: r := by
  induction l with
  | nil => rfl
  | cons a t ih => simp [List.set, ih]

theorem buildSeq_aux {α β : Type} (conv : α → β) : ∀ (rest : List α) (done : List β),
    (rest.zipIdx done.length).foldl (fun slots (ai : α × Nat) => slots.set ai.2 (some (conv ai.1)))
      (done.map some ++ List.replicate rest.length none) = (done ++ rest.map conv).map some := by
  intro rest
  induction rest with
  | nil => intro done; simp
  | cons a t ih =>
    intro done
    simp only [List.zipIdx_cons, List.foldl_cons, List.length_cons, List.replicate_succ]
    have h1 : (done.map some ++ none :: List.replicate t.length none).set done.length (some (conv a))
        = (done ++ [conv a]).map some ++ List.replicate t.length none := by
      have := set_mid (done.map some) (some (conv a)) none (List.replicate t.length none)
      simp only [List.length_map] at this
      rw [this]; simp
    rw [h1]
    have := ih (done ++ [conv a])
    simp only [List.length_append, List.length_singleton] at this
    rw [this]; simp

theorem buildSeq_eq {α β : Type} (conv : α → β) (args : List α) :
    buildSeq conv args = args.map (fun a => some (conv a)) := by
  have := buildSeq_aux conv args []
  simp only [List.length_nil, List.map_nil, List.nil_append] at this
  unfold buildSeq
  rw [this]; simp

end LlgoVerif.PyGuard
