"""C08 — type size, alignment and field offsets agree wherever they are computed.

Lean: LlgoVerif/Model/Layout.lean ((a) goSizes, (b) llvmLayout, (c) abiTable, cLayout), Lemmas/Layout.lean,
Props/C08.lean.  Tie: hand-written model + correspondence.  harness/c08 (built against the working tree with
-tags llvm14,verif and two add-only overlay files on package ssa) queries the three REAL computations in-process for
generated type terms on amd64, arm64, 386, arm and wasm:
  (a) prog.TypeSizes(std).Sizeof/Alignof/Offsetsof      (std = types.SizesFor("gc", arch) or the override that
                                                         internal/build/build.go installs — extracted from its source),
  (b) prog.SizeOf/OffsetOf/ABI alignment of prog.Type(t, InGo),
  (c) ssa/abi Builder.Size/Align/FieldAlign on the raw type, offsets as abitype.go takes them, map bucket sizes.
Specification (judged on the real numbers, independent of the model): (a) = (b) = (c); for C-compatible types on
amd64 they also equal what gcc computes (sizeof/_Alignof/offsetof).  gcc also validates the model's `cLayout`.
End to end (amd64): one llgo-compiled program prints unsafe.Sizeof/Alignof/Offsetof constants, pointer differences of
generated code and the size/align/offsets stored in the emitted type descriptors."""
import os
import re
import subprocess

from vlib.common import *
from vlib import e2e

_run = run        # vlib.common.run (this module's `run` is the check's entry point)

TARGETS = [("linux/amd64", "amd64"), ("linux/arm64", "arm64"), ("linux/386", "386"), ("linux/arm", "arm"), ("wasip1/wasm", "wasm")]
GC_STYLE = {"amd64", "arm64", "386", "arm"}          # base sizes are types.SizesFor("gc", arch) unless build.go overrides
SCALARS = ["b", "i8", "i16", "i32", "i64", "u8", "u16", "u32", "u64", "i", "u", "up", "f32", "f64", "c64", "c128", "str", "usp"]
LEAVES = set(SCALARS) | {"F", "F1", "E", "I"}
UNARY = ("P", "S", "C", "N", "B", "L", "NC")
NAMEDISH = ("N", "L", "NC")          # transparent for layout (a defined type, an alias, a defined type with C background)


# ------------------------------------------------------------------------------------------------ terms
def parse(s):
    """term text -> AST: ('b',) leaves as (name,), ('P', t), ('A', n, t), ('M', k, v), ('T', [t...]), ('N', t)"""
    pos = 0

    def ident():
        nonlocal pos
        st = pos
        while pos < len(s) and s[pos].isalnum():
            pos += 1
        return s[st:pos]

    def expect(c):
        nonlocal pos
        if pos >= len(s) or s[pos] != c:
            raise ValueError("parse %r at %d" % (s, pos))
        pos += 1

    def term():
        nonlocal pos
        i = ident()
        if i in LEAVES:
            return (i,)
        if i in ("P", "S", "C", "N", "B", "L", "NC"):   # B(t): blank `_` field; L(t): alias `type A = t`; NC(t): named type with `//llgo:type C`
            expect("("); e = term(); expect(")")
            return (i, e)
        if i == "A":
            expect("("); n = int(ident()); expect(","); e = term(); expect(")")
            return ("A", n, e)
        if i == "M":
            expect("("); k = term(); expect(","); v = term(); expect(")")
            return ("M", k, v)
        if i == "T":
            expect("(")
            fs = []
            while s[pos] != ")":
                if fs:
                    expect(",")
                fs.append(term())
            expect(")")
            return ("T", fs)
        raise ValueError("parse %r at %d" % (s, pos))

    t = term()
    if pos != len(s):
        raise ValueError("trailing input in %r" % s)
    return t


def show(t):
    k = t[0]
    if len(t) == 1:
        return k
    if k == "R":            # R(k,t): `type rec t` declared in function scope k (harness/c08/main.go)
        return "R(%d,%s)" % (t[1], show(t[2]))
    if k in UNARY:
        return "%s(%s)" % (k, show(t[1]))
    if k == "A":
        return "A(%d,%s)" % (t[1], show(t[2]))
    if k == "M":
        return "M(%s,%s)" % (show(t[1]), show(t[2]))
    return "T(" + ",".join(show(f) for f in t[1]) + ")"


MAPKEYS = ["i", "str", "i64", "f64", "T(i8,i32)", "P(i)", "E", "A(2,i16)", "I", "c128", "b", "T(i8,i64)", "A(40,i32)",
           "A(33,i32)", "A(17,str)", "T()", "A(0,i)", "u8", "T(str,i8)", "up", "A(129,u8)", "A(128,u8)", "C(i)", "usp"]


# key / element types whose size is exactly 127, 128 or 129 bytes on 64-bit and/or 32-bit targets (arrays and structs),
# plus their neighbours; all comparable, so each can be a key
BOUNDARY = ["A(127,u8)", "A(128,u8)", "A(129,u8)", "A(16,i64)", "A(17,i64)", "A(16,f64)", "A(8,c128)", "A(16,c64)", "A(32,i32)", "A(33,i32)",
            "A(64,u16)", "A(8,str)", "A(16,str)", "A(17,str)", "A(8,E)", "A(16,I)", "A(16,P(i))", "A(32,P(i))", "A(33,usp)", "A(16,i)", "A(32,u)",
            "T(A(127,u8))", "T(A(120,u8),i64)", "T(A(121,u8),i64)", "T(A(128,u8),u8)", "T(A(63,u16),u8)", "T(A(31,i32),u16,u8)",
            "T(A(15,i64),i32,i16,u8)", "T(A(15,i64),i32,i16,u8,u8)", "T(A(15,i64),A(9,u8))", "T(str,A(14,i64))", "T(A(31,u32),f32)",
            "N(A(16,i64))", "T(T(A(64,u8)),T(A(64,u8)))", "T(T(A(64,u8)),T(A(64,u8)),b)", "T(A(127,u8),T())", "T(A(128,u8),T())"]
BOUNDARY_ELEM_ONLY = ["A(8,F)", "A(16,F)", "A(9,F)", "A(5,S(i8))", "A(10,S(i8))", "A(11,S(i8))", "T(A(15,i64),F)", "T(A(14,i64),F)", "A(16,M(i,i))"]
SMALL = ["i", "u8", "str", "i64", "T(i8,i64)", "E"]


# zero-size types of every alignment class
ZEROS = ["A(0,u64)", "A(0,i64)", "A(0,f64)", "A(0,c128)", "A(0,F)", "A(0,str)", "A(0,P(i8))", "A(0,u32)", "A(0,c64)", "A(0,u16)", "A(0,u8)",
         "T()", "T(T(),A(0,i64))", "A(3,T())", "A(0,T(i8,i64))", "T(A(0,u64),T())", "N(A(0,u64))", "A(2,A(0,f64))"]
LESS_ALIGNED = ["u8", "u16", "u32", "T(u8,u16)", "A(3,u8)", "f32"]


ALIAS_SHAPES = ["T(L(F),i)", "L(T(F,i))", "T(i8,L(F),i64)", "A(3,L(F))", "T(L(T(F,i8)),i8)", "T(L(i64),i8)", "L(A(2,F))", "T(L(N(F)),i8)",
                "T(L(F1),L(F),u8)", "N(L(T(F,u16)))", "T(L(A(0,F)),u8)", "L(i64)", "L(F)", "T(L(str),L(E),b)", "T(B(L(F)),u8)"]
CBG_SHAPES = ["NC(T(F1,i32))", "T(NC(T(F1,i32)),i64)", "A(3,NC(T(F1,i32)))", "NC(F1)", "T(NC(F1),i32)", "NC(T(i8,i64))", "NC(T(F,F1,u8))",
              "NC(T(u8,F1))", "P(NC(T(F1,i32)))"]


def zero_field_shapes():
    """every zero-size type, named and blank, first / middle / last, next to less-aligned fields (incl. the shape
    struct{ lo, hi uint32; _ [0]uint64 })"""
    out = ["T(u32,u32,B(A(0,u64)))", "T(u32,u32,A(0,u64))", "T(B(A(0,u64)),u32,u32)", "T(u32,B(A(0,u64)),u32)"]
    for z in ZEROS:
        for c in LESS_ALIGNED:
            for zz in (z, "B(%s)" % z):
                out += ["T(%s,%s)" % (zz, c), "T(%s,%s,%s)" % (c, zz, c), "T(%s,%s)" % (c, zz), "T(%s)" % zz,
                        "T(B(%s),%s,%s)" % (c, zz, c), "A(2,T(%s,%s))" % (c, zz), "T(u8,T(%s,%s),u8)" % (zz, c)]
    return out


def gen(rng, d):
    r = rng.random()
    if d <= 0 or r < 0.33:
        if rng.random() < 0.7:
            return (rng.choice(SCALARS),)
        return parse(rng.choice(["F", "F", "E", "I", "T()", "A(0,i64)", "F1", "A(0,T(i8,F))"]))
    k = rng.choice(["T", "T", "T", "T", "T", "A", "A", "P", "S", "M", "C", "N"])
    if k == "T":
        n = rng.choice([0, 1, 1, 2, 2, 3, 3, 4, 5, 7])
        fs = [gen(rng, d - 1) for _ in range(n)]
        if rng.random() < 0.25:         # a zero-size field of some alignment class, at any position
            fs.insert(rng.randint(0, len(fs)), parse(rng.choice(ZEROS)))
        fs = [("B", f) if rng.random() < 0.12 else f for f in fs]     # blank `_` fields
        fs = [("L", f) if rng.random() < 0.05 and f[0] != "B" else f for f in fs]   # alias-typed fields
        return ("T", fs)
    if k == "A":
        return ("A", rng.choice([0, 1, 2, 3, 5, 8, 17]), gen(rng, d - 1))
    if k == "M":
        return ("M", parse(rng.choice(MAPKEYS)), gen(rng, d - 1))
    return (k, gen(rng, d - 1))


def layout_subterms(t, acc):
    """sub-terms whose layout is part of t's layout"""
    acc.append(t)
    if t[0] == "A":
        layout_subterms(t[2], acc)
    elif t[0] == "T":
        for f in t[1]:
            layout_subterms(f[1] if f[0] == "B" else f, acc)
    elif t[0] in NAMEDISH:
        layout_subterms(t[1], acc)
    return acc


# ------------------------------------------------------------------------------------------------ repairs (cause confirmation)
def map_term(t, f):
    """bottom-up rewrite"""
    k = t[0]
    if len(t) == 1:
        return f(t)
    if k == "B":
        return ("B", map_term(t[1], f))
    if k in ("P", "S", "C", "N", "L", "NC"):
        return f((k, map_term(t[1], f)))
    if k == "A":
        return f(("A", t[1], map_term(t[2], f)))
    if k == "M":
        return f(("M", t[1], map_term(t[2], f)))    # keys stay comparable; the key's layout is not part of the map value's
    return f(("T", [map_term(x, f) for x in t[1]]))


def repair_align8(t):
    """replace every 8-byte-aligned scalar by an array of its 4-byte halves (same size, alignment 4)"""
    rep = {"i64": ("A", 2, ("i32",)), "u64": ("A", 2, ("u32",)), "f64": ("A", 2, ("f32",)), "c128": ("A", 4, ("f32",))}
    return map_term(t, lambda x: rep.get(x[0], x) if len(x) == 1 else x)


def is_zero(t):
    k = t[0]
    if k == "T":
        return all(is_zero(f) for f in t[1])
    if k == "A":
        return t[1] == 0 or is_zero(t[2])
    if k in NAMEDISH or k == "B":
        return is_zero(t[1])
    return False


def repair_zero_tail(t):
    """drop zero-size last fields of structs that have a non-zero-size field before them"""
    def f(x):
        if x[0] == "T":
            fs = list(x[1])
            while len(fs) > 1 and is_zero(fs[-1]) and not all(is_zero(g) for g in fs[:-1]):
                fs.pop()
            return ("T", fs)
        return x
    return map_term(t, f)


def nat32(t):
    """natural (size, align) on a 32-bit target whose scalar alignments are capped at 4 (used only to build the
    explicit-padding repair for wasm; every verdict comes from re-querying the real code on the repaired term)"""
    k = t[0]
    tab = {"b": (1, 1), "i8": (1, 1), "u8": (1, 1), "i16": (2, 2), "u16": (2, 2), "i32": (4, 4), "u32": (4, 4), "f32": (4, 4),
           "i64": (8, 4), "u64": (8, 4), "f64": (8, 4), "c64": (8, 4), "c128": (16, 4), "i": (4, 4), "u": (4, 4), "up": (4, 4),
           "usp": (4, 4), "str": (8, 4), "F": (8, 4), "F1": (8, 4), "E": (8, 4), "I": (8, 4), "P": (4, 4), "M": (4, 4), "C": (4, 4), "S": (12, 4)}
    if k in tab:
        return tab[k]
    if k in NAMEDISH or k == "B":
        return nat32(t[1])
    if k == "A":
        z, a = nat32(t[2])
        return (z * t[1], a)
    off, al = 0, 1
    for f in t[1]:
        z, a = nat32(f)
        off = (off + a - 1) // a * a + z
        al = max(al, a)
    return ((off + al - 1) // al * al, al)


def repair_nested_tail(t, top=False):
    """make the tail padding of nested structs explicit (a trailing [k]uint8 field); `top`: also of t itself (a map
    key/element is an array element of the bucket)"""
    def pad(x):
        if x[0] in NAMEDISH or x[0] == "B":
            return (x[0], pad(x[1]))
        if x[0] == "A":
            return ("A", x[1], pad(x[2]))
        if x[0] != "T" or not x[1]:
            return x
        off, al = 0, 1
        for f in x[1]:
            z, a = nat32(f)
            off = (off + a - 1) // a * a + z
            al = max(al, a)
        k = (al - off % al) % al
        return ("T", x[1] + [("A", k, ("u8",))]) if k else x

    def f(x):
        if x[0] == "T":
            return ("T", [pad(g) for g in x[1]])
        if x[0] == "A":
            return ("A", x[1], pad(x[2]))
        return x
    r = map_term(t, f)
    return pad(r) if top else r


def contains(t, ctor):
    found = []
    map_term(t, lambda x: (found.append(1), x)[1] if x[0] == ctor else x)
    return bool(found)


def repair_alias(t):
    """write the aliased type out"""
    return map_term(t, lambda x: x[1] if x[0] == "L" else x)


def repair_cbg(t):
    """a `//llgo:type C` type holds raw C function pointers: write them as one-word pointers in an ordinary type"""
    def f(x):
        if x[0] == "NC":
            return ("N", map_term(x[1], lambda y: ("usp",) if y[0] in ("F", "F1") else y))
        return x
    return map_term(t, f)


ALL_TARGETS = {"amd64", "arm64", "386", "arm", "wasm"}
REPAIRS = [   # (cause, targets it can explain, rewrite)
    ("alias-func-extra", ALL_TARGETS, repair_alias),
    ("c-background-func-field", ALL_TARGETS, repair_cbg),
    ("int64-align", {"arm", "wasm"}, repair_align8),
    ("descriptor-align8", {"386"}, repair_align8),
    ("zero-size-tail", GC_STYLE, repair_zero_tail),
    ("nested-tail-padding", {"wasm"}, repair_nested_tail),
]


# ------------------------------------------------------------------------------------------------ real / model plumbing
MD_RE = re.compile(r"^md=(\d+),(\d+),(\d+),(\d+) kb=(\d+),(\d+) eb=(\d+),(\d+) ")
LINE_RE = re.compile(r"^(?:ks=(\d+) es=(\d+) bs=(\d+) )?a=(\d+),(\d+),(\S+) b=(\d+),(\d+),(\S+) c=(\d+),(\d+),(\d+),(?:(\d+),)?(\S+) e=(\d+),(\d+)$")


def decode(line, real):
    """-> dict or None"""
    md = MD_RE.match(line)
    if md:
        line = line[md.end():]
    m = LINE_RE.match(line)
    if not m:
        return None
    g = m.groups()
    d = {"a": (int(g[3]), int(g[4]), g[5]), "b": (int(g[6]), int(g[7]), g[8]), "c": (int(g[9]), int(g[10]), g[13]),
         "cfa": int(g[11]), "ptrbytes": g[12], "e": (int(g[14]), int(g[15]))}
    if g[0] is not None:
        d["map"] = (int(g[0]), int(g[1]), int(g[2]))
    if md:
        x = [int(v) for v in md.groups()]
        d["md"] = {"KeySize": x[0], "ValueSize": x[1], "BucketSize": x[2], "IndirectKey": bool(x[3] & 1), "IndirectElem": bool(x[3] & 2),
                   "key": (x[4], x[5]), "elem": (x[6], x[7])}
    return d


MAXSLOT = 128     # runtime/abi MapMaxKeyBytes = MapMaxElemBytes


def map_spec(d, ptr, pal):
    """Independent judgement of an EMITTED map descriptor (no model, no llgo code): with key/elem sizes and alignments
    as generated code uses them, a slot is the value itself if it is at most 128 bytes, else a pointer; the flags and
    KeySize/ValueSize must say so; BucketSize must be the size of
        struct { tophash [8]uint8; keys [8]slotK; elems [8]slotV; overflow pointer }
    and the runtime's addressing (keys at 8, elems at 8+8*KeySize, overflow in the last word) must hit these offsets.
    -> list of (what, got, want)"""
    md = d["md"]
    bad = []
    (kz, ka), (vz, va) = md["key"], md["elem"]
    ik, iv = kz > MAXSLOT, vz > MAXSLOT
    if md["IndirectKey"] != ik:
        bad.append(("IndirectKey", md["IndirectKey"], ik))
    if md["IndirectElem"] != iv:
        bad.append(("IndirectElem", md["IndirectElem"], iv))
    ks, kal = (ptr, pal) if ik else (kz, ka)
    vs, val = (ptr, pal) if iv else (vz, va)
    if md["KeySize"] != ks:
        bad.append(("KeySize", md["KeySize"], ks))
    if md["ValueSize"] != vs:
        bad.append(("ValueSize", md["ValueSize"], vs))
    up = lambda x, a: (x + a - 1) // a * a
    ko = up(8, kal)
    vo = up(ko + 8 * ks, val)
    oo = up(vo + 8 * vs, pal)
    size = up(oo + ptr, max(1, kal, val, pal))
    if md["BucketSize"] != size:
        bad.append(("BucketSize", md["BucketSize"], size))
    if (ko, vo, oo) != (8, 8 + 8 * ks, size - ptr):
        bad.append(("runtime addressing (keys, elems, overflow)", (8, 8 + 8 * ks, size - ptr), (ko, vo, oo)))
    return bad


def offs_list(o):
    return [] if o in ("-", ".") else [int(x) for x in o.split(":")]


def ptrbytes_ref(ans, ptr, t, bug=False):
    """Independent reference for the descriptor's PtrBytes ("number of prefix bytes that can contain pointers"), built
    bottom-up from the sizes and offsets generated code uses (answers (b) of the real code for t and its sub-terms).
    `bug=True` reproduces the known defect (a struct adds the PtrBytes of its LAST field instead of the last field
    that has pointers) and is used only to attribute a disagreement.  None if an answer is missing."""
    k = t[0]
    if k in ("str", "usp", "P", "S", "M", "C"):
        return ptr
    if k in ("F", "F1", "E", "I"):
        return 2 * ptr              # {fn, ctx} / {type, data}
    if len(t) == 1:
        return 0
    if k in NAMEDISH or k == "B":
        return ptrbytes_ref(ans, ptr, t[1], bug)
    if k == "A":
        e = ptrbytes_ref(ans, ptr, t[2], bug)
        if e is None:
            return None
        if t[1] == 0 or e == 0:
            return 0
        d = ans.get(show(t[2]))
        return None if d is None else (t[1] - 1) * d["b"][0] + e
    d = ans.get(show(t))
    if d is None:
        return None
    offs = offs_list(d["b"][2])
    pbs = [ptrbytes_ref(ans, ptr, f, bug) for f in t[1]]
    if any(x is None for x in pbs) or len(offs) != len(pbs):
        return None
    last = [j for j, x in enumerate(pbs) if x]
    if not last:
        return 0
    return offs[last[-1]] + (pbs[-1] if bug else pbs[last[-1]])


def strip_ptrbytes(line):
    return re.sub(r"(c=\d+,\d+,\d+),\d+,", r"\1,", line)


def agrees(d):
    """(a) = (b) = (c), FieldAlign = Align, and the referenced element descriptor has the size and alignment of (b)"""
    return d["a"] == d["b"] == d["c"] and d["cfa"] == d["c"][1] and d["e"] == d["b"][:2]


def extract_overrides(ctx):
    """the `sizes := func(...)` closure of internal/build/build.go: arch == "X" => &types.StdSizes{WordSize: a, MaxAlign: b}"""
    src = open(os.path.join(REPO, "internal", "build", "build.go")).read()
    out = {}
    m = re.search(r"sizes\s*:=\s*func\(sizes types\.Sizes, compiler, arch string\) types\.Sizes \{(.*?)\n\t\}", src, re.S)
    body = m.group(1) if m else ""
    for mm in re.finditer(r'if ([^{]*)\{\s*sizes = &types\.StdSizes\{WordSize:\s*(\d+),\s*MaxAlign:\s*(\d+)\}', body):
        for arch in re.findall(r'arch == "(\w+)"', mm.group(1)):
            out[arch] = (int(mm.group(2)), int(mm.group(3)))
    if not m:
        ctx.log("note: the sizes closure of internal/build/build.go was not found; no override assumed")
    return out


def parse_datalayout(dl):
    """LLVM data layout string -> ABI alignments (bytes) of i8 i16 i32 i64 f32 f64 p"""
    ab = {"i8": 1, "i16": 2, "i32": 4, "i64": 4, "f32": 4, "f64": 8, "p": 8}     # LLVM defaults (i64:32:64, f64:64, p:64:64)
    m = re.match(r"(\S+) ptr=(\d+)$", dl)
    spec, ptr = m.group(1), int(m.group(2))
    for part in spec.split("-"):
        mm = re.match(r"^(i|f)(\d+):(\d+)", part)
        if mm and (mm.group(1) + mm.group(2)) in ab:
            ab[mm.group(1) + mm.group(2)] = int(mm.group(3)) // 8
        mm = re.match(r"^p:(\d+):(\d+)", part)
        if mm:
            ab["p"] = int(mm.group(2)) // 8
    return ptr, ab


# ------------------------------------------------------------------------------------------------ C side (gcc)
CTYPES = {"b": "_Bool", "i8": "int8_t", "i16": "int16_t", "i32": "int32_t", "i64": "int64_t", "u8": "uint8_t", "u16": "uint16_t",
          "u32": "uint32_t", "u64": "uint64_t", "i": "intptr_t", "u": "uintptr_t", "up": "uintptr_t", "f32": "float", "f64": "double",
          "c64": "float _Complex", "c128": "double _Complex", "usp": "void *"}


def is_c(t):
    k = t[0]
    if contains(t, "NC") or contains(t, "L"):
        return False
    if k in CTYPES or k == "P":
        return True
    if k == "A":
        return t[1] > 0 and is_c(t[2])
    if k == "T":
        return len(t[1]) > 0 and all(is_c(f) for f in t[1])
    if k == "N":
        return is_c(t[1])
    return False


def c_decl(t, d):
    k = t[0]
    if k in CTYPES:
        return CTYPES[k] + " " + d
    if k == "P":
        return "void *" + d
    if k == "N":
        return c_decl(t[1], d)
    if k == "A":
        return c_decl(t[2], "%s[%d]" % (d, t[1]))
    return "struct { " + " ".join(c_decl(f, "F%d" % i) + ";" for i, f in enumerate(t[1])) + " } " + d


def under(t):
    while t[0] in NAMEDISH:
        t = t[1]
    return t


def gcc_layouts(ctx, terms, cc="gcc"):
    """-> list of 'size,align,offs' strings computed by the host C compiler"""
    src = ["#include <stdint.h>", "#include <stddef.h>", "#include <stdio.h>"]
    body = []
    for i, t in enumerate(terms):
        src.append("typedef %s;" % c_decl(t, "S%d" % i))
        u = under(t)
        if u[0] == "T":
            fmt = "%zu,%zu," + ":".join(["%zu"] * len(u[1])) + "\\n"
            args = "".join(", offsetof(S%d, F%d)" % (i, j) for j in range(len(u[1])))
        else:
            fmt, args = "%zu,%zu,-\\n", ""
        body.append('  printf("%s", sizeof(S%d), _Alignof(S%d)%s);' % (fmt, i, i, args))
    src.append("int main(void) {")
    src += body
    src.append("  return 0; }")
    d = os.path.join(ctx.scratch, "cside")
    os.makedirs(d, exist_ok=True)
    open(os.path.join(d, "l.c"), "w").write("\n".join(src) + "\n")
    p = _run([cc, "-std=gnu11", "-O0", "-w", "-o", os.path.join(d, "l"), os.path.join(d, "l.c")], cwd=d)
    if p.returncode != 0:
        raise RuntimeError("%s failed on the generated C file:\n%s" % (cc, p.stderr[-2000:]))
    out = _run([os.path.join(d, "l")], cwd=d).stdout.split("\n")
    return out[:len(terms)]


# ------------------------------------------------------------------------------------------------ end to end (amd64)
GOTYPES = {"b": "bool", "i8": "int8", "i16": "int16", "i32": "int32", "i64": "int64", "u8": "uint8", "u16": "uint16", "u32": "uint32",
           "u64": "uint64", "i": "int", "u": "uint", "up": "uintptr", "f32": "float32", "f64": "float64", "c64": "complex64",
           "c128": "complex128", "str": "string", "usp": "unsafe.Pointer", "F": "func()", "F1": "func(int, string) bool",
           "E": "interface{}", "I": "interface{ M() }"}


def go_type(t, decls=None):
    """Go source text of a term.  With `decls` (a dict), aliases and `//llgo:type C` types become real declarations
    (name -> declaration text) — they have to, the defects they exercise depend on the declaration; without it they
    are written out (documentation only)."""
    k = t[0]
    g = lambda x: go_type(x, decls)
    if k in GOTYPES:
        return GOTYPES[k]
    if k == "P":
        return "*" + g(t[1])
    if k == "S":
        return "[]" + g(t[1])
    if k == "C":
        return "chan " + g(t[1])
    if k == "N":
        return g(t[1])            # defined types: the top-level one is declared by the caller (see e2e_program)
    if k in ("L", "NC"):
        if decls is None:
            return ("/*alias*/ " if k == "L" else "/*llgo:type C*/ ") + g(t[1])
        key = show(t)
        if key not in decls:
            name = ("AL%d" if k == "L" else "NC%d") % len(decls)
            decls[key] = None     # reserve the number
            body = g(t[1])
            decls[key] = (name, ("type %s = %s" % (name, body)) if k == "L" else ("//llgo:type C\ntype %s %s" % (name, body)))
        return decls[key][0]
    if k == "A":
        return "[%d]%s" % (t[1], g(t[2]))
    if k == "M":
        return "map[%s]%s" % (g(t[1]), g(t[2]))
    return "struct { " + "; ".join(("_ %s" % g(f[1])) if f[0] == "B" else ("F%d %s" % (i, g(f))) for i, f in enumerate(t[1])) + " }"


MAPSLOT_PROBES = [("e128", "int", "[16]int64"), ("e127", "int", "[127]byte"), ("e129", "int", "[129]byte"), ("e128b", "int", "[128]byte"),
                  ("k128", "[16]int64", "int"), ("k127", "[127]byte", "int"), ("k129", "[129]byte", "int"), ("k128e128", "[128]byte", "[16]int64")]


def e2e_program(terms):
    """one program: per struct type Ti a line  `i a=<Sizeof>,<Alignof>,<Offsetof…> b=<stride>,<addr&mask>,<ptr diffs…> c=<desc size>,<align>,<fieldalign>,<offsets…>`"""
    L = ["package main", "", 'import "unsafe"', "",
         "// mirror of the head of runtime/abi.Type and StructType/StructField (read through unsafe only)",
         "type rtype struct { Size uintptr; PtrBytes uintptr; Hash uint32; TFlag uint8; Align uint8; FieldAlign uint8; Kind uint8",
         "\tEqual func(unsafe.Pointer, unsafe.Pointer) bool; GCData *byte; Str string; PtrToThis unsafe.Pointer }",
         "type stype struct { rtype; PkgPath string; Fields []sfield }",
         "type sfield struct { Name string; Typ unsafe.Pointer; Offset uintptr; Tag string; Embedded bool }",
         "type eface struct { typ unsafe.Pointer; data unsafe.Pointer }",
         "func desc(v any) *rtype { return (*rtype)((*eface)(unsafe.Pointer(&v)).typ) }",
         "var sink unsafe.Pointer", ""]
    decls = {}
    tdecl = []
    for i, t in enumerate(terms):
        # a top-level alias / C-background type keeps its declaration (T_i is then defined as that type)
        if t[0] in ("L", "NC"):
            tdecl.append("type T%d = %s" % (i, go_type(t, decls)))
        else:
            tdecl.append("type T%d %s" % (i, go_type(under(t), decls)))
    for key in decls:
        L.append(decls[key][1])
    L += tdecl
    L.append("")
    for i, t in enumerate(terms):
        u = under(t)
        n = len(u[1])
        L.append("func f%d() {" % i)
        L.append("\tvar arr [2]T%d" % i)
        L.append("\tp := &arr[0]")
        L.append("\tsink = unsafe.Pointer(p)")
        L.append("\tbase := uintptr(unsafe.Pointer(p))")
        L.append('\tprint(%d, " a=", unsafe.Sizeof(arr[0]), ",", unsafe.Alignof(arr[0]))' % i)
        for j in range(n):
            L.append('\tprint(",", unsafe.Offsetof(p.F%d))' % j)
        L.append('\tprint(" b=", uintptr(unsafe.Pointer(&arr[1]))-base)')
        for j in range(n):
            L.append('\tprint(",", uintptr(unsafe.Pointer(&p.F%d))-base)' % j)
        L.append("\td := desc(arr[0])")
        L.append('\tprint(" c=", d.Size, ",", d.Align, ",", d.FieldAlign, ",", d.Kind&31)')
        if n:
            # StructType = { Type; PkgPath string; Fields []StructField }: the slice header follows the common part
            L.append("\tst := (*stype)(unsafe.Pointer(d))")
            L.append('\tprint(",n", len(st.Fields))')
            L.append("\tfor _, f := range st.Fields { print(\",\", f.Offset) }")
        L.append('\tprint(" p=", d.PtrBytes)')
        L.append('\tprintln()')
        L.append("}")
    # maps whose key / element is exactly 127, 128, 129 bytes: insert 100 entries, read every byte back
    L.append("// bucket slots at the inline/indirect boundary (MapMaxKeyBytes = MapMaxElemBytes = 128)")
    for name, kt, vt in MAPSLOT_PROBES:
        L.append("func mapslot_%s() {" % name)
        L.append("\tm := map[%s]%s{}" % (kt, vt))
        L.append("\tfor i := 0; i < 100; i++ {")
        L.append("\t\tvar k %s; var v %s" % (kt, vt))
        L.append("\t\t%s" % ("k = i" if kt == "int" else "for j := range k { k[j] = %s(i + j) }" % ("int64" if "int64" in kt else "byte")))
        L.append("\t\t%s" % ("v = i * 7" if vt == "int" else "for j := range v { v[j] = %s(i*3 + j) }" % ("int64" if "int64" in vt else "byte")))
        L.append("\t\tm[k] = v")
        L.append("\t}")
        L.append("\tbad := 0")
        L.append("\tfor i := 0; i < 100; i++ {")
        L.append("\t\tvar k %s" % kt)
        L.append("\t\t%s" % ("k = i" if kt == "int" else "for j := range k { k[j] = %s(i + j) }" % ("int64" if "int64" in kt else "byte")))
        L.append("\t\tv, ok := m[k]")
        L.append("\t\tif !ok { bad++; continue }")
        L.append("\t\t%s" % ("if v != i*7 { bad++ }" if vt == "int" else "for j := range v { if v[j] != %s(i*3+j) { bad++; break } }" % ("int64" if "int64" in vt else "byte")))
        L.append("\t}")
        L.append('\tprintln("mapslot", "%s", len(m), bad)' % name)
        L.append("}")
    L += ["// consequences of the element descriptor's size (runtime copies/clears t.Elem.Size_ bytes)",
          "func clearfunc() {",
          "\ts := make([]func() int, 4)",
          "\tfor i := range s { j := i; s[i] = func() int { return j } }",
          "\tclear(s)",
          "\tn := 0",
          "\tfor i := range s { if s[i] == nil { n++ } }",
          '\tprintln("clearfunc", n, 4)',
          "}",
          "func mapfunc(n int) {",
          '\tdefer func() { if e := recover(); e != nil { println("mapfunc", n, -1, n*(n-1)) } }()',
          "\tm := map[int]func() int{}",
          "\tfor i := 0; i < n; i++ { j := i; m[i] = func() int { return j * 2 } }",
          "\tsum := 0",
          "\tfor i := 0; i < n; i++ { sum += m[i]() }",
          '\tprintln("mapfunc", n, sum, n*(n-1))',
          "}"]
    L.append("func main() {")
    for i in range(len(terms)):
        L.append("\tf%d()" % i)
    L += ["\tmapslot_%s()" % name for name, _, _ in MAPSLOT_PROBES]
    L += ["\tclearfunc()", "\tmapfunc(8)", "\tmapfunc(9)"]
    L.append("}")
    return "\n".join(L) + "\n"


# ---------------------------------------------------------------------------------------------- generic instances (amd64)
# unsafe.Sizeof/Alignof/Offsetof inside a generic function cannot be folded by go/types when the layout depends on the type
# argument: llgo evaluates them per instance (cl/instr.go offsetOfFieldChain, ssa/expr.go Sizeof/Alignof).  One program,
# compiled by llgo AND by the reference toolchain: generic types whose layout depends on T, selector chains with written
# intermediate fields (x.a.b), fields promoted through one and two embedded structs, and mixtures.
GEN_DECLS = """type hdr[T any] struct { pad T; len byte; w T }
type G[T any] struct { A int64; B T; h hdr[T] }
type Emb[T any] struct { P T; Q int16 }
type H[T any] struct { X byte; Emb[T]; Z T }
type Deep[T any] struct { Y T; H[T] }
type Mix[T any] struct { a byte; d Deep[T]; g G[T] }
type E[T any] struct { pad T; Ext int32; Exx T }
type GE[T any] struct { A T; E[T] }
type Pair struct { a int8; b int64 }
"""
GEN_TERMS = {"hdr": "T(X,u8,X)", "G": "T(i64,X,T(X,u8,X))", "Emb": "T(X,i16)", "H": "T(u8,T(X,i16),X)", "Deep": "T(X,T(u8,T(X,i16),X))",
             "Mix": "T(u8,T(X,T(u8,T(X,i16),X)),T(i64,X,T(X,u8,X)))", "E": "T(X,i32,X)", "GE": "T(X,T(X,i32,X))"}
# (root type, selector, operand the offset is relative to, model path: field index + e(written)/i(inserted for promotion))
GEN_CASES = [("G", "v.h.len", "v.h", "2e.1e"), ("G", "v.h.w", "v.h", "2e.2e"), ("G", "v.h", "*v", "2e"), ("G", "v.B", "*v", "1e"),
             ("H", "v.Q", "*v", "1i.1e"), ("H", "v.P", "*v", "1i.0e"), ("H", "v.Emb.Q", "v.Emb", "1e.1e"), ("H", "v.Z", "*v", "2e"),
             ("Deep", "v.Q", "*v", "1i.1i.1e"), ("Deep", "v.H.Q", "v.H", "1e.1i.1e"), ("Deep", "v.H.Emb.P", "v.H.Emb", "1e.1e.0e"),
             ("Deep", "v.Emb.Q", "v.Emb", "1i.1e.1e"), ("Deep", "v.Z", "*v", "1i.2e"),
             ("Mix", "v.d.Q", "v.d", "1e.1i.1i.1e"), ("Mix", "v.d.H.Z", "v.d.H", "1e.1e.2e"), ("Mix", "v.g.h.len", "v.g.h", "2e.2e.1e"),
             ("Mix", "v.d.Emb.P", "v.d.Emb", "1e.1i.1e.0e"), ("Mix", "v.g.h", "v.g", "2e.2e"),
             ("GE", "v.Ext", "*v", "1i.1e"), ("GE", "v.Exx", "*v", "1i.2e"), ("GE", "v.E.Ext", "v.E", "1e.1e"), ("GE", "v.E", "*v", "1e"),
             # the variable is named like the embedded field `E`, or has that name as a prefix
             ("GE", "E.Ext", "*E", "1i.1e"), ("GE", "Emb.Exx", "*Emb", "1i.2e"), ("GE", "E.E.Ext", "E.E", "1e.1e")]
# go/ssa positions an implicit (promoted) selection at the START of the selector expression; isExplicitFieldAddr compares
# the source text there with the embedded field's name, so a variable named `E`/`Emb…` makes the promotion step look written
GEN_NAME_PREFIX_CASES = {("GE", "E.Ext"), ("GE", "Emb.Exx")}
# (name in the output, Go type, term, comparable with the reference toolchain: no function values, no zero-size type)
GEN_INST = [("int8", "int8", "i8", True), ("int32", "int32", "i32", True), ("int64", "int64", "i64", True), ("arr2i64", "[2]int64", "A(2,i64)", True),
            ("string", "string", "str", True), ("complex128", "complex128", "c128", True), ("Pair", "Pair", "N(T(i8,i64))", True),
            ("arr3u8", "[3]byte", "A(3,u8)", True), ("ptr", "*int8", "P(i8)", True), ("float32", "float32", "f32", True),
            ("iface", "interface{}", "E", True), ("func", "func()", "F", False), ("zero", "[0]int64", "A(0,i64)", False)]


def generic_program():
    roots = []
    for r, _, _, _ in GEN_CASES:
        if r not in roots:
            roots.append(r)
    L = ["package main", "", 'import "unsafe"', "", GEN_DECLS, "var sink unsafe.Pointer",
         "func dist(a, b unsafe.Pointer) uintptr { return uintptr(a) - uintptr(b) }", ""]

    def addr(op):
        return "unsafe.Pointer(%s)" % op[1:] if op.startswith("*") else "unsafe.Pointer(&%s)" % op
    for r in roots:
        # generic: evaluated per instance
        L.append("func gen%s[T any](tn string) {" % r)
        L.append("\tvar arr [2]%s[T]" % r)
        L.append("\tv := &arr[0]")
        L.append("\tsink = unsafe.Pointer(v)")
        for var in sorted(set(sel.split(".")[0] for rr, sel, _, _ in GEN_CASES if rr == r) - {"v"}):
            L.append("\t%s := v" % var)
        for ci, (rr, sel, op, _) in enumerate(GEN_CASES):
            if rr == r:
                L.append('\tprintln("gen", tn, %d, unsafe.Offsetof(%s), dist(unsafe.Pointer(&%s), %s))' % (ci, sel, sel, addr(op)))
        L.append('\tprintln("gsz", tn, "%s", unsafe.Sizeof(arr[0]), unsafe.Alignof(arr[0]), dist(unsafe.Pointer(&arr[1]), unsafe.Pointer(&arr[0])))' % r)
        L.append("}")
        # the same selectors on the instantiated type in ordinary code: constants folded by go/types with llgo's sizes
        for tn, gt, _, _ in GEN_INST:
            L.append("func con%s_%s() {" % (r, tn))
            L.append("\tvar x %s[%s]" % (r, gt))
            L.append("\tv := &x")
            L.append("\tsink = unsafe.Pointer(v)")
            for var in sorted(set(sel.split(".")[0] for rr, sel, _, _ in GEN_CASES if rr == r) - {"v"}):
                L.append("\t%s := v" % var)
            for ci, (rr, sel, op, _) in enumerate(GEN_CASES):
                if rr == r:
                    L.append('\tprintln("con", "%s", %d, unsafe.Offsetof(%s))' % (tn, ci, sel))
            L.append('\tprintln("csz", "%s", "%s", unsafe.Sizeof(x), unsafe.Alignof(x))' % (tn, r))
            L.append("}")
    # the type parameter itself (not a struct around it): unsafe.Sizeof/Alignof of a T-typed variable per instance - for a
    # func-typed T the value is the two-word function value, not a code pointer
    L.append("func genBare[T any](tn string) {")
    L.append("\tvar arr [2]T")
    L.append("\tsink = unsafe.Pointer(&arr[0])")
    L.append('\tprintln("gsz", tn, "Bare", unsafe.Sizeof(arr[0]), unsafe.Alignof(arr[0]), dist(unsafe.Pointer(&arr[1]), unsafe.Pointer(&arr[0])))')
    L.append("}")
    for tn, gt, _, _ in GEN_INST:
        L.append("func conBare_%s() {" % tn)
        L.append("\tvar x %s" % gt)
        L.append("\tsink = unsafe.Pointer(&x)")
        L.append('\tprintln("csz", "%s", "Bare", unsafe.Sizeof(x), unsafe.Alignof(x))' % tn)
        L.append("}")
    L.append("func main() {")
    for tn, gt, _, _ in GEN_INST:
        for r in roots:
            L.append('\tgen%s[%s]("%s")' % (r, gt, tn))
            L.append("\tcon%s_%s()" % (r, tn))
        L.append('\tgenBare[%s]("%s")' % (gt, tn))
        L.append("\tconBare_%s()" % tn)
    L.append("}")
    return "\n".join(L) + "\n"


def run_generic(ctx, model, MT):
    """-> (problems [(key, what, replay)], correspondence mismatches, stats)"""
    d = os.path.join(ctx.scratch, "e2egen")
    e2e.write_module(d, {"main.go": generic_program()})
    exe = os.path.join(d, "prog")
    p = e2e.llgo_build(ctx, d, exe, opt="-O0")
    if p.returncode != 0:
        raise HarnessBuildError("llgo could not compile the C08 generic-instance program:\n" + (p.stdout + p.stderr)[-3000:])
    out, err, rc = e2e.run_prog(exe, timeout=120)
    mine = [l for l in (out + err).split("\n") if l.split(" ")[0] in ("gen", "gsz", "con", "csz")]
    ref = None
    pr = e2e.go_run_reference(ctx, d, os.path.join(d, "ref"))
    if pr.returncode == 0:
        o2, e2_, rc2 = e2e.run_prog(os.path.join(d, "ref"), timeout=120)
        ref = set(l for l in (o2 + e2_).split("\n") if l.split(" ")[0] in ("gen", "gsz", "con", "csz"))
    probs, mism = [], []
    stats = {"lines": len(mine), "rc": rc, "offsetof_cases": 0, "reference_toolchain_lines_compared": 0, "bad": 0}
    inst = {tn: (term, cmp_) for tn, _, term, cmp_ in GEN_INST}
    # model predictions.  `chainOffset` takes "written in the source / inserted for promotion" per step as an input; the
    # code derives it from the source text (isExplicitFieldAddr), which takes a promotion step for a written selector when
    # the variable is named like the embedded field.  Which behaviour this tree has is read off the program's own output.
    text_rule = any(l.split()[0] == "gen" and (GEN_CASES[int(l.split()[2])][0], GEN_CASES[int(l.split()[2])][1]) in GEN_NAME_PREFIX_CASES
                    and l.split()[3] != l.split()[4] for l in mine)
    stats["explicit_selector_rule"] = "source-text prefix (as is)" if text_rule else "selector after a dot (fixes/C08-5)"
    req = []
    for tn, _, term, _ in GEN_INST:
        for ci, (r, sel, op, path) in enumerate(GEN_CASES):
            if text_rule and (r, sel) in GEN_NAME_PREFIX_CASES:
                path = path.replace("i", "e")        # what isExplicitFieldAddr answers for these steps
            req.append("ch %s %s %s" % (MT["amd64"], GEN_TERMS[r].replace("X", term), path))
    pred = dict(zip([(tn, ci) for tn, _, _, _ in GEN_INST for ci in range(len(GEN_CASES))], model(req)))
    con, gsz, csz = {}, {}, {}
    seen = set()
    for l in mine:
        f = l.split()
        if f[0] == "con":
            con[(f[1], int(f[2]))] = f[3]
        elif f[0] == "gsz":
            gsz[(f[1], f[2])] = f[3:]
        elif f[0] == "csz":
            csz[(f[1], f[2])] = f[3:]
    for l in mine:
        f = l.split()
        if f[0] != "gen":
            continue
        tn, ci, fold, dist_ = f[1], int(f[2]), f[3], f[4]
        seen.add((tn, ci))
        r, sel, op, path = GEN_CASES[ci]
        stats["offsetof_cases"] += 1
        what = None
        if fold != dist_:
            what = "unsafe.Offsetof(%s) in the instance %s[%s] is %s, but &%s is %s bytes after %s in generated code" % (sel, r, tn, fold, sel, dist_, op[1:] if op.startswith("*") else "&" + op)
        elif con.get((tn, ci)) not in (None, fold) and inst[tn][1]:
            what = "unsafe.Offsetof(%s): %s in the generic instance %s[%s], %s folded in ordinary code" % (sel, fold, r, tn, con[(tn, ci)])
        if what:
            stats["bad"] += 1
            key = ("layout:amd64:generic-offsetof:embedded-name-prefix" if (r, sel) in GEN_NAME_PREFIX_CASES
                   else "layout:amd64:generic-offsetof:%s.%s[%s]" % (r, sel.split(".", 1)[1], tn))
            probs.append((key, what, {"program": "checks/c08.py generic_program()", "type": r + "[" + tn + "]", "selector": sel, "line": l,
                                      "meaning": "gen <T> <case> <Offsetof evaluated in the instance> <address distance in generated code>"}))
        if pred.get((tn, ci)) != "ch=" + fold:
            mism.append(("generic Offsetof %s[%s] %s" % (r, tn, sel), l, pred.get((tn, ci))))
    missing = [(tn, ci) for tn, _, _, _ in GEN_INST for ci in range(len(GEN_CASES)) if (tn, ci) not in seen]
    if missing:
        probs.append(("layout:amd64:generic-offsetof:program-died", "the generic-instance program produced no line for %d cases" % len(missing),
                      {"first": missing[:5], "rc": rc, "tail": (out + err)[-800:]}))
    for (tn, r), (sz, al, stride) in gsz.items():
        if sz != stride:
            stats["bad"] += 1
            probs.append(("layout:amd64:generic-sizeof:%s[%s]" % (r, tn), "unsafe.Sizeof in the instance is %s, the array stride in generated code %s" % (sz, stride),
                          {"type": r + "[" + tn + "]", "line": "gsz %s %s %s %s %s" % (tn, r, sz, al, stride)}))
        c = csz.get((tn, r))
        if c is not None and [sz, al] != c:
            zero = inst[tn][0].startswith("A(0")
            stats["bad"] += 1
            key = "layout:amd64:zero-size-tail" if zero else "layout:amd64:generic-sizeof-vs-constant:%s[%s]" % (r, tn)
            probs.append((key, "unsafe.Sizeof/Alignof: %s,%s in the generic instance, %s,%s folded in ordinary code" % (sz, al, c[0], c[1]),
                          {"type": r + "[" + tn + "]", "generic": [sz, al], "constant": c}))
    if ref is not None:
        for l in mine:
            f = l.split()
            if inst[f[1]][1]:
                stats["reference_toolchain_lines_compared"] += 1
                if l not in ref:
                    stats["bad"] += 1
                    r_ = GEN_CASES[int(f[2])][0] if f[0] in ("gen", "con") else f[2]
                    sel_ = GEN_CASES[int(f[2])][1] if f[0] in ("gen", "con") else "Sizeof/Alignof"
                    key = ("layout:amd64:generic-offsetof:embedded-name-prefix" if (r_, sel_) in GEN_NAME_PREFIX_CASES
                           else "layout:amd64:generic-vs-gc:%s[%s].%s:%s" % (r_, f[1], sel_, f[0]))
                    probs.append((key, "differs from the reference toolchain (gc) on a type without function values", {"line": l, "type": r_ + "[" + f[1] + "]", "selector": sel_}))
    else:
        stats["reference_toolchain"] = "go build failed: " + (pr.stdout + pr.stderr)[-300:]
    return probs, mism, stats


def run_e2e(ctx, terms, model_lines):
    """compile + run the batch; returns list of problems [(term, what, detail)]"""
    d = os.path.join(ctx.scratch, "e2eprog")
    e2e.write_module(d, {"main.go": e2e_program(terms)})
    exe = os.path.join(d, "prog")
    p = e2e.llgo_build(ctx, d, exe, opt="-O0")
    if p.returncode != 0:
        raise HarnessBuildError("llgo could not compile the C08 end-to-end program:\n" + (p.stdout + p.stderr)[-3000:])
    out, err, rc = e2e.run_prog(exe, timeout=120)
    lines = [l for l in (out + err).split("\n") if re.match(r"^\d+ a=", l)]
    res = {}
    for l in lines:
        m = re.match(r"^(\d+) a=(\S+) b=(\S+) c=(\S+) p=(\d+)$", l)
        if m:
            res[int(m.group(1))] = (m.group(2), m.group(3), m.group(4), int(m.group(5)))
    probes = [tuple(l.split()) for l in (out + err).split("\n") if l.startswith("clearfunc ") or l.startswith("mapfunc ") or l.startswith("mapslot ")]
    return res, rc, (out + err)[-1500:], probes


class Server:
    """a line-protocol process kept alive across batches (answers one line per request line, flushed)"""

    def __init__(self, cmd, cwd=None, env=None):
        self.errf = open(os.path.join(cwd, "stderr.txt"), "w+")
        self.p = subprocess.Popen(cmd, cwd=cwd, env=env, stdin=subprocess.PIPE, stdout=subprocess.PIPE, stderr=self.errf, text=True, bufsize=1 << 16)

    def ask(self, lines):
        import threading
        if not lines:
            return []

        def feed():
            try:
                self.p.stdin.write("\n".join(lines) + "\n")
                self.p.stdin.flush()
            except (BrokenPipeError, ValueError):
                pass
        th = threading.Thread(target=feed)
        th.start()
        out = []
        for _ in range(len(lines)):
            l = self.p.stdout.readline()
            if not l:
                break
            out.append(l.rstrip("\n"))
        th.join()
        return out

    def stderr_tail(self):
        self.errf.flush()
        self.errf.seek(0)
        return self.errf.read()[-3000:]

    def close(self):
        try:
            self.p.stdin.close()
            self.p.wait(timeout=30)
        except Exception:
            self.p.kill()


# ------------------------------------------------------------------------------------------------ the check
def run(ctx, args):
    quick = ctx.tier == "quick"
    n_terms = 1500 if quick else 40000
    n_maps = 250 if quick else 4000
    n_c = 300 if quick else 3000
    n_e2e = 60 if quick else 250
    rng = ctx.rng
    # llgo itself is needed only for the end-to-end part: build it in the background (go build; independent of lake)
    import threading
    llgo_box = {}

    def _build_llgo():
        try:
            e2e.build_llgo(ctx)
        except Exception as e:      # re-raised where the binary is needed
            llgo_box["err"] = e
    llgo_thread = threading.Thread(target=_build_llgo)
    llgo_thread.start()
    st = lean_check(ctx, ["LlgoVerif.Props.C08"], ["LlgoVerif/Props/C08.lean"],
                    extra_files=["LlgoVerif/Model/Layout.lean", "LlgoVerif/Lemmas/Layout.lean"],
                    leanchecker=(ctx.tier == "thorough"))
    modeld = build_driver(ctx, "modeld_c08")
    harness = build_go_harness(ctx, "c08", overlay={"ssa/zz_verif_opaque.go": "overlay/zz_verif_opaque.go.txt",
                                                    "ssa/zz_verif_c08.go": "overlay/zz_verif_c08.go.txt"}, tags="llvm14,verif")
    hdir = os.path.dirname(harness)
    overrides = extract_overrides(ctx)
    hcmd = [harness] + ["-std=%s=%d,%d" % (a, w, m) for a, (w, m) in sorted(overrides.items())]
    ctx.log("sizes overrides extracted from internal/build/build.go:", overrides)

    hproc = Server(hcmd, cwd=hdir, env=go_env())      # one process: loading the runtime package costs seconds

    def real(lines):
        out = hproc.ask(lines)
        if len(out) != len(lines):
            raise HarnessBuildError("the C08 harness died after %d/%d lines:\n%s" % (len(out), len(lines), hproc.stderr_tail()))
        return out

    variant = []      # `set …` lines selecting the variant of the descriptor code the working tree has

    def model(lines):
        out, rc, err = run_lines([modeld], variant + lines)
        if len(out) != len(variant) + len(lines):
            raise RuntimeError("modeld_c08 died: %d/%d\n%s" % (len(out), len(lines), err[-2000:]))
        return out[len(variant):]

    # which descriptor alignment table does the working tree have?  (fixes/C08-1.diff makes the 8-byte kinds follow the
    # data layout; the model has both tables: `q` = hand-written constants, `qf` = repaired table)
    pr = real(["q linux/386 i64", "q linux/amd64 F", "q linux/amd64 T(P(i),i)", "q linux/amd64 T(L(F),i)"])
    probe, probe2, probe3, probe4 = [decode(x, True) for x in pr]
    ptrbytes_fixed = probe3 is not None and probe3["ptrbytes"] == "8"
    alias_fixed = probe4 is not None and probe4["a"][0] == probe4["b"][0]
    fixed_table = probe is not None and probe["c"][1] == 4
    func_words = 2 if (probe2 is not None and probe2["e"][0] == 16) else 1
    QM, MBM = "q", "mb"
    variant += ["set align-table " + ("fixed" if fixed_table else "orig"), "set func-words %d" % func_words,
                "set ptrbytes " + ("fixed" if ptrbytes_fixed else "orig")]
    ctx.log("code variant of the working tree: alignment table %s; a function type is recorded with %d word(s); PtrBytes of a struct %s; extraSize %s aliases" %
            ("repaired (fixes/C08-1)" if fixed_table else "hand-written constants (8 for 8-byte kinds)", func_words,
             "keeps the last pointerful field (fixes/C08-4)" if ptrbytes_fixed else "adds the bytes of the LAST field",
             "looks through (fixes/C08-3)" if alias_fixed else "does not look through"))
    ctx.coverage["descriptor_code_variant"] = {"align_table": "fixed" if fixed_table else "original", "func_words": func_words,
                                               "ptrbytes": "fixed" if ptrbytes_fixed else "original", "alias_in_extraSize": "fixed" if alias_fixed else "original"}

    def mshow(t):
        """how a term is put to the model: with fixes/C08-3 an alias is fully transparent (= the aliased type written out)"""
        return show(repair_alias(t) if alias_fixed else t)

    # ---- 0. the target records of the model against the real data layouts / base sizes
    dls = real(["dl " + rt for rt, _ in TARGETS])
    mts = model(["tg " + mt for _, mt in TARGETS])
    target_mismatch = []
    PTR = {}                                # target -> (pointer size, pointer ABI alignment) of the real data layout
    MT = {mt: mt for _, mt in TARGETS}      # how the model is asked about a target: by name, or `custom:` + measured record
    for (rt, mt), dl, mrec in zip(TARGETS, dls, mts):
        ptr, ab = parse_datalayout(dl)
        PTR[mt] = (ptr, ab["p"])
        rec = dict(kv.split("=") for kv in mrec.split())
        exp_std = overrides.get(mt)
        want = {"ptr": str(ptr), "i8": str(ab["i8"]), "i16": str(ab["i16"]), "i32": str(ab["i32"]), "i64": str(ab["i64"]),
                "f32": str(ab["f32"]), "f64": str(ab["f64"]), "p": str(ab["p"]), "gc": "false" if exp_std else "true"}
        if exp_std:
            want["word"], want["maxalign"] = str(exp_std[0]), str(exp_std[1])
        bad = {k: (rec.get(k), v) for k, v in want.items() if rec.get(k) != v}
        if bad:
            target_mismatch.append((mt, bad, dl))
            # the model is parametric in the target: keep the correspondence meaningful by asking it about the
            # MEASURED record (the theorems about the named constant then do not speak about this tree; reported below)
            word = want.get("word", rec["word"])
            maxa = want.get("maxalign", rec["maxalign"])
            MT[mt] = "custom:%s,%d,%s,%s,%s,%s,%s,%s,%s,%s,%s" % (want["ptr"], 0 if exp_std else 1, word, maxa, want["i8"], want["i16"],
                                                                 want["i32"], want["i64"], want["f32"], want["f64"], want["p"])
    if target_mismatch:
        ctx.log("NOTE: model target constants differ from the measured data layouts / base sizes; the model is driven with the measured records:", target_mismatch)
        ctx.coverage["target_records_measured"] = {mt: MT[mt] for mt, _, _ in target_mismatch}

    # ---- 1. cases: corpus first, then generated terms (and their layout-relevant sub-terms), on every target
    corpus = [l.strip() for l in open(os.path.join(VERIF, "corpus", "C08", "terms.txt")) if l.strip() and not l.startswith("#")]
    terms, seen = [], set()

    def add(t):
        s = show(t)
        if s not in seen:
            seen.add(s)
            terms.append(t)

    for s in corpus:
        for sub in layout_subterms(parse(s), []):
            add(sub)
    zshapes = zero_field_shapes()
    for s_ in zshapes:
        for sub in layout_subterms(parse(s_), []):
            add(sub)
    for s_ in ALIAS_SHAPES + CBG_SHAPES:
        for sub in layout_subterms(parse(s_), []):
            add(sub)
    n_terms += len(terms)       # the systematic shapes come on top of the random terms
    depth_hist = {}
    while len(terms) < n_terms:
        d = rng.choice([1, 2, 2, 3, 3, 4, 5])
        depth_hist[d] = depth_hist.get(d, 0) + 1
        t = gen(rng, d)
        for sub in layout_subterms(t, []):      # sub-terms too: the PtrBytes reference is built bottom-up from their answers
            add(sub)
    maps = []
    # systematic: every boundary type as key with small and boundary elements, every boundary type as element
    for kb_ in BOUNDARY:
        for v_ in SMALL[:3] + [kb_]:
            maps.append((parse(kb_), parse(v_)))
    for vb_ in BOUNDARY + BOUNDARY_ELEM_ONLY:
        for k_ in SMALL:
            maps.append((parse(k_), parse(vb_)))
    for kb_ in (BOUNDARY if not quick else rng.sample(BOUNDARY, 8)):
        for vb_ in (BOUNDARY + BOUNDARY_ELEM_ONLY if not quick else rng.sample(BOUNDARY + BOUNDARY_ELEM_ONLY, 6)):
            maps.append((parse(kb_), parse(vb_)))
    for _ in range(n_maps):
        k = parse(rng.choice(MAPKEYS))
        v = gen(rng, rng.choice([0, 1, 2, 3])) if rng.random() < 0.8 else parse(rng.choice(MAPKEYS))
        maps.append((k, v))

    lr, lm, meta = [], [], []
    for t in terms:
        s = show(t)
        for rt, mt in TARGETS:
            lr.append("q %s %s" % (rt, s)); meta.append((mt, t, None))
            # `//llgo:type C` types are not in the model (judged by the specification only)
            lm.append("%s %s %s" % (QM, MT[mt], "i8" if contains(t, "NC") else mshow(t)))
    for k, v in maps:
        for rt, mt in TARGETS:
            lr.append("mb %s %s %s" % (rt, show(k), show(v))); lm.append("%s %s %s %s" % (MBM, MT[mt], mshow(k), mshow(v))); meta.append((mt, k, v))
    ctx.log("asking real code and model: %d requests" % len(lr))
    ro = real(lr)
    mo = model(lm)
    ctx.log("answers in")

    # ---- 2. correspondence real vs model (whole answer lines, PtrBytes included)
    no_model = [meta[i][2] is None and contains(meta[i][1], "NC") for i in range(len(lr))]
    mism = [(lr[i], ro[i], mo[i]) for i in range(len(lr)) if not no_model[i] and ro[i] != mo[i]]

    def judge(d, mt):
        """the specification on one decoded answer of the real code"""
        ok = agrees(d)
        if "map" in d:      # the bucket struct: descriptor size against the LLVM size
            ok = ok and d["map"][2] == d["b"][0]
        if "md" in d:       # the emitted map descriptor against the independent bucket specification
            ok = ok and not map_spec(d, *PTR[mt]) and d["md"]["BucketSize"] == d["b"][0]
        return ok

    def req(mt, t):
        """request line for a term or, for a map type ('M', k, v), for its descriptor"""
        if t[0] == "MB":
            return "mb %s %s %s" % (rt_of[mt], show(t[1]), show(t[2]))
        return "q %s %s" % (rt_of[mt], show(t))

    def rewrite(rw, t):
        if t[0] != "MB":
            return rw(t)
        if rw is repair_nested_tail:
            return ("MB", rw(t[1], True), rw(t[2], True))
        return ("MB", rw(t[1]), rw(t[2]))

    def shown(t):
        return "M(%s,%s)" % (show(t[1]), show(t[2])) if t[0] == "MB" else show(t)

    rt_of = {mt: rt for rt, mt in TARGETS}
    # ---- 3. specification on the real numbers: (a) = (b) = (c); disagreements are attributed to a cause by repairing
    #         the cause in the term and asking the real code again
    stats = {"q": len(terms) * len(TARGETS), "mb": len(maps) * len(TARGETS), "agree": 0, "disagree": 0}
    per_target = {mt: {"cases": 0, "disagree": 0} for _, mt in TARGETS}
    failing = []          # (index, mt, term, decoded)
    undecodable = []
    for i, line in enumerate(ro):
        d = decode(line, True)
        mt = meta[i][0]
        per_target[mt]["cases"] += 1
        if d is None:
            undecodable.append((lr[i], line))
            continue
        ok = judge(d, mt)
        if ok:
            stats["agree"] += 1
        else:
            stats["disagree"] += 1
            per_target[mt]["disagree"] += 1
            failing.append((i, mt, d))
    if undecodable:
        ctx.log("harness lines that are not layouts: %d, e.g. %s" % (len(undecodable), undecodable[0]))

    spec_fail_keys = {}
    pending = []
    for (i, mt, d) in failing:
        if meta[i][2] is None and repair_alias(meta[i][1])[0] in ("F", "F1") and d["a"] == d["b"] == d["c"] and d["e"][1] == d["b"][1]:
            # an unnamed function type: only the referenced descriptor's size differs (one word for a two-word value)
            key = "layout:%s:func-descriptor-size" % mt
            spec_fail_keys[key] = spec_fail_keys.get(key, 0) + 1
            ctx.report(key, "descriptor of a function type records one word, a function value is two", {"line": lr[i], "real": ro[i]})
            continue
        if meta[i][2] is None:
            pending.append({"i": i, "mt": mt, "t": meta[i][1], "causes": [], "done": False})
        else:
            # a map type: the repairs are applied to key and element, the repaired map's descriptor is judged again
            pending.append({"i": i, "mt": mt, "t": ("MB", meta[i][1], meta[i][2]), "causes": [], "done": False})
    ALIGN_CAUSES = {"int64-align", "descriptor-align8"}

    def aligns_agree(i):
        """zero-size tails and nested tail padding explain SIZES and OFFSETS only: with such a cause alone the alignments
        of the three computations (and of the referenced descriptor) must still agree on the original input"""
        d0 = decode(ro[i], True)
        return d0["a"][1] == d0["b"][1] == d0["c"][1] == d0["cfa"] == d0["e"][1]

    # causes that the code variant of this tree cannot have are not offered as explanations
    repairs = [r_ for r_ in REPAIRS if not (r_[0] == "descriptor-align8" and fixed_table) and not (r_[0] == "alias-func-extra" and alias_fixed)]

    def judge_mod_func(d2, mt_, t2):
        """agreement, or agreement up to the known one-word descriptor of an unnamed function type when that is what the
        (repaired) term is"""
        if d2 is None:
            return False
        if judge(d2, mt_):
            return True
        return (func_words == 1 and t2[0] != "MB" and repair_alias(t2)[0] in ("F", "F1") and d2["a"] == d2["b"] == d2["c"]
                and d2["cfa"] == d2["c"][1] and d2["e"][1] == d2["b"][1] and ctx.match_known("layout:%s:func-descriptor-size" % mt_) is not None)

    unexplained = []
    # stage 1: does a single repair explain the disagreement?  (keeps the attribution specific)
    singles = []
    for p in pending:
        for cause, tgts, rw in repairs:
            if p["mt"] in tgts:
                t2 = rewrite(rw, p["t"])
                if shown(t2) != shown(p["t"]):
                    singles.append((p, [cause], t2))
    # … or two of them
    for p in pending:
        app = [(cause, rw) for cause, tgts, rw in repairs if p["mt"] in tgts and shown(rewrite(rw, p["t"])) != shown(p["t"])]
        for x in range(len(app)):
            for y in range(x + 1, len(app)):
                t2 = rewrite(app[y][1], rewrite(app[x][1], p["t"]))
                singles.append((p, [app[x][0], app[y][0]], t2))
    if singles:
        singles.sort(key=lambda x: len(x[1]))
        out = real([req(p["mt"], t2) for p, causes, t2 in singles])
        for (p, causes, t2), line in zip(singles, out):       # singles come first for every p: the smallest explanation wins
            d2 = decode(line, True)
            if not p["done"] and judge_mod_func(d2, p["mt"], t2) and (set(causes) & ALIGN_CAUSES or aligns_agree(p["i"])):
                p["done"] = True
                p["causes"] = causes
    # stage 2: several causes at once — apply the repairs cumulatively
    for cause, tgts, rw in repairs:
        batch = []
        for p in pending:
            if p["mt"] in tgts and not p["done"]:
                t2 = rewrite(rw, p["t"])
                if shown(t2) != shown(p["t"]):
                    batch.append((p, t2))
        if not batch:
            continue
        out = real([req(p["mt"], t2) for p, t2 in batch])
        for (p, t2), line in zip(batch, out):
            d2 = decode(line, True)
            p["t"] = t2
            p["causes"].append(cause)
            if judge_mod_func(d2, p["mt"], t2):
                p["done"] = True
    for p in pending:
        i, mt = p["i"], p["mt"]
        if p["done"] and not (set(p["causes"]) & ALIGN_CAUSES) and not aligns_agree(i):
            p["done"] = False
            p["causes"].append("(alignment differs: not explained by a size-only cause)")
        if p["done"] and p["causes"] == ["c-background-func-field"] and p["t"][0] != "MB" and meta[i][2] is None:
            # the known cause is narrow: goProgram.Offsetsof charges the closure word to the raw function-pointer members
            # of the C struct ITSELF (it only sees the field list), and the descriptor drops the name.  The folded
            # unsafe.Sizeof/Alignof (extraSize stops at a named type with C background) equal the LLVM numbers, and so
            # do the folded offsets of every ENCLOSING ordinary type.  Anything else is not this cause.
            d0 = decode(ro[i], True)
            t0 = meta[i][1]
            if d0["a"][:2] != d0["b"][:2]:
                p["done"] = False
                p["causes"].append("(unsafe.Sizeof/Alignof of a type with a `//llgo:type C` part differs from the LLVM size: not the known Offsetsof/descriptor cause)")
            elif t0[0] != "NC" and d0["a"][2] != d0["b"][2]:
                p["done"] = False
                p["causes"].append("(unsafe.Offsetof in an ordinary struct that contains a `//llgo:type C` type differs from the LLVM offsets: not the known cause)")
        if p["done"]:
            for cause in p["causes"]:
                key = "layout:%s:%s" % (mt, cause)
                spec_fail_keys[key] = spec_fail_keys.get(key, 0) + 1
                ctx.report(key, "size/alignment/offsets of the three computations differ", {"line": lr[i], "real": ro[i]})
        else:
            unexplained.append((lr[i], ro[i], p["causes"]))
    n_un = n_mb = 0
    per_tgt_un = {}
    for (line, r, tried) in sorted(unexplained, key=lambda u: (len(u[0]), u[0])):      # simplest inputs first
        f = line.split()
        if f[0] == "mb":
            n_mb += 1
            if n_mb > 25:
                continue
            # a map descriptor that no known cause explains: always reported, with the map type as replay
            mt_ = [m for rt_, m in TARGETS if rt_ == f[1]][0]
            d_ = decode(r, True)
            ctx.report("layout:%s:map-bucket:M(%s,%s)" % (mt_, f[2], f[3]),
                       "the emitted map descriptor does not describe a bucket of 8 tophash bytes + 8 key slots + 8 element slots + overflow pointer",
                       {"map": "map[%s]%s" % (go_type(parse(f[2])), go_type(parse(f[3]))), "request": line, "real": r,
                        "violated (what, got, want)": map_spec(d_, *PTR[mt_]) if d_ and "md" in d_ else None, "repairs_tried": tried})
        elif per_tgt_un.get(f[1], 0) < 6:          # a few per target, simplest first
            per_tgt_un[f[1]] = per_tgt_un.get(f[1], 0) + 1
            n_un += 1
            ctx.report("layout:unexplained:" + line, "the three computations disagree and no known cause explains it",
                       {"type": go_type(parse(f[2])), "target": f[1], "line": line, "real": r,
                        "meaning": "a=<compile-time size>,<align>,<offsets> b=<LLVM …> c=<descriptor size>,<Align>,<FieldAlign>,<PtrBytes>,<offsets> e=<referenced descriptor size>,<align>",
                        "repairs_tried": tried})

    # ---- 3c. PtrBytes of the descriptors, judged against a reference built bottom-up from the real sizes and offsets
    ans = {mt: {} for _, mt in TARGETS}
    for i, line in enumerate(ro):
        if meta[i][2] is None:
            d = decode(line, True)
            if d is not None:
                ans[meta[i][0]][show(meta[i][1])] = d
    pb_stats = {"judged": 0, "wrong": 0}
    pb_bad = []
    for i, line in enumerate(ro):
        mt, t = meta[i][0], meta[i][1]
        if meta[i][2] is not None or contains(t, "NC"):
            continue
        d = ans[mt].get(show(t))
        if d is None or not agrees(d) or d["ptrbytes"] is None:
            continue
        ref = ptrbytes_ref(ans[mt], PTR[mt][0], t)
        if ref is None:
            continue
        pb_stats["judged"] += 1
        got = int(d["ptrbytes"])
        if got != ref:
            pb_stats["wrong"] += 1
            if got == ptrbytes_ref(ans[mt], PTR[mt][0], t, bug=True):
                key = "layout:%s:ptrbytes-last-field" % mt
                spec_fail_keys[key] = spec_fail_keys.get(key, 0) + 1
                ctx.report(key, "PtrBytes of a struct descriptor stops before its last pointer", {"line": lr[i], "real": line, "PtrBytes": got, "want": ref})
            else:
                pb_bad.append((lr[i], line, got, ref))
    for (l_, r_, got, ref) in sorted(pb_bad, key=lambda u: (len(u[0]), u[0]))[:12]:
        f = l_.split()
        ctx.report("layout:%s:ptrbytes:%s" % ([m for rt_, m in TARGETS if rt_ == f[1]][0], f[2]),
                   "PtrBytes of the descriptor is not the prefix of the value that can hold pointers",
                   {"type": go_type(parse(f[2])), "line": l_, "real": r_, "PtrBytes": got, "want": ref})
    ctx.log("cause attribution done: %s, unexplained %d; PtrBytes %s" % (spec_fail_keys, len(unexplained), pb_stats))
    # ---- 3d. same-named function-local types: `func f() { type rec … }; func g() { type rec … }` in ONE package.  The
    #          identifier and the package path are equal, only the declaring scope differs; the layout of a defined type
    #          is that of its underlying type wherever it is declared.  Oracle (no model, no llgo code): the answer for
    #          R(k,t) — `type rec t` in a function scope of its own — and for everything built from it (array, struct
    #          field, pointer element, map key / element incl. the EMITTED map descriptor) must be, number for number,
    #          the answer of the same process for the package-level N(t), which sections 2/3 judge.
    lt_pool = []
    for t in terms:
        u = under(t)
        if u[0] in ("T", "A") and not contains(t, "NC") and not contains(t, "B") and len(show(t)) < 100 and not is_zero(u):
            lt_pool.append(u)
    lt_fixed = [parse(x) for x in ["T(i32)", "T(i64,str,A(3,i64))", "i8", "str", "A(17,i64)", "T(F,u8)", "T(i8,i64)", "E", "A(129,u8)", "f64"]]
    lt_types = lt_fixed + rng.sample(lt_pool, min(len(lt_pool), 60 if quick else 600))
    lt_keys = [parse(x) for x in ["i32", "T(i8,i32)", "A(2,i16)", "str", "T(str,i8)", "A(33,i32)", "i64", "A(129,u8)", "u8", "T(i64,i64,i64)"]]
    lt_req, lt_meta = [], []
    for n_, t in enumerate(lt_types):
        for which, wrap in (("itself", lambda x: x), ("array element", lambda x: ("A", 3, x)), ("struct field", lambda x: ("T", [("u8",), x])),
                            ("slice element", lambda x: ("S", x))):
            for rt, mt in TARGETS:
                lt_req.append("q %s %s" % (rt, show(wrap(("N", t))))); lt_meta.append(None)
                lt_req.append("q %s %s" % (rt, show(wrap(("R", n_, t)))))
                lt_meta.append((mt, which, n_, t))
    for n_, t in enumerate(lt_types):
        k = lt_keys[n_ % len(lt_keys)]
        for rt, mt in TARGETS:
            lt_req.append("mb %s %s %s" % (rt, show(("N", k)), show(("N", t)))); lt_meta.append(None)
            lt_req.append("mb %s %s %s" % (rt, show(("R", 1000 + n_, k)), show(("R", n_, t)))); lt_meta.append((mt, "map key and element", n_, t))
    lt_out = real(lt_req)
    lt_stats = {"types": len(lt_types), "requests": len(lt_req) // 2, "differ": 0}
    lt_bad = []
    for j in range(1, len(lt_req), 2):
        if lt_out[j] != lt_out[j - 1]:
            lt_stats["differ"] += 1
            lt_bad.append(j)
    for j in sorted(lt_bad, key=lambda j: (len(lt_req[j]), j))[:8]:
        mt, which, n_, t = lt_meta[j]
        earlier = [go_type(x) for x in lt_types[:n_]][-3:]
        ctx.report("layout:%s:local-type-same-name:%s" % (mt, lt_req[j].split(None, 2)[2].replace(" ", ",")),
                   "a function-local `type rec` (used as %s) does not get the numbers of the same type declared at package level; other functions of the package declare a `type rec` too" % which,
                   {"go": "func f%d() { type rec %s; … }   // one of %d functions of one package that each declare their own `type rec`; the ones asked just before: %s" % (n_, go_type(t), len(lt_types), earlier),
                    "request (R(k,t) = `type rec t` in function scope k)": lt_req[j], "real": lt_out[j],
                    "request with the type at package level": lt_req[j - 1], "real at package level": lt_out[j - 1],
                    "meaning": "a=<compile-time size>,<align>,<offsets> b=<LLVM …> c=<descriptor size>,<Align>,<FieldAlign>,<PtrBytes>,<offsets> e=<referenced descriptor size>,<align>; md=<KeySize>,<ValueSize>,<BucketSize>,<flags> of the emitted map descriptor"})
    ctx.log("same-named function-local types: %s" % lt_stats)
    # ---- 4. C-compatible types on amd64: gcc is the reference for the real numbers and for the model's cLayout
    cterms = [t for t in terms if is_c(t)]
    while len(cterms) < n_c:
        t = gen(rng, rng.choice([1, 2, 3, 4]))
        if is_c(t) and show(t) not in seen:
            seen.add(show(t)); cterms.append(t)
    cterms = cterms[:max(n_c, 1)]
    gl = gcc_layouts(ctx, cterms, "gcc")
    cl = gcc_layouts(ctx, cterms, "clang") if not quick else gl
    creal = real(["q linux/amd64 " + show(t) for t in cterms])
    cmodel = model(["cl %s %s" % (MT["amd64"], show(t)) for t in cterms])
    c_bad_model, c_bad_real = [], []
    for t, g, g2, r, m in zip(cterms, gl, cl, creal, cmodel):
        if g != g2:
            c_bad_model.append((show(t), "gcc %s clang %s" % (g, g2)))
        if m != "c=" + g:
            c_bad_model.append((show(t), g, m))
        d = decode(r, True)
        tup = tuple(g.split(","))
        want = (int(tup[0]), int(tup[1]), tup[2])
        if d is None or not (d["a"] == want and d["b"] == want and d["c"] == want):
            if d is not None and agrees(d):
                c_bad_real.append((show(t), g, r))        # the three agree with each other but not with the C compiler
            elif d is not None and repair_zero_tail(t) != t:
                pass                                       # already reported above (zero-size tail); cannot occur for C types
            else:
                c_bad_real.append((show(t), g, r))
    for (s, g, r) in c_bad_real[:10]:
        ctx.report("layout:amd64:c-layout:" + s, "C-compatible type is not laid out as the host C compiler lays it out", {"term": s, "gcc": g, "real": r})
    if c_bad_model:
        ctx.log("cLayout (model) differs from gcc on %d types, e.g. %s" % (len(c_bad_model), c_bad_model[0]))

    ctx.log("C side done: %d types, model-vs-gcc %d, real-vs-gcc %d" % (len(cterms), len(c_bad_model), len(c_bad_real)))
    # ---- 5. end to end on amd64: constants folded by the compiler, addresses computed by generated code, emitted descriptors
    e2e_stats = {"structs": 0, "bad": 0}
    e2e_err = None
    try:
        sts = []
        for t in terms:
            u = under(t)
            if u[0] == "T" and len(u[1]) > 0 and not is_zero(u) and len(show(t)) < 120 and not any(f[0] == "B" for f in u[1]):
                sts.append(t)
        rng.shuffle(sts)
        pick = [parse(s) for s in ["T(i8,i64)", "T(i8,F,i64)", "T(i64,T())", "T(b,F,b)", "T(i32,T(),T())", "T(A(3,F),i8)", "T(T(i32,i8),i8)",
                                   "T(u32,u32,A(0,u64))", "T(A(0,u64),u32)", "T(u8,T(B(A(0,u64)),u8),u8)", "T(u16,A(0,c128),u16)",
                                   "T(L(F),i)", "T(i8,L(F),i64)", "T(L(i64),i8)", "NC(T(F1,i32))", "T(NC(T(F1,i32)),i64)", "T(NC(F1),i32)",
                                   "T(P(i),i)", "T(str,P(i),A(4,i))"]] + sts[:n_e2e]
        mlines = model(["%s %s %s" % (QM, MT["amd64"], "i8" if contains(t, "NC") else mshow(t)) for t in pick])
        llgo_thread.join()
        if "err" in llgo_box:
            raise llgo_box["err"]
        res, rc, tail, probes = run_e2e(ctx, pick, mlines)
        e2e_stats["probes"] = [" ".join(p) for p in probes]
        want_probes = {("clearfunc",), ("mapfunc", "8"), ("mapfunc", "9")}
        slots_seen = set()
        for pr_ in [x for x in probes if x[0] == "mapslot"]:
            slots_seen.add(pr_[1])
            if pr_[2:] != ("100", "0"):
                kt_, vt_ = [(k_, v_) for n_, k_, v_ in MAPSLOT_PROBES if n_ == pr_[1]][0]
                ctx.report("layout:amd64:map-bucket:e2e:map[%s]%s" % (kt_, vt_), "compiled program: a map with 100 entries does not give the stored values back",
                           {"map": "map[%s]%s" % (kt_, vt_), "probe": " ".join(pr_), "meaning": "mapslot <name> <len, want 100> <entries read back wrong, want 0>"})
        for n_, kt_, vt_ in MAPSLOT_PROBES:
            if n_ not in slots_seen:
                ctx.report("layout:amd64:map-bucket:e2e:map[%s]%s" % (kt_, vt_), "compiled program died in or before the map probe (100 inserts, read back)",
                           {"map": "map[%s]%s" % (kt_, vt_), "rc": rc, "tail": tail[-600:]})
                break
        probes = [x for x in probes if x[0] != "mapslot"]
        for pr_ in probes:
            want_probes.discard(pr_[:1] if pr_[0] == "clearfunc" else pr_[:2])
            if pr_[-1] != pr_[-2]:
                ctx.report("layout:amd64:func-descriptor-size", "compiled program: a map / slice of function values loses data (runtime copies Elem.Size_ bytes)",
                           {"probe": " ".join(pr_), "meaning": "clearfunc <nil entries after clear> <want>; mapfunc <n> <sum of m[i]() or -1 for panic> <want>"})
        if want_probes and func_words == 1:
            ctx.report("layout:amd64:func-descriptor-size", "compiled program died in the function-value probes", {"missing": sorted(want_probes), "tail": tail})
        elif want_probes:
            ctx.report("layout:amd64:e2e-probes-missing", "compiled program died in the function-value probes", {"missing": sorted(want_probes), "tail": tail})
        ctx.log("end-to-end program ran: %d of %d structs answered, rc %s" % (len(res), len(pick), rc))
        e2e_stats["structs"] = len(pick)
        e2e_stats["rc"] = rc
        for i, t in enumerate(pick):
            if i not in res:
                e2e_stats["bad"] += 1
                if ctx.match_known("layout:amd64:zero-size-tail") is not None and repair_zero_tail(t) != t:
                    continue
                ctx.report("layout:amd64:e2e-crash:" + show(t), "the end-to-end layout program produced no line for this struct",
                           {"term": show(t), "rc": rc, "tail": tail})
                continue
            a, b, c, pbytes = res[i]
            an, bn = a.split(","), b.split(",")
            cn = c.split(",")
            n = len(under(t)[1])
            fold = (an[0], an[2:])                     # Sizeof, Offsetof…
            code = (bn[0], bn[1:])                     # element stride of [2]T, field address differences
            descr = (cn[0], cn[5:]) if len(cn) > 4 else (cn[0], [])
            ok = fold == code == descr and an[1] == cn[1] == cn[2]
            if contains(t, "NC"):
                if an[0] != bn[0] or (t[0] != "NC" and fold != code):
                    # outside the known cause (which is about Offsetof INSIDE the C struct and the descriptor): the folded
                    # unsafe.Sizeof is not the stride generated code uses / an enclosing struct's folded offsets are off
                    e2e_stats["bad"] += 1
                    ctx.report("layout:amd64:c-background-sizeof:e2e:" + show(t), "compiled program: unsafe.Sizeof/Offsetof of a type with a `//llgo:type C` part is not what generated code uses",
                               {"term": show(t), "go": go_type(t), "line": "a=%s b=%s c=%s" % (a, b, c),
                                "meaning": "a=<Sizeof>,<Alignof>,<Offsetof…> folded by the compiler; b=<stride of [2]T>,<&s.f - &s …> in generated code; c=descriptor"})
                    continue
                if not ok:
                    e2e_stats["bad"] += 1
                    ctx.report("layout:amd64:c-background-func-field", "compiled program: a `//llgo:type C` struct with a function-pointer field: folded constants, generated addresses and descriptor differ",
                               {"term": show(t), "go": go_type(t), "line": "a=%s b=%s c=%s" % (a, b, c)})
                continue
            md = decode(mlines[i], False)
            if str(pbytes) != md["ptrbytes"]:
                mism.append(("e2e amd64 PtrBytes " + show(t), "p=%d" % pbytes, mlines[i]))
            if ok:
                want_pb = ptrbytes_ref(ans["amd64"], PTR["amd64"][0], t)
                if want_pb is not None and want_pb != pbytes:
                    e2e_stats["bad"] += 1
                    known_shape = pbytes == ptrbytes_ref(ans["amd64"], PTR["amd64"][0], t, bug=True)
                    ctx.report("layout:amd64:ptrbytes-last-field" if known_shape else "layout:amd64:ptrbytes:e2e:" + show(t),
                               "compiled program: PtrBytes of the emitted descriptor stops before the last pointer of the value",
                               {"term": show(t), "go": go_type(t), "PtrBytes": pbytes, "want": want_pb})
            mfold = (str(md["a"][0]), md["a"][2].split(":") if md["a"][2] not in ("-", ".") else [])
            mcode = (str(md["b"][0]), md["b"][2].split(":") if md["b"][2] not in ("-", ".") else [])
            mdesc = (str(md["c"][0]), md["c"][2].split(":") if md["c"][2] not in ("-", ".") else [])
            if (fold, code, descr) != (mfold, mcode, mdesc) or an[1] != str(md["a"][1]) or cn[1] != str(md["c"][1]):
                mism.append(("e2e amd64 " + show(t), "a=%s b=%s c=%s" % (a, b, c), mlines[i]))
            if not ok:
                e2e_stats["bad"] += 1
                t2 = repair_zero_tail(t)
                if repair_alias(t) != t and not alias_fixed:
                    ctx.report("layout:amd64:alias-func-extra", "compiled program: folded constants, generated addresses and descriptor differ",
                               {"term": show(t), "go": go_type(t), "line": "a=%s b=%s c=%s" % (a, b, c)})
                elif t2 != t:
                    ctx.report("layout:amd64:zero-size-tail", "compiled program: folded constants, generated addresses and descriptor differ",
                               {"term": show(t), "go": go_type(t), "line": "a=%s b=%s c=%s" % (a, b, c)})
                else:
                    ctx.report("layout:amd64:e2e:" + show(t), "compiled program: folded constants, generated addresses and descriptor differ",
                               {"term": show(t), "go": go_type(t), "line": "a=%s b=%s c=%s" % (a, b, c)})
        # ---- 5b. per-instance unsafe.Sizeof/Alignof/Offsetof in generic functions (llgo vs generated addresses vs gc vs model)
        gprobs, gmism, gstats = run_generic(ctx, model, MT)
        e2e_stats["generic_instances"] = gstats
        mism += gmism
        n_g = 0
        for key, what, rep in gprobs:
            if ctx.match_known(key) is None:
                n_g += 1
                if n_g > 12:
                    continue
            ctx.report(key, what, rep)
        gk = {}
        for key, _, _ in gprobs:
            gk[key] = gk.get(key, 0) + 1
        ctx.log("generic-instance program: %s problems by key: %s" % (gstats, gk))
    except HarnessBuildError as e:
        e2e_err = str(e)
        ctx.log("end-to-end part failed:", e2e_err[-1500:])
        ctx.broken.append("end-to-end layout program does not build/run")

    hproc.close()
    # ---- 6. verdicts for broken ties
    if mism:
        ctx.log("correspondence mismatches: %d, first: %s" % (len(mism), mism[0]))
        ctx.broken.append("correspondence real vs Lean model (%d lines differ), e.g. %s" % (len(mism), mism[0][0]))
        if not ctx.violations:
            ctx.report_broken("correspondence C08 real-vs-model", {"first": mism[:5]})
    if target_mismatch:
        # not a violation by itself: a changed sizes override or data layout is judged by the specification above (any
        # disagreement among the three computations was reported with its input); recorded so that the named-target
        # theorems (wfTarget_amd64 …, counterexamples) are known not to describe this tree
        ctx.assumptions.append("target constants of Model/Layout.lean differ from this tree for: %s (model driven with measured records)" %
                               ", ".join(mt for mt, _, _ in target_mismatch))
    if c_bad_model and not ctx.violations:
        ctx.broken.append("cLayout differs from gcc")
        ctx.report_broken("C08 cLayout vs gcc (spec validation)", {"first": c_bad_model[:5]})
    if undecodable and not ctx.violations:
        ctx.report_broken("C08 harness answers", {"first": undecodable[:5]})
    if e2e_err and not ctx.violations:
        ctx.report_broken("C08 end-to-end program", e2e_err[-1500:])
    for name, s in st.items():
        if s != "ok":
            ctx.log("theorem", name, s)
    if any(s != "ok" for s in st.values()) and not ctx.violations:
        ctx.report_broken("Props/C08: " + ", ".join(n for n, s in st.items() if s != "ok"), st)

    nontrivial = set(show(t) for t in terms if len(layout_subterms(t, [])) >= 3)
    ci_ = next((k for k, t in enumerate(cterms) if under(t)[0] == "T" and len(under(t)[1]) >= 3), 0)
    si = lr.index("q linux/arm T(i8,i64)") if "q linux/arm T(i8,i64)" in lr else 0
    ctx.coverage["samples"] = [{"request": lr[si], "real": ro[si], "model": mo[si]},
                               {"request": lr[len(lr) // 2], "real": ro[len(lr) // 2], "model": mo[len(lr) // 2]},
                               {"c-compatible": show(cterms[ci_]), "gcc": gl[ci_], "real": creal[ci_], "model": cmodel[ci_]}]
    ctx.coverage["trusted_base"] += [
        "hand-written Lean model of the three layout computations tied by differential run on %d requests (real llgo code in-process, built from the working tree with -tags llvm14,verif, vs compiled Lean model)" % len(lr),
        "harness/c08/main.go (builds go/types values from terms; reads the ABI alignment of the LLVM type through the add-only overlay accessor ssa.VerifABIAlign); (c) offsets are queried as abitype.go abiStructFields computes them (prog.OffsetOf(prog.rawType(t), i)), and read back from emitted descriptors in the amd64 end-to-end program",
        "base sizes per target: types.SizesFor(\"gc\", arch) of the Go toolchain + the StdSizes override parsed from internal/build/build.go by regular expression",
        "LLVM 14 data layouts stand in for the LLVM 19 ones llgo targets; LLVM's DataLayout/StructLayout implementation is modelled, not verified",
        "gcc 12 / clang 14 on the amd64 host as the reference for the natural C layout (spec validation of cLayout)",
        "cause attribution of disagreements re-queries the real code on a repaired term (Python rewrites in checks/c08.py)",
    ]
    ctx.assumptions += ["`//llgo:type C` types are judged by the specification only (not in the Lean model); the written/promoted flag of each selector step is an input of the per-instance Offsetof model",
                        "only amd64 executes; the other four targets are covered through their data layouts (numbers computed at compile time)",
                        "named types with C background (InC) and sync/atomic.align64 are not generated"]
    return ctx.finish("proof", {"evaluations": len(lr) + len(cterms) + e2e_stats["structs"], "distinct_nontrivial": len(nontrivial),
                               "rule": "one request = one (target, type term) through all three real computations and the model; non-trivial = term with at least 3 layout-relevant sub-terms; distinct by term text",
                               "input_distribution": {"requests": stats, "per_target": per_target, "generator_depths": depth_hist,
                                                      "c_compatible_vs_gcc": len(cterms), "e2e_amd64": e2e_stats,
                                                      "causes_of_disagreement": spec_fail_keys, "unexplained": len(unexplained),
                                                      "ptrbytes": pb_stats, "same_named_local_types": lt_stats},
                               "spec_failures_on_real_code": stats["disagree"], "correspondence_mismatches": len(mism),
                               "map_descriptor_spec": "independent (checks/c08.py map_spec): flags, KeySize/ValueSize, BucketSize and the runtime's slot addressing recomputed from key/elem size+alignment in generated code; boundary types of 127/128/129 bytes generated systematically; unexplained map descriptors %d" % n_mb,
                               "sizes_overrides": {k: list(v) for k, v in overrides.items()}})

