"""Statement-deletion minimiser for generated programs (delta debugging over the statement lists of every function).
`pred(P)` must return True while the reduced program still shows the behaviour of interest (it has to re-emit and
re-build the program itself and must return False when the reduced program no longer compiles with the reference
toolchain)."""
from goast import *


def stmt_lists(P):
    """every mutable statement list of the program, outermost first"""
    out = []

    def walk(ss):
        out.append(ss)
        for s in ss:
            for b in s.blocks():
                walk(b)
    for f in P.funcs:
        walk(f.body)
    return out


def count_stmts(P):
    return sum(len(l) for l in stmt_lists(P))


def minimize(P, pred, max_tests=40, log=None):
    tests = 0
    changed = True
    chunk = 4
    while changed and tests < max_tests:
        changed = False
        for ss in stmt_lists(P):
            i = len(ss)
            while i > 0 and tests < max_tests:
                lo = max(0, i - chunk)
                # keep a function's final `return` (the reference toolchain requires it)
                saved = ss[lo:i]
                if not saved:
                    break
                del ss[lo:i]
                tests += 1
                ok = False
                try:
                    ok = pred(P)
                except Exception as e:      # printing a broken tree
                    ok = False
                if ok:
                    changed = True
                    if log:
                        log("minimise: removed %d statement(s), %d left" % (len(saved), count_stmts(P)))
                else:
                    ss[lo:lo] = saved
                i = lo
        if not changed and chunk > 1:
            chunk = 1
            changed = True
    return P, tests
