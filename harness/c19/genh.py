"""C19 generator, family H: Python module HIERARCHIES used side by side (a package module, its submodules, a sibling
with the same textual prefix) and Python functions mentioned only by bodies that come into existence in LATER compile
rounds (instances of generic functions and methods, chains of them, closures inside them).

What is generated (all part of the one batch program of harness/c19/gen.py):
  Python   a forest of dotted modules under <pymods>/ (packages with __init__.py); every function returns
           "<module>.<attr>:" + cdump(args), so the payload says WHICH module object the attribute was looked up in
  bq<i>    one binding package per hierarchy module (`LLGoPackage = "py.<dotted>"`), one declaration per attribute
           (arity 0, 1, 2 or `__llgo_va_list ...any`)
  vh<j>    ordinary packages; each consists of CHAINS: a plain function R<c> that mentions some symbols and
           instantiates a generic G<c>_1, which mentions others and instantiates G<c>_2 (a function, a method of a
           generic type, or a generic function whose mention sits in a closure) … ; `Run(c, k, a)` walks down chain c
           and calls the k-th symbol of the chain.  Optionally a package-level variable is initialised through a chain.
Op of the batch program:  H <j> <c> <k> <value>   ->  dump of the returned str.

The body graph of every vh package (which body mentions what, which body makes which body exist) is handed to the
Lean model (`modeld_c19 compile`), whose answer must be the `llgoLoadPyModSyms` calls found in the package's IR."""

ATTR_POOL = ["aaa", "f", "mi", "mic", "mid0", "mid_x", "mie", "pa", "pathx", "zz", "de", "deep_", "x0", "ze", "zed9", "__doc2__"]
ARITIES = [0, 1, 2, "v"]
PFX = "__llgo_py."


def make_hier(rng, quick):
    """-> dict(mods=[dotted], attrs={mod: [(attr, arity)]}, users=[dict(go, chains=[[body…]], initvar)])
    body = dict(kind: plain|generic|method|closure, refs: [(mod index, attr index)])"""
    # the forest: always a parent with a submodule and a sub-submodule, and a sibling sharing the textual prefix
    mods = ["vq", "vq.mid", "vq.mid.deep", "vqx"]
    extra = ["vq.zed", "vqx.mid", "vq.path", "vr", "vq.mid.de", "vqx.a.b"]
    rng.shuffle(extra)
    mods += extra[:rng.randint(1, 2) if quick else rng.randint(2, 5)]
    for m in list(mods):            # parents of generated modules must exist as packages (not necessarily bound)
        parts = m.split(".")
        for i in range(1, len(parts)):
            par = ".".join(parts[:i])
            if par not in mods and rng.random() < 0.5:
                mods.append(par)
    mods = sorted(set(mods))
    attrs = {}
    for m in mods:
        children = {x[len(m) + 1:].split(".")[0] for x in mods if x.startswith(m + ".")}
        pool = [a for a in ATTR_POOL if a not in children]
        rng.shuffle(pool)
        n = rng.randint(3, 5)
        # a parent always gets names that sort before, between and after its submodules' names
        chosen = [a for a in ("aaa", "zz") if a in pool][: 2 if children else 0] + pool
        seen = []
        for a in chosen:
            if a not in seen:
                seen.append(a)
        attrs[m] = [(a, rng.choice(ARITIES)) for a in sorted(seen[:n])]
    allsyms = [(mi, ai) for mi, m in enumerate(mods) for ai in range(len(attrs[m]))]
    nusers = 2 if quick else 4
    users = []
    unused = list(allsyms)
    rng.shuffle(unused)
    for j in range(nusers):
        chains = []
        for c in range(rng.randint(2, 3) if quick else rng.randint(2, 5)):
            depth = rng.choice([1, 1, 2, 3]) if c else 2          # chain 0 always reaches a third round
            bodies = []
            for lvl in range(depth + 1):
                kind = "plain" if lvl == 0 else rng.choice(["generic", "generic", "method", "closure"])
                nrefs = rng.randint(0, 2) if lvl == 0 else rng.randint(1, 2)
                refs = []
                for _ in range(nrefs):
                    # mostly symbols nobody else mentions (so that a missing load cannot be hidden by another package
                    # loading the same linkonce variable first), sometimes a shared one
                    if unused and rng.random() < 0.75:
                        refs.append(unused.pop())
                    else:
                        refs.append(rng.choice(allsyms))
                bodies.append({"kind": kind, "refs": refs})
            chains.append(bodies)
        # the seeded shape of the hierarchy: ONE package mentions a parent symbol sorting before the submodule AND
        # symbols of the submodule (and one sorting after)
        if j == 0:
            vq, mid = mods.index("vq"), mods.index("vq.mid")
            first = (vq, 0)
            last = (vq, len(attrs["vq"]) - 1)
            chains[0][0]["refs"] = [first, (mid, 0), last]
        users.append({"go": "vh%d" % j, "chains": chains, "initvar": rng.random() < 0.6})
    return {"mods": mods, "attrs": attrs, "users": users}


def go_attr(a):
    return "F_" + a


def sym_name(hier, ref):
    m = hier["mods"][ref[0]]
    return PFX + m + "." + hier["attrs"][m][ref[1]][0]


def bind_go(hier, mi):
    return "bq%d" % mi


def write_pymods(d, hier):
    import os
    mods = set(hier["mods"])
    pkgs = set()
    for m in mods:
        parts = m.split(".")
        for i in range(1, len(parts)):
            pkgs.add(".".join(parts[:i]))
    for m in sorted(mods | pkgs):
        is_pkg = m in pkgs
        path = os.path.join(d, *m.split("."))
        if is_pkg:
            os.makedirs(path, exist_ok=True)
            fn = os.path.join(path, "__init__.py")
        else:
            os.makedirs(os.path.dirname(path), exist_ok=True)
            fn = path + ".py"
        src = ["from vhelp import cdump", ""]
        for a, _ in hier["attrs"].get(m, []):
            src += ["def %s(*args):" % a, "    return %r + cdump(args)" % (m + "." + a + ":"), ""]
        with open(fn, "w") as f:
            f.write("\n".join(src) + "\n")


def call_expr(hier, ref, arg="a"):
    m = hier["mods"][ref[0]]
    a, ar = hier["attrs"][m][ref[1]]
    n = 3 if ar == "v" else ar
    return "%s.%s(%s)" % (bind_go(hier, ref[0]), go_attr(a), ", ".join([arg] * n))


def oracle_call(hier, ref, tok):
    m = hier["mods"][ref[0]]
    a, ar = hier["attrs"][m][ref[1]]
    n = 3 if ar == "v" else ar
    return {"k": "call", "mod": m, "attr": a, "args": [tok] * n}


def sources(mod, hier, fn_decl, binding_src):
    """-> {relative path: Go source}"""
    files = {}
    for mi, m in enumerate(hier["mods"]):
        decls = [fn_decl(go_attr(a), a, ar) for a, ar in hier["attrs"][m]]
        files["bq%d/bq%d.go" % (mi, mi)] = binding_src("bq%d" % mi, m, decls)
    for u in hier["users"]:
        L = []
        used = set()
        for c, bodies in enumerate(u["chains"]):
            base = 0
            for lvl, b in enumerate(bodies):
                tests = []
                for r, ref in enumerate(b["refs"]):
                    used.add(ref[0])
                    tests.append((base + r, call_expr(hier, ref)))
                base += len(b["refs"])
                last = lvl == len(bodies) - 1
                nxt = None
                if not last:
                    nk = bodies[lvl + 1]["kind"]
                    targ = "int" if lvl == 0 else "[]T"
                    zero = "0" if lvl == 0 else "nil"
                    if nk == "method":
                        nxt = "B%d_%d[%s]{v: %s}.Call(k, a)" % (c, lvl + 1, targ, zero)
                    else:
                        nxt = "G%d_%d[%s](k, a, %s)" % (c, lvl + 1, targ, zero)
                body = []
                for k, e in tests:
                    if b["kind"] == "closure":
                        body += ["\tif k == %d {" % k, "\t\tf := func() *py.Object { return %s }" % e, "\t\treturn f()", "\t}"]
                    else:
                        body += ["\tif k == %d {" % k, "\t\treturn %s" % e, "\t}"]
                body.append("\treturn %s" % (nxt or "nil"))
                if b["kind"] == "plain":
                    L += ["func R%d(k int, a *py.Object) *py.Object {" % c] + body + ["}", ""]
                elif b["kind"] == "method":
                    L += ["type B%d_%d[T any] struct{ v T }" % (c, lvl), "",
                          "func (b B%d_%d[T]) Call(k int, a *py.Object) *py.Object {" % (c, lvl)] + body + ["}", ""]
                else:
                    L += ["func G%d_%d[T any](k int, a *py.Object, z T) *py.Object {" % (c, lvl)] + body + ["}", ""]
        if u["initvar"]:
            L += ["// initialised through chain 0 while the package is initialised", "var initRes = R0(%d, py.Long(7))" % init_k(u), ""]
        L += ["// Run calls symbol k of chain c.", "func Run(c int, k int, a *py.Object) *py.Object {", "\tswitch c {"]
        for c in range(len(u["chains"])):
            L.append("\tcase %d:\n\t\treturn R%d(k, a)" % (c, c))
        if u["initvar"]:
            L.append("\tcase -1:\n\t\treturn initRes")
        L += ["\t}", "\treturn nil", "}"]
        imps = ['\t"github.com/goplus/lib/py"', ""] + ['\t"%s/bq%d"' % (mod, mi) for mi in sorted(used)]
        files["%s/%s.go" % (u["go"], u["go"])] = "\n".join(
            ["// Code generated by /verif/harness/c19/genh.py. DO NOT EDIT.", "package %s" % u["go"], "", "import ("] + imps + [")", ""] + L) + "\n"
    return files


def init_k(u):
    """the symbol the package-level initialiser reaches: the LAST one of chain 0 (deepest round)"""
    return sum(len(b["refs"]) for b in u["chains"][0]) - 1


def dispatcher(hier):
    L = ["func hierCase(p int, c int, k int, a *py.Object) *py.Object {", "\tswitch p {"]
    for j, u in enumerate(hier["users"]):
        L.append("\tcase %d:\n\t\treturn %s.Run(c, k, a)" % (j, u["go"]))
    L += ["\t}", "\treturn nil", "}", ""]
    return "\n".join(L)


def cases(rng, hier, tree_tokens, rand_tree):
    out = []
    for j, u in enumerate(hier["users"]):
        for c, bodies in enumerate(u["chains"]):
            k = 0
            for lvl, b in enumerate(bodies):
                for ref in b["refs"]:
                    tok = tree_tokens(rand_tree(rng, 1))
                    out.append({"kind": "hier", "op": "H %d %d %d %s" % (j, c, k, tok), "oracle": oracle_call(hier, ref, tok), "model": None,
                                "hier": {"pkg": u["go"], "chain": c, "round": lvl + 1, "body": b["kind"], "symbol": sym_name(hier, ref)}})
                    k += 1
        if u["initvar"]:
            ref = [r for b in u["chains"][0] for r in b["refs"]][init_k(u)]
            out.append({"kind": "hier", "op": "H %d -1 0 i 0" % j, "oracle": oracle_call(hier, ref, "i 7"), "model": None,
                        "hier": {"pkg": u["go"], "chain": 0, "round": len(u["chains"][0]), "body": "package-level initialiser",
                                 "symbol": sym_name(hier, ref)}})
    return out


def body_graph(hier, u):
    """-> (bodies [(refs names, spawns)], roots) for `modeld_c19 compile`: body 0 = Run (+ the synthetic init), then
    the chain bodies; plain functions are member bodies, every generic body exists because its parent mentions it"""
    bodies = [([], [])]
    roots = [0]
    for bs in u["chains"]:
        prev = None
        for lvl, b in enumerate(bs):
            idx = len(bodies)
            bodies.append(([sym_name(hier, r) for r in b["refs"]], []))
            if lvl == 0:
                roots.append(idx)
            else:
                bodies[prev][1].append(idx)
            prev = idx
    return bodies, roots


def graph_text(bodies, roots):
    return ";".join("%s|%s" % (",".join(r) or "-", ",".join(str(s) for s in sp) or "-") for r, sp in bodies) + " " + (",".join(str(r) for r in roots) or "-")
