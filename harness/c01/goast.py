"""Typed AST of the C01 core-Go fragment with its two printers:
  .go(cx)   -> Go source text (cx = printing context: current package, for qualified names)
  .lean()   -> s-expression read by lean/Driver/C01.lean (grammar: see design/C01.md)
Types are tuples: ('int',K) | 'bool' | 'str' | ('named',decl) | ('ptr',T) | ('slice',T) | ('arr',n,T) | ('func',sig) |
('tparam',name) (only inside the Go rendering of generic declarations)."""

KINDS = ['int', 'i8', 'i16', 'i32', 'i64', 'uint', 'u8', 'u16', 'u32', 'u64']
GO_KIND = {'int': 'int', 'i8': 'int8', 'i16': 'int16', 'i32': 'int32', 'i64': 'int64', 'uint': 'uint', 'u8': 'uint8',
           'u16': 'uint16', 'u32': 'uint32', 'u64': 'uint64'}
WIDTH = {'int': 64, 'i8': 8, 'i16': 16, 'i32': 32, 'i64': 64, 'uint': 64, 'u8': 8, 'u16': 16, 'u32': 32, 'u64': 64}
SIGNED = {k: not k.startswith('u') for k in KINDS}
BOOL, STR = 'bool', 'str'
F64 = 'f64'


def tint(k):
    return ('int', k)


INT = tint('int')


def krange(k):
    w = WIDTH[k]
    return (-(1 << (w - 1)), (1 << (w - 1)) - 1) if SIGNED[k] else (0, (1 << w) - 1)


def is_int(t):
    return isinstance(t, tuple) and t[0] == 'int'


def under(t):
    """underlying type (through named basic declarations)"""
    while isinstance(t, tuple) and t[0] == 'named' and t[1].kind == 'basic':
        t = t[1].under
    return t


def int_kind(t):
    u = under(t)
    return u[1] if is_int(u) else None


class Sig:
    """function signature; identity by (params, results) through Program.sig()"""

    def __init__(self, sid, params, results):
        self.id, self.params, self.results = sid, params, results


class TypeDecl:
    def __init__(self, name, kind, pkg):
        self.name, self.kind, self.pkg = name, kind, pkg
        self.id = None            # Lean id (instances of generic types get their own)
        self.fields = []          # struct: (name, type, embedded)
        self.methods = []         # iface: (name, params, results)
        self.under = None         # basic
        self.generic = None       # (GenericType, targs) for instances
        self.go_name = None       # text used in Go source for instances, e.g. "P0Pair[int8, string]"
        self.mdecls = []          # Func objects of the methods declared on this type


class Cx:
    """Go printing context"""

    def __init__(self, prog, pkg, npk):
        self.prog, self.pkg, self.npk = prog, pkg, npk
        self.used = set()

    def q(self, pkg, name):
        """qualified reference to a top-level name of package `pkg`"""
        if pkg == self.pkg:
            return name
        self.used.add(pkg)
        return "p%d.%s" % (pkg, name)


def go_type(t, cx):
    if t == BOOL:
        return 'bool'
    if t == STR:
        return 'string'
    if t == 'any':
        return 'any'
    if t == F64:
        return 'float64'
    h = t[0]
    if h == 'int':
        return GO_KIND[t[1]]
    if h == 'named':
        d = t[1]
        if d.generic:
            g, targs = d.generic
            return cx.q(g.pkg, g.name) + "[" + ", ".join(go_type(a, cx) for a in targs) + "]"
        return cx.q(d.pkg, d.name)
    if h == 'ptr':
        return '*' + go_type(t[1], cx)
    if h == 'slice':
        return '[]' + go_type(t[1], cx)
    if h == 'arr':
        return '[%d]%s' % (t[1], go_type(t[2], cx))
    if h == 'func':
        s = t[1]
        r = [go_type(x, cx) for x in s.results]
        rs = '' if not r else (' ' + r[0] if len(r) == 1 else ' (' + ', '.join(r) + ')')
        return 'func(' + ', '.join(go_type(x, cx) for x in s.params) + ')' + rs
    if h == 'tparam':
        return t[1]
    raise ValueError(t)


def lean_type(t):
    if t == BOOL:
        return 'bool'
    if t == STR:
        return 'str'
    if t == F64:
        return 'f64'
    h = t[0]
    if h == 'int':
        return '(int %s)' % t[1]
    if h == 'named':
        return '(named %d)' % t[1].id
    if h == 'ptr':
        return '(ptr %s)' % lean_type(t[1])
    if h == 'slice':
        return '(slice %s)' % lean_type(t[1])
    if h == 'arr':
        return '(arr %d %s)' % (t[1], lean_type(t[2]))
    if h == 'func':
        return '(func %d)' % t[1].id
    raise ValueError(t)


def hexb(b):
    return b.hex() if b else '-'


def seqkind(t):
    u = under(t)
    if u == STR:
        return 'str'
    if u[0] == 'slice':
        return 'slice'
    if u[0] == 'arr':
        return 'arr'
    if u[0] == 'ptr' and under(u[1])[0] == 'arr':
        return 'ptrarr'
    raise ValueError(t)


def elem_type(t):
    u = under(t)
    if u == STR:
        return tint('u8')
    if u[0] == 'slice':
        return u[1]
    if u[0] == 'arr':
        return u[2]
    if u[0] == 'ptr':
        return under(u[1])[2]
    raise ValueError(t)


def zero_lean(t):
    u = under(t)
    if u == BOOL:
        return '(b 0)'
    if u == STR:
        return '(s -)'
    if u == 'any':
        return '(nil iface)'
    if u == F64:
        return '(f 0)'
    h = u[0]
    if h == 'int':
        return '(i %s 0)' % u[1]
    if h == 'named':
        d = u[1]
        if d.kind == 'struct':
            return '(struct' + ''.join(' (blankf %s)' % zero_lean(f[1]) if f[0] == '_' else ' ' + zero_lean(f[1]) for f in d.fields) + ')'
        return '(nil iface)'
    if h == 'ptr':
        return '(nil ptr)'
    if h == 'slice':
        return '(nil slice)'
    if h == 'arr':
        if u[1] > 4:
            return '(zeroarr %d %s)' % (u[1], zero_lean(u[2]))
        return '(arr' + (' ' + zero_lean(u[2])) * u[1] + ')'
    if h == 'func':
        return '(nil func)'
    raise ValueError(t)


class Var:
    def __init__(self, slot, name, ty):
        self.slot, self.name, self.ty = slot, name, ty
        self.readonly = False     # loop counters etc: never assigned by generated statements
        self.noappend = False     # slice that may share storage: never appended to
        self.maybe_nil = False


# ------------------------------------------------------------------------------------------- expressions
class E:
    const = False

    def kids(self):
        return []


class IntLit(E):
    const = True

    def __init__(self, ty, v):
        self.ty, self.v = ty, v

    def go(self, cx):
        return '%s(%d)' % (go_type(self.ty, cx), self.v)

    def lean(self):
        return '(i %s %d)' % (int_kind(self.ty), self.v)


class BoolLit(E):
    const = True

    def __init__(self, v):
        self.ty, self.v = BOOL, v

    def go(self, cx):
        return 'true' if self.v else 'false'

    def lean(self):
        return '(b %d)' % (1 if self.v else 0)


def go_str(b):
    out = []
    for c in b:
        if c == 0x22:
            out.append('\\"')
        elif c == 0x5c:
            out.append('\\\\')
        elif 0x20 <= c < 0x7f:
            out.append(chr(c))
        else:
            out.append('\\x%02x' % c)
    return '"' + ''.join(out) + '"'


class FloatLit(E):
    """float64 constant (exactly representable values only: printed in decimal for Go, as IEEE bits for Lean)"""
    const = True
    ty = 'f64'

    def __init__(self, v):
        self.v = float(v)

    def go(self, cx):
        return 'float64(%r)' % self.v

    def lean(self):
        import struct
        return '(f %d)' % struct.unpack('<Q', struct.pack('<d', self.v))[0]


class StrLit(E):
    const = True

    def __init__(self, b, ty=STR):
        self.ty, self.b = ty, b

    def go(self, cx):
        s = go_str(self.b)
        return s if self.ty == STR else '%s(%s)' % (go_type(self.ty, cx), s)

    def lean(self):
        return '(s %s)' % hexb(self.b)


class Zero(E):
    """the zero value of a type, written out"""

    def __init__(self, ty):
        self.ty = ty

    def go(self, cx):
        t = go_type(self.ty, cx)
        u = under(self.ty)
        if u == BOOL:
            return '%s(false)' % t if self.ty != BOOL else 'false'
        if u == STR:
            return '%s("")' % t if self.ty != STR else '""'
        if u == 'any':
            return 'any(nil)'
        if u == F64:
            return 'float64(0)'
        if u[0] == 'int':
            return '%s(0)' % t
        if u[0] == 'named':
            return t + '{}' if u[1].kind == 'struct' else t + '(nil)'
        if u[0] == 'arr':
            return t + '{}'
        if u[0] == 'ptr':
            return '(%s)(nil)' % t
        if u[0] == 'func':
            return '(%s)(nil)' % t
        return t + '(nil)'

    def lean(self):
        return zero_lean(self.ty)


class VarRef(E):
    def __init__(self, var):
        self.var, self.ty = var, var.ty

    def go(self, cx):
        return self.var.name

    def lean(self):
        return '(v %d)' % self.var.slot


class Blank(E):
    ty = None

    def go(self, cx):
        return '_'

    def lean(self):
        return '_'


class GlobRef(E):
    def __init__(self, g):
        self.g, self.ty = g, g.ty

    def go(self, cx):
        return cx.q(self.g.pkg, self.g.name)

    def lean(self):
        return '(g %d)' % self.g.id


GO_OP = {'add': '+', 'sub': '-', 'mul': '*', 'quo': '/', 'rem': '%', 'and': '&', 'or': '|', 'xor': '^', 'andnot': '&^',
         'shl': '<<', 'shr': '>>', 'eq': '==', 'ne': '!=', 'lt': '<', 'le': '<=', 'gt': '>', 'ge': '>='}
CMP = ('eq', 'ne', 'lt', 'le', 'gt', 'ge')


class Bin(E):
    def __init__(self, op, a, b):
        self.op, self.a, self.b = op, a, b
        self.ty = BOOL if op in CMP else a.ty
        self.const = a.const and b.const

    def kids(self):
        return [self.a, self.b]

    def go(self, cx):
        return '(%s %s %s)' % (self.a.go(cx), GO_OP[self.op], self.b.go(cx))

    def lean(self):
        return '(bin %s %s %s)' % (self.op, self.a.lean(), self.b.lean())


class Un(E):
    def __init__(self, op, a):
        self.op, self.a, self.ty = op, a, a.ty
        self.const = a.const

    def kids(self):
        return [self.a]

    def go(self, cx):
        return '(%s%s)' % ({'neg': '-', 'not': '!', 'compl': '^'}[self.op], self.a.go(cx))

    def lean(self):
        return '(un %s %s)' % (self.op, self.a.lean())


class Logic(E):
    def __init__(self, op, a, b):      # op: land | lor
        self.op, self.a, self.b, self.ty = op, a, b, BOOL
        self.const = a.const and b.const

    def kids(self):
        return [self.a, self.b]

    def go(self, cx):
        return '(%s %s %s)' % (self.a.go(cx), '&&' if self.op == 'land' else '||', self.b.go(cx))

    def lean(self):
        return '(%s %s %s)' % (self.op, self.a.lean(), self.b.lean())


class Conv(E):
    """conversion between integer types (named or not)"""

    def __init__(self, ty, a):
        self.ty, self.a = ty, a
        self.const = a.const

    def kids(self):
        return [self.a]

    def go(self, cx):
        return '%s(%s)' % (go_type(self.ty, cx), self.a.go(cx))

    def lean(self):
        return '(conv %s %s)' % (int_kind(self.ty), self.a.lean())


class ConvNamed(E):
    """conversion that only changes the static type (e.g. a func value to a named func type): the value is unchanged"""

    def __init__(self, ty, e):
        self.ty, self.e = ty, e

    def kids(self):
        return [self.e]

    def go(self, cx):
        return '%s(%s)' % (go_type(self.ty, cx), self.e.go(cx))

    def lean(self):
        return self.e.lean()


class StrConv(E):
    """kind: strofbytes | bytesofstr | strofrune"""

    def __init__(self, kind, a):
        self.kind, self.a = kind, a
        self.ty = ('slice', tint('u8')) if kind == 'bytesofstr' else STR

    def kids(self):
        return [self.a]

    def go(self, cx):
        return '%s(%s)' % ('[]byte' if self.kind == 'bytesofstr' else 'string', self.a.go(cx))

    def lean(self):
        return '(%s %s)' % (self.kind, self.a.lean())


def _args_go(args, cx):
    return ', '.join(a.go(cx) for a in args)


def _args_lean(args):
    return ''.join(' ' + a.lean() for a in args)


class Call(E):
    """static call of a top-level function (or of an instance of a generic function).  For a variadic function the
    arguments beyond the fixed parameters are packed into a fresh slice (nil when there are none) unless `spread`"""

    def __init__(self, fn, args, spread=False):
        self.fn, self.args, self.spread = fn, args, spread
        self.ty = fn.results[0].ty if len(fn.results) == 1 else None

    def kids(self):
        return self.args

    def go(self, cx):
        return '%s(%s%s)' % (self.fn.go_ref(cx), _args_go(self.args, cx), '...' if self.spread else '')

    def lean(self):
        if getattr(self.fn, 'variadic', False) and not self.spread:
            nfix = len(self.fn.params) - 1
            rest = self.args[nfix:]
            packed = '(slice%s)' % _args_lean(rest) if rest else '(nil slice)'
            return '(call %d%s %s)' % (self.fn.id, _args_lean(self.args[:nfix]), packed)
        return '(call %d%s)' % (self.fn.id, _args_lean(self.args))


class CallV(E):
    def __init__(self, f, args):
        self.f, self.args = f, args
        rs = under(f.ty)[1].results
        self.ty = rs[0] if len(rs) == 1 else None

    def kids(self):
        return [self.f] + self.args

    def go(self, cx):
        return '%s(%s)' % (self.f.go(cx), _args_go(self.args, cx))

    def lean(self):
        return '(callv %s%s)' % (self.f.lean(), _args_lean(self.args))


class MCall(E):
    """method call on a concrete (struct or pointer-to-struct) receiver; `rty` = static result type"""

    def __init__(self, recv, name, args, rty):
        self.recv, self.name, self.args, self.ty = recv, name, args, rty

    def kids(self):
        return [self.recv] + self.args

    def go(self, cx):
        return '%s.%s(%s)' % (self.recv.go(cx), self.name, _args_go(self.args, cx))

    def lean(self):
        return '(mcall %s %s %s%s)' % (self.recv.lean(), lean_type(self.recv.ty), self.name, _args_lean(self.args))


class ICall(E):
    def __init__(self, recv, name, args, rty):
        self.recv, self.name, self.args, self.ty = recv, name, args, rty

    def kids(self):
        return [self.recv] + self.args

    def go(self, cx):
        return '%s.%s(%s)' % (self.recv.go(cx), self.name, _args_go(self.args, cx))

    def lean(self):
        return '(icall %s %s%s)' % (self.recv.lean(), self.name, _args_lean(self.args))


class MVal(E):
    """method value `x.M`: the receiver is evaluated (and copied, for value receivers) now"""

    def __init__(self, recv, name, fty):
        self.recv, self.name, self.ty = recv, name, fty

    def kids(self):
        return [self.recv]

    def go(self, cx):
        return '%s.%s' % (self.recv.go(cx), self.name)

    def lean(self):
        t = self.recv.ty
        if isinstance(t, tuple) and t[0] == 'named' and t[1].kind == 'iface':
            return '(imval %s %s)' % (self.recv.lean(), self.name)
        return '(mval %s %s %s)' % (self.recv.lean(), lean_type(t), self.name)


class MethodExpr(E):
    """method expression `T.M` / `(*T).M` of a method declared on T itself: the function with the receiver as first parameter"""

    def __init__(self, fn, fty):
        self.fn, self.ty = fn, fty

    def go(self, cx):
        t = go_type(('named', self.fn.recv[0]), cx)
        return ('(*%s).%s' if self.fn.recv[1] else '%s.%s') % (t, self.fn.mname)

    def lean(self):
        return '(fref %d)' % self.fn.id


class FuncRef(E):
    def __init__(self, fn, ty):
        self.fn, self.ty = fn, ty

    def go(self, cx):
        return self.fn.go_ref(cx)

    def lean(self):
        return '(fref %d)' % self.fn.id


class FuncLit(E):
    def __init__(self, fn, ty):
        self.fn, self.ty = fn, ty

    def go(self, cx):
        return self.fn.go_lit(cx)

    def lean(self):
        return '(flit %d)' % self.fn.id


class StructLit(E):
    """composite literal with a value for every field.  Keyed in the Go text, except that a struct with blank (`_`) fields
    is written positionally when `positional` (only legal inside the declaring package) - the only way to give a blank
    field a non-zero value; in the keyed form the blank fields are omitted and must be given as Zero here."""

    def __init__(self, ty, fields, positional=False):
        self.ty, self.fields, self.positional = ty, fields, positional

    def kids(self):
        return self.fields

    def go(self, cx):
        d = under(self.ty)[1]
        if self.positional:
            return '%s{%s}' % (go_type(self.ty, cx), ', '.join(e.go(cx) for e in self.fields))
        parts = []
        for (fn, ft, emb), e in zip(d.fields, self.fields):
            if fn != '_':
                parts.append('%s: %s' % (fn, e.go(cx)))
        return '%s{%s}' % (go_type(self.ty, cx), ', '.join(parts))

    def lean(self):
        d = under(self.ty)[1]
        return '(struct%s)' % ''.join(' (blankf %s)' % e.lean() if f[0] == '_' else ' ' + e.lean() for f, e in zip(d.fields, self.fields))


class SeqLit(E):
    """array or slice literal"""

    def __init__(self, ty, elems):
        self.ty, self.elems = ty, elems

    def kids(self):
        return self.elems

    def go(self, cx):
        return '%s{%s}' % (go_type(self.ty, cx), _args_go(self.elems, cx))

    def lean(self):
        return '(%s%s)' % ('arr' if under(self.ty)[0] == 'arr' else 'slice', _args_lean(self.elems))


class Make(E):
    def __init__(self, ty, n, cap=None):
        self.ty, self.n, self.cap = ty, n, cap

    def kids(self):
        return [self.n] + ([self.cap] if self.cap else [])

    def go(self, cx):
        return 'make(%s, %s%s)' % (go_type(self.ty, cx), self.n.go(cx), ', ' + self.cap.go(cx) if self.cap else '')

    def lean(self):
        return '(make %s %s%s)' % (zero_lean(elem_type(self.ty)), self.n.lean(), ' ' + self.cap.lean() if self.cap else '')


class New(E):
    """&T{…} (init is a composite literal) or new(T) (init is Zero)"""

    def __init__(self, init):
        self.init, self.ty = init, ('ptr', init.ty)

    def kids(self):
        return [self.init]

    def go(self, cx):
        if isinstance(self.init, Zero):
            return 'new(%s)' % go_type(self.init.ty, cx)
        return '&' + self.init.go(cx)

    def lean(self):
        return '(new %s)' % self.init.lean()


class Addr(E):
    def __init__(self, lv):
        self.lv, self.ty = lv, ('ptr', lv.ty)

    def kids(self):
        return [self.lv]

    def go(self, cx):
        return '(&%s)' % self.lv.go(cx)

    def lean(self):
        return '(addr %s)' % self.lv.lean()


class Deref(E):
    def __init__(self, p):
        self.p, self.ty = p, under(p.ty)[1]

    def kids(self):
        return [self.p]

    def go(self, cx):
        return '(*%s)' % self.p.go(cx)

    def lean(self):
        return '(deref %s)' % self.p.lean()


class Sel(E):
    """field selector (possibly promoted, possibly through a pointer)"""

    def __init__(self, e, name, ty):
        self.e, self.name, self.ty = e, name, ty

    def kids(self):
        return [self.e]

    def go(self, cx):
        return '%s.%s' % (self.e.go(cx), self.name)

    def lean(self):
        return '(sel %s %s %s)' % (self.e.lean(), lean_type(self.e.ty), self.name)


class Index(E):
    def __init__(self, e, i):
        self.e, self.i, self.ty = e, i, elem_type(e.ty)

    def kids(self):
        return [self.e, self.i]

    def go(self, cx):
        return '%s[%s]' % (self.e.go(cx), self.i.go(cx))

    def lean(self):
        return '(index %s %s %s)' % (seqkind(self.e.ty), self.e.lean(), self.i.lean())


class SliceOf(E):
    def __init__(self, e, lo, hi, mx=None):
        self.e, self.lo, self.hi, self.mx = e, lo, hi, mx
        u = under(e.ty)
        self.ty = e.ty if u == STR or u[0] == 'slice' else ('slice', elem_type(e.ty))

    def kids(self):
        return [self.e] + [x for x in (self.lo, self.hi, self.mx) if x]

    def go(self, cx):
        s = '%s[%s:%s' % (self.e.go(cx), self.lo.go(cx) if self.lo else '', self.hi.go(cx) if self.hi else '')
        return s + (':' + self.mx.go(cx) if self.mx else '') + ']'

    def lean(self):
        o = lambda x: x.lean() if x else '-'
        return '(sliceof %s %s %s %s %s)' % (seqkind(self.e.ty), self.e.lean(), o(self.lo), o(self.hi), o(self.mx))


class LenCap(E):
    def __init__(self, which, e):
        self.which, self.e, self.ty = which, e, INT
        self.const = under(e.ty)[0] == 'arr' or isinstance(e, StrLit)

    def kids(self):
        return [self.e]

    def go(self, cx):
        return '%s(%s)' % (self.which, self.e.go(cx))

    def lean(self):
        return '(%s %s %s)' % (self.which, seqkind(self.e.ty), self.e.lean())


class Append(E):
    def __init__(self, s, elems):
        self.s, self.elems, self.ty = s, elems, s.ty

    def kids(self):
        return [self.s] + self.elems

    def go(self, cx):
        return 'append(%s, %s)' % (self.s.go(cx), _args_go(self.elems, cx))

    def lean(self):
        return '(append %s%s)' % (self.s.lean(), _args_lean(self.elems))


class AppendSlice(E):
    def __init__(self, s, t):
        self.s, self.t, self.ty = s, t, s.ty

    def kids(self):
        return [self.s, self.t]

    def go(self, cx):
        return 'append(%s, %s...)' % (self.s.go(cx), self.t.go(cx))

    def lean(self):
        return '(appends %s %s)' % (self.s.lean(), self.t.lean())


class Copy(E):
    def __init__(self, d, s):
        self.d, self.s, self.ty = d, s, INT

    def kids(self):
        return [self.d, self.s]

    def go(self, cx):
        return 'copy(%s, %s)' % (self.d.go(cx), self.s.go(cx))

    def lean(self):
        return '(copy %s %s)' % (self.d.lean(), self.s.lean())


class ToIface(E):
    """conversion of a concrete value to an interface type (explicit in the Go text as well)"""

    def __init__(self, ity, e):
        self.ty, self.e = ity, e

    def kids(self):
        return [self.e]

    def go(self, cx):
        return '%s(%s)' % (go_type(self.ty, cx), self.e.go(cx))

    def lean(self):
        return '(toiface %s %s)' % (lean_type(self.e.ty), self.e.lean())


class IfaceConv(E):
    """interface to (wider) interface: no change of the value"""

    def __init__(self, ity, e):
        self.ty, self.e = ity, e

    def kids(self):
        return [self.e]

    def go(self, cx):
        return '%s(%s)' % (go_type(self.ty, cx), self.e.go(cx))

    def lean(self):
        return self.e.lean()


class Assert(E):
    def __init__(self, e, ty, two=False):
        self.e, self.two = e, two
        self.aty = ty
        self.ty = None if two else ty

    def kids(self):
        return [self.e]

    def go(self, cx):
        return '%s.(%s)' % (self.e.go(cx), go_type(self.aty, cx))

    def lean(self):
        u = under(self.aty) if self.aty != 'any' else None
        if self.aty != 'any' and isinstance(self.aty, tuple) and self.aty[0] == 'named' and self.aty[1].kind == 'iface':
            return '(asserti %s %d %d)' % (self.e.lean(), self.aty[1].id, 1 if self.two else 0)
        return '(assert %s %s %d %s)' % (self.e.lean(), lean_type(self.aty), 1 if self.two else 0, zero_lean(self.aty))


class Recover(E):
    ty = 'any'

    def go(self, cx):
        return 'recover()'

    def lean(self):
        return '(recover)'


# ------------------------------------------------------------------------------------------- statements
def ind(n):
    return '\t' * n


def block_go(ss, cx, n):
    return ''.join(s.go(cx, n) for s in ss)


def block_lean(ss):
    return '(' + ' '.join(s.lean() for s in ss) + ')'


class S:
    def blocks(self):
        """child statement lists (for the minimiser)"""
        return []


class Decl(S):
    def __init__(self, vars_, exprs, zero=False):
        self.vars, self.exprs, self.zero = vars_, exprs, zero

    def go(self, cx, n):
        names = ', '.join(v.name for v in self.vars)
        if self.zero:
            s = ind(n) + 'var %s %s\n' % (names, go_type(self.vars[0].ty, cx))
        else:
            s = ind(n) + '%s := %s\n' % (names, _args_go(self.exprs, cx))
        return s + ''.join(ind(n) + '_ = %s\n' % v.name for v in self.vars)

    def lean(self):
        es = [Zero(self.vars[0].ty)] if self.zero else self.exprs
        return '(decl (%s) (%s))' % (' '.join(str(v.slot) for v in self.vars), ' '.join(e.lean() for e in es))


class Assign(S):
    def __init__(self, ls, es):
        self.ls, self.es = ls, es

    def go(self, cx, n):
        return ind(n) + '%s = %s\n' % (_args_go(self.ls, cx), _args_go(self.es, cx))

    def lean(self):
        return '(assign (%s) (%s))' % (' '.join(l.lean() for l in self.ls), ' '.join(e.lean() for e in self.es))


class OpAssign(S):
    def __init__(self, op, l, e, incdec=False):
        self.op, self.l, self.e, self.incdec = op, l, e, incdec

    def go(self, cx, n):
        if self.incdec:
            return ind(n) + '%s%s\n' % (self.l.go(cx), '++' if self.op == 'add' else '--')
        return ind(n) + '%s %s= %s\n' % (self.l.go(cx), GO_OP[self.op], self.e.go(cx))

    def lean(self):
        return '(opassign %s %s %s)' % (self.op, self.l.lean(), self.e.lean())


class ExprS(S):
    def __init__(self, e):
        self.e = e

    def go(self, cx, n):
        return ind(n) + self.e.go(cx) + '\n'

    def lean(self):
        return '(expr %s)' % self.e.lean()


class Print(S):
    def __init__(self, nl, es):
        self.nl, self.es = nl, es

    def go(self, cx, n):
        return ind(n) + '%s(%s)\n' % ('println' if self.nl else 'print', _args_go(self.es, cx))

    def lean(self):
        return '(print %d%s)' % (1 if self.nl else 0, _args_lean(self.es))


class Block(S):
    def __init__(self, ss):
        self.ss = ss

    def blocks(self):
        return [self.ss]

    def go(self, cx, n):
        return ind(n) + '{\n' + block_go(self.ss, cx, n + 1) + ind(n) + '}\n'

    def lean(self):
        return '(block%s)' % ''.join(' ' + s.lean() for s in self.ss)


def _simple_go(s, cx):
    """a simple statement inside an if/for/switch header (single line, no trailing `_ =`)"""
    if isinstance(s, Decl):
        return '%s := %s' % (', '.join(v.name for v in s.vars), _args_go(s.exprs, cx))
    return s.go(cx, 0).strip()


def _uses(vars_, n):
    return ''.join(ind(n) + '_ = %s\n' % v.name for v in vars_)


class If(S):
    def __init__(self, init, c, t, e):
        self.init, self.c, self.t, self.e = init, c, t, e

    def blocks(self):
        return [self.t, self.e]

    def go(self, cx, n):
        hdr = (_simple_go(self.init[0], cx) + '; ') if self.init else ''
        uses = _uses(self.init[0].vars, n + 1) if self.init and isinstance(self.init[0], Decl) else ''
        s = ind(n) + 'if %s%s {\n' % (hdr, self.c.go(cx)) + uses + block_go(self.t, cx, n + 1) + ind(n) + '}'
        if self.e or uses:
            s += ' else {\n' + uses + block_go(self.e, cx, n + 1) + ind(n) + '}'
        return s + '\n'

    def lean(self):
        return '(if %s %s %s %s)' % (block_lean(self.init), self.c.lean(), block_lean(self.t), block_lean(self.e))


def _lbl_go(lbl, n):
    return ind(n) + lbl + ':\n' if lbl else ''


def _lbl(lbl):
    return lbl if lbl else '-'


class For(S):
    def __init__(self, lbl, init, c, post, body, itervars):
        self.lbl, self.init, self.c, self.post, self.body, self.itervars = lbl, init, c, post, body, itervars

    def blocks(self):
        return [self.body]

    def go(self, cx, n):
        uses = ''
        if self.init or self.post:
            hdr = '%s; %s; %s' % (_simple_go(self.init[0], cx) if self.init else '', self.c.go(cx) if self.c else '',
                                  _simple_go(self.post[0], cx) if self.post else '')
            if self.init and isinstance(self.init[0], Decl):
                uses = _uses(self.init[0].vars, n + 1)
        else:
            hdr = self.c.go(cx) if self.c else ''
        return _lbl_go(self.lbl, n) + ind(n) + 'for %s {\n' % hdr + uses + block_go(self.body, cx, n + 1) + ind(n) + '}\n'

    def lean(self):
        return '(for %s %s %s %s %s (%s))' % (_lbl(self.lbl), block_lean(self.init), self.c.lean() if self.c else '-',
                                              block_lean(self.post), block_lean(self.body),
                                              ' '.join(str(v.slot) for v in self.itervars))


class RangeInt(S):
    def __init__(self, lbl, x, nexpr, body):
        self.lbl, self.x, self.n, self.body = lbl, x, nexpr, body

    def blocks(self):
        return [self.body]

    def go(self, cx, n):
        hdr = '%s := range %s' % (self.x.name, self.n.go(cx)) if self.x else 'range %s' % self.n.go(cx)
        return (_lbl_go(self.lbl, n) + ind(n) + 'for %s {\n' % hdr + (_uses([self.x], n + 1) if self.x else '')
                + block_go(self.body, cx, n + 1) + ind(n) + '}\n')

    def lean(self):
        return '(rangeint %s %s %s %s)' % (_lbl(self.lbl), self.x.slot if self.x else '-', self.n.lean(), block_lean(self.body))


class RangeSeq(S):
    def __init__(self, lbl, kx, vx, e, body):
        self.lbl, self.kx, self.vx, self.e, self.body = lbl, kx, vx, e, body

    def blocks(self):
        return [self.body]

    def go(self, cx, n):
        if self.kx or self.vx:
            hdr = '%s, %s := range %s' % (self.kx.name if self.kx else '_', self.vx.name if self.vx else '_', self.e.go(cx))
            if not self.vx:
                hdr = '%s := range %s' % (self.kx.name, self.e.go(cx))
        else:
            hdr = 'range %s' % self.e.go(cx)
        return (_lbl_go(self.lbl, n) + ind(n) + 'for %s {\n' % hdr + _uses([v for v in (self.kx, self.vx) if v], n + 1)
                + block_go(self.body, cx, n + 1) + ind(n) + '}\n')

    def lean(self):
        o = lambda v: str(v.slot) if v else '-'
        return '(rangeseq %s %s %s %s %s %s)' % (_lbl(self.lbl), seqkind(self.e.ty), o(self.kx), o(self.vx), self.e.lean(),
                                                 block_lean(self.body))


class RangeFunc(S):
    def __init__(self, lbl, xs, f, body, prog):
        self.lbl, self.xs, self.f, self.body = lbl, xs, f, body
        self.bid = len(prog.rbodies)
        prog.rbodies.append(self)

    def blocks(self):
        return [self.body]

    def go(self, cx, n):
        hdr = '%s := range %s' % (', '.join(v.name for v in self.xs), self.f.go(cx)) if self.xs else 'range %s' % self.f.go(cx)
        return (_lbl_go(self.lbl, n) + ind(n) + 'for %s {\n' % hdr + _uses(self.xs, n + 1) + block_go(self.body, cx, n + 1)
                + ind(n) + '}\n')

    def lean(self):
        return '(rangefunc %s (%s) %s %d)' % (_lbl(self.lbl), ' '.join(str(v.slot) for v in self.xs), self.f.lean(), self.bid)

    def lean_body(self):
        return '(rbody (%s) %s %s)' % (' '.join(str(v.slot) for v in self.xs), _lbl(self.lbl), block_lean(self.body))


class Case:
    def __init__(self, es, body, fall=False, default=False):
        self.es, self.body, self.fall, self.default = es, body, fall, default


class Switch(S):
    def __init__(self, lbl, init, tag, cases):
        self.lbl, self.init, self.tag, self.cases = lbl, init, tag, cases

    def blocks(self):
        return [c.body for c in self.cases]

    def go(self, cx, n):
        hdr = (_simple_go(self.init[0], cx) + '; ') if self.init else ''
        uses = _uses(self.init[0].vars, n + 1) if self.init and isinstance(self.init[0], Decl) else ''
        s = _lbl_go(self.lbl, n) + ind(n) + 'switch %s%s {\n' % (hdr, self.tag.go(cx) if self.tag else '')
        for c in self.cases:
            s += ind(n) + ('default:\n' if c.default else 'case %s:\n' % _args_go(c.es, cx))
            s += uses + block_go(c.body, cx, n + 1)
            if c.fall:
                s += ind(n + 1) + 'fallthrough\n'
        return s + ind(n) + '}\n'

    def lean(self):
        cs = ''.join(' (case %d (%s) %s %d)' % (1 if c.default else 0, ' '.join(e.lean() for e in c.es), block_lean(c.body),
                                                1 if c.fall else 0) for c in self.cases)
        return '(switch %s %s %s%s)' % (_lbl(self.lbl), block_lean(self.init), self.tag.lean() if self.tag else '-', cs)


class TCase:
    def __init__(self, pats, body, default=False):
        self.pats, self.body, self.default = pats, body, default    # pats: types | 'nil'


def _is_iface(t):
    return t == 'any' or (isinstance(t, tuple) and t[0] == 'named' and t[1].kind == 'iface')


class TypeSwitch(S):
    def __init__(self, lbl, xs, e, cases):
        """xs: one Var per clause (the bound variable has a different type in each clause) or None"""
        self.lbl, self.xs, self.e, self.cases = lbl, xs, e, cases

    def blocks(self):
        return [c.body for c in self.cases]

    def go(self, cx, n):
        b = 'tsv := ' if self.xs else ''
        s = _lbl_go(self.lbl, n) + ind(n) + 'switch %s%s.(type) {\n' % (b, self.e.go(cx))
        for i, c in enumerate(self.cases):
            if c.default:
                s += ind(n) + 'default:\n'
            else:
                s += ind(n) + 'case %s:\n' % ', '.join('nil' if p == 'nil' else go_type(p, cx) for p in c.pats)
            if self.xs:
                s += ind(n + 1) + '%s := tsv\n' % self.xs[i].name + _uses([self.xs[i]], n + 1)
            s += block_go(c.body, cx, n + 1)
        return s + ind(n) + '}\n'

    def lean(self):
        # the bound variable of clause i is declared at the head of its body from the switch's own binding slot
        out = ''
        for i, c in enumerate(self.cases):
            pats = []
            for p in c.pats:
                if p == 'nil':
                    pats.append('nil')
                elif _is_iface(p):
                    pats.append('(iface %d)' % p[1].id)
                else:
                    pats.append('(ty %s)' % lean_type(p))
            unwrap = (not c.default) and len(c.pats) == 1 and c.pats[0] != 'nil' and not _is_iface(c.pats[0])
            out += ' (tcase %d (%s) %d %s)' % (1 if c.default else 0, ' '.join(pats), 1 if unwrap else 0, block_lean(c.body))
        # all clauses bind through slot of their own Var: the evaluator binds ONE slot, so every clause variable shares it
        x = str(self.xs[0].slot) if self.xs else '-'
        return '(tswitch %s %s %s%s)' % (_lbl(self.lbl), x, self.e.lean(), out)


class Break(S):
    def __init__(self, lbl=''):
        self.lbl = lbl

    def go(self, cx, n):
        return ind(n) + ('break ' + self.lbl).strip() + '\n'

    def lean(self):
        return '(break %s)' % _lbl(self.lbl)


class Continue(S):
    def __init__(self, lbl=''):
        self.lbl = lbl

    def go(self, cx, n):
        return ind(n) + ('continue ' + self.lbl).strip() + '\n'

    def lean(self):
        return '(continue %s)' % _lbl(self.lbl)


class Return(S):
    def __init__(self, es):
        self.es = es

    def go(self, cx, n):
        return ind(n) + ('return ' + _args_go(self.es, cx)).strip() + '\n'

    def lean(self):
        return '(return%s)' % _args_lean(self.es)


class Defer(S):
    def __init__(self, f, args):
        self.f, self.args = f, args

    def go(self, cx, n):
        return ind(n) + 'defer %s(%s)\n' % (self.f.go(cx), _args_go(self.args, cx))

    def lean(self):
        return '(defer %s%s)' % (self.f.lean(), _args_lean(self.args))


class Panic(S):
    def __init__(self, e):
        self.e = e            # interface typed (ToIface to any)

    def go(self, cx, n):
        return ind(n) + 'panic(%s)\n' % self.e.go(cx)

    def lean(self):
        return '(panic %s)' % self.e.lean()


class Exit(S):
    def __init__(self, e):
        self.e = e

    def go(self, cx, n):
        return ind(n) + 'cexit(int32(%s))\n' % self.e.go(cx)     # only generated inside package main

    def lean(self):
        return '(exit %s)' % self.e.lean()


# ------------------------------------------------------------------------------------------- declarations
class Func:
    def __init__(self, name, pkg):
        self.name, self.pkg = name, pkg
        self.id = None
        self.params, self.results = [], []
        self.named_results = False
        self.body = []
        self.pure = False
        self.cost = 1
        self.recv = None          # (TypeDecl, ptr?) for methods; the receiver is params[0]
        self.mname = None
        self.is_lit = False
        self.generic = None       # (GenericFunc, targs) for instances: Go text refers to the generic declaration
        self.sig = None

    def go_ref(self, cx):
        if self.generic:
            g, targs = self.generic
            return cx.q(g.pkg, g.name) + '[' + ', '.join(go_type(a, cx) for a in targs) + ']'
        return cx.q(self.pkg, self.name)

    def _sig_go(self, cx, params):
        pl = ['%s %s' % (p.name, go_type(p.ty, cx)) for p in params]
        if getattr(self, 'variadic', False) and params:
            pl[-1] = '%s ...%s' % (params[-1].name, go_type(params[-1].ty[1], cx))
        ps = ', '.join(pl)
        if not self.results:
            rs = ''
        elif self.named_results:
            rs = ' (' + ', '.join('%s %s' % (r.name, go_type(r.ty, cx)) for r in self.results) + ')'
        elif len(self.results) == 1:
            rs = ' ' + go_type(self.results[0].ty, cx)
        else:
            rs = ' (' + ', '.join(go_type(r.ty, cx) for r in self.results) + ')'
        return '(' + ps + ')' + rs

    def go_lit(self, cx):
        n = getattr(cx, 'indent', 1)
        cx.indent = n + 1
        s = 'func' + self._sig_go(cx, self.params) + ' {\n' + block_go(self.body, cx, n + 1) + ind(n) + '}'
        cx.indent = n
        return s

    def go_decl(self, cx, tparams=''):
        cx.indent = 1
        if self.recv:
            r = self.params[0]
            hdr = 'func (%s %s) %s%s' % (r.name, go_type(r.ty, cx), self.mname, self._sig_go(cx, self.params[1:]))
        else:
            hdr = 'func %s%s%s' % (self.name, tparams, self._sig_go(cx, self.params))
        return hdr + ' {\n' + block_go(self.body, cx, 1) + '}\n\n'

    def lean(self):
        return '(func %s (%s) (%s) (%s) %s)' % (self.name, ' '.join(str(p.slot) for p in self.params),
                                                ' '.join(str(r.slot) for r in self.results),
                                                ' '.join(zero_lean(r.ty) for r in self.results), block_lean(self.body))


class Global:
    def __init__(self, gid, name, ty, init, pkg):
        self.id, self.name, self.ty, self.init, self.pkg = gid, name, ty, init, pkg


class Program:
    def __init__(self, idx):
        self.idx = idx
        self.types = []       # TypeDecl with Lean ids (concrete)
        self.go_types = []    # what is printed as Go declarations: TypeDecl (non-generic) or GenericType
        self.funcs = []       # every Func with a Lean id (top-level, methods, literals, generic instances)
        self.go_funcs = []    # printed as Go top-level declarations: Func (non-generic) or GenericFunc
        self.globals = []
        self.rbodies = []
        self.sigs = {}
        self.main = None
        self.nslots = 0
        self.features = set()

    def sig(self, params, results):
        key = (tuple(map(repr_type, params)), tuple(map(repr_type, results)))
        if key not in self.sigs:
            self.sigs[key] = Sig(len(self.sigs), list(params), list(results))
        return ('func', self.sigs[key])

    def add_type(self, d, printed=True):
        d.id = len(self.types)
        self.types.append(d)
        if printed:
            self.go_types.append(d)
        return d

    def add_func(self, f, printed=True):
        f.id = len(self.funcs)
        self.funcs.append(f)
        if printed:
            self.go_funcs.append(f)
        return f

    def slot(self):
        self.nslots += 1
        return self.nslots

    def lean(self):
        ts = []
        for d in self.types:
            if d.kind == 'struct':
                body = '(struct%s)' % ''.join(' (%s %s %d)' % (fn, lean_type(ft), 1 if emb else 0) for fn, ft, emb in d.fields)
            elif d.kind == 'iface':
                body = '(iface%s)' % ''.join(' ' + m[0] for m in d.methods)
            else:
                body = '(basic %s)' % lean_type(d.under)
            ts.append('(type %s %s)' % (d.name, body))
        ms = []
        for d in self.types:
            for f in d.mdecls:
                ms.append('(method %d %s %d %d)' % (d.id, f.mname, 1 if f.recv[1] else 0, f.id))
        return '(program (types%s) (methods%s) (funcs%s) (rbodies%s) (globals%s) (main %d))' % (
            ''.join(' ' + t for t in ts), ''.join(' ' + m for m in ms), ''.join(' ' + f.lean() for f in self.funcs),
            ''.join(' ' + r.lean_body() for r in self.rbodies), ''.join(' ' + g.init.lean() for g in self.globals), self.main.id)


def repr_type(t):
    if isinstance(t, str):
        return t
    h = t[0]
    if h == 'int':
        return t[1]
    if h == 'named':
        return 'N%d' % id(t[1])
    if h == 'func':
        return 'F%d' % t[1].id
    if h == 'arr':
        return 'A%d_%s' % (t[1], repr_type(t[2]))
    if h == 'tparam':
        return 'TP' + t[1]
    return h + '_' + repr_type(t[1])


def type_decl_go(d, cx, name=None, tparams=''):
    name = name or d.name
    if d.kind == 'struct':
        s = 'type %s%s struct {\n' % (name, tparams)
        for fn, ft, emb in d.fields:
            s += '\t%s\n' % go_type(ft, cx) if emb else '\t%s %s\n' % (fn, go_type(ft, cx))
        return s + '}\n\n'
    if d.kind == 'iface':
        s = 'type %s%s interface {\n' % (name, tparams)
        for mn, ps, rs in d.methods:
            r = [go_type(x, cx) for x in rs]
            s += '\t%s(%s)%s\n' % (mn, ', '.join(go_type(x, cx) for x in ps),
                                    '' if not r else (' ' + r[0] if len(r) == 1 else ' (' + ', '.join(r) + ')'))
        return s + '}\n\n'
    return 'type %s%s %s\n\n' % (name, tparams, go_type(d.under, cx))


class GenericType:
    """printed once as a Go generic declaration (from its symbolic instance); Lean sees the concrete instances"""

    def __init__(self, name, pkg, tparams, constraint, build):
        self.name, self.pkg, self.tparams, self.constraint, self.build = name, pkg, tparams, constraint, build
        self.instances = {}
        self.symbolic = None
        self.sym_methods = []


class GenericFunc:
    def __init__(self, name, pkg, tparams, constraints, build):
        self.name, self.pkg, self.tparams, self.constraints, self.build = name, pkg, tparams, constraints, build
        self.instances = {}
        self.symbolic = None
