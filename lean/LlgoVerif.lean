-- Root of the `LlgoVerif` library: models, specifications, lemmas and property theorems.
import LlgoVerif.Util
import LlgoVerif.Model.Utf8
import LlgoVerif.Model.Shell
