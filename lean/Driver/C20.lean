import LlgoVerif.Util
import LlgoVerif.Model.Path
import LlgoVerif.Model.Extract
import LlgoVerif.Model.ExtractLock
import LlgoVerif.Model.Gzip
import LlgoVerif.Model.Tar
import LlgoVerif.Model.Zip
import LlgoVerif.Spec.Extract
/-! Line-protocol driver for C20. One request per line, one answer per line (H = hex of bytes, `-` = empty).

    clean H | dir H | join H H        -> ok H
    x CFG FMT ENTRIES                 -> ok|err LISTING         FMT = tgz | zip ; CFG = five 0/1 flags
                                         (tarAcceptRoot tarTrunc zipGuard zipAcceptRoot zipMkParents)
    lib CFG SUB FNAME ENTRIES         -> ok|err LISTING | nomodel
    xb CFG tgz|zip FILEBYTES          -> ok|err LISTING | nomodel   the byte-level model: gzip members + tar framing / zip directory, then the loop
    rd zip FILEBYTES                  -> K:NAME:DATA:FLAG,… eof | noreader | unsupported    r.File in central-directory order
    rd tgz FILEBYTES                  -> ENTRIES eof|err|partial|unsupported|noreader      what archive/tar hands to the loop
    gunzip FILEBYTES                  -> ok H eof|err | noreader    the stream the gzip layer delivers
    spec FMT ENTRIES                  -> wf|nwf ok|clash LISTING    Spec/Extract.lean: well-formedness and the archived tree (paths relative to the destination)
    lock N FAIL SCHEDULE              -> ok maxExtractors=K dst=… | stuck@i   (SCHEDULE = comma separated process numbers)
    ENTRIES = "." | K:NAME:DATA:LINK,…   LISTING = "." | PATH=d PATH=f:DATA …  (paths relative to the case directory) -/
open LlgoVerif LlgoVerif.Util LlgoVerif.Path LlgoVerif.Extract

def toStr (bs : List UInt8) : Str := bs.map fun b => Char.ofNat b.toNat
def ofStr (s : Str) : List UInt8 := s.map fun c => UInt8.ofNat c.toNat
def unhexStr (h : String) : Option Str := (unhex h).map toStr
def hexStr (s : Str) : String := hex (ofStr s)

def parseEntry (s : String) : Option Entry :=
  match s.splitOn ":" with
  | [k, n, d, l] => do
    let kind ← match k with
      | "d" => some Kind.dir | "f" => some Kind.reg | "s" => some Kind.sym | "h" => some Kind.other | "o" => some Kind.other
      | _ => none
    pure { kind := kind, name := (← unhexStr n), data := (← unhex d), link := (← unhex l) }
  | _ => none

def parseEntries (s : String) : Option (List Entry) :=
  if s = "." then some [] else (s.splitOn ",").mapM parseEntry

def parseCfg (s : String) : Option Cfg :=
  match s.toList.map (· == '1') with
  | [a, b, c, d, e] => if s.toList.all (fun ch => ch == '0' || ch == '1') then some ⟨a, b, c, d, e⟩ else none
  | _ => none

def showEntries (es : List Entry) : String :=
  if es.isEmpty then "." else
  ",".intercalate (es.map fun e =>
    (match e.kind with | .dir => "d" | .reg => "f" | .sym => "s" | .other => "o") ++ ":" ++
      hexStr e.name ++ ":" ++ hex e.data ++ ":" ++ hex e.link)

def keyStr (k : Key) : Str := joinSlash k

def listing (fs : FS) : String :=
  let items := (dedup fs []).map fun (k, n) =>
    hexStr (keyStr k) ++ (match n with | .dir => "=d" | .file d => "=f:" ++ hex d)
  if items.isEmpty then "." else " ".intercalate items

/-- the directories the harness creates before extracting -/
def destStr : Str := "/g1/g2/g3/root/a/b/dest".toList
def prefixesOf : Key → List Key
  | [] => []
  | c :: cs => [c] :: (prefixesOf cs).map (c :: ·)
def initFS : FS := (prefixesOf (comps destStr)).map fun k => (k, Node.dir)

open LlgoVerif.ExtractLock in
/-- replay a schedule of the lock-protocol model.  Items: `p` (step of process p), `p!` (failing step),
    `p:evt` (step that must perform the observable event `evt`, else `mismatch`). -/
def handleLock (k n : Nat) (sched : String) : String :=
  let items := if sched = "." then [] else sched.splitOn ","
  let countExt (s : State) : Nat := ((List.range n).filter fun p => extracting (s.pc p)).length
  let showTree (t : Option (List Nat)) : String :=
    match t with
    | none => "none"
    | some l => if l.length = k && (match l with | [] => true | p :: r => r.all (· == p)) then "complete" else "broken"
  let rec go (s : State) (i : Nat) (mx : Nat) : List String → String
    | [] =>
      let pcs := (List.range n).map fun p => match s.pc p with
        | .done true => "done-ok" | .done false => "done-err" | .stat1 => "idle" | _ => "active"
      s!"ok maxext={mx} started={s.started} dst={showTree s.dst} ext={showTree s.ext} tmp={showTree s.tmp} lockfile={if s.lockFile.isSome then 1 else 0} " ++ ",".intercalate pcs
    | it :: rest =>
      let (ps, evt) := match it.splitOn ":" with
        | [a, b] => (a, some b)
        | _ => (it, none)
      let fail := ps.endsWith "!"
      let ps := if fail then (ps.dropEnd 1).toString else ps
      match ps.toNat? with
      | none => "bad-op"
      | some p =>
        if p ≥ n then "bad-op" else
        match evt with
        | some e => if e ≠ eventOf s p then s!"mismatch@{i}:{eventOf s p}" else
          match step k s p fail with
          | some s' => go s' (i + 1) (max mx (countExt s')) rest
          | none => s!"stuck@{i}"
        | none =>
          match step k s p fail with
          | some s' => go s' (i + 1) (max mx (countExt s')) rest
          | none => s!"stuck@{i}"
  go init 0 0 items

def handle (line : String) : String :=
  match fields line with
  | ["clean", h] => match unhexStr h with
    | some s => "ok " ++ hexStr (clean s)
    | none => "bad-op"
  | ["dir", h] => match unhexStr h with
    | some s => "ok " ++ hexStr (dirOf s)
    | none => "bad-op"
  | ["join", a, b] => match unhexStr a, unhexStr b with
    | some a, some b => "ok " ++ hexStr (join a b)
    | _, _ => "bad-op"
  | ["x", c, f, es] =>
    let fmt := match f with | "tgz" => some Format.tgz | "zip" => some Format.zip | _ => none
    match parseCfg c, fmt, parseEntries es with
    | some cfg, some fmt, some ar =>
      match extract cfg fmt destStr initFS ar with
      | (fs, none) => "ok " ++ listing fs
      | (fs, some _) => "err " ++ listing fs
    | _, _, _ => "bad-op"
  | ["xb", c, "tgz", h] =>
    match parseCfg c, unhex h with
    | some cfg, some file =>
      match Tar.extractTarGzBytes cfg destStr initFS file with
      | none => "nomodel"
      | some (fs, none) => "ok " ++ listing fs
      | some (fs, some _) => "err " ++ listing fs
    | _, _ => "bad-op"
  | ["xb", c, "zip", h] =>
    match parseCfg c, unhex h with
    | some cfg, some file =>
      match Zip.extractZipBytes cfg destStr initFS file with
      | none => "nomodel"
      | some (fs, none) => "ok " ++ listing fs
      | some (fs, some _) => "err " ++ listing fs
    | _, _ => "bad-op"
  | ["rd", "zip", h] =>
    match unhex h with
    | some file =>
      match Zip.readZip file with
      | .err _ => "noreader"
      | .unsupported => "unsupported"
      | .ok zs =>
        (if zs.isEmpty then "." else ",".intercalate (zs.map fun z =>
          (if z.isDir then "d" else if z.isSym then "s" else "f") ++ ":" ++ hexStr z.name ++ ":" ++
          (match z.opened with
           | .copied d false => hex d ++ ":-"
           | .copied d true => hex d ++ ":65"       -- `e`: the copy ends in an error
           | .openErr => "-:6f"                       -- `o`: Open fails
           | .unsupported => "-:75"))) ++ " eof"
    | none => "bad-op"
  | ["rd", "tgz", h] =>
    match unhex h with
    | some file =>
      match Gzip.gunzip true file with
      | .error _ => "noreader"
      | .ok s =>
        let (es, e) := Tar.readTar s
        let es := match e with | .partialFile x _ => es ++ [x] | _ => es
        showEntries es ++ " " ++ (match e with
          | .eof => "eof" | .err _ => "err" | .partialFile _ _ => "partial" | .unsupported => "unsupported")
    | none => "bad-op"
  | ["gunzip", h] =>
    match unhex h with
    | some file =>
      match Gzip.gunzip true file with
      | .error _ => "noreader"
      | .ok s => "ok " ++ hex s.data ++ (if s.tail.isSome then " err" else " eof")
    | none => "bad-op"
  | ["spec", f, es] =>
    let fmt := match f with | "tgz" => some Format.tgz | "zip" => some Format.zip | _ => none
    match fmt, parseEntries es with
    | some fmt, some ar =>
      let (t, e) := specTree ar
      (if wellFormed fmt ar then "wf " else "nwf ") ++ (if e.isSome then "clash " else "ok ") ++ listing t
    | _, _ => "bad-op"
  | ["lib", c, sub, fname, es] =>
    match parseCfg c, unhexStr sub, unhexStr fname, parseEntries es with
    | some cfg, some sub, some fname, some ar =>
      match libResult cfg "/cache/lib".toList sub (fname, []) ar with
      | none => "nomodel"
      | some (true, fs) => "ok " ++ listing fs
      | some (false, fs) => "err " ++ listing fs
    | _, _, _, _ => "bad-op"
  | ["lock", k, n, sched] =>
    match k.toNat?, n.toNat? with
    | some k, some n => handleLock k n sched
    | _, _ => "bad-op"
  | _ => "bad-op"

def main : IO Unit := lineLoop handle
