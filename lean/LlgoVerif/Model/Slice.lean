import LlgoVerif.Model.Utf8
/-!
Model of `runtime/internal/runtime/z_slice.go` (`NewSlice3`, `SliceAppend`, `GrowSlice`, `nextslicecap`,
`SliceCopy`, `MakeSlice`, `SliceClear`) and of `z_string.go` (`StringCat`, `StringSlice`, `StringEqual`,
`StringLess`, `StringIterNext`, `StringToBytes/Runes`, `StringFromBytes/Runes/Rune/Int64/Uint64`).

* Memory is a byte heap `Mem` (address → byte, plus the first never-allocated address `next`), so aliasing and
  overlapping windows are expressible.  Allocations are fresh (start at `next`) and disjoint from everything
  allocated before.  Address 0 is `nil`.
* `memmove` is always defined (all reads happen before all writes).  `memcpy` is C's `memcpy`: *undefined* when
  the two ranges overlap — the model returns `Err.ub` (the Go stand-in used by the correspondence check counts
  exactly the same calls: `n > 0`, `dst ≠ src`, ranges intersect).
* Go `int`s are mathematical integers; the model does not render wrap-around.  Its domain is: all lengths,
  capacities, indices and byte sizes inside `[-2^63, 2^63)` with no intermediate overflow (sizes that a real
  64-bit process can hold are far inside).  `MakeSlice` — whose logic *is* an overflow test — models the
  `uintptr` conversions explicitly.
* The code is mirrored branch by branch **including its defects**.  The two defects of the unchanged tree
  (DESIGN.md §8 #4, #5) are controlled by `Cfg`, so that the same model covers the tree before and after
  `fixes/C05-1.diff`; the check probes the real code to find out which configuration is live.
* The capacity chosen on growth is a parameter (`pol`, default `nextslicecap`): Go does not fix it, so the
  correspondence check feeds the capacity the real code chose and the theorems hold for every policy with
  `newLen ≤ pol newLen oldCap`.
* Strings are byte lists (a byte is a `Nat < 256`); runes are integers.
-/
namespace LlgoVerif.Slice

open LlgoVerif

/-- how an operation can fail -/
inductive Err where
  | panic   -- a Go run-time panic (bounds error, makeslice: len/cap out of range)
  | ub      -- undefined behaviour in C: `memcpy` on overlapping ranges
  deriving DecidableEq, Repr

/-! ## byte heap -/

structure Mem where
  bytes : Nat → Nat
  next : Nat

/-- nothing allocated; address 0 is nil -/
def Mem.empty : Mem := ⟨fun _ => 0, 1⟩

/-- the `n` bytes at `a` -/
def Mem.read (m : Mem) (a n : Nat) : List Nat := (List.range n).map fun i => m.bytes (a + i)

/-- store the bytes `bs` at `a` (the interpreter's element assignment `s[i] = v`) -/
def Mem.blit (m : Mem) (a : Nat) (bs : List Nat) : Mem :=
  { m with bytes := fun x => if a ≤ x ∧ x < a + bs.length then bs.getD (x - a) 0 else m.bytes x }

/-- C `memmove(dst, src, n)`: every byte is read from the memory *before* the call -/
def memmove (m : Mem) (dst src n : Nat) : Mem :=
  { m with bytes := fun x => if dst ≤ x ∧ x < dst + n then m.bytes (src + (x - dst)) else m.bytes x }

/-- the ranges `[dst,dst+n)` and `[src,src+n)` intersect (and are not the very same range) -/
def overlaps (dst src n : Nat) : Prop := 0 < n ∧ dst ≠ src ∧ dst < src + n ∧ src < dst + n

instance (dst src n : Nat) : Decidable (overlaps dst src n) := by unfold overlaps; infer_instance

/-- C `memcpy(dst, src, n)`: defined only for non-overlapping ranges -/
def memcpy (m : Mem) (dst src n : Nat) : Except Err Mem :=
  if overlaps dst src n then .error .ub else .ok (memmove m dst src n)

/-- C `memset(p, c, n)` -/
def memset (m : Mem) (p c n : Nat) : Mem :=
  { m with bytes := fun x => if p ≤ x ∧ x < p + n then c else m.bytes x }

/-- `AllocU(n)`: a fresh block with unspecified contents (`malloc`); even `malloc(0)` is a distinct address -/
def allocU (m : Mem) (n : Nat) : Nat × Mem := (m.next, { m with next := m.next + n + 1 })

/-- `AllocZ(n)`: `malloc` + `memset 0` -/
def allocZ (m : Mem) (n : Nat) : Nat × Mem :=
  let r := allocU m n
  (r.1, memset r.2 r.1 0 n)

/-- `c.Advance(p, off)` on an `unsafe.Pointer`: byte steps -/
def advance (p : Nat) (off : Int) : Nat := ((p : Int) + off).toNat

/-! ## slices -/

/-- `type Slice struct { data unsafe.Pointer; len, cap int }` -/
structure Slice where
  data : Nat
  len : Int
  cap : Int
  deriving DecidableEq, Repr

/-- which of the two repairs of `fixes/C05-1.diff` the modelled tree contains -/
structure Cfg where
  zeroSizeFix : Bool    -- `SliceAppend` no longer returns `src` unchanged when `etSize == 0`
  memmoveFix : Bool     -- `SliceAppend` copies the appended values with `Memmove` instead of `Memcpy`
  deriving DecidableEq, Repr

/-- the unchanged tree -/
def Cfg.current : Cfg := ⟨false, false⟩
/-- the tree with `fixes/C05-1.diff` applied -/
def Cfg.fixed : Cfg := ⟨true, true⟩

/-- `NewSlice3(base, eltSize, cap, i, j, k)` : `base[i:j:k]` -/
def NewSlice3 (base : Nat) (eltSize cap i j k : Int) : Except Err Slice :=
  if k < 0 ∨ k > cap then .error .panic
  else if j < 0 ∨ j > k then .error .panic
  else if i < 0 ∨ i > j then .error .panic
  else .ok { len := j - i, cap := k - i,
             data := if k - i > 0 then advance base (i * eltSize) else base }

/-- the `for { … }` loop of `nextslicecap`: `newcap += (newcap + 3*threshold) >> 2` until
    `uint(newcap) >= uint(newLen)`.  On the model's domain (`0 ≤ newcap`, `0 < newLen`, no overflow) the unsigned
    comparison is the signed one (`uint_cmp_domain` in the lemmas); `>> 2` on an `int` is floor division by 4.
    The loop is entered only with `newcap ≥ 256`; the guard `0 ≤ newcap` is what the termination proof uses:
    every iteration adds at least `(0 + 768) / 4 = 192`. -/
def capLoop (newLen newcap : Int) : Int :=
  let nc := newcap + (newcap + 768) / 4
  if _h : 0 ≤ newcap ∧ nc < newLen then capLoop newLen nc else nc
termination_by (newLen - newcap).toNat
decreasing_by omega

/-- `nextslicecap(newLen, oldCap)` -/
def nextslicecap (newLen oldCap : Int) : Int :=
  let newcap := oldCap
  let doublecap := newcap + newcap
  if newLen > doublecap then newLen
  else if oldCap < 256 then doublecap
  else
    let newcap := capLoop newLen newcap
    if newcap ≤ 0 then newLen else newcap

/-- `GrowSlice(src, num, etSize)`; `pol` chooses the new capacity (`nextslicecap` in the code) -/
def GrowSlice (pol : Int → Int → Int) (m : Mem) (src : Slice) (num etSize : Int) : Except Err (Mem × Slice) :=
  let oldLen := src.len
  let newLen := oldLen + num
  if newLen > src.cap then
    let newCap := pol newLen src.cap
    let r := allocZ m (newCap * etSize).toNat
    let p := r.1
    match (if oldLen ≠ 0 then memcpy r.2 p src.data (oldLen * etSize).toNat else .ok r.2) with
    | .error e => .error e
    | .ok m2 => .ok (m2, { data := p, len := newLen, cap := newCap })
  else .ok (m, { src with len := newLen })

/-- `SliceAppend(src, data, num, etSize)` -/
def SliceAppend (cfg : Cfg) (pol : Int → Int → Int) (m : Mem) (src : Slice) (data : Nat) (num etSize : Int) :
    Except Err (Mem × Slice) :=
  if etSize = 0 ∧ cfg.zeroSizeFix = false then .ok (m, src)       -- `if etSize == 0 { return src }`  (defect #4)
  else
    let oldLen := src.len
    match GrowSlice pol m src num etSize with
    | .error e => .error e
    | .ok (m1, s1) =>
      let dst := advance s1.data (oldLen * etSize)
      let n := (num * etSize).toNat
      if cfg.memmoveFix then .ok (memmove m1 dst data n, s1)
      else match memcpy m1 dst data n with                       -- `c.Memcpy` on possibly overlapping ranges (defect #5)
        | .error e => .error e
        | .ok m2 => .ok (m2, s1)

/-- `SliceCopy(dst, data, num, etSize)` : returns the element count -/
def SliceCopy (m : Mem) (dst : Slice) (data : Nat) (num etSize : Int) : Mem × Int :=
  let n := if dst.len > num then num else dst.len
  if n > 0 then (memmove m dst.data data (n * etSize).toNat, n) else (m, n)

def maxAlloc : Nat := 2 ^ 48
/-- `uintptr(x)` of an `int` -/
def uintptr (x : Int) : Nat := (x % 2 ^ 64).toNat

/-- `math.MulUintptr(a, b)` : product (mod 2^64) and overflow flag -/
def mulUintptr (a b : Nat) : Nat × Bool :=
  if (a < 2 ^ 32 ∧ b < 2 ^ 32) ∨ a = 0 then (a * b % 2 ^ 64, false)
  else (a * b % 2 ^ 64, b > (2 ^ 64 - 1) / a)

/-- `MakeSlice(len, cap, etSize)` (both panics are `Err.panic`; the texts differ: len / cap out of range) -/
def MakeSlice (m : Mem) (len cap etSize : Int) : Except Err (Mem × Slice) :=
  let r := mulUintptr (uintptr etSize) (uintptr cap)
  if r.2 ∨ r.1 > maxAlloc ∨ len < 0 ∨ len > cap then .error .panic
  else
    let a := allocZ m r.1
    .ok (a.2, { data := a.1, len := len, cap := cap })

/-- `SliceClear(t, s)` : `memset(s.data, 0, uintptr(s.len) * t.Elem.Size())` -/
def SliceClear (m : Mem) (s : Slice) (elemSize : Nat) : Mem :=
  memset m s.data 0 (uintptr s.len * elemSize % 2 ^ 64)

/-- the bytes of the elements `s[0:len]` -/
def view (m : Mem) (s : Slice) (etSize : Int) : List Nat := m.read s.data (s.len * etSize).toNat

/-! ## strings (byte lists) -/

/-- `StringCat(a, b)`: both parts are copied into a fresh `AllocU(a.len + b.len)` block -/
def StringCat (a b : List Nat) : List Nat := a ++ b

/-- `StringSlice(base, i, j)` -/
def StringSlice (base : List Nat) (i j : Int) : Except Err (List Nat) :=
  if i < 0 ∨ j < i ∨ j > base.length then .error .panic
  else if i < base.length then .ok ((base.drop i.toNat).take (j - i).toNat)
  else .ok []

/-- the `for i := 0; i < x.len; i++` loop of `StringEqual` over the paired bytes -/
def eqLoop : List (Nat × Nat) → Bool
  | [] => true
  | (a, b) :: rest => if a ≠ b then false else eqLoop rest

/-- `StringEqual(x, y)` (the `x.data != y.data` shortcut is not observable) -/
def StringEqual (x y : List Nat) : Bool :=
  if x.length ≠ y.length then false else eqLoop (x.zip y)

/-- the loop of `StringLess` over the first `min(x.len, y.len)` byte pairs: `some b` = decided inside the loop -/
def lessLoop : List (Nat × Nat) → Option Bool
  | [] => none
  | (ix, iy) :: rest => if ix < iy then some true else if ix > iy then some false else lessLoop rest

/-- `StringLess(x, y)` -/
def StringLess (x y : List Nat) : Bool :=
  match lessLoop (x.zip y) with
  | some b => b
  | none => x.length < y.length

/-- `StringToBytes(s)` : a fresh copy -/
def StringToBytes (s : List Nat) : List Nat := s
/-- `StringFromBytes(b)` : a fresh copy of the slice's bytes -/
def StringFromBytes (m : Mem) (b : Slice) : List Nat := m.read b.data b.len.toNat

/-- `uint32(r)` of a rune (`int32`; any integer is reduced the same way) -/
def u32 (r : Int) : Nat := (r % 2 ^ 32).toNat

/-- `StringToRunes(s)` : the decode loop (ASCII fast path, else `decoderune`) -/
def StringToRunes (s : List Nat) : List Nat := Utf8.toRunes s

/-- `StringFromRunes(rs)` -/
def StringFromRunes (rs : List Int) : List Nat := Utf8.fromRunes (rs.map u32)

/-- `StringFromRune(r)` -/
def StringFromRune (r : Int) : List Nat := Utf8.encodeRune (u32 r)

/-- `StringFromInt64(r)` : `string(i)` for a signed integer -/
def StringFromInt64 (r : Int) : List Nat :=
  if r < 0 ∨ r > Utf8.maxRune then StringFromRune Utf8.runeError else StringFromRune r

/-- `StringFromUint64(r)` : `string(u)` for an unsigned integer -/
def StringFromUint64 (r : Nat) : List Nat :=
  if r > Utf8.maxRune then StringFromRune Utf8.runeError else StringFromRune r

/-- `StringIterNext(it)` with `it = {s, pos}`: `none` when exhausted, else `(k, v, pos')` -/
def StringIterNext (s : List Nat) (pos : Nat) : Option (Nat × Nat × Nat) :=
  if pos ≥ s.length then none
  else
    let c := s.getD pos 0
    if c < 0x80 then some (pos, c, pos + 1)
    else
      let d := Utf8.decodeRune (s.drop pos)
      some (pos, d.1, pos + d.2)

/-- `for k, v := range s`: call `StringIterNext` until it reports `ok = false`
    (`fuel` bounds the number of calls; `iterAll_fuel` shows `s.length` calls always suffice) -/
def iterFrom (s : List Nat) : Nat → Nat → List (Nat × Nat)
  | 0, _ => []
  | fuel + 1, pos =>
    match StringIterNext s pos with
    | none => []
    | some (k, v, pos') => (k, v) :: iterFrom s fuel pos'

def iterAll (s : List Nat) : List (Nat × Nat) := iterFrom s s.length 0

end LlgoVerif.Slice
