import LlgoVerif.Lemmas.LinkName
/-!
# C14 — link names are unique per entity and consistent across packages

Property theorems only. Model: `LlgoVerif/Model/LinkName.lean`; lemmas: `LlgoVerif/Lemmas/LinkName.lean`.

`linkName e` is the symbol llgo gives entity `e` (seen from its declaring package), `linkNameIn cur e` the symbol used
while package `cur` is compiled. Covered entities (`Entity.ok pp`): package-level functions, methods on value and
pointer receivers (also of instantiated generic types), function literals at any nesting depth inside any of these,
instances of generic functions, package-level variables; identifiers are Go identifiers, package paths satisfy `pp`,
type arguments are built from basic types, named types (with type arguments and local-scope indices), pointers,
slices, arrays and maps. NOT covered by the injectivity theorem: channel / func / struct / interface type arguments,
`$bound` / `$thunk` / method wrappers (separate statements below), closure stubs, goroutine routines.
-/
namespace LlgoVerif.LinkName

/-! ## uniqueness -/

/-- **Full statement**: two different covered entities of valid Go packages never share a link name (a function and a
    variable of one package with one name — which Go's scoping forbids — are the only exception).
    FALSE on the current code: see `linkName_injective_counterexample`. -/
def linkName_injective : Prop :=
  ∀ e₁ e₂ : Entity, e₁.ok pathValid = true → e₂.ok pathValid = true →
    linkName e₁ = linkName e₂ → e₁ = e₂ ∨ e₁.declClash e₂ = true

/-- package `m/a.B`, function `C` -/
def cexFunc : Entity := .func "m/a.B".toList "C".toList
/-- package `m/a`, method `(B).C` -/
def cexMethod : Entity := .method "m/a".toList "B".toList .nil false "C".toList

/-- Package paths are not escaped: function `C` of package `m/a.B` and method `(B).C` of package `m/a` are both
    `m/a.B.C` (replayed on the real compiler by the check: duplicate symbol at link time). -/
theorem linkName_injective_counterexample : ¬ linkName_injective := by
  intro h
  have h1 : cexFunc.ok pathValid = true := by decide
  have h2 : cexMethod.ok pathValid = true := by decide
  have h3 : linkName cexFunc = linkName cexMethod := by decide
  rcases h cexFunc cexMethod h1 h2 h3 with e | e
  · cases e
  · cases e

/-- **Uniqueness, proved part.** If no package path involved (of the entities and inside their type arguments) has a
    dot in its last element — `pathOK p = pathValid p && noDotInLastPathElem p` — different covered entities have
    different link names. -/
theorem linkName_injective_partial (e₁ e₂ : Entity) (h₁ : e₁.ok pathOK = true) (h₂ : e₂.ok pathOK = true)
    (h : linkName e₁ = linkName e₂) : e₁ = e₂ ∨ e₁.declClash e₂ = true := by
  rw [linkName_eq_render e₁ h₁, linkName_eq_render e₂ h₂] at h
  exact flat_inj e₁ e₂ h₁ h₂ (render_inj (flatOK_of_ok e₁ h₁) (flatOK_of_ok e₂ h₂) h)

/-- the hypotheses are satisfiable by a non-trivial pair: a doubly nested literal in a pointer method of an
    instantiated generic type, and an instance of a generic function with a local, a composite and a nested
    generic type argument -/
example :
    (Entity.closure (.closure (.method "github.com/x/y".toList "Box".toList
      (.cons (.named "m/v1.2/c".toList "L".toList .nil [0, 3, 0]) .nil) true "Get".toList) 1) 2).ok pathOK = true ∧
    (Entity.instance (.func "m/a".toList "Gen".toList)
      (.cons (.map (.basic "string".toList) (.ptr (.named "m/b".toList "Box".toList (.cons (.array 3 (.basic "int".toList)) .nil) [])))
        (.cons (.slice (.basic "byte".toList)) .nil))).ok pathOK = true := by decide

/-- and the names of that pair, by evaluation of the model -/
example :
    String.ofList (linkName (Entity.closure (.closure (.method "github.com/x/y".toList "Box".toList
      (.cons (.named "m/v1.2/c".toList "L".toList .nil [0, 3, 0]) .nil) true "Get".toList) 1) 2))
      = "github.com/x/y.(*Box[m/v1.2/c.L.0.3.0]).Get$1$2[m/v1.2/c.L.0.3.0]" ∧
    String.ofList (linkName (Entity.instance (.func "m/a".toList "Gen".toList)
      (.cons (.map (.basic "string".toList) (.ptr (.named "m/b".toList "Box".toList (.cons (.array 3 (.basic "int".toList)) .nil) [])))
        (.cons (.slice (.basic "byte".toList)) .nil))))
      = "m/a.Gen[map[string]*m/b.Box[[3]int],[]byte]" := by decide

/-- **Type arguments are a prefix code** (the lemma the uniqueness proof rests on, for lists of covered type
    arguments): equal renderings of `[T₁,…,Tₙ]` mean equal argument lists. -/
theorem typeArgs_injective (ts₁ ts₂ : Tys) (h₁ : ts₁.ok pathOK = true) (h₂ : ts₂.ok pathOK = true)
    (e₁ : ts₁.isEmpty = false) (e₂ : ts₂.isEmpty = false) (h : typeArgs ts₁ = typeArgs ts₂) : ts₁ = ts₂ := by
  simp only [typeArgs, List.cons_append, List.cons.injEq, true_and] at h
  exact (tysStr_inj_prefix ts₁ ts₂ [] [] h₁ h₂ e₁ e₂ h).1

example : (Tys.cons (.named "m/a".toList "T".toList .nil []) (.cons (.ptr (.basic "int".toList)) .nil)).ok pathOK = true := by decide

/-- **Closure stubs** of covered entities inherit uniqueness: `__llgo_stub.<name>` differs whenever the names differ.
    (A stub versus a function of a package whose path is literally `__llgo_stub` is NOT covered — known finding.) -/
theorem stubName_injective_partial (e₁ e₂ : Entity) (h₁ : e₁.ok pathOK = true) (h₂ : e₂.ok pathOK = true)
    (h : linkName (.stub e₁) = linkName (.stub e₂)) : e₁ = e₂ ∨ e₁.declClash e₂ = true := by
  have h' : "__llgo_stub.".toList ++ linkNameIn e₁.pkg e₁ = "__llgo_stub.".toList ++ linkNameIn e₂.pkg e₂ := h
  exact linkName_injective_partial e₁ e₂ h₁ h₂ (List.append_cancel_left h')

example : (Entity.func "m/a".toList "F".toList).ok pathOK = true := by decide

/-! ## consistency across packages -/

/-- **Consistency.** The name of every entity that is not one of go/ssa's package-less synthetic functions
    (`$bound`, `$thunk`, method wrappers, and closure stubs of these) does not depend on the package being compiled:
    all referring packages agree on it. -/
theorem linkName_context_free : ∀ (c₁ c₂ : Str) (e : Entity), e.isSynthetic = false →
    linkNameIn c₁ e = linkNameIn c₂ e
  | _, _, .func .., _ => rfl
  | _, _, .method .., _ => rfl
  | _, _, .closure .., _ => rfl
  | _, _, .instance .., _ => rfl
  | _, _, .global .., _ => rfl
  | _, _, .routine .., _ => rfl
  | c₁, c₂, .stub e, h => by
    have := linkName_context_free c₁ c₂ e (by simpa [Entity.isSynthetic] using h)
    show "__llgo_stub.".toList ++ linkNameIn c₁ e = "__llgo_stub.".toList ++ linkNameIn c₂ e
    rw [this]
  | _, _, .bound _, h | _, _, .thunk _, h | _, _, .wrapper _, h => by simp [Entity.isSynthetic] at h

example : (Entity.closure (.method "m/a".toList "T".toList .nil true "P".toList) 1).isSynthetic = false := by decide

/-- Full statement for the synthetic wrappers: within one compiled package, bound-method closures of different
    methods have different names. FALSE on the current code. -/
def boundName_injective : Prop :=
  ∀ (cur : Str) (m₁ m₂ : Entity), m₁.ok pathOK = true → m₂.ok pathOK = true → m₁.isMethod = true → m₂.isMethod = true →
    linkNameIn cur (.bound m₁) = linkNameIn cur (.bound m₂) → m₁ = m₂

/-- The receiver of a `$bound` (and `$thunk`) wrapper is rendered without the package that declares it:
    `a.T.M` and `b.T.M`, both used as method values in package `m`, share the wrapper `m.T.M$bound`
    (replayed on the real compiler by the check: the program calls the wrong method). -/
theorem boundName_injective_counterexample : ¬ boundName_injective := by
  intro h
  have := h "m".toList (.method "m/a".toList "T".toList .nil false "M".toList)
    (.method "m/b".toList "T".toList .nil false "M".toList) (by decide) (by decide) rfl rfl (by decide)
  cases this

/-- … and the wrapper's name depends on the package being compiled (no `linkName_context_free` for it) -/
theorem wrapper_context_dependent :
    linkNameIn "m".toList (.bound (.method "m/a".toList "T".toList .nil false "M".toList))
      ≠ linkNameIn "m/b".toList (.bound (.method "m/a".toList "T".toList .nil false "M".toList)) := by decide

/-- **Proved part for the wrappers**: bound-method closures and method-expression thunks of two methods whose
    receiver types are declared in the SAME package never collide. -/
theorem boundName_injective_partial (cur p : Str) (r₁ r₂ : Str) (ta₁ ta₂ : Tys) (ptr₁ ptr₂ : Bool) (n₁ n₂ : Str) (sfx : Str)
    (hr₁ : identOK r₁ = true) (hr₂ : identOK r₂ = true) (ht₁ : ta₁.ok pathOK = true) (ht₂ : ta₂.ok pathOK = true)
    (h : funcNameStr cur (n₁ ++ sfx) (some ⟨p, r₁, ta₁, ptr₁⟩) false = funcNameStr cur (n₂ ++ sfx) (some ⟨p, r₂, ta₂, ptr₂⟩) false) :
    Entity.method p r₁ ta₁ ptr₁ n₁ = Entity.method p r₂ ta₂ ptr₂ n₂ := by
  rw [funcNameStr_eq, funcNameStr_eq] at h
  have h' := List.append_cancel_left h
  simp only [List.cons.injEq, true_and] at h'
  obtain ⟨a, b, c, d⟩ := recv_some_some (r₁ := ⟨p, r₁, ta₁, ptr₁⟩) (r₂ := ⟨p, r₂, ta₂, ptr₂⟩) hr₁ ht₁ hr₂ ht₂ h'
  simp only at a b c
  have := List.append_cancel_right d
  rw [a, b, c, this]

example : identOK "T".toList = true ∧ (Tys.cons (.basic "int".toList) .nil).ok pathOK = true := by decide

/-! ## the repaired naming of synthetic functions (`Cfg.fixed` = fixes/C14-1.diff) -/

/-- the variant switch is conservative: `Cfg.legacy` is the model all theorems above talk about -/
theorem linkNameInC_legacy : ∀ (cur : Str) (e : Entity), linkNameInC Cfg.legacy cur e = linkNameIn cur e
  | _, .func .. => rfl
  | _, .method .. => rfl
  | _, .closure .. => rfl
  | _, .instance .. => rfl
  | _, .global .. => rfl
  | _, .routine .. => rfl
  | cur, .bound m => synthName_legacy cur _ m.recv
  | cur, .thunk m => synthName_legacy cur _ m.recv
  | cur, .wrapper m => synthName_legacy (wrapperPkg cur m) _ m.recv
  | cur, .stub e => by
    show "__llgo_stub.".toList ++ linkNameInC Cfg.legacy cur e = "__llgo_stub.".toList ++ linkNameIn cur e
    rw [linkNameInC_legacy cur e]


/-- **Bound-method closures and method-expression thunks under the repaired naming** (fixes/C14-1.diff): within one
    compiled package the wrappers of different methods have different names — also when the receiver types are
    declared in different packages. -/
theorem boundName_injective_fixed (cur p₁ p₂ r₁ r₂ : Str) (ta₁ ta₂ : Tys) (ptr₁ ptr₂ : Bool) (n₁ n₂ sfx : Str)
    (hp₁ : pathOK p₁ = true) (hp₂ : pathOK p₂ = true) (hr₁ : identOK r₁ = true) (hr₂ : identOK r₂ = true)
    (ht₁ : ta₁.ok pathOK = true) (ht₂ : ta₂.ok pathOK = true)
    (h : wrapperName Cfg.fixed cur (n₁ ++ sfx) ⟨p₁, r₁, ta₁, [], ptr₁⟩ = wrapperName Cfg.fixed cur (n₂ ++ sfx) ⟨p₂, r₂, ta₂, [], ptr₂⟩) :
    Entity.method p₁ r₁ ta₁ ptr₁ n₁ = Entity.method p₂ r₂ ta₂ ptr₂ n₂ := by
  rw [wrapperName_fixed_eq _ _ _ _ _ _ hp₁, wrapperName_fixed_eq _ _ _ _ _ _ hp₂] at h
  have h' := List.append_cancel_left h
  simp only [List.cons.injEq, true_and] at h'
  by_cases c₁ : p₁ = pathOf cur <;> by_cases c₂ : p₂ = pathOf cur <;> simp only [c₁, c₂, if_true, if_false] at h'
  · obtain ⟨a, b, c, d⟩ := recv_some_some (r₁ := ⟨pathOf cur, r₁, ta₁, ptr₁⟩) (r₂ := ⟨pathOf cur, r₂, ta₂, ptr₂⟩) hr₁ ht₁ hr₂ ht₂ h'
    simp only at a b c
    rw [c₁, c₂, a, b, c, List.append_cancel_right d]
  · exact (recv_ne_qrecv hp₂ hr₁ hr₂ h').elim
  · exact (recv_ne_qrecv hp₁ hr₂ hr₁ h'.symm).elim
  · obtain ⟨a, b, c, d, e⟩ := qrecv_inj hp₁ hp₂ hr₁ hr₂ ht₁ ht₂ h'
    rw [a, b, c, d, List.append_cancel_right e]


example : pathOK "m/a".toList = true ∧ pathOK "m/b".toList = true ∧ identOK "T".toList = true ∧ Tys.nil.ok pathOK = true := by decide

/-- the three method values of the witness program, under the repaired naming -/
example :
    String.ofList (linkNameInC Cfg.fixed "m".toList (.bound (.method "m/a".toList "T".toList .nil false "M".toList))) = "m.(m/a.T).M$bound" ∧
    String.ofList (linkNameInC Cfg.fixed "m".toList (.bound (.method "m".toList "T".toList .nil false "M".toList))) = "m.T.M$bound" ∧
    String.ofList (linkNameInC Cfg.fixed "m".toList (.thunk (.method "m/b".toList "T".toList .nil true "M".toList))) = "m.(*m/b.T).M$thunk" := by decide

/-- Full statement for function-local receiver types: promoted-method wrappers of two local types of package `cur` with the
    same identifier `r` (declared in the scopes `s₁`, `s₂`) have different names. False for the tree as pinned, true
    with the repair. -/
def localWrapperName_injective (cfg : Cfg) : Prop :=
  ∀ (cur r : Str) (s₁ s₂ : List Nat) (ptr : Bool) (n : Str),
    wrapperName cfg cur n ⟨cur, r, .nil, s₁, ptr⟩ = wrapperName cfg cur n ⟨cur, r, .nil, s₂, ptr⟩ → s₁ = s₂

/-- `ssa.FuncName` drops the scope indices: `type L struct{A}` in `f` and `type L struct{B}` in `g` both get the wrapper
    `m.L.M` (replayed on the real compiler by the check: `f().M(), g().M()` prints `1 1`). -/
theorem localWrapperName_injective_counterexample : ¬ localWrapperName_injective Cfg.legacy := by
  intro h
  have := h "m".toList "L".toList [3, 0] [4, 0] false "M".toList (by decide)
  cases this

theorem localWrapperName_injective_fixed : localWrapperName_injective Cfg.fixed := by
  intro cur r s₁ s₂ ptr n h
  have key : ∀ A B : Str, A ++ (scopeStr s₁ ++ B) = A ++ (scopeStr s₂ ++ B) → s₁ = s₂ := by
    intro A B h
    have h2 := List.append_cancel_right (List.append_cancel_left h)
    exact (scopeStr_inj_prefix s₁ s₂ [] [] rfl rfl (by simpa using h2)).1
  cases ptr
  · apply key (pathOf cur ++ '.' :: r) ('.' :: n)
    simpa [wrapperName, Cfg.fixed, namedName, Tys.isEmpty] using h
  · apply key (pathOf cur ++ '.' :: '(' :: '*' :: r) (')' :: '.' :: n)
    simpa [wrapperName, Cfg.fixed, namedName, Tys.isEmpty] using h


/-- A go/ssa method wrapper and a declared method with the same receiver and method name get the same symbol. Go allows
    the pair when the names are unexported and belong to different packages (`type T struct{ b.U }` with its own `m`
    and the promoted `b.U.m`): the model, like the code, has no package qualifier for unexported method names
    (replayed by the check: `b.Call(t)` runs `a`'s method). -/
theorem wrapper_vs_method_counterexample :
    linkName (.wrapper (.method "s/a".toList "T".toList .nil false "m".toList))
      = linkName (.method "s/a".toList "T".toList .nil false "m".toList) ∧
    Entity.wrapper (.method "s/a".toList "T".toList .nil false "m".toList)
      ≠ Entity.method "s/a".toList "T".toList .nil false "m".toList := by
  constructor
  · decide
  · intro h; cases h

/-! ## linkname / export directives -/

/-- `//go:linkname f C.sym` binds exactly the declared external symbol: a reference to `f` resolves to `sym`,
    whatever package is being compiled. -/
theorem linkname_binds_declared (t : LinkTable) (cur : Str) (e : Entity) (sym : Str)
    (h : t.lookup (origName e) = some ("C.".toList ++ sym)) : symbolIn t cur e = sym := by
  simp [symbolIn, h]

/-- without a directive for the entity, the symbol is its link name -/
theorem no_directive_keeps_name (t : LinkTable) (cur : Str) (e : Entity) (h : t.lookup (origName e) = none) :
    symbolIn t cur e = linkNameIn cur e := by
  simp [symbolIn, h]

example : LinkTable.lookup [("m.mystrlen".toList, "C.strlen".toList)] (origName (.func "m".toList "other".toList)) = none := by decide

example : LinkTable.lookup [("m.mystrlen".toList, "C.strlen".toList)] (origName (.func "m".toList "mystrlen".toList))
    = some ("C.".toList ++ "strlen".toList) := by decide

end LlgoVerif.LinkName
