// Correspondence harness for C14 (link names): runs llgo's real naming functions in-process.
//
// Two routes, both against /repo's working tree (built with -tags llvm14,verif and the overlay accessors of
// overlay/zz_cl_verif_export.go.txt):
//
//	line protocol (stdin -> stdout, one answer per request)
//	  ty <Ty>            go/types objects are CONSTRUCTED from the term, abi.TypeArgs([t]) is printed
//	  fn <E>             (E = F.. | M..) constructs package, receiver type and *types.Func; prints
//	                     ssa.FuncName(org=false), ssa.FuncName(org=true), cl.typesFuncName full / in-package name
//	  gl <E>             (E = G..) ssa.FullName(pkg, name)
//	  sn pkg kind        abi.Builder.TypeName of the unnamed struct{ int } / struct{ error } / struct{ al } (al = alias) of package pkg
//	  wn cur name pkg recv k Ty*k s idx*s ptr
//	                     ssa.FuncName(cur, name, receiver, false) for a receiver type declared in package pkg (possibly
//	                     another package than cur, possibly inside a function scope): the naming of go/ssa's synthetic functions
//	-load <dir>          type-checks the generated multi-package source tree of <dir>/order.json, builds go/ssa
//	                     (same builder mode as internal/build), and prints for every function, wrapper, instance,
//	                     closure and global the STRUCTURAL entity term (derived from go/ssa + go/types only) and the name
//	                     the real (*context).funcName / varName give when compiling each package of the tree.
//
// Term syntax (prefix, blank separated, strings hex encoded, "-" = empty):
//
//	Ty := B name | N pkg name k Ty*k s idx*s | P Ty | S Ty | A n Ty | M Ty Ty | C dir Ty | O text
//	E  := F pkg name | M pkg recv k Ty*k ptr name | K idx E | I k Ty*k E | G pkg name | BD E | TH E | WR E
//	L  := L sfx pkg recv k Ty*k s idx*s ptr name     synthetic function whose receiver type is function-local
package main

import (
	"bufio"
	"encoding/hex"
	"encoding/json"
	"fmt"
	"go/ast"
	"go/parser"
	"go/token"
	"go/types"
	"os"
	"path/filepath"
	"sort"
	"strconv"
	"strings"

	"golang.org/x/tools/go/ssa"
	"golang.org/x/tools/go/ssa/ssautil"

	"github.com/goplus/llgo/cl"
	llssa "github.com/goplus/llgo/ssa"
	"github.com/goplus/llgo/ssa/abi"
)

func hx(s string) string {
	if s == "" {
		return "-"
	}
	return hex.EncodeToString([]byte(s))
}

func unhx(h string) string {
	if h == "-" {
		return ""
	}
	b, err := hex.DecodeString(h)
	if err != nil {
		panic("bad hex")
	}
	return string(b)
}

// ---------------------------------------------------------------- constructing go/types objects from terms

type toks struct {
	f []string
	i int
}

func (t *toks) next() string {
	if t.i >= len(t.f) {
		panic("short request")
	}
	s := t.f[t.i]
	t.i++
	return s
}
func (t *toks) str() string { return unhx(t.next()) }
func (t *toks) num() int {
	n, err := strconv.Atoi(t.next())
	if err != nil || n < 0 {
		panic("bad number")
	}
	return n
}

type world struct {
	pkgs  map[string]*types.Package
	named map[string]*types.Named
}

func newWorld() *world {
	return &world{pkgs: map[string]*types.Package{}, named: map[string]*types.Named{}}
}

func (w *world) pkg(path string) *types.Package {
	if p, ok := w.pkgs[path]; ok {
		return p
	}
	name := path
	if i := strings.LastIndexByte(path, '/'); i >= 0 {
		name = path[i+1:]
	}
	p := types.NewPackage(path, name)
	w.pkgs[path] = p
	return p
}

// generic (or plain) named type `name` with k type parameters declared in the scope given by the child-index path
// (innermost first; empty = package scope)
func (w *world) namedDecl(path, name string, k int, scope []int) *types.Named {
	key := fmt.Sprint(path, "\x00", name, "\x00", k, "\x00", scope)
	if n, ok := w.named[key]; ok {
		return n
	}
	p := w.pkg(path)
	obj := types.NewTypeName(token.NoPos, p, name, nil)
	n := types.NewNamed(obj, types.NewStruct(nil, nil), nil)
	if k > 0 {
		tps := make([]*types.TypeParam, k)
		for i := range tps {
			tps[i] = types.NewTypeParam(types.NewTypeName(token.NoPos, p, "P"+strconv.Itoa(i), nil), types.NewInterfaceType(nil, nil))
		}
		n.SetTypeParams(tps)
	}
	sc := p.Scope()
	for j := len(scope) - 1; j >= 0; j-- {
		for sc.NumChildren() <= scope[j] {
			types.NewScope(sc, token.NoPos, token.NoPos, "verif")
		}
		sc = sc.Child(scope[j])
	}
	if alt := sc.Insert(obj); alt != nil {
		panic("generator: two declarations of " + name + " in one scope")
	}
	w.named[key] = n
	return n
}

func (w *world) namedInst(path, name string, targs []types.Type, scope []int) types.Type {
	n := w.namedDecl(path, name, len(targs), scope)
	if len(targs) == 0 {
		return n
	}
	t, err := types.Instantiate(nil, n, targs, false)
	if err != nil {
		panic(err)
	}
	return t
}

var evalFset = token.NewFileSet()

func (w *world) ty(t *toks) types.Type {
	switch k := t.next(); k {
	case "B":
		name := t.str()
		if name == "unsafe.Pointer" {
			return types.Typ[types.UnsafePointer]
		}
		o := types.Universe.Lookup(name)
		tn, ok := o.(*types.TypeName)
		if !ok {
			panic("unknown universe type " + name)
		}
		return tn.Type()
	case "N":
		path, name := t.str(), t.str()
		k := t.num()
		targs := make([]types.Type, k)
		for i := range targs {
			targs[i] = w.ty(t)
		}
		s := t.num()
		scope := make([]int, s)
		for i := range scope {
			scope[i] = t.num()
		}
		return w.namedInst(path, name, targs, scope)
	case "P":
		return types.NewPointer(w.ty(t))
	case "S":
		return types.NewSlice(w.ty(t))
	case "A":
		n := t.num()
		return types.NewArray(w.ty(t), int64(n))
	case "M":
		k := w.ty(t)
		return types.NewMap(k, w.ty(t))
	case "C":
		d := t.num()
		dir := []types.ChanDir{types.SendRecv, types.SendOnly, types.RecvOnly}[d]
		return types.NewChan(dir, w.ty(t))
	case "O":
		src := t.str()
		tv, err := types.Eval(evalFset, nil, token.NoPos, src)
		if err != nil || !tv.IsType() {
			panic("cannot evaluate type expression " + src)
		}
		return tv.Type
	default:
		panic("bad type tag " + k)
	}
}

func handle(line string) (out string) {
	defer func() {
		if e := recover(); e != nil {
			out = fmt.Sprintf("panic %v", e)
		}
	}()
	f := strings.Fields(line)
	if len(f) < 2 {
		return "bad-op"
	}
	t := &toks{f: f, i: 1}
	w := newWorld()
	switch f[0] {
	case "ty":
		typ := w.ty(t)
		return "ok " + hx(abi.TypeArgs([]types.Type{typ}))
	case "wn":
		cur := w.pkg(t.str())
		name := t.str()
		path, recv := t.str(), t.str()
		k := t.num()
		targs := make([]types.Type, k)
		for i := range targs {
			targs[i] = w.ty(t)
		}
		sn := t.num()
		scope := make([]int, sn)
		for i := range scope {
			scope[i] = t.num()
		}
		rt := w.namedInst(path, recv, targs, scope)
		if t.num() == 1 {
			rt = types.NewPointer(rt)
		}
		rv := types.NewVar(token.NoPos, w.pkg(path), "r", rt)
		return "ok " + hx(llssa.FuncName(cur, name, rv, false))
	case "sn":
		// descriptor name of the UNNAMED struct type `struct{ <embedded unexported field> }` written in package pkg
		pkg := w.pkg(t.str())
		var ft types.Type
		var fname string
		switch kind := t.str(); kind {
		case "int":
			ft, fname = types.Typ[types.Int], "int"
		case "error":
			ft, fname = types.Universe.Lookup("error").Type(), "error"
		case "alias":
			ft, fname = types.NewAlias(types.NewTypeName(token.NoPos, pkg, "al", nil), types.Typ[types.Int32]), "al"
		default:
			return "bad-op"
		}
		st := types.NewStruct([]*types.Var{types.NewField(token.NoPos, pkg, fname, ft, true)}, nil)
		name, _ := abi.New(8, types.SizesFor("gc", "amd64")).TypeName(st)
		return "ok " + hx(name)
	case "gl":
		if t.next() != "G" {
			return "bad-op"
		}
		p := w.pkg(t.str())
		return "ok " + hx(llssa.FullName(p, t.str()))
	case "fn":
		switch t.next() {
		case "F":
			p := w.pkg(t.str())
			name := t.str()
			fn := types.NewFunc(token.NoPos, p, name, types.NewSignatureType(nil, nil, nil, nil, nil, false))
			full, in := cl.VerifTypesFuncName(llssa.PathOf(p), fn)
			return fmt.Sprintf("ok %s %s %s %s", hx(llssa.FuncName(p, name, nil, false)), hx(llssa.FuncName(p, name, nil, true)), hx(full), hx(in))
		case "M":
			path, recv := t.str(), t.str()
			k := t.num()
			targs := make([]types.Type, k)
			for i := range targs {
				targs[i] = w.ty(t)
			}
			ptr := t.num() == 1
			name := t.str()
			p := w.pkg(path)
			rt := w.namedInst(path, recv, targs, nil)
			if ptr {
				rt = types.NewPointer(rt)
			}
			rv := types.NewVar(token.NoPos, p, "r", rt)
			fn := types.NewFunc(token.NoPos, p, name, types.NewSignatureType(rv, nil, nil, nil, nil, false))
			full, in := cl.VerifTypesFuncName(llssa.PathOf(p), fn)
			return fmt.Sprintf("ok %s %s %s %s", hx(llssa.FuncName(p, name, rv, false)), hx(llssa.FuncName(p, name, rv, true)), hx(full), hx(in))
		}
	}
	return "bad-op"
}

// ---------------------------------------------------------------- structural terms from go/types + go/ssa objects

type unmodelled struct{ why string }

func fail(why string) { panic(unmodelled{why}) }

func pathQualifier(p *types.Package) string {
	// the harness's own reading of "package path as it appears in symbols"
	return strings.TrimPrefix(p.Path(), "github.com/goplus/llgo/runtime/internal/lib/")
}

func scopePath(obj types.Object) []int {
	pkg := obj.Pkg()
	var idx []int
	s := obj.Parent()
	for s != pkg.Scope() {
		if s == nil {
			fail("object without a scope chain to its package")
		}
		p := s.Parent()
		if p == nil {
			fail("scope chain does not reach the package scope")
		}
		found := -1
		for i := 0; i < p.NumChildren(); i++ {
			if p.Child(i) == s {
				found = i
				break
			}
		}
		if found < 0 {
			fail("scope is not a child of its parent")
		}
		idx = append(idx, found)
		s = p
	}
	return idx
}

func tyTerm(t types.Type) string {
	switch t := t.(type) {
	case *types.Alias:
		return tyTerm(types.Unalias(t))
	case *types.Basic:
		if t.Kind() == types.UnsafePointer {
			return "B " + hx("unsafe.Pointer")
		}
		return "B " + hx(t.Name())
	case *types.Named:
		obj := t.Obj()
		if obj.Pkg() == nil {
			return "B " + hx(obj.Name())
		}
		var sb strings.Builder
		fmt.Fprintf(&sb, "N %s %s %s", hx(obj.Pkg().Path()), hx(obj.Name()), tyList(t.TypeArgs()))
		sp := scopePath(obj)
		fmt.Fprintf(&sb, " %d", len(sp))
		for _, i := range sp {
			fmt.Fprintf(&sb, " %d", i)
		}
		return sb.String()
	case *types.Pointer:
		return "P " + tyTerm(t.Elem())
	case *types.Slice:
		return "S " + tyTerm(t.Elem())
	case *types.Array:
		return fmt.Sprintf("A %d %s", t.Len(), tyTerm(t.Elem()))
	case *types.Map:
		return "M " + tyTerm(t.Key()) + " " + tyTerm(t.Elem())
	case *types.Chan:
		d := map[types.ChanDir]int{types.SendRecv: 0, types.SendOnly: 1, types.RecvOnly: 2}[t.Dir()]
		return fmt.Sprintf("C %d %s", d, tyTerm(t.Elem()))
	default:
		return "O " + hx(types.TypeString(t, pathQualifier))
	}
}

func tyList(l *types.TypeList) string {
	n := 0
	if l != nil {
		n = l.Len()
	}
	s := strconv.Itoa(n)
	for i := 0; i < n; i++ {
		s += " " + tyTerm(l.At(i))
	}
	return s
}

func tySlice(l []types.Type) string {
	s := strconv.Itoa(len(l))
	for _, t := range l {
		s += " " + tyTerm(t)
	}
	return s
}

func methodTerm(recvT types.Type, name string) string {
	ptr := 0
	if p, ok := recvT.(*types.Pointer); ok {
		ptr = 1
		recvT = p.Elem()
	}
	n, ok := types.Unalias(recvT).(*types.Named)
	if !ok {
		fail("receiver is not a named type: " + recvT.String())
	}
	obj := n.Obj()
	if obj.Pkg() == nil {
		fail("receiver type without package: " + obj.Name())
	}
	if len(scopePath(obj)) != 0 {
		panic(localRecv{obj, n, ptr, name})
	}
	return fmt.Sprintf("M %s %s %s %d %s", hx(obj.Pkg().Path()), hx(obj.Name()), tyList(n.TypeArgs()), ptr, hx(name))
}

// a synthetic function whose receiver type is declared inside a function
type localRecv struct {
	obj  *types.TypeName
	n    *types.Named
	ptr  int
	name string
}

func (l localRecv) term(sfx string) string {
	sp := scopePath(l.obj)
	s := fmt.Sprintf("L %s %s %s %s %d", hx(sfx), hx(l.obj.Pkg().Path()), hx(l.obj.Name()), tyList(l.n.TypeArgs()), len(sp))
	for _, i := range sp {
		s += fmt.Sprintf(" %d", i)
	}
	return s + fmt.Sprintf(" %d %s", l.ptr, hx(l.name))
}

// synthTerm is the term of a bound / thunk / wrapper function: an entity term, or an L term for a local receiver type
func synthTerm(tag, sfx string, recvT types.Type, name string) (term string, local bool) {
	defer func() {
		if e := recover(); e != nil {
			if l, ok := e.(localRecv); ok {
				term, local = l.term(sfx), true
				return
			}
			panic(e)
		}
	}()
	return tag + " " + methodTerm(recvT, name), false
}

func entityTerm(fn *ssa.Function) (term string, kind string) {
	if p := fn.Parent(); p != nil {
		idx := -1
		for i, a := range p.AnonFuncs {
			if a == fn {
				idx = i + 1
			}
		}
		if idx < 0 {
			fail("anonymous function not among its parent's AnonFuncs")
		}
		pt, _ := entityTerm(p)
		return fmt.Sprintf("K %d %s", idx, pt), "closure"
	}
	name := fn.Name()
	sig := fn.Signature
	if fn.Origin() == nil && fn.Synthetic != "" {
		switch {
		case strings.HasSuffix(name, "$bound") && len(fn.FreeVars) == 1:
			if t, local := synthTerm("BD", "$bound", fn.FreeVars[0].Type(), strings.TrimSuffix(name, "$bound")); local {
				return t, "local-bound"
			} else {
				return t, "bound"
			}
		case strings.HasSuffix(name, "$thunk") && sig.Params().Len() > 0:
			if t, local := synthTerm("TH", "$thunk", sig.Params().At(0).Type(), strings.TrimSuffix(name, "$thunk")); local {
				return t, "local-thunk"
			} else {
				return t, "thunk"
			}
		case sig.Recv() != nil:
			// the model decides "method of an instantiated type" by the wrapper's receiver having type arguments; a
			// non-generic method promoted into an instantiated struct (or the converse) is outside the model
			if obj, ok := fn.Object().(*types.Func); ok {
				inst := obj.Origin() != obj
				rt := sig.Recv().Type()
				if p, ok := rt.(*types.Pointer); ok {
					rt = p.Elem()
				}
				if n, ok := types.Unalias(rt).(*types.Named); ok && (n.TypeArgs().Len() > 0) != inst {
					fail("wrapper whose receiver and wrapped method disagree on being instantiated")
				}
			}
			if t, local := synthTerm("WR", "", sig.Recv().Type(), name); local {
				return t, "local-wrapper"
			} else {
				return t, "wrapper"
			}
		case fn.Pkg != nil:
			return fmt.Sprintf("F %s %s", hx(fn.Pkg.Pkg.Path()), hx(name)), "synthetic-func"
		}
		fail("synthetic function of unknown shape: " + fn.Synthetic)
	}
	if sig.Recv() != nil {
		if org := fn.Origin(); org != nil {
			name = org.Name() // go/ssa names the instance "Get[int]"; the declared name is the origin's
		}
		return methodTerm(sig.Recv().Type(), name), "method"
	}
	if org := fn.Origin(); org != nil {
		if org.Pkg == nil {
			fail("origin without package")
		}
		return fmt.Sprintf("I %s F %s %s", tySlice(fn.TypeArgs()), hx(org.Pkg.Pkg.Path()), hx(org.Name())), "instance"
	}
	if fn.Pkg == nil {
		fail("function without package")
	}
	return fmt.Sprintf("F %s %s", hx(fn.Pkg.Pkg.Path()), hx(name)), "func"
}

// fnID returns the generator's entity ID: the first `println(<int constant >= 7000000>)` of the body (0 = none)
func fnID(fn *ssa.Function) int64 {
	for _, b := range fn.Blocks {
		for _, in := range b.Instrs {
			c, ok := in.(*ssa.Call)
			if !ok {
				continue
			}
			if bi, ok := c.Call.Value.(*ssa.Builtin); !ok || bi.Name() != "println" || len(c.Call.Args) != 1 {
				continue
			}
			if k, ok := c.Call.Args[0].(*ssa.Const); ok && k.Value != nil {
				if v := k.Int64(); v >= 7000000 && v < 8000000 {
					return v
				}
			}
		}
	}
	return 0
}

// ---------------------------------------------------------------- source route

type orderFile struct {
	Pkgs []struct {
		Path  string   `json:"path"`
		Dir   string   `json:"dir"`
		Files []string `json:"files"`
	} `json:"pkgs"`
}

type mapImporter map[string]*types.Package

func (m mapImporter) Import(path string) (*types.Package, error) {
	if path == "unsafe" {
		return types.Unsafe, nil
	}
	if p, ok := m[path]; ok {
		return p, nil
	}
	return nil, fmt.Errorf("package %q is not part of the generated tree", path)
}

func load(dir string) {
	var of orderFile
	b, err := os.ReadFile(filepath.Join(dir, "order.json"))
	if err != nil {
		panic(err)
	}
	if err := json.Unmarshal(b, &of); err != nil {
		panic(err)
	}
	fset := token.NewFileSet()
	imp := mapImporter{}
	prog := ssa.NewProgram(fset, ssa.SanityCheckFunctions|ssa.InstantiateGenerics)
	llssa.Initialize(llssa.InitAll)
	lprog := llssa.NewProgram(nil)
	var tpkgs []*types.Package
	prog.CreatePackage(types.Unsafe, nil, nil, true)
	for _, p := range of.Pkgs {
		var files []*ast.File
		for _, fn := range p.Files {
			f, err := parser.ParseFile(fset, filepath.Join(dir, p.Dir, fn), nil, parser.ParseComments)
			if err != nil {
				panic(err)
			}
			files = append(files, f)
		}
		info := &types.Info{
			Types: map[ast.Expr]types.TypeAndValue{}, Defs: map[*ast.Ident]types.Object{}, Uses: map[*ast.Ident]types.Object{},
			Implicits: map[ast.Node]types.Object{}, Selections: map[*ast.SelectorExpr]*types.Selection{},
			Scopes: map[ast.Node]*types.Scope{}, Instances: map[*ast.Ident]types.Instance{}, FileVersions: map[*ast.File]string{},
		}
		conf := types.Config{Importer: imp, GoVersion: "go1.24"}
		tp, err := conf.Check(p.Path, fset, files, info)
		if err != nil {
			panic(err)
		}
		imp[p.Path] = tp
		tpkgs = append(tpkgs, tp)
		prog.CreatePackage(tp, files, info, true)
		// the real pre-pass that records //go:linkname directives of the package
		cl.PreCollectLinknames(lprog, llssa.PathOf(tp), files)
	}
	prog.Build()
	all := ssautil.AllFunctions(prog)
	var fns []*ssa.Function
	for fn := range all {
		if tp := fn.TypeParams(); tp != nil && tp.Len() > 0 && len(fn.TypeArgs()) == 0 {
			continue // uninstantiated generic code is never compiled
		}
		fns = append(fns, fn)
	}
	sort.Slice(fns, func(i, j int) bool {
		a, b := fns[i].String(), fns[j].String()
		if a != b {
			return a < b
		}
		return fns[i].Pos() < fns[j].Pos()
	})
	w := bufio.NewWriter(os.Stdout)
	defer w.Flush()
	for _, fn := range fns {
		term, kind, why := "", "", ""
		func() {
			defer func() {
				if e := recover(); e != nil {
					if u, ok := e.(unmodelled); ok {
						why = u.why
						return
					}
					panic(e)
				}
			}()
			term, kind = entityTerm(fn)
		}()
		if why != "" {
			fmt.Fprintf(w, "U\t%s\t%s\n", hx(why), hx(fn.String()))
			continue
		}
		var cols []string
		for _, cur := range tpkgs {
			func() {
				defer func() {
					if e := recover(); e != nil {
						cols = append(cols, fmt.Sprintf("%s=panic=%s", hx(cur.Path()), hx(fmt.Sprint(e))))
					}
				}()
				_, name, ftype := cl.VerifCtxFuncName(lprog, fset, cur, fn)
				cols = append(cols, fmt.Sprintf("%s=%s=%d", hx(cur.Path()), hx(name), ftype))
			}()
		}
		fmt.Fprintf(w, "E\t%s\t%s\t%s\t%s\t%d\n", kind, term, hx(fn.String()), strings.Join(cols, ","), fnID(fn))
	}
	for _, tp := range tpkgs {
		sp := prog.Package(tp)
		var names []string
		for n, m := range sp.Members {
			if _, ok := m.(*ssa.Global); ok {
				names = append(names, n)
			}
		}
		sort.Strings(names)
		for _, n := range names {
			g := sp.Members[n].(*ssa.Global)
			var cols []string
			for _, cur := range tpkgs {
				name, vtype, define := cl.VerifCtxVarName(lprog, fset, cur, g)
				d := 0
				if define {
					d = 1
				}
				cols = append(cols, fmt.Sprintf("%s=%s=%d.%d", hx(cur.Path()), hx(name), vtype, d))
			}
			fmt.Fprintf(w, "E\tglobal\tG %s %s\t%s\t%s\t0\n", hx(tp.Path()), hx(n), hx(g.String()), strings.Join(cols, ","))
		}
	}
}

func main() {
	if len(os.Args) == 3 && os.Args[1] == "-load" {
		load(os.Args[2])
		return
	}
	sc := bufio.NewScanner(os.Stdin)
	sc.Buffer(make([]byte, 1<<20), 1<<26)
	w := bufio.NewWriter(os.Stdout)
	defer w.Flush()
	for sc.Scan() {
		fmt.Fprintln(w, handle(sc.Text()))
	}
}
