import LlgoVerif.Util
import LlgoVerif.Model.LinkName
/-! Line-protocol driver for C14 (link names). One request per line, one answer per line.

Terms (prefix notation, blank separated, strings hex encoded, `-` = empty):
```
Ty := B name | N pkg name k Ty*k s idx*s | P Ty | S Ty | A n Ty | M Ty Ty | C dir Ty | O text
E  := F pkg name | M pkg recv k Ty*k ptr name | K idx E | I k Ty*k E | G pkg name | BD E | TH E | WR E | ST E | RT pkg n
```
Requests:
* `ty <Ty>`            → `ok hex(TypeArgs [t])`
* `fn <E>`             → `ok hex(FuncName org=false) hex(FuncName org=true) hex(typesFuncName full) hex(in-package name)`
* `gl <E>`             → `ok hex(linkName e)`
* `name <cur> <E>`     → `ok hex(linkNameIn cur e)`
* `hyp <E>`            → `ok <covered 0/1> <synthetic 0/1>` (decidable side conditions of the partial theorems)
* `sym <cfg> <cur> <n> (key target)*n <E | L>` → `ok hex(symbolInC cfg table cur e)`; `cfg` = 0 (tree as pinned) or 1
  (with fixes/C14-1.diff); `L sfx pkg recv k Ty*k s idx*s ptr name` = synthetic function (`sfx` = `-`, `$bound`, `$thunk`)
  whose receiver type may be function-local
* `wn <cfg> <cur> <name> <pkg> <recv> <k> Ty*k <s> idx*s <ptr>` → `ok hex(wrapperName cfg cur name recv)` -/
open LlgoVerif LlgoVerif.Util LlgoVerif.LinkName

def unhexStr (h : String) : Option Str :=
  (unhex h).bind fun bs => (String.fromUTF8? (ByteArray.mk bs.toArray)).map (·.toList)

def hexStr (s : Str) : String := hex (String.ofList s).toUTF8.toList

abbrev P := StateT (List String) Option

def tok : P String := do
  match (← get) with
  | [] => failure
  | t :: r => set r; pure t

def str : P Str := do
  match unhexStr (← tok) with
  | some s => pure s
  | none => failure

def num : P Nat := do
  match (← tok).toNat? with
  | some n => pure n
  | none => failure

partial def pTy : P Ty := do
  match (← tok) with
  | "B" => return .basic (← str)
  | "N" =>
    let pkg ← str
    let name ← str
    let k ← num
    let mut ts : List Ty := []
    for _ in [0:k] do ts := ts ++ [(← pTy)]
    let s ← num
    let mut sc : List Nat := []
    for _ in [0:s] do sc := sc ++ [(← num)]
    return .named pkg name (Tys.ofList ts) sc
  | "P" => return .ptr (← pTy)
  | "S" => return .slice (← pTy)
  | "A" => let n ← num; return .array n (← pTy)
  | "M" => let k ← pTy; return .map k (← pTy)
  | "C" =>
    let d ← num
    let dir ← match d with
      | 0 => pure ChanDir.both | 1 => pure ChanDir.send | 2 => pure ChanDir.recv | _ => failure
    return .chan dir (← pTy)
  | "O" => return .other (← str)
  | _ => failure

def pTys : P Tys := do
  let k ← num
  let mut ts : List Ty := []
  for _ in [0:k] do ts := ts ++ [(← pTy)]
  return Tys.ofList ts

partial def pE : P Entity := do
  match (← tok) with
  | "F" => let p ← str; return .func p (← str)
  | "M" =>
    let p ← str
    let r ← str
    let ta ← pTys
    let ptr ← num
    return .method p r ta (ptr == 1) (← str)
  | "K" => let i ← num; return .closure (← pE) i
  | "I" => let ta ← pTys; return .instance (← pE) ta
  | "G" => let p ← str; return .global p (← str)
  | "BD" => return .bound (← pE)
  | "TH" => return .thunk (← pE)
  | "WR" => return .wrapper (← pE)
  | "ST" => return .stub (← pE)
  | "RT" => let p ← str; return .routine p (← num)
  | _ => failure

def pCfg : P Cfg := do
  match (← tok) with
  | "0" => pure Cfg.legacy
  | "1" => pure Cfg.fixed
  | _ => failure

def pWRecv : P WRecv := do
  let p ← str
  let r ← str
  let ta ← pTys
  let s ← num
  let mut sc : List Nat := []
  for _ in [0:s] do sc := sc ++ [(← num)]
  let ptr ← num
  return ⟨p, r, ta, sc, ptr == 1⟩

/-- an entity, or a synthetic function with a possibly function-local receiver: (suffix, receiver, method name) -/
def pEL : P (Sum Entity (Str × WRecv × Str)) := do
  match (← get) with
  | "L" :: rest =>
    set rest
    let sfx ← str
    let r ← pWRecv
    let n ← str
    return .inr (sfx, r, n)
  | _ => return .inl (← pE)

def runP {α} (p : P α) (ts : List String) : Option α :=
  match p.run ts with
  | some (a, []) => some a
  | _ => none

def b01 (b : Bool) : String := if b then "1" else "0"

def handle (line : String) : String :=
  match fields line with
  | "ty" :: rest =>
    match runP pTy rest with
    | some t => "ok " ++ hexStr (typeArgs (.cons t .nil))
    | none => "bad-op"
  | "fn" :: rest =>
    match runP pE rest with
    | some e =>
      match e with
      | .func .. | .method .. =>
        "ok " ++ hexStr (linkName e) ++ " " ++ hexStr (origName e) ++ " " ++ hexStr (origName e) ++ " " ++ hexStr (inPkgName e)
      | _ => "bad-op"
    | none => "bad-op"
  | "gl" :: rest =>
    match runP pE rest with
    | some (.global p n) => "ok " ++ hexStr (linkName (.global p n))
    | _ => "bad-op"
  | "name" :: cur :: rest =>
    match unhexStr cur, runP pE rest with
    | some c, some e => "ok " ++ hexStr (linkNameIn c e)
    | _, _ => "bad-op"
  | "hyp" :: rest =>
    match runP pE rest with
    | some e => "ok " ++ b01 (e.ok pathOK) ++ " " ++ b01 e.isSynthetic
    | none => "bad-op"
  | "sym" :: rest =>
    let p : P (Cfg × Str × LinkTable × Sum Entity (Str × WRecv × Str)) := do
      let cfg ← pCfg
      let cur ← str
      let n ← num
      let mut t : LinkTable := []
      for _ in [0:n] do
        let k ← str
        let v ← str
        t := t ++ [(k, v)]
      let e ← pEL
      return (cfg, cur, t, e)
    match runP p rest with
    | some (cfg, c, t, .inl e) => "ok " ++ hexStr (symbolInC cfg t c e)
    | some (cfg, c, _, .inr (sfx, r, n)) => "ok " ++ hexStr (wrapperName cfg c (n ++ sfx) r)
    | none => "bad-op"
  | "wn" :: rest =>
    let p : P (Cfg × Str × Str × WRecv) := do
      let cfg ← pCfg
      let cur ← str
      let n ← str
      let r ← pWRecv
      return (cfg, cur, n, r)
    match runP p rest with
    | some (cfg, c, n, r) => "ok " ++ hexStr (wrapperName cfg c n r)
    | none => "bad-op"
  | _ => "bad-op"

def main : IO Unit := lineLoop handle
